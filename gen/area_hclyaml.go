package main

// Area "hclyaml" (property C16): regenerates, core-Lean only, the tables that decide whether a scenario written in
// HCL and the same scenario written in YAML reach the same internal `AmmoConfig`:
//
//	hclStructs   every struct reachable from config.AmmoHCL: Go field name, hcl tag (name, label | attr | block,
//	             optional = pointer / ",optional" / slice of blocks), effective yaml.v2 key (explicit tag or
//	             lower-cased field name, "-" = never marshalled), omitempty, pointer-ness, element type
//	cfgStructs   every struct reachable from config.AmmoConfig, including the config structs of all registered
//	             plugins: Go field name, config key (`config:"…"` tag or the field name), type
//	plugins      the registry built by scenario/import.Import: (interface, plugin name, config struct)
//	ammoFieldsRead     the AmmoConfig fields that scenario/http, scenario/grpc and config.ExtractVariableStorage read
//	convertCalls / convertWrites, decodeMapCalls / decodeMapWrites, parseAmmoCalls / parseAmmoWrites
//	             the calls and the non-local writes of ConvertHCLToAmmo, DecodeMap, ParseAmmoConfig (the HCL path is
//	             `yaml.Marshal ∘ DecodeMap`, the YAML path is `DecodeMap`, nothing else touches the result)
//	extCases     the extension switch of ReadAmmoConfig
//	decoderErrorUnused / decoderWeaklyTyped / decoderZeroFields / decoderTagName / pluginNameKey
//	             the mapstructure flags of core/config.newDecoderConfig and the plugin `type` key
//	hclFunctions / localsRoot / localsBlockTypes
//	             buildHclContext: HCL function name -> go-cty stdlib function, the variable root of the locals;
//	             localsSchema: the block types taken out of the body before it is decoded
//	mergeMapsShape / localsMergeArgs / localsAccReassigned / localsCtxFrom / localsBlockCtx / localsBlockFilter /
//	localBlockEvalUnder / parseHclBodyCtx / parseHclCalls
//	             the data flow of decodeLocals, mergeMaps, decodeLocalBlock and ParseHCLFile (which map is written
//	             over which, what the next context is built from, under which context attributes / the body are
//	             evaluated)
//	errFlow      what becomes of the error / diagnostics value of every fallible call of ParseHCLFile, decodeLocals,
//	             decodeLocalBlock, ConvertHCLToAmmo, DecodeMap, ParseAmmoConfig (tested by the next statement and
//	             returned, or not): a failing local / expression / marshal step refuses the file
//	readerNilTests  comparisons of a slice / map with nil in the readers of the decoded AmmoConfig (the model
//	             identifies nil and empty collections)
//
// Anything that does not have the expected shape is a translation error (gen exits non-zero).

import (
	"fmt"
	"go/ast"
	"go/constant"
	"go/printer"
	"go/types"
	"os"
	"reflect"
	"sort"
	"strings"

	"golang.org/x/tools/go/packages"
)

const (
	hyCfgPkg    = "github.com/yandex/pandora/components/providers/scenario/config"
	hyImportPkg = "github.com/yandex/pandora/components/providers/scenario/import"
	hyHTTPPkg   = "github.com/yandex/pandora/components/providers/scenario/http"
	hyGRPCPkg   = "github.com/yandex/pandora/components/providers/scenario/grpc"
	hyCorePkg   = "github.com/yandex/pandora/core/config"
	hyPlugPkg   = "github.com/yandex/pandora/core/plugin/pluginconfig"
)

// hclyamlLoad: the packages the area reads besides scenario/config are loaded ONCE, together (one type-check of the
// shared dependency closure instead of ten: 21 s -> a few seconds of every check)
var hclyamlPkgs map[string]*packages.Package

func hclyamlLoad(pkgPath string) *packages.Package {
	if hclyamlPkgs == nil {
		hclyamlPkgs = map[string]*packages.Package{}
		cfg := &packages.Config{Mode: packages.NeedName | packages.NeedSyntax | packages.NeedTypes | packages.NeedTypesInfo |
			packages.NeedFiles | packages.NeedImports | packages.NeedDeps, Dir: repo, BuildFlags: []string{"-tags=verif"}}
		pkgs, err := packages.Load(cfg, hyImportPkg, hyHTTPPkg, hyGRPCPkg, hyCorePkg, hyPlugPkg)
		if err != nil {
			fmt.Fprintln(os.Stderr, "load:", err)
			os.Exit(1)
		}
		for _, p := range pkgs {
			if len(p.Errors) > 0 {
				fmt.Fprintln(os.Stderr, "load errors:", p.Errors)
				os.Exit(1)
			}
			hclyamlPkgs[p.PkgPath] = p
		}
	}
	if p, ok := hclyamlPkgs[pkgPath]; ok {
		return p
	}
	p := load(pkgPath)
	hclyamlPkgs[pkgPath] = p
	return p
}

// hyPkgVarLiteral: e names a package-level variable of p whose declaration initialises it with a composite literal and
// whose only use in the whole package is e itself: that literal
func hyPkgVarLiteral(p *packages.Package, e ast.Expr) *ast.CompositeLit {
	id, ok := e.(*ast.Ident)
	if !ok {
		return nil
	}
	v, ok := p.TypesInfo.Uses[id].(*types.Var)
	if !ok || v.Pkg() != p.Types || v.Parent() != p.Types.Scope() {
		return nil
	}
	for other, o := range p.TypesInfo.Uses {
		if o == v && other != id {
			return nil
		}
	}
	for _, f := range p.Syntax {
		for _, d := range f.Decls {
			gd, ok := d.(*ast.GenDecl)
			if !ok {
				continue
			}
			for _, sp := range gd.Specs {
				vs, ok := sp.(*ast.ValueSpec)
				if !ok || len(vs.Values) != len(vs.Names) {
					continue
				}
				for i, n := range vs.Names {
					if p.TypesInfo.Defs[n] == v {
						cl, _ := vs.Values[i].(*ast.CompositeLit)
						return cl
					}
				}
			}
		}
	}
	return nil
}

func init() {
	areas["hclyaml"] = area{
		pkgPath:   hyCfgPkg,
		module:    "HclYaml",
		namespace: "Pandora.Gen.HclYaml",
		imports:   []string{"Pandora.Model.C16Ns"},
		extra:     hclYamlExtra,
	}
}

type hyGen struct {
	t *tr
	// struct name -> rendered rows, in discovery order
	hOrder, cOrder []string
	hRows, cRows   map[string][]string
	// full type string -> short name (to detect clashes of short names)
	hNames, cNames map[string]string
}

func (g *hyGen) fail(format string, a ...any) {
	g.t.errs = append(g.t.errs, "hclyaml: unsupported: "+fmt.Sprintf(format, a...))
}

// hyTypeName: types of scenario/config keep their bare name; every other type is qualified by the last two elements
// of its package path (http/postprocessor.AssertResponse and grpc/postprocessor.AssertResponse are different types).
func hyTypeName(n *types.Named) string {
	path := n.Obj().Pkg().Path()
	if path == hyCfgPkg {
		return n.Obj().Name()
	}
	parts := strings.Split(path, "/")
	if len(parts) > 2 {
		parts = parts[len(parts)-2:]
	}
	return strings.Join(parts, "/") + "." + n.Obj().Name()
}

func (g *hyGen) name(tbl map[string]string, n *types.Named) string {
	return hyTypeName(n)
}

func hyLeaf(ty types.Type) (string, bool) {
	switch u := ty.Underlying().(type) {
	case *types.Basic:
		switch {
		case u.Info()&types.IsString != 0:
			return ".str", true
		case u.Info()&types.IsInteger != 0:
			return ".int", true
		case u.Info()&types.IsBoolean != 0:
			return ".bool", true
		}
	case *types.Slice:
		if b, ok := u.Elem().Underlying().(*types.Basic); ok && b.Info()&types.IsString != 0 {
			return ".strList", true
		}
	case *types.Map:
		k, ok := u.Key().Underlying().(*types.Basic)
		if !ok || k.Info()&types.IsString == 0 {
			return "", false
		}
		if b, ok := u.Elem().Underlying().(*types.Basic); ok && b.Info()&types.IsString != 0 {
			return ".strMap", true
		}
		if i, ok := u.Elem().Underlying().(*types.Interface); ok && i.NumMethods() == 0 {
			return ".anyMap", true
		}
	}
	return "", false
}

func hyNamedStruct(ty types.Type) (*types.Named, *types.Struct) {
	n, ok := ty.(*types.Named)
	if !ok {
		return nil, nil
	}
	s, ok := n.Underlying().(*types.Struct)
	if !ok {
		return nil, nil
	}
	return n, s
}

// ---- HCL side

func (g *hyGen) hclStruct(n *types.Named, s *types.Struct) string {
	name := g.name(g.hNames, n)
	if _, done := g.hRows[name]; done {
		return name
	}
	g.hRows[name] = nil
	g.hOrder = append(g.hOrder, name)
	var rows []string
	for i := 0; i < s.NumFields(); i++ {
		f := s.Field(i)
		if !f.Exported() {
			continue
		}
		if f.Embedded() {
			g.fail("%s.%s: embedded field", name, f.Name())
			continue
		}
		tag := reflect.StructTag(s.Tag(i))
		htag, ok := tag.Lookup("hcl")
		if !ok {
			g.fail("%s.%s: no hcl tag", name, f.Name())
			continue
		}
		hparts := strings.Split(htag, ",")
		hname := hparts[0]
		kind := ".attr"
		optFlag := false
		for _, p := range hparts[1:] {
			switch p {
			case "label":
				kind = ".label"
			case "block":
				kind = ".block"
			case "attr":
				kind = ".attr"
			case "optional":
				optFlag = true
			default:
				g.fail("%s.%s: hcl tag flag %q", name, f.Name(), p)
			}
		}
		// effective yaml.v2 key
		ykey := strings.ToLower(f.Name())
		omit := false
		if ytag, ok := tag.Lookup("yaml"); ok {
			yparts := strings.Split(ytag, ",")
			if yparts[0] != "" {
				ykey = yparts[0]
			}
			for _, p := range yparts[1:] {
				switch p {
				case "omitempty":
					omit = true
				case "flow":
				default:
					g.fail("%s.%s: yaml tag flag %q", name, f.Name(), p)
				}
			}
		}
		ty := f.Type()
		ptr := false
		if p, ok := ty.(*types.Pointer); ok {
			ptr = true
			ty = p.Elem()
		}
		var lty string
		isSlice := false
		if leaf, ok := hyLeaf(ty); ok && leaf != ".anyMap" {
			lty = ".leaf " + leaf
		} else if sn, ss := hyNamedStruct(ty); sn != nil {
			lty = fmt.Sprintf(".struct %q", g.hclStruct(sn, ss))
		} else if sl, ok := ty.Underlying().(*types.Slice); ok {
			if sn, ss := hyNamedStruct(sl.Elem()); sn != nil {
				isSlice = true
				lty = fmt.Sprintf(".structList %q", g.hclStruct(sn, ss))
			}
		}
		if lty == "" {
			g.fail("%s.%s: type %s", name, f.Name(), f.Type())
			continue
		}
		// gohcl: an attribute is required unless its field is a pointer or tagged optional; a single block is required
		// unless its field is a pointer; a slice of blocks may be empty; labels are always required
		optional := false
		switch kind {
		case ".attr":
			optional = ptr || optFlag
		case ".block":
			optional = ptr || isSlice
		}
		rows = append(rows, fmt.Sprintf("⟨%q, %q, %s, %v, %q, %v, %v, %s⟩", f.Name(), hname, kind, optional, ykey, omit, ptr, lty))
	}
	g.hRows[name] = rows
	return name
}

// ---- config side

func (g *hyGen) cfgStruct(n *types.Named, s *types.Struct) string {
	name := g.name(g.cNames, n)
	if _, done := g.cRows[name]; done {
		return name
	}
	g.cRows[name] = nil
	g.cOrder = append(g.cOrder, name)
	var rows []string
	for i := 0; i < s.NumFields(); i++ {
		f := s.Field(i)
		if !f.Exported() {
			continue
		}
		if f.Embedded() {
			g.fail("%s.%s: embedded field", name, f.Name())
			continue
		}
		key := f.Name()
		if ctag, ok := reflect.StructTag(s.Tag(i)).Lookup("config"); ok {
			parts := strings.Split(ctag, ",")
			if parts[0] != "" {
				key = parts[0]
			}
			for _, p := range parts[1:] {
				g.fail("%s.%s: config tag flag %q", name, f.Name(), p)
			}
		}
		lty := g.cfgType(f.Type())
		if lty == "" {
			g.fail("%s.%s: type %s", name, f.Name(), f.Type())
			continue
		}
		rows = append(rows, fmt.Sprintf("⟨%q, %q, %s⟩", f.Name(), key, lty))
	}
	g.cRows[name] = rows
	return name
}

func hyIface(ty types.Type) (*types.Named, bool) {
	n, ok := ty.(*types.Named)
	if !ok {
		return nil, false
	}
	_, ok = n.Underlying().(*types.Interface)
	return n, ok
}

func hyIfaceName(n *types.Named) string {
	return n.Obj().Pkg().Path()[strings.LastIndex(n.Obj().Pkg().Path(), "pandora/")+len("pandora/"):] + "." + n.Obj().Name()
}

func (g *hyGen) cfgType(ty types.Type) string {
	if p, ok := ty.(*types.Pointer); ok {
		if leaf, ok := hyLeaf(p.Elem()); ok {
			return ".optLeaf " + leaf
		}
		if sn, ss := hyNamedStruct(p.Elem()); sn != nil {
			return fmt.Sprintf(".optStruct %q", g.cfgStruct(sn, ss))
		}
		return ""
	}
	if leaf, ok := hyLeaf(ty); ok {
		return ".leaf " + leaf
	}
	if sn, ss := hyNamedStruct(ty); sn != nil {
		return fmt.Sprintf(".struct %q", g.cfgStruct(sn, ss))
	}
	if in, ok := hyIface(ty); ok {
		return fmt.Sprintf(".plugin %q", hyIfaceName(in))
	}
	if sl, ok := ty.Underlying().(*types.Slice); ok {
		if sn, ss := hyNamedStruct(sl.Elem()); sn != nil {
			return fmt.Sprintf(".structList %q", g.cfgStruct(sn, ss))
		}
		if in, ok := hyIface(sl.Elem()); ok {
			return fmt.Sprintf(".pluginList %q", hyIfaceName(in))
		}
	}
	return ""
}

// ---- shape of a function: the calls it makes (in source order) and its writes to anything but a plain local

func hyShape(p *packages.Package, fd *ast.FuncDecl) (calls, writes []string) {
	ast.Inspect(fd.Body, func(n ast.Node) bool {
		switch x := n.(type) {
		case *ast.CallExpr:
			calls = append(calls, strings.Join(strings.Fields(nodeString(p, x.Fun)), ""))
		case *ast.AssignStmt:
			for _, l := range x.Lhs {
				if _, ok := l.(*ast.Ident); !ok {
					writes = append(writes, strings.Join(strings.Fields(nodeString(p, l)), ""))
				}
			}
		case *ast.IncDecStmt:
			if _, ok := x.X.(*ast.Ident); !ok {
				writes = append(writes, strings.Join(strings.Fields(nodeString(p, x.X)), ""))
			}
		case *ast.RangeStmt, *ast.ForStmt:
			writes = append(writes, "<loop>")
		case *ast.GoStmt, *ast.DeferStmt:
			writes = append(writes, "<go/defer>")
		}
		return true
	})
	return
}

func hyStrList(xs []string) string {
	q := make([]string, len(xs))
	for i, x := range xs {
		q[i] = fmt.Sprintf("%q", x)
	}
	return "[" + strings.Join(q, ", ") + "]"
}

func hclYamlExtra(t *tr) string {
	g := &hyGen{t: t, hRows: map[string][]string{}, cRows: map[string][]string{}, hNames: map[string]string{}, cNames: map[string]string{}}
	var b strings.Builder
	p := t.pkg // scenario/config

	lookupStruct := func(pkg *packages.Package, name string) (*types.Named, *types.Struct) {
		obj := pkg.Types.Scope().Lookup(name)
		if obj == nil {
			g.fail("type %s not found in %s", name, pkg.PkgPath)
			return nil, nil
		}
		n, s := hyNamedStruct(obj.Type())
		if n == nil {
			g.fail("%s.%s is not a struct", pkg.PkgPath, name)
		}
		return n, s
	}

	// ---- 1. HCL structs
	if n, s := lookupStruct(p, "AmmoHCL"); n != nil {
		g.hclStruct(n, s)
	}
	// ---- 2. config structs
	if n, s := lookupStruct(p, "AmmoConfig"); n != nil {
		g.cfgStruct(n, s)
	}

	// ---- 3. plugin registry of scenario/import.Import
	ip := hclyamlLoad(hyImportPkg)
	// helper name -> interface it registers for:  func RegisterX(...) { var ptr *I; register.RegisterPtr(ptr, name, ...) }
	helperIface := map[string]string{}
	for _, f := range ip.Syntax {
		for _, d := range f.Decls {
			fd, ok := d.(*ast.FuncDecl)
			if !ok || fd.Recv != nil || fd.Body == nil || !strings.HasPrefix(fd.Name.Name, "Register") {
				continue
			}
			var iface *types.Named
			callsRegisterPtr := false
			ast.Inspect(fd.Body, func(n ast.Node) bool {
				switch x := n.(type) {
				case *ast.ValueSpec:
					if x.Type != nil {
						if pt, ok := ip.TypesInfo.TypeOf(x.Type).(*types.Pointer); ok {
							if in, ok := hyIface(pt.Elem()); ok {
								iface = in
							}
						}
					}
				case *ast.CallExpr:
					if sel, ok := x.Fun.(*ast.SelectorExpr); ok && sel.Sel.Name == "RegisterPtr" {
						callsRegisterPtr = true
					}
				}
				return true
			})
			if iface == nil || !callsRegisterPtr {
				g.fail("%s: expected `var ptr *Iface; register.RegisterPtr(ptr, name, constructor, ...)`", fd.Name.Name)
				continue
			}
			helperIface[fd.Name.Name] = hyIfaceName(iface)
		}
	}
	var plugRows []string
	imp := findFunc(ip, "Import")
	if imp == nil {
		g.fail("scenario/import.Import not found")
	} else {
		ast.Inspect(imp.Body, func(n ast.Node) bool {
			call, ok := n.(*ast.CallExpr)
			if !ok {
				return true
			}
			id, ok := call.Fun.(*ast.Ident)
			if !ok {
				return true
			}
			iface, ok := helperIface[id.Name]
			if !ok {
				return true
			}
			if len(call.Args) != 2 {
				g.fail("%s call with %d arguments (default configs are not modelled)", id.Name, len(call.Args))
				return true
			}
			tv := ip.TypesInfo.Types[call.Args[0]]
			if tv.Value == nil || tv.Value.Kind() != constant.String {
				g.fail("%s: plugin name is not a string constant", id.Name)
				return true
			}
			pname := constant.StringVal(tv.Value)
			sig, ok := ip.TypesInfo.TypeOf(call.Args[1]).Underlying().(*types.Signature)
			if !ok {
				g.fail("%s(%q): constructor is not a function", id.Name, pname)
				return true
			}
			conf := ""
			switch sig.Params().Len() {
			case 0:
			case 1:
				pt := sig.Params().At(0).Type()
				if pp, ok := pt.(*types.Pointer); ok {
					pt = pp.Elem()
				}
				sn, ss := hyNamedStruct(pt)
				if sn == nil {
					g.fail("%s(%q): constructor parameter %s is not a struct", id.Name, pname, pt)
					return true
				}
				conf = g.cfgStruct(sn, ss)
			default:
				g.fail("%s(%q): constructor with %d parameters", id.Name, pname, sig.Params().Len())
				return true
			}
			plugRows = append(plugRows, fmt.Sprintf("⟨%q, %q, %q⟩", iface, pname, conf))
			return true
		})
	}

	// ---- 4. which AmmoConfig fields the decoders read
	read := map[string]bool{}
	scan := func(pkg *packages.Package, only string) {
		for _, f := range pkg.Syntax {
			if strings.HasSuffix(pkg.Fset.Position(f.Pos()).Filename, "_test.go") {
				continue
			}
			for _, d := range f.Decls {
				fd, ok := d.(*ast.FuncDecl)
				if !ok || fd.Body == nil || (only != "" && fd.Name.Name != only) {
					continue
				}
				ast.Inspect(fd.Body, func(n ast.Node) bool {
					sel, ok := n.(*ast.SelectorExpr)
					if !ok {
						return true
					}
					s, ok := pkg.TypesInfo.Selections[sel]
					if !ok || s.Kind() != types.FieldVal {
						return true
					}
					rt := s.Recv()
					if pt, ok := rt.(*types.Pointer); ok {
						rt = pt.Elem()
					}
					if nn, ok := rt.(*types.Named); ok && nn.Obj().Name() == "AmmoConfig" && nn.Obj().Pkg().Path() == hyCfgPkg {
						read[sel.Sel.Name] = true
					}
					return true
				})
			}
		}
	}
	scan(hclyamlLoad(hyHTTPPkg), "")
	scan(hclyamlLoad(hyGRPCPkg), "")
	scan(p, "ExtractVariableStorage")
	var readL []string
	for k := range read {
		readL = append(readL, k)
	}
	sort.Strings(readL)

	// ---- 5. shapes of the conversion functions
	type shape struct{ lean, fn string }
	var shapes strings.Builder
	for _, s := range []shape{{"convert", "ConvertHCLToAmmo"}, {"decodeMap", "DecodeMap"}, {"parseAmmo", "ParseAmmoConfig"}} {
		fd := findFunc(p, s.fn)
		if fd == nil {
			g.fail("%s not found", s.fn)
			continue
		}
		calls, writes := hyShape(p, fd)
		shapes.WriteString(fmt.Sprintf("/-- `%s`: the calls it makes, in source order -/\ndef %sCalls : List String := %s\n", s.fn, s.lean, hyStrList(calls)))
		shapes.WriteString(fmt.Sprintf("/-- `%s`: writes to anything but a plain local variable, loops, go/defer -/\ndef %sWrites : List String := %s\n\n", s.fn, s.lean, hyStrList(writes)))
	}

	// ---- 6. extension switch of ReadAmmoConfig
	var ext []string
	if fd := findFunc(p, "ReadAmmoConfig"); fd == nil {
		g.fail("ReadAmmoConfig not found")
	} else {
		var sw *ast.SwitchStmt
		ast.Inspect(fd.Body, func(n ast.Node) bool {
			if s, ok := n.(*ast.SwitchStmt); ok && s.Tag == nil && sw == nil {
				sw = s
			}
			return true
		})
		if sw == nil {
			g.fail("ReadAmmoConfig: tagless switch on the file name not found")
		} else {
			for _, cs := range sw.Body.List {
				cc := cs.(*ast.CaseClause)
				parser := ""
				ast.Inspect(&ast.BlockStmt{List: cc.Body}, func(n ast.Node) bool {
					if c, ok := n.(*ast.CallExpr); ok {
						if id, ok := c.Fun.(*ast.Ident); ok && (id.Name == "ParseHCLFile" || id.Name == "ParseAmmoConfig" || id.Name == "ConvertHCLToAmmo") {
							if parser != "" {
								parser += "+"
							}
							parser += id.Name
						}
					}
					return true
				})
				if cc.List == nil {
					ext = append(ext, fmt.Sprintf("(%q, %q, %q)", "default", "", parser))
					continue
				}
				for _, e := range cc.List {
					// a || chain of strings.HasSuffix/HasPrefix(lowerName, "lit")
					var walk func(e ast.Expr)
					walk = func(e ast.Expr) {
						if be, ok := e.(*ast.BinaryExpr); ok && be.Op.String() == "||" {
							walk(be.X)
							walk(be.Y)
							return
						}
						c, ok := e.(*ast.CallExpr)
						if ok && len(c.Args) == 2 {
							if sel, ok := c.Fun.(*ast.SelectorExpr); ok {
								if tv := p.TypesInfo.Types[c.Args[1]]; tv.Value != nil && tv.Value.Kind() == constant.String {
									ext = append(ext, fmt.Sprintf("(%q, %q, %q)", sel.Sel.Name, constant.StringVal(tv.Value), parser))
									return
								}
							}
						}
						g.fail("ReadAmmoConfig: case condition %s", nodeString(p, e))
					}
					walk(e)
				}
			}
		}
	}

	// ---- 7. decoder flags of core/config and the plugin name key
	cp := hclyamlLoad(hyCorePkg)
	flags := map[string]string{}
	if fd := findFunc(cp, "newDecoderConfig"); fd == nil {
		g.fail("core/config.newDecoderConfig not found")
	} else {
		ast.Inspect(fd.Body, func(n ast.Node) bool {
			kv, ok := n.(*ast.KeyValueExpr)
			if !ok {
				return true
			}
			id, ok := kv.Key.(*ast.Ident)
			if !ok {
				return true
			}
			if tv := cp.TypesInfo.Types[kv.Value]; tv.Value != nil {
				switch tv.Value.Kind() {
				case constant.Bool:
					flags[id.Name] = fmt.Sprint(constant.BoolVal(tv.Value))
				case constant.String:
					flags[id.Name] = fmt.Sprintf("%q", constant.StringVal(tv.Value))
				}
			}
			return true
		})
	}
	for _, k := range []string{"ErrorUnused", "WeaklyTypedInput", "ZeroFields", "TagName"} {
		if _, ok := flags[k]; !ok {
			g.fail("newDecoderConfig: %s is not a constant of the DecoderConfig literal", k)
			flags[k] = "false"
			if k == "TagName" {
				flags[k] = `""`
			}
		}
	}
	pp := hclyamlLoad(hyPlugPkg)
	nameKey := `""`
	if c, ok := pp.Types.Scope().Lookup("PluginNameKey").(*types.Const); ok && c.Val().Kind() == constant.String {
		nameKey = fmt.Sprintf("%q", constant.StringVal(c.Val()))
	} else {
		g.fail("pluginconfig.PluginNameKey not found")
	}

	// ---- 8. locals and functions of the HCL front-end
	localsFacts := hyLocalsFacts(g, p)

	// ---- emit
	b.WriteString("/-- every struct reachable from `config.AmmoHCL` (discovery order):\n⟨Go field, hcl name, hcl kind, optional in HCL, effective yaml.v2 key, omitempty, pointer, type⟩ -/\n")
	b.WriteString("def hclStructs : List (String × List C16HField) := [\n")
	for i, n := range g.hOrder {
		b.WriteString(fmt.Sprintf("  (%q, [\n    %s])", n, strings.Join(g.hRows[n], ",\n    ")))
		if i+1 < len(g.hOrder) {
			b.WriteString(",")
		}
		b.WriteString("\n")
	}
	b.WriteString("]\n\n")
	b.WriteString("/-- every struct reachable from `config.AmmoConfig` and the config structs of all registered plugins:\n⟨Go field, config key, type⟩ -/\n")
	b.WriteString("def cfgStructs : List (String × List C16CField) := [\n")
	for i, n := range g.cOrder {
		b.WriteString(fmt.Sprintf("  (%q, [\n    %s])", n, strings.Join(g.cRows[n], ",\n    ")))
		if i+1 < len(g.cOrder) {
			b.WriteString(",")
		}
		b.WriteString("\n")
	}
	b.WriteString("]\n\n")
	b.WriteString("/-- the plugin registry built by `scenario/import.Import`: ⟨interface, plugin name, config struct (\"\" = constructor without config)⟩ -/\n")
	b.WriteString("def plugins : List C16Plugin := [\n  " + strings.Join(plugRows, ",\n  ") + "]\n\n")
	b.WriteString("def hclRoot : String := \"AmmoHCL\"\ndef cfgRoot : String := \"AmmoConfig\"\n\n")
	b.WriteString("/-- the `AmmoConfig` fields read by scenario/http, scenario/grpc and `config.ExtractVariableStorage` -/\n")
	b.WriteString("def ammoFieldsRead : List String := " + hyStrList(readL) + "\n\n")
	b.WriteString(shapes.String())
	b.WriteString("/-- the extension switch of `ReadAmmoConfig`: (test, literal, parser calls of the case) -/\n")
	b.WriteString("def extCases : List (String × String × String) := [" + strings.Join(ext, ", ") + "]\n\n")
	b.WriteString("/-- `core/config.newDecoderConfig` -/\n")
	b.WriteString("def decoderErrorUnused : Bool := " + flags["ErrorUnused"] + "\n")
	b.WriteString("def decoderWeaklyTyped : Bool := " + flags["WeaklyTypedInput"] + "\n")
	b.WriteString("def decoderZeroFields : Bool := " + flags["ZeroFields"] + "\n")
	b.WriteString("def decoderTagName : String := " + flags["TagName"] + "\n")
	b.WriteString("/-- `pluginconfig.PluginNameKey` -/\ndef pluginNameKey : String := " + nameKey + "\n\n")
	b.WriteString(localsFacts)
	b.WriteString(hyErrFlow(g, p))
	b.WriteString(hyNilTests(g, p))
	b.WriteString(hyR3Facts(g, p))
	b.WriteString(hyR6Facts(g, p))
	return b.String()
}

// ---- error propagation: what happens to the error / diagnostics value of every fallible call

// hyIsErrType: `error` or hcl.Diagnostics
func hyIsErrType(t types.Type) bool {
	if t == nil {
		return false
	}
	if types.Identical(t, types.Universe.Lookup("error").Type()) {
		return true
	}
	if n, ok := t.(*types.Named); ok && n.Obj().Name() == "Diagnostics" && n.Obj().Pkg() != nil && strings.HasSuffix(n.Obj().Pkg().Path(), "hashicorp/hcl/v2") {
		return true
	}
	return false
}

// hyCalleeName: a name of the called function that does not depend on the names of local variables:
// pkg.Func, (pkg.Type).Method, or the bare name of a local function
func hyCalleeName(p *packages.Package, c *ast.CallExpr) string {
	fun := c.Fun
	if ix, ok := fun.(*ast.IndexExpr); ok {
		fun = ix.X
	}
	var id *ast.Ident
	switch f := fun.(type) {
	case *ast.Ident:
		id = f
	case *ast.SelectorExpr:
		id = f.Sel
	default:
		return hyNodeString(p, c.Fun)
	}
	obj := p.TypesInfo.Uses[id]
	fn, ok := obj.(*types.Func)
	if !ok {
		return id.Name
	}
	pkg := ""
	if fn.Pkg() != nil && fn.Pkg().Path() != hyCfgPkg {
		pkg = fn.Pkg().Name() + "."
	}
	if sig, ok := fn.Type().(*types.Signature); ok && sig.Recv() != nil {
		rt := sig.Recv().Type()
		if pt, ok := rt.(*types.Pointer); ok {
			rt = pt.Elem()
		}
		if n, ok := rt.(*types.Named); ok {
			return "(" + pkg + n.Obj().Name() + ")." + fn.Name()
		}
		return "(" + pkg + "?)." + fn.Name()
	}
	return pkg + fn.Name()
}

func hyMentions(p *packages.Package, n ast.Node, o types.Object) bool {
	found := false
	ast.Inspect(n, func(x ast.Node) bool {
		if id, ok := x.(*ast.Ident); ok && o != nil && (p.TypesInfo.Uses[id] == o || p.TypesInfo.Defs[id] == o) {
			found = true
		}
		return !found
	})
	return found
}

// hyReturnsErr: the block ends by returning (directly, wrapped, or through a named result assigned just before a bare
// return) a value built from o
func hyReturnsErr(p *packages.Package, body *ast.BlockStmt, o types.Object) bool {
	if body == nil || len(body.List) == 0 {
		return false
	}
	ret, ok := body.List[len(body.List)-1].(*ast.ReturnStmt)
	if !ok {
		return false
	}
	for _, r := range ret.Results {
		if hyIsErrType(p.TypesInfo.TypeOf(r)) && hyMentions(p, r, o) {
			return true
		}
	}
	if len(ret.Results) == 0 {
		for _, st := range body.List[:len(body.List)-1] {
			if as, ok := st.(*ast.AssignStmt); ok && len(as.Lhs) == 1 && len(as.Rhs) == 1 &&
				hyIsErrType(p.TypesInfo.TypeOf(as.Lhs[0])) && hyMentions(p, as.Rhs[0], o) {
				return true
			}
		}
	}
	return false
}

// hyErrFlow: for every call in the conversion functions whose result carries an error / diagnostics value:
// "returned" = the very next statement tests that value and returns it; "returned-on-other-condition" = the next
// statement returns it under a condition on something else; "unchecked" / "discarded" / "checked-not-returned"
func hyErrFlow(g *hyGen, p *packages.Package) string {
	var rows []string
	for _, fname := range []string{"ParseHCLFile", "decodeLocals", "decodeLocalBlock", "ConvertHCLToAmmo", "DecodeMap", "ParseAmmoConfig"} {
		fd := findFunc(p, fname)
		if fd == nil {
			g.fail("%s not found", fname)
			continue
		}
		var walk func(list []ast.Stmt)
		site := func(as *ast.AssignStmt, next ast.Stmt, self *ast.IfStmt) {
			if len(as.Rhs) != 1 {
				return
			}
			call, ok := as.Rhs[0].(*ast.CallExpr)
			if !ok {
				return
			}
			tv := p.TypesInfo.TypeOf(call)
			var resTypes []types.Type
			if tup, ok := tv.(*types.Tuple); ok {
				for i := 0; i < tup.Len(); i++ {
					resTypes = append(resTypes, tup.At(i).Type())
				}
			} else {
				resTypes = []types.Type{tv}
			}
			if len(resTypes) != len(as.Lhs) {
				return
			}
			for i, rt := range resTypes {
				if !hyIsErrType(rt) {
					continue
				}
				callee := hyCalleeName(p, call)
				id, ok := as.Lhs[i].(*ast.Ident)
				if !ok {
					rows = append(rows, fmt.Sprintf("(%q, %q, %q)", fname, callee, "stored-elsewhere"))
					continue
				}
				if id.Name == "_" {
					rows = append(rows, fmt.Sprintf("(%q, %q, %q)", fname, callee, "discarded"))
					continue
				}
				o := hyObj(p, id)
				how := "unchecked"
				ifs := self
				if ifs == nil {
					ifs, _ = next.(*ast.IfStmt)
				}
				if ifs != nil && (ifs.Init == nil || ifs == self) {
					cond := hyNodeString(p, ifs.Cond)
					isPlain := func(c string) bool {
						return c == id.Name+"!=nil" || c == "nil!="+id.Name || c == id.Name+".HasErrors()"
					}
					plain := isPlain(cond)
					// `e.HasErrors() || other`: the plain test is one disjunct of a top-level || chain — at least as wide
					var disj func(e ast.Expr)
					disj = func(e ast.Expr) {
						if be, ok := e.(*ast.BinaryExpr); ok && be.Op.String() == "||" {
							disj(be.X)
							disj(be.Y)
							return
						}
						if pe, ok := e.(*ast.ParenExpr); ok {
							disj(pe.X)
							return
						}
						if isPlain(hyNodeString(p, e)) {
							plain = true
						}
					}
					disj(ifs.Cond)
					switch {
					case plain && hyReturnsErr(p, ifs.Body, o):
						how = "returned"
					case hyMentions(p, ifs.Cond, o) && hyReturnsErr(p, ifs.Body, o):
						how = "returned-on-narrower-condition"
					case hyMentions(p, ifs.Cond, o):
						how = "checked-not-returned"
					case hyReturnsErr(p, ifs.Body, o):
						how = "returned-on-other-condition"
					}
				}
				if how == "unchecked" {
					// the last statement of the function may hand the error on directly: `return cfg, err` / `ammoCfg, err = f(); …`
					if rs, ok := next.(*ast.ReturnStmt); ok {
						for _, r := range rs.Results {
							if hyMentions(p, r, o) {
								how = "returned"
							}
						}
					}
				}
				rows = append(rows, fmt.Sprintf("(%q, %q, %q)", fname, callee, how))
			}
		}
		walk = func(list []ast.Stmt) {
			for i, st := range list {
				var next ast.Stmt
				if i+1 < len(list) {
					next = list[i+1]
				}
				switch x := st.(type) {
				case *ast.AssignStmt:
					site(x, next, nil)
				case *ast.IfStmt:
					if as, ok := x.Init.(*ast.AssignStmt); ok {
						site(as, nil, x)
					}
					walk(x.Body.List)
					if eb, ok := x.Else.(*ast.BlockStmt); ok {
						walk(eb.List)
					}
				case *ast.RangeStmt:
					walk(x.Body.List)
				case *ast.ForStmt:
					walk(x.Body.List)
				case *ast.BlockStmt:
					walk(x.List)
				case *ast.SwitchStmt:
					for _, cs := range x.Body.List {
						walk(cs.(*ast.CaseClause).Body)
					}
				}
			}
		}
		walk(fd.Body.List)
	}
	loops := hyLoopFacts(g, p)
	return loops + "/-- what becomes of the error / diagnostics value of every fallible call of the conversion functions:\n(function, callee, \"returned\" = tested (`e != nil` / `e.HasErrors()`) by the next statement and returned |\n\"returned-on-narrower-condition\" | \"returned-on-other-condition\" | \"checked-not-returned\" |\n\"unchecked\" | \"discarded\" | \"stored-elsewhere\") -/\n" +
		"def errFlow : List (String × String × String) := [\n  " + strings.Join(rows, ",\n  ") + "]\n\n"
}

// hyLoopFacts: the two loops of the locals evaluation leave nothing out.  decodeLocals: the branch statements of its
// loop over the blocks (with the loop variable written `blk`); decodeLocalBlock: the branch statements of its loop over
// the attributes, and whether every attribute's value is stored under the attribute's name in the returned map.
func hyLoopFacts(g *hyGen, p *packages.Package) string {
	branches := func(fname string) ([]string, *ast.RangeStmt, *ast.FuncDecl) {
		fd := findFunc(p, fname)
		if fd == nil {
			g.fail("%s not found", fname)
			return nil, nil, nil
		}
		var loop *ast.RangeStmt
		for _, st := range fd.Body.List {
			if rs, ok := st.(*ast.RangeStmt); ok && loop == nil {
				loop = rs
			}
		}
		if loop == nil {
			g.fail("%s: no range loop", fname)
			return nil, nil, fd
		}
		loopVar := ""
		if id, ok := loop.Value.(*ast.Ident); ok {
			loopVar = id.Name
		}
		var out []string
		var walk func(list []ast.Stmt, cond string)
		walk = func(list []ast.Stmt, cond string) {
			for _, st := range list {
				switch x := st.(type) {
				case *ast.BranchStmt:
					out = append(out, x.Tok.String()+":"+cond)
				case *ast.IfStmt:
					c := hyNodeString(p, x.Cond)
					if loopVar != "" {
						c = strings.ReplaceAll(c, loopVar, "blk")
					}
					walk(x.Body.List, c)
					if eb, ok := x.Else.(*ast.BlockStmt); ok {
						walk(eb.List, "!("+c+")")
					}
				case *ast.BlockStmt:
					walk(x.List, cond)
				case *ast.ForStmt:
					walk(x.Body.List, cond)
				case *ast.RangeStmt:
					walk(x.Body.List, cond)
				case *ast.SwitchStmt:
					for _, cs := range x.Body.List {
						walk(cs.(*ast.CaseClause).Body, "switch")
					}
				}
			}
		}
		walk(loop.Body.List, "")
		return out, loop, fd
	}
	lb, _, _ := branches("decodeLocals")
	bb, bloop, bfd := branches("decodeLocalBlock")
	stores := false
	if bloop != nil && bfd != nil {
		// val, … := <attr>.Expr.Value(ctx) … M[<range key>] = val … return M, nil
		var valObj, mapObj types.Object
		for _, st := range bloop.Body.List {
			as, ok := st.(*ast.AssignStmt)
			if !ok || len(as.Rhs) != 1 {
				continue
			}
			if c, ok := as.Rhs[0].(*ast.CallExpr); ok && len(as.Lhs) >= 1 {
				if sel, ok := c.Fun.(*ast.SelectorExpr); ok && sel.Sel.Name == "Value" {
					valObj = hyObj(p, as.Lhs[0])
				}
			}
			if ix, ok := as.Lhs[0].(*ast.IndexExpr); ok && len(as.Lhs) == 1 && valObj != nil && hyObj(p, as.Rhs[0]) == valObj &&
				hyObj(p, ix.Index) != nil && hyObj(p, ix.Index) == hyObj(p, bloop.Key) {
				mapObj = hyObj(p, ix.X)
			}
		}
		if last, ok := bfd.Body.List[len(bfd.Body.List)-1].(*ast.ReturnStmt); ok && mapObj != nil && len(last.Results) >= 1 && hyObj(p, last.Results[0]) == mapObj {
			// the loop ranges over what JustAttributes returned
			stores = true
		}
	}
	return "/-- `decodeLocals`: the branch statements (continue / break / goto, with the condition they stand under; the loop\nvariable is written `blk`) of its loop over the blocks -/\n" +
		"def localsLoopBranches : List String := " + hyStrList(lb) + "\n" +
		"/-- `decodeLocalBlock`: the branch statements of its loop over the attributes -/\n" +
		"def localBlockBranches : List String := " + hyStrList(bb) + "\n" +
		"/-- `decodeLocalBlock`: every iteration stores the value of the attribute under the attribute's name in the map the\nfunction returns -/\n" +
		fmt.Sprintf("def localBlockStoresAll : Bool := %v\n\n", stores)
}

// hyNilTests: comparisons of a slice- or map-typed expression with nil, and reflect.DeepEqual calls, in the code that
// reads the decoded AmmoConfig (scenario/http, scenario/grpc, the non-test functions of config/decode.go): the model
// identifies nil and empty collections, which is sound as long as no reader tells them apart
func hyNilTests(g *hyGen, p *packages.Package) string {
	var rows []string
	scan := func(pkg *packages.Package, fileSuffix string) {
		for _, f := range pkg.Syntax {
			fn := pkg.Fset.Position(f.Pos()).Filename
			if strings.HasSuffix(fn, "_test.go") || (fileSuffix != "" && !strings.HasSuffix(fn, fileSuffix)) {
				continue
			}
			for _, d := range f.Decls {
				fd, ok := d.(*ast.FuncDecl)
				if !ok || fd.Body == nil {
					continue
				}
				ast.Inspect(fd.Body, func(n ast.Node) bool {
					switch x := n.(type) {
					case *ast.BinaryExpr:
						if x.Op.String() != "==" && x.Op.String() != "!=" {
							return true
						}
						for _, pair := range [][2]ast.Expr{{x.X, x.Y}, {x.Y, x.X}} {
							if id, ok := pair[1].(*ast.Ident); ok && id.Name == "nil" {
								switch pkg.TypesInfo.TypeOf(pair[0]).Underlying().(type) {
								case *types.Slice, *types.Map:
									rows = append(rows, fmt.Sprintf("(%q, %q)", pkg.Types.Name()+"."+fd.Name.Name, hyNodeString(pkg, x)))
								}
							}
						}
					case *ast.CallExpr:
						if sel, ok := x.Fun.(*ast.SelectorExpr); ok && sel.Sel.Name == "DeepEqual" {
							rows = append(rows, fmt.Sprintf("(%q, %q)", pkg.Types.Name()+"."+fd.Name.Name, hyNodeString(pkg, x)))
						}
					}
					return true
				})
			}
		}
	}
	scan(hclyamlLoad(hyHTTPPkg), "")
	scan(hclyamlLoad(hyGRPCPkg), "")
	scan(p, "decode.go")
	scan(p, "config.go")
	sort.Strings(rows)
	return "/-- comparisons of a slice / map with nil (and reflect.DeepEqual calls) in the readers of the decoded `AmmoConfig`\n(scenario/http, scenario/grpc, config/decode.go, config/config.go): (function, expression) -/\n" +
		"def readerNilTests : List (String × String) := [" + strings.Join(rows, ", ") + "]\n"
}

func hyNodeString(p *packages.Package, n ast.Node) string {
	if n == nil {
		return ""
	}
	var buf strings.Builder
	_ = printer.Fprint(&buf, p.Fset, n)
	return strings.Join(strings.Fields(buf.String()), "")
}

// hyObj: the object an identifier expression denotes (nil when e is not an identifier)
func hyObj(p *packages.Package, e ast.Expr) types.Object {
	id, ok := e.(*ast.Ident)
	if !ok {
		return nil
	}
	if o := p.TypesInfo.Uses[id]; o != nil {
		return o
	}
	return p.TypesInfo.Defs[id]
}

func hyCallTo(e ast.Expr, name string) *ast.CallExpr {
	c, ok := e.(*ast.CallExpr)
	if !ok {
		return nil
	}
	switch f := c.Fun.(type) {
	case *ast.Ident:
		if f.Name == name {
			return c
		}
	case *ast.SelectorExpr:
		if f.Sel.Name == name {
			return c
		}
	case *ast.IndexExpr: // explicit instantiation mergeMaps[K, V](...)
		if id, ok := f.X.(*ast.Ident); ok && id.Name == name {
			return c
		}
	}
	return nil
}

// hyLocalsFacts: the HCL-only conveniences of config/hcl.go as data
func hyLocalsFacts(g *hyGen, p *packages.Package) string {
	var b strings.Builder

	// ---- buildHclContext: function table and variable root
	var fnRows []string
	root := ""
	rootFromParam := false
	if fd := findFunc(p, "buildHclContext"); fd == nil {
		g.fail("buildHclContext not found")
	} else {
		var param types.Object
		if fd.Type.Params != nil && len(fd.Type.Params.List) == 1 && len(fd.Type.Params.List[0].Names) == 1 {
			param = p.TypesInfo.Defs[fd.Type.Params.List[0].Names[0]]
		}
		nCtx := 0
		ast.Inspect(fd.Body, func(n ast.Node) bool {
			cl, ok := n.(*ast.CompositeLit)
			if !ok {
				return true
			}
			tn, ok := p.TypesInfo.TypeOf(cl).(*types.Named)
			if !ok || tn.Obj().Name() != "EvalContext" {
				return true
			}
			nCtx++
			for _, el := range cl.Elts {
				kv, ok := el.(*ast.KeyValueExpr)
				if !ok {
					g.fail("buildHclContext: positional EvalContext literal")
					continue
				}
				key := kv.Key.(*ast.Ident).Name
				ml, ok := kv.Value.(*ast.CompositeLit)
				if !ok {
					// round 4: the table may be hoisted into a package-level variable that is initialised with the literal
					// and used NOWHERE else in the package (a harmless refactoring: hcl only reads `Functions`)
					if ml = hyPkgVarLiteral(p, kv.Value); ml == nil {
						g.fail("buildHclContext: %s is not a map literal (nor a package-level variable that is initialised with one and used only here)", key)
						continue
					}
				}
				for _, me := range ml.Elts {
					mkv, ok := me.(*ast.KeyValueExpr)
					if !ok {
						continue
					}
					tv := p.TypesInfo.Types[mkv.Key]
					if tv.Value == nil || tv.Value.Kind() != constant.String {
						g.fail("buildHclContext: %s key %s is not a string constant", key, hyNodeString(p, mkv.Key))
						continue
					}
					name := constant.StringVal(tv.Value)
					switch key {
					case "Functions":
						sel, ok := mkv.Value.(*ast.SelectorExpr)
						if !ok {
							g.fail("buildHclContext: function %q is bound to %s (expected a go-cty stdlib function)", name, hyNodeString(p, mkv.Value))
							continue
						}
						obj := p.TypesInfo.Uses[sel.Sel]
						if obj == nil || obj.Pkg() == nil || !strings.HasSuffix(obj.Pkg().Path(), "go-cty/cty/function/stdlib") {
							g.fail("buildHclContext: function %q is bound to %s outside go-cty stdlib", name, hyNodeString(p, mkv.Value))
							continue
						}
						fnRows = append(fnRows, fmt.Sprintf("(%q, %q)", name, sel.Sel.Name))
					case "Variables":
						if root != "" {
							g.fail("buildHclContext: more than one variable root")
						}
						root = name
						if c := hyCallTo(mkv.Value, "ObjectVal"); c != nil && len(c.Args) == 1 && param != nil && hyObj(p, c.Args[0]) == param {
							rootFromParam = true
						}
					default:
						g.fail("buildHclContext: EvalContext field %s", key)
					}
				}
			}
			return true
		})
		if nCtx != 1 {
			g.fail("buildHclContext: expected exactly one EvalContext literal, found %d", nCtx)
		}
		if !rootFromParam {
			g.fail("buildHclContext: the variable root is not cty.ObjectVal(<the parameter>)")
		}
	}
	sort.Strings(fnRows)

	// ---- localsSchema: block types
	var blockTypes []string
	if fd := findFunc(p, "localsSchema"); fd == nil {
		g.fail("localsSchema not found")
	} else {
		ast.Inspect(fd.Body, func(n ast.Node) bool {
			kv, ok := n.(*ast.KeyValueExpr)
			if !ok {
				return true
			}
			if id, ok := kv.Key.(*ast.Ident); ok && id.Name == "Type" {
				if tv := p.TypesInfo.Types[kv.Value]; tv.Value != nil && tv.Value.Kind() == constant.String {
					blockTypes = append(blockTypes, constant.StringVal(tv.Value))
				}
			}
			return true
		})
	}

	// ---- mergeMaps(to, from): for k, v := range SRC { DST[k] = v }; return RET
	shape := [3]int{-1, -1, -1}
	if fd := findFunc(p, "mergeMaps"); fd == nil {
		g.fail("mergeMaps not found")
	} else {
		var params []types.Object
		for _, f := range fd.Type.Params.List {
			for _, n := range f.Names {
				params = append(params, p.TypesInfo.Defs[n])
			}
		}
		idx := func(e ast.Expr) int {
			o := hyObj(p, e)
			for i, po := range params {
				if o != nil && o == po {
					return i
				}
			}
			return -1
		}
		ok := len(params) == 2 && len(fd.Body.List) == 2
		if ok {
			rs, ok1 := fd.Body.List[0].(*ast.RangeStmt)
			ret, ok2 := fd.Body.List[1].(*ast.ReturnStmt)
			ok = ok1 && ok2 && len(rs.Body.List) == 1 && len(ret.Results) == 1 && rs.Key != nil && rs.Value != nil
			if ok {
				as, ok3 := rs.Body.List[0].(*ast.AssignStmt)
				ok = ok3 && len(as.Lhs) == 1 && len(as.Rhs) == 1
				if ok {
					ix, ok4 := as.Lhs[0].(*ast.IndexExpr)
					ok = ok4 && hyObj(p, ix.Index) != nil && hyObj(p, ix.Index) == hyObj(p, rs.Key) &&
						hyObj(p, as.Rhs[0]) != nil && hyObj(p, as.Rhs[0]) == hyObj(p, rs.Value)
					if ok {
						shape = [3]int{idx(ix.X), idx(rs.X), idx(ret.Results[0])}
					}
				}
			}
		}
		if !ok || shape[0] < 0 || shape[1] < 0 || shape[2] < 0 {
			g.fail("mergeMaps: expected `for k, v := range P { Q[k] = v }; return R` over its two parameters")
			shape = [3]int{9, 9, 9}
		}
	}

	// ---- decodeLocals
	mergeArgs := []string{"other", "other"}
	accReassigned := false
	ctxFrom := "other"
	blockCtx := "other"
	var blockFilter []string
	if fd := findFunc(p, "decodeLocals"); fd == nil {
		g.fail("decodeLocals not found")
	} else {
		var loop *ast.RangeStmt
		var before []ast.Stmt
		for _, st := range fd.Body.List {
			if rs, ok := st.(*ast.RangeStmt); ok && loop == nil {
				loop = rs
				continue
			}
			if loop == nil {
				before = append(before, st)
			}
		}
		if loop == nil {
			g.fail("decodeLocals: no range loop over the locals blocks")
		} else {
			// variables declared before the loop: the accumulator (a map literal) and the context (buildHclContext(acc))
			var acc, ctx types.Object
			for _, st := range before {
				as, ok := st.(*ast.AssignStmt)
				if !ok || len(as.Lhs) != 1 || len(as.Rhs) != 1 {
					continue
				}
				if _, ok := as.Rhs[0].(*ast.CompositeLit); ok {
					if _, isMap := p.TypesInfo.TypeOf(as.Rhs[0]).Underlying().(*types.Map); isMap && acc == nil {
						acc = hyObj(p, as.Lhs[0])
					}
				}
				if c := hyCallTo(as.Rhs[0], "buildHclContext"); c != nil && len(c.Args) == 1 && acc != nil && hyObj(p, c.Args[0]) == acc {
					ctx = hyObj(p, as.Lhs[0])
				}
			}
			if acc == nil || ctx == nil {
				g.fail("decodeLocals: expected `vars := map…{}; hclContext := buildHclContext(vars)` before the loop")
			}
			var newVars types.Object
			var mergeResult []types.Object // variables assigned from the mergeMaps call
			nMerge, nCtx := 0, 0
			ast.Inspect(loop.Body, func(n ast.Node) bool {
				switch x := n.(type) {
				case *ast.BinaryExpr:
					if x.Op.String() == "==" {
						if tv := p.TypesInfo.Types[x.Y]; tv.Value != nil && tv.Value.Kind() == constant.String {
							if hyNodeString(p, x.X) == hyNodeString(p, loop.Value)+".Type" {
								blockFilter = append(blockFilter, constant.StringVal(tv.Value))
							}
						}
					}
				case *ast.AssignStmt:
					if len(x.Rhs) != 1 {
						return true
					}
					if c := hyCallTo(x.Rhs[0], "decodeLocalBlock"); c != nil && len(x.Lhs) == 2 && len(c.Args) == 2 {
						newVars = hyObj(p, x.Lhs[0])
						if o := hyObj(p, c.Args[1]); o != nil && o == ctx {
							blockCtx = "ctx"
						}
						if hyObj(p, c.Args[0]) == nil || hyObj(p, c.Args[0]) != hyObj(p, loop.Value) {
							g.fail("decodeLocals: decodeLocalBlock is not called on the loop's block")
						}
					}
					if c := hyCallTo(x.Rhs[0], "mergeMaps"); c != nil && len(x.Lhs) == 1 {
						if o := hyObj(p, x.Lhs[0]); o != nil {
							if o == acc {
								accReassigned = true
							}
							mergeResult = append(mergeResult, o)
						}
					}
					if c := hyCallTo(x.Rhs[0], "buildHclContext"); c != nil && len(x.Lhs) == 1 && len(c.Args) == 1 {
						if o := hyObj(p, x.Lhs[0]); o == nil || o != ctx {
							return true
						}
						nCtx++
						switch {
						case hyCallTo(c.Args[0], "mergeMaps") != nil:
							ctxFrom = "merge-result"
						case hyObj(p, c.Args[0]) != nil && hyObj(p, c.Args[0]) == acc:
							ctxFrom = "acc"
						default:
							for _, o := range mergeResult {
								if hyObj(p, c.Args[0]) == o {
									ctxFrom = "merge-result"
								}
							}
						}
					}
				case *ast.CallExpr:
					if c := hyCallTo(x, "mergeMaps"); c != nil && len(c.Args) == 2 {
						nMerge++
						for i, a := range c.Args {
							switch o := hyObj(p, a); {
							case o != nil && o == acc:
								mergeArgs[i] = "acc"
							case o != nil && o == newVars:
								mergeArgs[i] = "new"
							}
						}
					}
				}
				return true
			})
			if nMerge != 1 || nCtx != 1 {
				g.fail("decodeLocals: expected one mergeMaps call and one `hclContext = buildHclContext(…)` in the loop (found %d, %d)", nMerge, nCtx)
			}
			// the function returns the context variable
			if last, ok := fd.Body.List[len(fd.Body.List)-1].(*ast.ReturnStmt); !ok || len(last.Results) < 1 || hyObj(p, last.Results[0]) != ctx {
				g.fail("decodeLocals: does not end with `return hclContext, …`")
			}
		}
	}

	// ---- decodeLocalBlock: every attribute is evaluated under the context parameter and stored under its name
	evalUnder := "other"
	if fd := findFunc(p, "decodeLocalBlock"); fd == nil {
		g.fail("decodeLocalBlock not found")
	} else {
		var ctxParam types.Object
		if len(fd.Type.Params.List) == 2 && len(fd.Type.Params.List[1].Names) == 1 {
			ctxParam = p.TypesInfo.Defs[fd.Type.Params.List[1].Names[0]]
		}
		nVal := 0
		ast.Inspect(fd.Body, func(n ast.Node) bool {
			if c, ok := n.(*ast.CallExpr); ok {
				if sel, ok := c.Fun.(*ast.SelectorExpr); ok && sel.Sel.Name == "Value" && len(c.Args) == 1 {
					nVal++
					if o := hyObj(p, c.Args[0]); o != nil && o == ctxParam {
						evalUnder = "param"
					}
				}
			}
			return true
		})
		if nVal != 1 {
			g.fail("decodeLocalBlock: expected one Expr.Value(ctx) call, found %d", nVal)
		}
		// the context parameter is never written: all attributes of a block are evaluated under the SAME context
		ast.Inspect(fd.Body, func(n ast.Node) bool {
			switch x := n.(type) {
			case *ast.AssignStmt:
				for _, l := range x.Lhs {
					if ctxParam != nil && hyMentions(p, l, ctxParam) {
						evalUnder = "param-reassigned"
					}
				}
			case *ast.UnaryExpr:
				if x.Op.String() == "&" && ctxParam != nil && hyMentions(p, x.X, ctxParam) {
					evalUnder = "param-address-taken"
				}
			}
			return true
		})
	}

	// ---- ParseHCLFile: the body is decoded under the context decodeLocals returns
	bodyCtx := "other"
	var parseCalls []string
	if fd := findFunc(p, "ParseHCLFile"); fd == nil {
		g.fail("ParseHCLFile not found")
	} else {
		var localsCtx types.Object
		ast.Inspect(fd.Body, func(n ast.Node) bool {
			switch x := n.(type) {
			case *ast.AssignStmt:
				if len(x.Rhs) == 1 && hyCallTo(x.Rhs[0], "decodeLocals") != nil && len(x.Lhs) >= 1 {
					localsCtx = hyObj(p, x.Lhs[0])
				}
			case *ast.CallExpr:
				name := hyNodeString(p, x.Fun)
				if !strings.HasPrefix(name, "fmt.") && !strings.HasPrefix(name, "errors.") {
					parseCalls = append(parseCalls, name)
				}
				if c := hyCallTo(x, "DecodeBody"); c != nil && len(c.Args) == 3 {
					if o := hyObj(p, c.Args[1]); o != nil && o == localsCtx {
						bodyCtx = "locals-ctx"
					}
				}
			}
			return true
		})
	}

	b.WriteString("/-- `buildHclContext`: HCL function name ↦ the go-cty stdlib function it is bound to (sorted by name) -/\n")
	b.WriteString("def hclFunctions : List (String × String) := [\n  " + strings.Join(fnRows, ",\n  ") + "]\n\n")
	b.WriteString("/-- `buildHclContext`: the variable under which the locals are visible (`cty.ObjectVal` of the map passed in) -/\n")
	b.WriteString(fmt.Sprintf("def localsRoot : String := %q\n", root))
	b.WriteString("/-- `localsSchema`: the block types taken out of the body before it is decoded -/\n")
	b.WriteString("def localsBlockTypes : List String := " + hyStrList(blockTypes) + "\n")
	b.WriteString("/-- `mergeMaps`: (parameter written to, parameter ranged over, parameter returned) -/\n")
	b.WriteString(fmt.Sprintf("def mergeMapsShape : Nat × Nat × Nat := (%d, %d, %d)\n", shape[0], shape[1], shape[2]))
	b.WriteString("/-- `decodeLocals`: the arguments of its `mergeMaps` call: \"acc\" = the map declared before the loop, \"new\" = the\nresult of `decodeLocalBlock` of this iteration -/\n")
	b.WriteString("def localsMergeArgs : List String := " + hyStrList(mergeArgs) + "\n")
	b.WriteString("/-- `decodeLocals`: the accumulator variable is reassigned from the result of `mergeMaps` -/\n")
	b.WriteString(fmt.Sprintf("def localsAccReassigned : Bool := %v\n", accReassigned))
	b.WriteString("/-- `decodeLocals`: what the context of the next iteration is built from: \"merge-result\" | \"acc\" -/\n")
	b.WriteString(fmt.Sprintf("def localsCtxFrom : String := %q\n", ctxFrom))
	b.WriteString("/-- `decodeLocals`: the context `decodeLocalBlock` gets: \"ctx\" = the context variable (locals of the previous blocks) -/\n")
	b.WriteString(fmt.Sprintf("def localsBlockCtx : String := %q\n", blockCtx))
	b.WriteString("/-- `decodeLocals`: the block types the loop handles -/\n")
	b.WriteString("def localsBlockFilter : List String := " + hyStrList(blockFilter) + "\n")
	b.WriteString("/-- `decodeLocalBlock`: the context every attribute is evaluated under: \"param\" = the one passed in -/\n")
	b.WriteString(fmt.Sprintf("def localBlockEvalUnder : String := %q\n", evalUnder))
	b.WriteString("/-- `ParseHCLFile`: the context of `gohcl.DecodeBody`: \"locals-ctx\" = what `decodeLocals` returned -/\n")
	b.WriteString(fmt.Sprintf("def parseHclBodyCtx : String := %q\n", bodyCtx))
	b.WriteString("/-- `ParseHCLFile`: the calls it makes, in source order (error constructors left out) -/\n")
	b.WriteString("def parseHclCalls : List String := " + hyStrList(parseCalls) + "\n")
	return b.String()
}
