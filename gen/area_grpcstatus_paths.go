package main

// Area "grpcstatus" (property C10), third part: PATH SUMMARIES of the functions that report samples.
//
// A small symbolic executor walks every path through a function body (loops: zero or one iteration; callees of the
// same package named shoot / shootStep / reportErr are inlined with the nil-ness of their arguments; deferred closures
// run at every exit that passed their `defer`). Of each path it keeps
//
//	the exit:    "void" | "nil" | "err" | "?" (nil-ness of the last result) | "panic"
//	the events:  setter calls on a sample (AddTag / SetProtoCode / SetErr / SetID ...) and `Report` calls, in order, plus —
//	             when the path branches on the result of one of the EXCHANGE calls (gsPathOrigins: Do, Copy / ReadAll = Body,
//	             UnmarshalJSON, Marshal, Services, IsInvalid) — `<call>=ok|err|true|false`; `InvokeRpc` and `Sleep` calls.
//	             A run of consecutive setter calls is a SET (sorted, duplicates dropped): they write different fields.
//
// and emits the SET of distinct (exit, events) pairs, sorted. Nothing else of the source text survives: names of locals,
// temporaries, the order of independent statements, logging / tracing / dumping / templating code, helper calls without
// sample effects do not show; a path that reports twice, not at all, before the code is set, or without the error does.
// The fields named in gsPathAssumeNil (`Connect`: regenerated fact connectHookAssignments = []) compare equal to nil.
//
// Bridge lemmas prove each set equal (as a set) to the set of paths the MODEL's decision tree can take.

import (
	"fmt"
	"go/ast"
	"go/token"
	"go/types"
	"sort"
	"strings"

	"golang.org/x/tools/go/packages"
)

var gsPathOrigins = map[string]string{"Do": "Do", "Copy": "Body", "ReadAll": "Body", "UnmarshalJSON": "UnmarshalJSON", "Marshal": "Marshal",
	"Services": "Services", "IsInvalid": "IsInvalid"}

// gsPathCallEvents: calls that are events by themselves (the request goes out)
var gsPathCallEvents = map[string]bool{"InvokeRpc": true}

var gsPathInline = map[string]bool{"shoot": true, "shootStep": true, "reportErr": true}

var gsPathAssumeNil = map[string]bool{"Connect": true}

type gsPathState struct {
	nilness map[types.Object]int8 // 1 nil, 2 non-nil
	origin  map[types.Object]string
	events  []string
	defers  []*ast.FuncLit
}

func (s *gsPathState) clone() *gsPathState {
	c := &gsPathState{nilness: map[types.Object]int8{}, origin: map[types.Object]string{}}
	for k, v := range s.nilness {
		c.nilness[k] = v
	}
	for k, v := range s.origin {
		c.origin[k] = v
	}
	c.events = append([]string(nil), s.events...)
	c.defers = append([]*ast.FuncLit(nil), s.defers...)
	return c
}

func (s *gsPathState) key() string {
	var ns []string
	for o, v := range s.nilness {
		ns = append(ns, fmt.Sprintf("%d@%d", v, o.Pos()))
	}
	sort.Strings(ns)
	var os []string
	for o, v := range s.origin {
		os = append(os, fmt.Sprintf("%s@%d", v, o.Pos()))
	}
	sort.Strings(os)
	return strings.Join(s.events, " ") + "|" + strings.Join(ns, ",") + "|" + strings.Join(os, ",") + "|" + fmt.Sprint(len(s.defers))
}

// gsPathOut is one way a statement list ends.
type gsPathOut struct {
	kind string // next | return | panic | break | continue
	ret  string // for return: void | nil | err | ?
	st   *gsPathState
}

type gsPathExec struct {
	p     *packages.Package
	depth int
	steps int
	fail  string
}

func gsPathDedupe(outs []gsPathOut) []gsPathOut {
	seen := map[string]bool{}
	var r []gsPathOut
	for _, o := range outs {
		k := o.kind + "/" + o.ret + "/" + o.st.key()
		if !seen[k] {
			seen[k] = true
			r = append(r, o)
		}
	}
	return r
}

func (x *gsPathExec) obj(id *ast.Ident) types.Object {
	if o := x.p.TypesInfo.Defs[id]; o != nil {
		return o
	}
	return x.p.TypesInfo.Uses[id]
}

func gsPathCallName(c *ast.CallExpr) string {
	switch f := c.Fun.(type) {
	case *ast.SelectorExpr:
		return f.Sel.Name
	case *ast.Ident:
		return f.Name
	}
	return ""
}

// nilOf: 1 nil, 2 non-nil, 0 unknown
func (x *gsPathExec) nilOf(e ast.Expr, st *gsPathState) int8 {
	switch v := e.(type) {
	case *ast.ParenExpr:
		return x.nilOf(v.X, st)
	case *ast.Ident:
		if v.Name == "nil" && x.p.TypesInfo.Uses[v] == types.Universe.Lookup("nil") {
			return 1
		}
		if o := x.obj(v); o != nil {
			return st.nilness[o]
		}
	case *ast.SelectorExpr:
		if gsPathAssumeNil[v.Sel.Name] {
			return 1
		}
	case *ast.CallExpr:
		n := gsPathCallName(v)
		if n == "Errorf" || n == "New" {
			return 2
		}
	case *ast.UnaryExpr:
		if v.Op == token.AND {
			return 2
		}
	case *ast.CompositeLit:
		return 2
	}
	return 0
}

// originOf: the exchange call an expression's value comes from ("" when none of interest)
func gsPathOriginOf(e ast.Expr) string {
	switch v := e.(type) {
	case *ast.CallExpr:
		return gsPathCallName(v)
	case *ast.IndexExpr:
		if s, ok := v.X.(*ast.SelectorExpr); ok {
			return s.Sel.Name
		}
	case *ast.ParenExpr:
		return gsPathOriginOf(v.X)
	}
	return ""
}

type gsPathBranch struct {
	st    *gsPathState
	taken bool
}

// cond: the states in which the condition holds / does not hold.
func (x *gsPathExec) cond(e ast.Expr, st *gsPathState) []gsPathBranch {
	switch v := e.(type) {
	case *ast.ParenExpr:
		return x.cond(v.X, st)
	case *ast.UnaryExpr:
		if v.Op == token.NOT {
			bs := x.cond(v.X, st)
			for i := range bs {
				bs[i].taken = !bs[i].taken
			}
			return bs
		}
	case *ast.BinaryExpr:
		switch v.Op {
		case token.LAND:
			var out []gsPathBranch
			for _, b := range x.cond(v.X, st) {
				if !b.taken {
					out = append(out, b)
					continue
				}
				out = append(out, x.cond(v.Y, b.st)...)
			}
			return out
		case token.LOR:
			var out []gsPathBranch
			for _, b := range x.cond(v.X, st) {
				if b.taken {
					out = append(out, b)
					continue
				}
				out = append(out, x.cond(v.Y, b.st)...)
			}
			return out
		case token.EQL, token.NEQ:
			var side ast.Expr
			if id, ok := v.Y.(*ast.Ident); ok && id.Name == "nil" {
				side = v.X
			} else if id, ok := v.X.(*ast.Ident); ok && id.Name == "nil" {
				side = v.Y
			}
			if side == nil {
				break
			}
			isNeq := v.Op == token.NEQ
			switch x.nilOf(side, st) {
			case 1:
				return []gsPathBranch{{st, isNeq == false}}
			case 2:
				return []gsPathBranch{{st, isNeq}}
			}
			// unknown: both, refined when the operand is a variable
			a, b := st.clone(), st.clone()
			if id, ok := side.(*ast.Ident); ok {
				if o := x.obj(id); o != nil {
					a.nilness[o], b.nilness[o] = 1, 2
					if og := gsPathOrigins[st.origin[o]]; og != "" {
						a.events = append(a.events, og+"=ok")
						b.events = append(b.events, og+"=err")
						delete(a.origin, o)
						delete(b.origin, o)
					}
				}
			}
			return []gsPathBranch{{a, !isNeq}, {b, isNeq}}
		}
	case *ast.Ident:
		// a boolean variable
		if o := x.obj(v); o != nil {
			if og := gsPathOrigins[st.origin[o]]; og != "" {
				a, b := st.clone(), st.clone()
				a.events = append(a.events, og+"=true")
				b.events = append(b.events, og+"=false")
				delete(a.origin, o)
				delete(b.origin, o)
				return []gsPathBranch{{a, true}, {b, false}}
			}
		}
	case *ast.CallExpr:
		if n := gsPathOrigins[gsPathCallName(v)]; n != "" {
			a, b := st.clone(), st.clone()
			a.events = append(a.events, n+"=true")
			b.events = append(b.events, n+"=false")
			return []gsPathBranch{{a, true}, {b, false}}
		}
	}
	return []gsPathBranch{{st.clone(), true}, {st.clone(), false}}
}

func (x *gsPathExec) funcDeclOf(call *ast.CallExpr) *ast.FuncDecl {
	var id *ast.Ident
	switch f := call.Fun.(type) {
	case *ast.SelectorExpr:
		id = f.Sel
	case *ast.Ident:
		id = f
	}
	if id == nil {
		return nil
	}
	fn, ok := x.p.TypesInfo.Uses[id].(*types.Func)
	if !ok || fn.Pkg() != x.p.Types {
		return nil
	}
	if !gsPathInline[id.Name] {
		// round 6: a helper of the same package that is HANDED THE SAMPLE (an extracted piece of a shoot function) is inlined
		// like the three named ones; every other callee stays opaque
		takesSample := false
		if sig, ok := fn.Type().(*types.Signature); ok {
			for i := 0; i < sig.Params().Len(); i++ {
				if gsIsSamplePtr(sig.Params().At(i).Type()) {
					takesSample = true
				}
			}
		}
		if !takesSample {
			return nil
		}
	}
	for _, f := range x.p.Syntax {
		for _, d := range f.Decls {
			if fd, ok := d.(*ast.FuncDecl); ok && x.p.TypesInfo.Defs[fd.Name] == fn && fd.Body != nil {
				return fd
			}
		}
	}
	return nil
}

// call: the effects of a call expression evaluated for its effects (and, for an inlined callee, its results' nil-ness).
// Returns the continuing states with the nil-ness of the LAST result ("" unknown), and the panicking states.
type gsPathCallOut struct {
	st  *gsPathState
	ret string
}

func (x *gsPathExec) call(c *ast.CallExpr, st *gsPathState) (conts []gsPathCallOut, panics []*gsPathState) {
	// arguments first (nested calls with effects)
	for _, a := range c.Args {
		if ac, ok := a.(*ast.CallExpr); ok {
			cs, ps := x.call(ac, st)
			panics = append(panics, ps...)
			if len(cs) == 0 {
				return nil, panics
			}
			st = cs[0].st // argument calls of interest do not fork
		}
	}
	if sel, ok := c.Fun.(*ast.SelectorExpr); ok {
		if rc, ok := sel.X.(*ast.CallExpr); ok {
			cs, ps := x.call(rc, st)
			panics = append(panics, ps...)
			if len(cs) == 0 {
				return nil, panics
			}
			st = cs[0].st
		}
	}
	name := gsPathCallName(c)
	switch {
	case name == "Panic" || name == "panic" || name == "Fatal":
		return nil, append(panics, st)
	case name == "Report":
		n := st.clone()
		n.events = append(n.events, "Report")
		return []gsPathCallOut{{n, ""}}, panics
	case gsSetters[name]:
		n := st.clone()
		n.events = append(n.events, name)
		return []gsPathCallOut{{n, ""}}, panics
	case name == "Sleep" || gsPathCallEvents[name]:
		n := st.clone()
		n.events = append(n.events, name)
		return []gsPathCallOut{{n, ""}}, panics
	}
	if fd := x.funcDeclOf(c); fd != nil && x.depth < 4 {
		// inline: bind the parameters' nil-ness
		in := st.clone()
		in.defers = nil
		i := 0
		for _, fl := range fd.Type.Params.List {
			for _, nm := range fl.Names {
				if i < len(c.Args) {
					if o := x.p.TypesInfo.Defs[nm]; o != nil {
						if v := x.nilOf(c.Args[i], st); v != 0 {
							in.nilness[o] = v
						} else {
							delete(in.nilness, o)
						}
					}
				}
				i++
			}
		}
		x.depth++
		outs := x.body(fd, in)
		x.depth--
		for _, o := range outs {
			o.st.defers = append([]*ast.FuncLit(nil), st.defers...)
			switch o.kind {
			case "panic":
				panics = append(panics, o.st)
			default:
				conts = append(conts, gsPathCallOut{o.st, o.ret})
			}
		}
		return conts, panics
	}
	return []gsPathCallOut{{st, ""}}, panics
}

// body: all the ways a function ends (defers run), from the given entry state.
func (x *gsPathExec) body(fd *ast.FuncDecl, st *gsPathState) []gsPathOut {
	outs := x.stmts(fd.Body.List, st)
	var res []gsPathOut
	for _, o := range outs {
		switch o.kind {
		case "next":
			o.kind, o.ret = "return", "void"
			if fd.Type.Results != nil && len(fd.Type.Results.List) > 0 {
				o.ret = "?"
			}
		case "break", "continue":
			x.fail = "break/continue outside a loop"
		}
		res = append(res, x.runDefers(o)...)
	}
	return gsPathDedupe(res)
}

func (x *gsPathExec) runDefers(o gsPathOut) []gsPathOut {
	cur := []gsPathOut{o}
	for i := len(o.st.defers) - 1; i >= 0; i-- {
		fl := o.st.defers[i]
		var next []gsPathOut
		for _, c := range cur {
			st := c.st.clone()
			st.defers = nil
			for _, d := range x.stmts(fl.Body.List, st) {
				switch d.kind {
				case "panic":
					next = append(next, gsPathOut{"panic", "", d.st})
				default: // the closure ended: the function's own exit stands
					next = append(next, gsPathOut{c.kind, c.ret, d.st})
				}
			}
		}
		cur = gsPathDedupe(next)
	}
	for i := range cur {
		cur[i].st.defers = nil
	}
	return cur
}

func (x *gsPathExec) stmts(list []ast.Stmt, st *gsPathState) []gsPathOut {
	cur := []gsPathOut{{"next", "", st}}
	for _, s := range list {
		var next []gsPathOut
		for _, c := range cur {
			if c.kind != "next" {
				next = append(next, c)
				continue
			}
			next = append(next, x.stmt(s, c.st)...)
		}
		cur = gsPathDedupe(next)
		x.steps += len(cur)
		if x.steps > 400000 {
			x.fail = "too many paths"
			return nil
		}
	}
	return cur
}

func (x *gsPathExec) assign(lhs []ast.Expr, rhs []ast.Expr, st *gsPathState) []gsPathOut {
	var outs []gsPathOut
	if len(rhs) == 1 {
		if c, ok := rhs[0].(*ast.CallExpr); ok {
			conts, panics := x.call(c, st)
			for _, p := range panics {
				outs = append(outs, gsPathOut{"panic", "", p})
			}
			og := gsPathCallName(c)
			for _, ct := range conts {
				n := ct.st.clone()
				for i, l := range lhs {
					id, ok := l.(*ast.Ident)
					if !ok || id.Name == "_" {
						continue
					}
					o := x.obj(id)
					if o == nil {
						continue
					}
					delete(n.nilness, o)
					delete(n.origin, o)
					if i == len(lhs)-1 {
						switch ct.ret {
						case "nil":
							n.nilness[o] = 1
						case "err":
							n.nilness[o] = 2
						default:
							if v := x.nilOf(c, n); v != 0 {
								n.nilness[o] = v
							} else {
								n.origin[o] = og
							}
						}
					}
				}
				outs = append(outs, gsPathOut{"next", "", n})
			}
			return outs
		}
	}
	n := st.clone()
	for i, l := range lhs {
		id, ok := l.(*ast.Ident)
		if !ok || id.Name == "_" {
			continue
		}
		o := x.obj(id)
		if o == nil {
			continue
		}
		delete(n.nilness, o)
		delete(n.origin, o)
		if len(rhs) == len(lhs) {
			if v := x.nilOf(rhs[i], st); v != 0 {
				n.nilness[o] = v
			} else if og := gsPathOriginOf(rhs[i]); og != "" {
				n.origin[o] = og
			}
		} else if len(rhs) == 1 && i == len(lhs)-1 {
			if og := gsPathOriginOf(rhs[0]); og != "" {
				n.origin[o] = og // v, ok := m[k] / x.(T) / <-ch
			}
		}
	}
	return []gsPathOut{{"next", "", n}}
}

func (x *gsPathExec) loopBody(body []ast.Stmt, st *gsPathState) []gsPathOut {
	// zero iterations, or one
	outs := []gsPathOut{{"next", "", st.clone()}}
	for _, o := range x.stmts(body, st.clone()) {
		switch o.kind {
		case "break", "continue":
			o.kind = "next"
		}
		outs = append(outs, o)
	}
	return outs
}

func (x *gsPathExec) stmt(s ast.Stmt, st *gsPathState) []gsPathOut {
	switch v := s.(type) {
	case nil, *ast.EmptyStmt, *ast.IncDecStmt, *ast.GoStmt, *ast.SendStmt:
		return []gsPathOut{{"next", "", st}}
	case *ast.BlockStmt:
		return x.stmts(v.List, st)
	case *ast.LabeledStmt:
		return x.stmt(v.Stmt, st)
	case *ast.ExprStmt:
		if c, ok := v.X.(*ast.CallExpr); ok {
			conts, panics := x.call(c, st)
			var outs []gsPathOut
			for _, p := range panics {
				outs = append(outs, gsPathOut{"panic", "", p})
			}
			for _, ct := range conts {
				outs = append(outs, gsPathOut{"next", "", ct.st})
			}
			return outs
		}
		return []gsPathOut{{"next", "", st}}
	case *ast.AssignStmt:
		return x.assign(v.Lhs, v.Rhs, st)
	case *ast.DeclStmt:
		gd, ok := v.Decl.(*ast.GenDecl)
		if !ok {
			return []gsPathOut{{"next", "", st}}
		}
		cur := []gsPathOut{{"next", "", st}}
		for _, sp := range gd.Specs {
			vs, ok := sp.(*ast.ValueSpec)
			if !ok {
				continue
			}
			var next []gsPathOut
			for _, c := range cur {
				if c.kind != "next" {
					next = append(next, c)
					continue
				}
				var lhs []ast.Expr
				for _, n := range vs.Names {
					lhs = append(lhs, n)
				}
				if len(vs.Values) == 0 {
					// zero value: nil for pointers, interfaces, maps, slices, funcs, channels
					n := c.st.clone()
					for _, nm := range vs.Names {
						if o := x.p.TypesInfo.Defs[nm]; o != nil {
							switch o.Type().Underlying().(type) {
							case *types.Pointer, *types.Interface, *types.Map, *types.Slice, *types.Signature, *types.Chan:
								n.nilness[o] = 1
							}
						}
					}
					next = append(next, gsPathOut{"next", "", n})
					continue
				}
				next = append(next, x.assign(lhs, vs.Values, c.st)...)
			}
			cur = next
		}
		return cur
	case *ast.ReturnStmt:
		ret := "void"
		cur := st
		var outs []gsPathOut
		if len(v.Results) > 0 {
			last := v.Results[len(v.Results)-1]
			ret = "?"
			if c, ok := last.(*ast.CallExpr); ok {
				conts, panics := x.call(c, st)
				for _, p := range panics {
					outs = append(outs, gsPathOut{"panic", "", p})
				}
				for _, ct := range conts {
					r := ct.ret
					if r == "" {
						r = "?"
						if x.nilOf(c, ct.st) == 2 {
							r = "err"
						}
					}
					outs = append(outs, gsPathOut{"return", r, ct.st})
				}
				return outs
			}
			switch x.nilOf(last, st) {
			case 1:
				ret = "nil"
			case 2:
				ret = "err"
			}
			if tv, ok := x.p.TypesInfo.Types[last]; ok && tv.Type != nil {
				// a constructor: WHICH concrete type it returns (the static type of the returned expression, when it is not an interface)
				t := tv.Type
				if pt, ok := t.(*types.Pointer); ok {
					t = pt.Elem()
				}
				if n, ok := t.(*types.Named); ok {
					if _, isIface := n.Underlying().(*types.Interface); !isIface {
						ret = n.Obj().Name()
					}
				}
			}
		}
		return append(outs, gsPathOut{"return", ret, cur})
	case *ast.BranchStmt:
		switch v.Tok {
		case token.BREAK:
			return []gsPathOut{{"break", "", st}}
		case token.CONTINUE:
			return []gsPathOut{{"continue", "", st}}
		}
		x.fail = "goto / fallthrough"
		return nil
	case *ast.DeferStmt:
		if fl, ok := v.Call.Fun.(*ast.FuncLit); ok {
			n := st.clone()
			n.defers = append(n.defers, fl)
			return []gsPathOut{{"next", "", n}}
		}
		return []gsPathOut{{"next", "", st}}
	case *ast.IfStmt:
		cur := []gsPathOut{{"next", "", st}}
		if v.Init != nil {
			cur = x.stmt(v.Init, st)
		}
		var outs []gsPathOut
		for _, c := range cur {
			if c.kind != "next" {
				outs = append(outs, c)
				continue
			}
			for _, b := range x.cond(v.Cond, c.st) {
				if b.taken {
					outs = append(outs, x.stmts(v.Body.List, b.st)...)
				} else if v.Else != nil {
					outs = append(outs, x.stmt(v.Else, b.st)...)
				} else {
					outs = append(outs, gsPathOut{"next", "", b.st})
				}
			}
		}
		return outs
	case *ast.ForStmt:
		return x.loopBody(v.Body.List, st)
	case *ast.RangeStmt:
		return x.loopBody(v.Body.List, st)
	case *ast.SwitchStmt, *ast.TypeSwitchStmt:
		var body *ast.BlockStmt
		if sw, ok := v.(*ast.SwitchStmt); ok {
			body = sw.Body
		} else {
			body = v.(*ast.TypeSwitchStmt).Body
		}
		var outs []gsPathOut
		hasDefault := false
		for _, c := range body.List {
			cc := c.(*ast.CaseClause)
			if cc.List == nil {
				hasDefault = true
			}
			for _, o := range x.stmts(cc.Body, st.clone()) {
				if o.kind == "break" {
					o.kind = "next"
				}
				outs = append(outs, o)
			}
		}
		if !hasDefault {
			outs = append(outs, gsPathOut{"next", "", st.clone()})
		}
		return outs
	case *ast.SelectStmt:
		var outs []gsPathOut
		for _, c := range v.Body.List {
			cc := c.(*ast.CommClause)
			for _, o := range x.stmts(cc.Body, st.clone()) {
				if o.kind == "break" {
					o.kind = "next"
				}
				outs = append(outs, o)
			}
		}
		return outs
	}
	x.fail = fmt.Sprintf("unsupported statement %T", s)
	return nil
}

// gsPathCanon: runs of setter names as sorted sets.
func gsPathCanon(ev []string) []string {
	var out []string
	for i := 0; i < len(ev); {
		if !gsSetters[ev[i]] {
			out = append(out, ev[i])
			i++
			continue
		}
		set := map[string]bool{}
		j := i
		for j < len(ev) && gsSetters[ev[j]] {
			set[ev[j]] = true
			j++
		}
		var run []string
		for k := range set {
			run = append(run, k)
		}
		sort.Strings(run)
		out = append(out, run...)
		i = j
	}
	return out
}

func gsPaths(t *tr, b *strings.Builder) {
	specs := []struct{ pkg, recv, fn, lean string }{
		// a constructor: its bool parameters are branch events (`arg<i>=true|false`), a returned composite literal names the exit
		{"github.com/yandex/pandora/components/guns/http", "", "NewRedirectingClient", "pathsNewRedirectingClient"},
		{"github.com/yandex/pandora/components/guns/http", "BaseGun", "Shoot", "pathsBaseShoot"},
		{"github.com/yandex/pandora/components/guns/http_scenario", "ScenarioGun", "shootStep", "pathsScenarioShootStep"},
		{"github.com/yandex/pandora/components/guns/http_scenario", "ScenarioGun", "shoot", "pathsScenarioShootLoop"},
		{"github.com/yandex/pandora/components/guns/http_scenario", "ScenarioGun", "Shoot", "pathsScenarioShoot"},
		{"github.com/yandex/pandora/components/guns/grpc", "Gun", "shoot", "pathsGrpcShoot"},
		{"github.com/yandex/pandora/components/guns/grpc/scenario", "Gun", "shootStep", "pathsGrpcScenarioShootStep"},
		{"github.com/yandex/pandora/components/guns/grpc/scenario", "Gun", "shoot", "pathsGrpcScenarioShootLoop"},
	}
	cache := map[string]*packages.Package{}
	for _, sp := range specs {
		p := cache[sp.pkg]
		if p == nil {
			if sp.pkg == t.pkg.PkgPath {
				p = t.pkg
			} else {
				p = grpcstatusLoad(sp.pkg)
			}
			cache[sp.pkg] = p
		}
		fd := gsFindMethod(p, sp.recv, sp.fn)
		if sp.recv == "" {
			fd = findFunc(p, sp.fn)
		}
		if fd == nil || fd.Body == nil {
			t.errs = append(t.errs, "function ("+sp.recv+")."+sp.fn+" not found in "+sp.pkg)
			b.WriteString("def " + sp.lean + " : List (String × List String) := []\n\n")
			continue
		}
		x := &gsPathExec{p: p}
		st := &gsPathState{nilness: map[types.Object]int8{}, origin: map[types.Object]string{}}
		if sp.recv == "" {
			i := 0
			for _, fl := range fd.Type.Params.List {
				for _, nm := range fl.Names {
					if o := p.TypesInfo.Defs[nm]; o != nil {
						if b, ok := o.Type().Underlying().(*types.Basic); ok && b.Kind() == types.Bool {
							key := fmt.Sprintf("$arg%d", i)
							gsPathOrigins[key] = fmt.Sprintf("arg%d", i)
							st.origin[o] = key
						}
					}
					i++
				}
			}
		}
		outs := x.body(fd, st)
		if x.fail != "" {
			t.errs = append(t.errs, fmt.Sprintf("path summary of (%s).%s: %s", sp.recv, sp.fn, x.fail))
		}
		set := map[string]bool{}
		for _, o := range outs {
			exit := o.ret
			if o.kind == "panic" {
				exit = "panic"
			}
			var q []string
			for _, e := range gsPathCanon(o.st.events) {
				q = append(q, gsLeanStr(e))
			}
			set["("+gsLeanStr(exit)+", ["+strings.Join(q, ", ")+"])"] = true
		}
		var rows []string
		for r := range set {
			rows = append(rows, "  "+r)
		}
		sort.Strings(rows)
		if sp.recv == "" {
			// the parameter labels must not leak into later functions
			for k := range gsPathOrigins {
				if strings.HasPrefix(k, "$arg") {
					delete(gsPathOrigins, k)
				}
			}
		}
		fmt.Fprintf(b, "/-- path summary of `(%s).%s` (%s): every (exit, events) pair some path through the body produces —\nsetter calls on the sample (runs as sorted sets), `Report` calls, branches on the results of the exchange calls; loops run\nzero times or once, `shoot` / `shootStep` / `reportErr` inlined, deferred closures run at the exits that passed them -/\n", sp.recv, sp.fn, sp.pkg[len("github.com/yandex/pandora/"):])
		fmt.Fprintf(b, "def %s : List (String × List String) := [\n%s]\n\n", sp.lean, strings.Join(rows, ",\n"))
	}
}
