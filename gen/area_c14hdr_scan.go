package main

// Area "c14hdr", second part (property C14, round 2): the pass / limit / end-of-ammo logic of the four `Scan`
// functions of components/providers/http/decoders, regenerated statement by statement:
//
//	uri.go, uripost.go, raw.go, jsonline.go   `if d.config.Limit != 0 && d.ammoNum >= d.config.Limit { return nil, ErrAmmoLimit }` first
//	uri.go      Scan   the block under `if !d.scanner.Scan() { if d.scanner.Err() == nil { … } }`
//	raw.go      Scan   the block under `if err == io.EOF { … }` / `if err == io.EOF && len(data) == 0 { … }` (conjuncts in any order)
//	uripost.go  Scan   what follows the inner `for { … }` in the body of the outer loop
//	jsonline.go Scan   the check at the top of the `for` body and what follows the `if err != nil { … } else { … }` of the decode
//
// Reading of Go used here (trusted): a statement list over the counters d.ammoNum, d.passNum and the configured
// d.config.Passes is read as
//
//	d.passNum++                                         let passNum := passNum + 1
//	if <cond> { return nil, ErrPassLimit | ErrNoAmmo }  if cond then EofAct.ret <sentinel> passNum else …
//	_, err := d.file.Seek(0, io.SeekStart) (also `=`)   the file is read again from its start: REQUIRED before EofAct.again
//	continue | end of the list                          EofAct.again passNum
//	if err != nil { return nil, err }                   I/O error, not modelled
//	d.line = 0, d.<header accumulator> = …, d.scanner / d.decoder / d.reader = F(d.file) (any constructor F), d.reader.Reset(d.file), err = d.scanner.Err()
//	                                                    no effect on the counters
//
// with <cond> built from ==, !=, >=, && over d.config.Passes / d.config.Limit / d.passNum / d.ammoNum / 0.
// Anything else makes gen fail (broken obligation).

import (
	"fmt"
	"go/ast"
	"go/token"
	"go/types"
	"strings"

	"golang.org/x/tools/go/packages"
)

type c14hdrScanCtx struct {
	t   *tr
	p   *packages.Package
	ctx string
	ok  bool
}

func (x *c14hdrScanCtx) fail(n ast.Node, format string, a ...any) string {
	x.ok = false
	x.t.errs = append(x.t.errs, fmt.Sprintf("%s: unsupported (c14hdr %s): %s", x.p.Fset.Position(n.Pos()), x.ctx, fmt.Sprintf(format, a...)))
	return "(UNSUPPORTED)"
}

func (x *c14hdrScanCtx) val(e ast.Expr) string {
	switch c14hdrSrcText(x.p, e) {
	case "d.config.Passes":
		return "passes"
	case "d.config.Limit":
		return "limit"
	case "d.passNum":
		return "passNum"
	case "d.ammoNum":
		return "ammoNum"
	case "0":
		return "0"
	}
	return x.fail(e, "value %s", c14hdrSrcText(x.p, e))
}

func (x *c14hdrScanCtx) cond(e ast.Expr) string {
	switch v := e.(type) {
	case *ast.ParenExpr:
		return x.cond(v.X)
	case *ast.BinaryExpr:
		switch v.Op {
		case token.LAND:
			return "(" + x.cond(v.X) + " ∧ " + x.cond(v.Y) + ")"
		case token.EQL:
			return "(" + x.val(v.X) + " = " + x.val(v.Y) + ")"
		case token.NEQ:
			return "(" + x.val(v.X) + " ≠ " + x.val(v.Y) + ")"
		case token.GEQ:
			return "(" + x.val(v.X) + " ≥ " + x.val(v.Y) + ")"
		}
	}
	return x.fail(e, "condition %s", c14hdrSrcText(x.p, e))
}

func c14hdrSentinel(name string) string {
	switch name {
	case "ErrPassLimit":
		return "ScanRes.errPass"
	case "ErrNoAmmo":
		return "ScanRes.errNoAmmo"
	case "ErrAmmoLimit":
		return "ScanRes.errLimit"
	}
	return ""
}

// `if cond { return nil, Sentinel }` -> (cond, sentinel)
func (x *c14hdrScanCtx) sentinelIf(s ast.Stmt) (string, string, bool) {
	ifs, ok := s.(*ast.IfStmt)
	if !ok || ifs.Init != nil || ifs.Else != nil || len(ifs.Body.List) != 1 {
		return "", "", false
	}
	ret, ok := ifs.Body.List[0].(*ast.ReturnStmt)
	if !ok || len(ret.Results) != 2 || c14hdrSrcText(x.p, ret.Results[0]) != "nil" {
		return "", "", false
	}
	id, ok := ret.Results[1].(*ast.Ident)
	if !ok || c14hdrSentinel(id.Name) == "" {
		return "", "", false
	}
	return x.cond(ifs.Cond), c14hdrSentinel(id.Name), true
}

// c14hdrIsRereader: `d.scanner = F(d.file)`, `d.decoder = F(d.file)`, `d.reader = F(d.file)` with F any function
func c14hdrIsRereader(p *packages.Package, s ast.Stmt) bool {
	as, ok := s.(*ast.AssignStmt)
	if !ok || len(as.Lhs) != 1 || len(as.Rhs) != 1 {
		return false
	}
	switch c14hdrSrcText(p, as.Lhs[0]) {
	case "d.scanner", "d.decoder", "d.reader":
	default:
		return false
	}
	c, ok := as.Rhs[0].(*ast.CallExpr)
	return ok && len(c.Args) == 1 && c14hdrSrcText(p, c.Args[0]) == "d.file"
}

// the body of an EofAct-valued definition from the statement list at end of file
func (x *c14hdrScanCtx) eofBlock(list []ast.Stmt) string {
	var b strings.Builder
	seek := false
	for i, s := range list {
		txt := c14hdrSrcText(x.p, s)
		if c, sen, ok := x.sentinelIf(s); ok {
			fmt.Fprintf(&b, "  if %s then EofAct.ret %s passNum else\n", c, sen)
			continue
		}
		switch {
		case c14hdrIsRereader(x.p, s):
			// d.scanner / d.decoder / d.reader = <constructor>(d.file): a new reader over the (rewound) file, whatever the
			// constructor is called (bufio.NewScanner, json.NewDecoder, a helper of the package such as newLineScanner)
		case txt == "d.passNum++":
			b.WriteString("  let passNum := passNum + 1\n")
		case txt == "_, err := d.file.Seek(0, io.SeekStart)" || txt == "_, err = d.file.Seek(0, io.SeekStart)":
			seek = true
		case txt == "if err != nil { return nil, err }":
		case txt == "d.line = 0" || txt == "err = d.scanner.Err()" || txt == "d.reader.Reset(d.file)" ||
			txt == "d.scanner = bufio.NewScanner(d.file)" || txt == "d.decoder = json.NewDecoder(d.file)" ||
			txt == "d.Header = http.Header{}" || txt == "d.header = make(http.Header)" ||
			txt == "d.Header = make(http.Header)" || txt == "d.header = http.Header{}":
		case txt == "continue" && i == len(list)-1:
		default:
			x.fail(s, "statement %s", txt)
		}
	}
	if !seek {
		x.fail(list[0], "the block that ends a pass does not seek to the start of the file")
	}
	b.WriteString("  EofAct.again passNum\n")
	return b.String()
}

// the limit check that opens every Scan
func (x *c14hdrScanCtx) limitCheck(fd *ast.FuncDecl) string {
	for _, s := range fd.Body.List {
		if _, isDecl := s.(*ast.DeclStmt); isDecl {
			continue
		}
		c, sen, ok := x.sentinelIf(s)
		if !ok || sen != "ScanRes.errLimit" {
			return x.fail(s, "the first statement of Scan is not the limit check")
		}
		return c
	}
	return x.fail(fd, "empty Scan")
}

func c14hdrFindIf(list []ast.Stmt, p *packages.Package, cond string) *ast.IfStmt {
	var found *ast.IfStmt
	for _, s := range list {
		ast.Inspect(s, func(n ast.Node) bool {
			if ifs, ok := n.(*ast.IfStmt); ok && found == nil && c14hdrSrcText(p, ifs.Cond) == cond {
				found = ifs
			}
			return found == nil
		})
	}
	return found
}

// c14hdrFindEofIf finds the `if` of raw.go's Scan that ends a pass: its condition is a conjunction (any order, any
// parentheses) of exactly one `err == io.EOF` (either operand order, or errors.Is(err, io.EOF)) and any number of
// "nothing was read" conjuncts `len(<v>) == 0` / `<v> == ""` over one identifier. Returns the statement and whether
// a nothing-read conjunct is present.
func c14hdrFindEofIf(list []ast.Stmt, p *packages.Package) (*ast.IfStmt, bool) {
	var conj func(e ast.Expr) []ast.Expr
	conj = func(e ast.Expr) []ast.Expr {
		switch v := e.(type) {
		case *ast.ParenExpr:
			return conj(v.X)
		case *ast.BinaryExpr:
			if v.Op == token.LAND {
				return append(conj(v.X), conj(v.Y)...)
			}
		}
		return []ast.Expr{e}
	}
	isEOF := func(e ast.Expr) bool {
		switch c14hdrSrcText(p, e) {
		case "err == io.EOF", "io.EOF == err", "errors.Is(err, io.EOF)":
			return true
		}
		return false
	}
	isNothing := func(e ast.Expr) bool {
		be, ok := e.(*ast.BinaryExpr)
		if !ok || be.Op != token.EQL {
			return false
		}
		x, y := be.X, be.Y
		if c14hdrSrcText(p, x) == "0" || c14hdrSrcText(p, x) == `""` {
			x, y = y, x
		}
		if call, ok := x.(*ast.CallExpr); ok && c14hdrSrcText(p, call.Fun) == "len" && len(call.Args) == 1 {
			_, isID := call.Args[0].(*ast.Ident)
			return isID && c14hdrSrcText(p, y) == "0"
		}
		_, isID := x.(*ast.Ident)
		return isID && c14hdrSrcText(p, y) == `""`
	}
	var found *ast.IfStmt
	nothing := false
	for _, s := range list {
		ast.Inspect(s, func(n ast.Node) bool {
			ifs, ok := n.(*ast.IfStmt)
			if !ok || found != nil || ifs.Init != nil {
				return found == nil
			}
			eofs, noth, other := 0, 0, 0
			for _, c := range conj(ifs.Cond) {
				switch {
				case isEOF(c):
					eofs++
				case isNothing(c):
					noth++
				default:
					other++
				}
			}
			if eofs == 1 && other == 0 {
				found, nothing = ifs, noth > 0
			}
			return found == nil
		})
	}
	return found, nothing
}

// c14hdrCtxFacts (round 6): how the reading loop of a Scan hands on a cancelled context.  Every `if` of the function whose
// condition (or init `v := ctx.Err()`) asks `ctx.Err() != nil` / `v != nil` must have the body `return nil, X`;
// X = `ctx.Err()`, the init's variable, or a github.com/pkg/errors wrapper of one of them is BARE (pkg/errors.Cause, hence
// core/engine's errutil.IsCtxError, finds the context's own error); anything else (fmt.Errorf / xerrors.Errorf with %w …)
// is not.  Result: (number of such checks, all bare).
func c14hdrCtxFacts(x *c14hdrScanCtx, fd *ast.FuncDecl) (int, bool) {
	n, bare := 0, true
	ast.Inspect(fd.Body, func(nd ast.Node) bool {
		ifs, ok := nd.(*ast.IfStmt)
		if !ok {
			return true
		}
		alias := ""
		if as, ok := ifs.Init.(*ast.AssignStmt); ok && len(as.Lhs) == 1 && len(as.Rhs) == 1 && c14hdrSrcText(x.p, as.Rhs[0]) == "ctx.Err()" {
			alias = c14hdrSrcText(x.p, as.Lhs[0])
		}
		cond := strings.ReplaceAll(c14hdrSrcText(x.p, ifs.Cond), " ", "")
		if !(cond == "ctx.Err()!=nil" || cond == "nil!=ctx.Err()" || (alias != "" && (cond == alias+"!=nil" || cond == "nil!="+alias))) {
			if strings.Contains(cond, "ctx.Err()") || strings.Contains(cond, "ctx.Done()") {
				x.fail(ifs, "a context check of another shape: %s", cond)
			}
			return true
		}
		n++
		if len(ifs.Body.List) != 1 || ifs.Else != nil {
			x.fail(ifs, "the context check does not just return")
			return true
		}
		ret, ok := ifs.Body.List[0].(*ast.ReturnStmt)
		if !ok || len(ret.Results) != 2 || c14hdrSrcText(x.p, ret.Results[0]) != "nil" {
			x.fail(ifs, "the context check does not return (nil, error)")
			return true
		}
		var isBare func(e ast.Expr) bool
		isBare = func(e ast.Expr) bool {
			txt := c14hdrSrcText(x.p, e)
			if txt == "ctx.Err()" || (alias != "" && txt == alias) || txt == "context.Canceled" {
				return true
			}
			if c, ok := e.(*ast.CallExpr); ok && len(c.Args) >= 1 {
				if sel, ok := c.Fun.(*ast.SelectorExpr); ok {
					if id, ok := sel.X.(*ast.Ident); ok {
						if pn, ok := x.p.TypesInfo.Uses[id].(*types.PkgName); ok && pn.Imported().Path() == "github.com/pkg/errors" {
							switch sel.Sel.Name {
							case "Wrap", "Wrapf", "WithMessage", "WithMessagef", "WithStack":
								return isBare(c.Args[0])
							}
						}
					}
				}
			}
			return false
		}
		if !isBare(ret.Results[1]) {
			bare = false
		}
		return true
	})
	return n, bare
}

func c14hdrScan(t *tr, p *packages.Package) string {
	var b strings.Builder
	ctxFacts := func(prefix string, x *c14hdrScanCtx, fd *ast.FuncDecl) {
		n, bare := c14hdrCtxFacts(x, fd)
		if !x.ok {
			return
		}
		fmt.Fprintf(&b, "/-- regenerated from %s (round 6): the reading loop looks at the context (`if ctx.Err() != nil { return nil, … }`, %d place(s)) -/\ndef %sScanChecksCtx : Bool := %v\n\n", x.ctx, n, prefix, n > 0)
		fmt.Fprintf(&b, "/-- regenerated from %s (round 6): every such check returns the context's own error (ctx.Err() itself or a pkg/errors wrapper of it: errutil.IsCtxError recognises it), not one wrapped with %%w -/\ndef %sScanCtxBare : Bool := %v\n\n", x.ctx, prefix, bare)
	}
	emit := func(prefix, file, where string, x *c14hdrScanCtx, limit, body string) {
		if !x.ok {
			return
		}
		fmt.Fprintf(&b, "/-- regenerated from `%s` Scan: the check before anything is read (true ⇒ ErrAmmoLimit) -/\n", file)
		fmt.Fprintf(&b, "def %sScanLimit (limit ammoNum : Nat) : Bool := decide %s\n\n", prefix, limit)
		fmt.Fprintf(&b, "/-- regenerated from `%s` Scan, %s: what happens when the end of the file is reached -/\n", file, where)
		fmt.Fprintf(&b, "def %sEof (passes ammoNum passNum : Nat) : EofAct :=\n%s\n", prefix, body)
	}
	// uri
	{
		x := &c14hdrScanCtx{t: t, p: p, ctx: "uriDecoder.Scan", ok: true}
		fd := c14hdrMethod(p, "uriDecoder", "Scan")
		if fd == nil {
			t.errs = append(t.errs, "c14hdr: uriDecoder.Scan not found")
		} else {
			lim := x.limitCheck(fd)
			outer := c14hdrFindIf(fd.Body.List, p, "!d.scanner.Scan()")
			var inner *ast.IfStmt
			if outer != nil {
				inner = c14hdrFindIf(outer.Body.List, p, "d.scanner.Err() == nil")
			}
			if inner == nil {
				x.fail(fd, "`if !d.scanner.Scan() { if d.scanner.Err() == nil { … } }` not found")
			} else {
				emit("uri", "components/providers/http/decoders/uri.go", "the block under `if !d.scanner.Scan() { if d.scanner.Err() == nil {`", x, lim, x.eofBlock(inner.Body.List))
				ctxFacts("uri", x, fd)
			}
		}
	}
	// raw
	{
		x := &c14hdrScanCtx{t: t, p: p, ctx: "rawDecoder.Scan", ok: true}
		fd := c14hdrMethod(p, "rawDecoder", "Scan")
		if fd == nil {
			t.errs = append(t.errs, "c14hdr: rawDecoder.Scan not found")
		} else {
			lim := x.limitCheck(fd)
			eof, nothingRead := c14hdrFindEofIf(fd.Body.List, p)
			if eof == nil {
				x.fail(fd, "`if err == io.EOF [&& len(data) == 0] { … }` not found")
			} else {
				emit("raw", "components/providers/http/decoders/raw.go", "the block under `if "+c14hdrSrcText(p, eof.Cond)+" {`", x, lim, x.eofBlock(eof.Body.List))
				if x.ok {
					ctxFacts("raw", x, fd)
					fmt.Fprintf(&b, "/-- regenerated from raw.go Scan: the end-of-file block is entered only when ReadString returned io.EOF AND no data (a last line without its newline is still decoded); false = on io.EOF alone -/\ndef rawEofNeedsNoData : Bool := %v\n\n", nothingRead)
				}
			}
		}
	}
	// uripost: for i := 0; i < 2; i++ { for { … break on EOF … } ; <eof block> }
	{
		x := &c14hdrScanCtx{t: t, p: p, ctx: "uripostDecoder.Scan", ok: true}
		fd := c14hdrMethod(p, "uripostDecoder", "Scan")
		if fd == nil {
			t.errs = append(t.errs, "c14hdr: uripostDecoder.Scan not found")
		} else {
			lim := x.limitCheck(fd)
			var outer *ast.ForStmt
			for _, s := range fd.Body.List {
				if f, ok := s.(*ast.ForStmt); ok {
					outer = f
				}
			}
			if outer == nil || len(outer.Body.List) < 2 {
				x.fail(fd, "outer loop not found")
			} else if _, ok := outer.Body.List[0].(*ast.ForStmt); !ok {
				x.fail(outer, "the outer loop does not start with the reading loop")
			} else {
				rounds := c14hdrSrcText(p, outer.Cond)
				emit("uripost", "components/providers/http/decoders/uripost.go", "what follows the reading loop in the body of the outer loop (`"+rounds+"`)", x, lim, x.eofBlock(outer.Body.List[1:]))
				ctxFacts("uripost", x, fd)
			}
		}
	}
	// jsonline (stream of objects)
	{
		x := &c14hdrScanCtx{t: t, p: p, ctx: "jsonlineDecoder.Scan", ok: true}
		fd := c14hdrMethod(p, "jsonlineDecoder", "Scan")
		if fd == nil {
			t.errs = append(t.errs, "c14hdr: jsonlineDecoder.Scan not found")
		} else {
			lim := x.limitCheck(fd)
			var loop *ast.ForStmt
			for _, s := range fd.Body.List {
				if f, ok := s.(*ast.ForStmt); ok && f.Cond == nil {
					loop = f
				}
			}
			if loop == nil || len(loop.Body.List) < 4 {
				x.fail(fd, "the `for { … }` of the stream decoder not found")
			} else {
				c, sen, ok := x.sentinelIf(loop.Body.List[0])
				if !ok || sen != "ScanRes.errPass" {
					x.fail(loop.Body.List[0], "the loop does not start with the pass check")
				}
				// var da entity; err := d.decoder.Decode(&da); if err != nil { … } else { … return }
				at := -1
				for i, s := range loop.Body.List {
					if ifs, ok := s.(*ast.IfStmt); ok && c14hdrSrcText(p, ifs.Cond) == "err != nil" && ifs.Else != nil {
						at = i
					}
				}
				if at < 0 {
					x.fail(loop, "`if err != nil { … } else { … }` after Decode not found")
				} else if x.ok {
					emit("json", "components/providers/http/decoders/jsonline.go", "what follows the decode step when it hit EOF", x, lim, x.eofBlock(loop.Body.List[at+1:]))
					ctxFacts("json", x, fd)
					if x.ok {
						fmt.Fprintf(&b, "/-- regenerated from jsonline.go Scan: the check at the top of every round of the loop (true ⇒ ErrPassLimit) -/\ndef jsonTopCheck (passes passNum : Nat) : Bool := decide %s\n\n", c)
					}
				}
			}
		}
	}
	return b.String()
}
