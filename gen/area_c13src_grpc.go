package main

// Area "c13src", second file (property C13, round 3): the grpc/json provider's handling of pooled ammo objects, re-read from
// the CURRENT source and executed symbolically, statement by statement, in source order:
//
//	components/providers/grpc/ammo.go              (*Ammo).Reset / Invalidate / SetID / IsInvalid / IsValid: the object afterwards,
//	                                               FIELD BY FIELD (a field the method does not assign keeps its old value)
//	components/providers/grpc/grpcjson/provider.go decodeAmmo (both return paths: what the pooled object holds), the body and
//	                                               the condition of the scan loop of Provider.start, and the statements
//	                                               between the end of a pass and the next one
//
// lean/Pandora/Bridge/C13.lean proves each equal to the model of lean/Pandora/Model/C13Grpc.lean for ALL arguments.
// Every identifier of this file carries the prefix `c13src`.

import (
	"fmt"
	"go/ast"
	"go/token"
	"go/types"
	"strings"

	"golang.org/x/tools/go/packages"
)

// Go field of ammo.Ammo -> Lean accessor below a `GObj`
var c13srcGrpcFields = map[string]string{
	"Tag": "f.tag", "Call": "f.call", "Metadata": "f.metadata", "Payload": "f.payload", "id": "id", "isInvalid": "isInvalid",
}

type c13srcGrpcX struct {
	t      *tr
	p      *packages.Package
	fields []string // field names of ammo.Ammo in declaration order
}

func (x *c13srcGrpcX) fail(n ast.Node, format string, a ...any) string {
	pos := ""
	if n != nil {
		pos = x.p.Fset.Position(n.Pos()).String() + ": "
	}
	x.t.errs = append(x.t.errs, pos+"unsupported (c13src grpc): "+fmt.Sprintf(format, a...))
	return "(UNSUPPORTED)"
}

// value expression inside a method of Ammo: parameters, fields of the receiver, constants
func (x *c13srcGrpcX) val(e ast.Expr, recv string, state map[string]string, params map[string]string) string {
	switch y := e.(type) {
	case *ast.ParenExpr:
		return x.val(y.X, recv, state, params)
	case *ast.Ident:
		switch y.Name {
		case "true", "false":
			return y.Name
		case "nil":
			return "[]"
		}
		if l, ok := params[y.Name]; ok {
			return l
		}
	case *ast.BasicLit:
		if y.Kind == token.INT && y.Value == "0" {
			return "0"
		}
		if y.Kind == token.STRING && (y.Value == `""` || y.Value == "``") {
			return "[]"
		}
	case *ast.UnaryExpr:
		if y.Op == token.NOT {
			return "(!" + x.val(y.X, recv, state, params) + ")"
		}
	case *ast.SelectorExpr:
		if id, ok := y.X.(*ast.Ident); ok && id.Name == recv {
			if l, ok := state[y.Sel.Name]; ok {
				return l
			}
		}
	}
	return x.fail(e, "value %s", c13srcText(x.p, e))
}

func c13srcGrpcZero(field string) string {
	switch field {
	case "id":
		return "0"
	case "isInvalid":
		return "false"
	}
	return "[]"
}

func (x *c13srcGrpcX) render(state map[string]string) string {
	return fmt.Sprintf("{ f := { tag := %s, call := %s, metadata := %s, payload := %s }, id := %s, isInvalid := %s }",
		state["Tag"], state["Call"], state["Metadata"], state["Payload"], state["id"], state["isInvalid"])
}

// method: the body of a method of *Ammo executed on the symbolic object `a`; result = Lean text of the object afterwards
// (mutators) or of the returned value (accessors)
func (x *c13srcGrpcX) method(name string, params map[string]string, accessor bool) string {
	fd := c13srcFunc(x.p, "Ammo", name)
	if fd == nil || fd.Recv == nil || len(fd.Recv.List) != 1 || len(fd.Recv.List[0].Names) != 1 {
		return x.fail(nil, "method (*Ammo).%s not found", name)
	}
	recv := fd.Recv.List[0].Names[0].Name
	// the method's own parameter names, in order, stand for the Lean parameters given in `params` by position
	pm := map[string]string{}
	i := 0
	for _, f := range fd.Type.Params.List {
		for _, n := range f.Names {
			pm[n.Name] = params[fmt.Sprint(i)]
			i++
		}
	}
	if i != len(params) {
		return x.fail(fd, "(*Ammo).%s has %d parameters, %d expected", name, i, len(params))
	}
	state := map[string]string{}
	for _, f := range x.fields {
		state[f] = "a." + c13srcGrpcFields[f]
	}
	for _, s := range fd.Body.List {
		switch y := s.(type) {
		case *ast.ReturnStmt:
			if accessor && len(y.Results) == 1 {
				return x.val(y.Results[0], recv, state, pm)
			}
			if !accessor && len(y.Results) == 0 {
				return x.render(state)
			}
			return x.fail(s, "return in (*Ammo).%s", name)
		case *ast.AssignStmt:
			if y.Tok != token.ASSIGN || len(y.Lhs) != len(y.Rhs) {
				return x.fail(s, "assignment %s", c13srcText(x.p, s))
			}
			// `*a = Ammo{…}`: every field is overwritten, a field the literal does not name gets its zero value
			if st, ok := y.Lhs[0].(*ast.StarExpr); ok && len(y.Lhs) == 1 {
				id, isID := st.X.(*ast.Ident)
				cl, isCL := y.Rhs[0].(*ast.CompositeLit)
				if !isID || id.Name != recv || !isCL || c13srcText(x.p, cl.Type) != "Ammo" {
					return x.fail(s, "assignment %s", c13srcText(x.p, s))
				}
				next := map[string]string{}
				for _, f := range x.fields {
					next[f] = c13srcGrpcZero(f)
				}
				for k, el := range cl.Elts {
					if kv, ok := el.(*ast.KeyValueExpr); ok {
						key := c13srcText(x.p, kv.Key)
						if _, known := next[key]; !known {
							return x.fail(el, "field %s", key)
						}
						next[key] = x.val(kv.Value, recv, state, pm)
					} else {
						if k >= len(x.fields) {
							return x.fail(el, "too many values in the literal")
						}
						next[x.fields[k]] = x.val(el, recv, state, pm)
					}
				}
				state = next
				continue
			}
			// a.X, a.Y = e1, e2 (all right-hand sides are evaluated first)
			vals := make([]string, len(y.Rhs))
			for k, r := range y.Rhs {
				vals[k] = x.val(r, recv, state, pm)
			}
			for k, l := range y.Lhs {
				sel, ok := l.(*ast.SelectorExpr)
				if !ok || c13srcText(x.p, sel.X) != recv {
					return x.fail(s, "assignment target %s", c13srcText(x.p, l))
				}
				if _, known := state[sel.Sel.Name]; !known {
					return x.fail(s, "field %s", sel.Sel.Name)
				}
				state[sel.Sel.Name] = vals[k]
			}
		default:
			return x.fail(s, "statement of (*Ammo).%s: %s", name, c13srcText(x.p, s))
		}
	}
	if accessor {
		return x.fail(fd, "(*Ammo).%s returns nothing", name)
	}
	return x.render(state)
}

// ---------------------------------------------------------------- grpcjson: decodeAmmo, Provider.start

type c13srcGrpcJ struct {
	t *tr
	p *packages.Package
}

func (x *c13srcGrpcJ) fail(n ast.Node, format string, a ...any) string {
	pos := ""
	if n != nil {
		pos = x.p.Fset.Position(n.Pos()).String() + ": "
	}
	x.t.errs = append(x.t.errs, pos+"unsupported (c13src grpcjson): "+fmt.Sprintf(format, a...))
	return "(UNSUPPORTED)"
}

// argument of am.Reset inside decodeAmmo
func (x *c13srcGrpcJ) resetArg(e ast.Expr, decoded string) string {
	t := c13srcText(x.p, e)
	switch t {
	case `""`, "nil":
		return "[]"
	case decoded + ".Tag":
		return "p.tag"
	case decoded + ".Call":
		return "p.call"
	case decoded + ".Metadata":
		return "p.metadata"
	case decoded + ".Payload":
		return "p.payload"
	}
	return x.fail(e, "argument of Reset: %s", t)
}

// decodeAmmo: statements executed on the symbolic pooled object `am`; haveP = the line was decoded (`p` = its fields)
func (x *c13srcGrpcJ) decode(stmts []ast.Stmt, am, pooled, decoded string, haveP bool) string {
	if len(stmts) == 0 {
		return x.fail(nil, "decodeAmmo: no return")
	}
	s, rest := stmts[0], stmts[1:]
	text := c13srcText(x.p, s)
	switch y := s.(type) {
	case *ast.DeclStmt:
		return x.decode(rest, am, pooled, decoded, haveP)
	case *ast.ReturnStmt:
		if len(y.Results) == 2 && c13srcText(x.p, y.Results[0]) == pooled {
			if c13srcIsNil(y.Results[1]) {
				return "(" + am + ", false)"
			}
			return "(" + am + ", true)"
		}
	case *ast.ExprStmt:
		if c, ok := y.X.(*ast.CallExpr); ok {
			switch c13srcText(x.p, c.Fun) {
			case pooled + ".Reset":
				if len(c.Args) == 4 {
					if !haveP {
						for _, a := range c.Args {
							if t := c13srcText(x.p, a); t != `""` && t != "nil" {
								return x.fail(a, "Reset with a decoded field on the error path: %s", t)
							}
						}
					}
					args := make([]string, 4)
					for i, a := range c.Args {
						args[i] = x.resetArg(a, decoded)
					}
					return x.decode(rest, "(ammoReset "+am+" "+strings.Join(args, " ")+")", pooled, decoded, haveP)
				}
			case pooled + ".Invalidate":
				return x.decode(rest, "(ammoInvalidate "+am+")", pooled, decoded, haveP)
			}
		}
	case *ast.IfStmt:
		if y.Init == nil && y.Else == nil && c13srcText(x.p, y.Cond) == "err != nil" {
			n := len(y.Body.List)
			if n == 0 {
				return x.fail(s, "empty error branch")
			}
			if _, isRet := y.Body.List[n-1].(*ast.ReturnStmt); !isRet {
				return x.fail(s, "the error branch of decodeAmmo does not return")
			}
			return "match parsed with\n  | none => " + x.decode(y.Body.List, am, pooled, decoded, false) +
				"\n  | some p => " + x.decode(rest, am, pooled, decoded, true)
		}
	}
	return x.fail(s, "statement of decodeAmmo: %s", text)
}

// body of the scan loop of Provider.start -> Lean text of type `Option (Option GObj × Int)`:
// none = the function returns an error, some (sent, ammoNum) = next line, `sent` went to the sink
func (x *c13srcGrpcJ) body(stmts []ast.Stmt, ind string) string {
	if len(stmts) == 0 {
		return ind + "some (none, ammoNum)"
	}
	s, rest := stmts[0], stmts[1:]
	text := c13srcText(x.p, s)
	cond := func(e ast.Expr) string {
		switch c13srcText(x.p, e) {
		case "err != nil":
			return "err = true"
		case "err == nil":
			return "err = false"
		case "p.Config.ContinueOnError", "p.ContinueOnError":
			return "coe = true"
		case "!p.Config.ContinueOnError", "!p.ContinueOnError":
			return "coe = false"
		case "!confutil.IsChosenCase(a.Tag, p.Config.ChosenCases)", "!confutil.IsChosenCase(a.Tag, p.ChosenCases)":
			return "chosen a.f.tag = false"
		case "confutil.IsChosenCase(a.Tag, p.Config.ChosenCases)", "confutil.IsChosenCase(a.Tag, p.ChosenCases)":
			return "chosen a.f.tag = true"
		}
		return x.fail(e, "condition %s", c13srcText(x.p, e))
	}
	switch y := s.(type) {
	case *ast.AssignStmt:
		switch text {
		case "data := scanner.Bytes()":
			return x.body(rest, ind)
		case "a, err := decodeAmmo(data, p.Pool.Get().(*ammo.Ammo))":
			return ind + "let r := decodeAmmo parsed pooled\n" + ind + "let a := r.1\n" + ind + "let err := r.2\n" + x.body(rest, ind)
		}
	case *ast.IncDecStmt:
		if text == "ammoNum++" {
			return ind + "let ammoNum := ammoNum + 1\n" + x.body(rest, ind)
		}
	case *ast.BranchStmt:
		if y.Tok == token.CONTINUE && y.Label == nil {
			return ind + "some (none, ammoNum)"
		}
	case *ast.ReturnStmt:
		if len(y.Results) == 1 && !c13srcIsNil(y.Results[0]) {
			return ind + "none"
		}
	case *ast.ExprStmt:
		if text == "a.Invalidate()" {
			return ind + "let a := ammoInvalidate a\n" + x.body(rest, ind)
		}
	case *ast.IfStmt:
		if y.Init == nil {
			var els []ast.Stmt
			switch e := y.Else.(type) {
			case nil:
			case *ast.BlockStmt:
				els = e.List
			case *ast.IfStmt:
				els = []ast.Stmt{e}
			}
			thenS := append(append([]ast.Stmt(nil), y.Body.List...), rest...)
			elseS := append(append([]ast.Stmt(nil), els...), rest...)
			return ind + "if " + cond(y.Cond) + " then\n" + x.body(thenS, ind+"  ") + "\n" + ind + "else\n" + x.body(elseS, ind+"  ")
		}
	case *ast.SelectStmt:
		sends := 0
		for _, c := range y.Body.List {
			cc, ok := c.(*ast.CommClause)
			if !ok {
				return ind + x.fail(c, "select clause")
			}
			switch ct := c13srcText(x.p, cc.Comm); ct {
			case "p.Sink <- a":
				if len(cc.Body) != 0 {
					return ind + x.fail(c, "statements after the send")
				}
				sends++
			case "<-ctx.Done()":
				// cancellation (C08's subject): the run ends without an error
			default:
				return ind + x.fail(c, "select clause %s", ct)
			}
		}
		if sends == 1 && len(rest) == 0 {
			return ind + "some (some a, ammoNum)"
		}
	}
	return ind + x.fail(s, "statement of the scan loop: %s", text)
}

// statements of one round of the outer loop of Provider.start, the scan loop itself left out:
// 0 = the file is sought to its start and scanned again | 1 = break (the run ends well) | 2 = "no ammo in file" |
// 3 = the scanner's error is returned | 4 = scanned again without a seek
func (x *c13srcGrpcJ) passEnd(stmts []ast.Stmt, sought bool, ind string) string {
	if len(stmts) == 0 {
		if sought {
			return ind + "0"
		}
		return ind + "4"
	}
	s, rest := stmts[0], stmts[1:]
	text := c13srcText(x.p, s)
	cx := &c13srcX{t: x.t, p: x.p, env: map[string]string{"p.Limit": "limit", "p.Passes": "passes", "p.Config.Limit": "limit",
		"p.Config.Passes": "passes", "passNum": "passNum", "ammoNum": "ammoNum"}}
	switch y := s.(type) {
	case *ast.IncDecStmt:
		if text == "passNum++" {
			return ind + "let passNum := passNum + 1\n" + x.passEnd(rest, sought, ind)
		}
	case *ast.ForStmt:
		return x.passEnd(rest, sought, ind) // the scan loop
	case *ast.AssignStmt:
		switch text {
		case "scanner := bufio.NewScanner(ammoFile)", "err := scanner.Err()":
			return x.passEnd(rest, sought, ind)
		case "_, err = ammoFile.Seek(0, 0)", "_, err = ammoFile.Seek(0, io.SeekStart)":
			return x.passEnd(rest, true, ind)
		}
	case *ast.IfStmt:
		if y.Init != nil || y.Else != nil {
			break
		}
		ct := c13srcText(x.p, y.Cond)
		if ct == "p.Config.MaxAmmoSize != 0" || ct == "p.MaxAmmoSize != 0" {
			return x.passEnd(rest, sought, ind) // the scanner's buffer size
		}
		if len(y.Body.List) != 1 {
			break
		}
		switch b := y.Body.List[0].(type) {
		case *ast.BranchStmt:
			if b.Tok == token.BREAK && b.Label == nil {
				return ind + "if " + cx.cond(y.Cond) + " then 1 else\n" + x.passEnd(rest, sought, ind)
			}
		case *ast.ReturnStmt:
			if len(b.Results) == 1 && !c13srcIsNil(b.Results[0]) {
				if ct == "err != nil" {
					if sought {
						return x.passEnd(rest, sought, ind) // the seek's error (the fault cases of the harness)
					}
					return ind + "if scanErr = true then 3 else\n" + x.passEnd(rest, sought, ind)
				}
				return ind + "if " + cx.cond(y.Cond) + " then 2 else\n" + x.passEnd(rest, sought, ind)
			}
		}
	}
	return ind + x.fail(s, "statement of a round of Provider.start: %s", text)
}

func c13srcGrpc(t *tr) string {
	var b strings.Builder
	// ---------------------------------------------------------------- ammo.Ammo
	p := c13srcLoad(t, "github.com/yandex/pandora/components/providers/grpc")
	x := &c13srcGrpcX{t: t, p: p}
	if obj := p.Types.Scope().Lookup("Ammo"); obj == nil {
		x.fail(nil, "type Ammo not found")
	} else if st, ok := obj.Type().Underlying().(*types.Struct); !ok {
		x.fail(nil, "Ammo is not a struct")
	} else {
		for i := 0; i < st.NumFields(); i++ {
			n := st.Field(i).Name()
			if _, known := c13srcGrpcFields[n]; !known {
				x.fail(nil, "field %s of ammo.Ammo is not in the model", n)
			}
			x.fields = append(x.fields, n)
		}
		if len(x.fields) != len(c13srcGrpcFields) {
			x.fail(nil, "ammo.Ammo has %d fields, the model has %d", len(x.fields), len(c13srcGrpcFields))
		}
	}
	b.WriteString("/-- regenerated from `components/providers/grpc/ammo.go` `(*Ammo).Reset`, executed statement by statement: the object\nafterwards, field by field (a field that is not assigned keeps what the pooled object held) -/\n")
	b.WriteString("def ammoReset (a : GObj) (tag call metadata payload : Bytes) : GObj :=\n  " +
		x.method("Reset", map[string]string{"0": "tag", "1": "call", "2": "metadata", "3": "payload"}, false) + "\n\n")
	b.WriteString("/-- `(*Ammo).Invalidate` -/\ndef ammoInvalidate (a : GObj) : GObj :=\n  " + x.method("Invalidate", map[string]string{}, false) + "\n\n")
	b.WriteString("/-- `(*Ammo).SetID` -/\ndef ammoSetID (a : GObj) (id : Nat) : GObj :=\n  " + x.method("SetID", map[string]string{"0": "id"}, false) + "\n\n")
	b.WriteString("/-- `(*Ammo).IsInvalid` -/\ndef ammoIsInvalid (a : GObj) : Bool :=\n  " + x.method("IsInvalid", map[string]string{}, true) + "\n\n")
	b.WriteString("/-- `(*Ammo).IsValid` -/\ndef ammoIsValid (a : GObj) : Bool :=\n  " + x.method("IsValid", map[string]string{}, true) + "\n\n")

	// ---------------------------------------------------------------- grpcjson
	pj := c13srcLoad(t, "github.com/yandex/pandora/components/providers/grpc/grpcjson")
	xj := &c13srcGrpcJ{t: t, p: pj}
	if fd := c13srcFunc(pj, "", "decodeAmmo"); fd == nil {
		xj.fail(nil, "func decodeAmmo not found")
	} else {
		// the pooled object is the second parameter; the decoded value is what Unmarshal is given
		var names []string
		for _, f := range fd.Type.Params.List {
			for _, n := range f.Names {
				names = append(names, n.Name)
			}
		}
		decoded := ""
		ast.Inspect(fd.Body, func(n ast.Node) bool {
			if c, ok := n.(*ast.CallExpr); ok && strings.HasSuffix(c13srcText(pj, c.Fun), ".Unmarshal") && len(c.Args) == 2 {
				if u, ok := c.Args[1].(*ast.UnaryExpr); ok && u.Op == token.AND && len(names) == 2 && c13srcText(pj, c.Args[0]) == names[0] {
					decoded = c13srcText(pj, u.X)
				}
			}
			return true
		})
		if len(names) != 2 || decoded == "" {
			xj.fail(fd, "decodeAmmo(jsonDoc, am): Unmarshal(jsonDoc, &<value>) not found")
		} else {
			var stmts []ast.Stmt
			for _, s := range fd.Body.List {
				if as, ok := s.(*ast.AssignStmt); ok && strings.Contains(c13srcText(pj, as), ".Unmarshal(") {
					if c13srcText(pj, as.Lhs[0]) != "err" {
						xj.fail(as, "the result of Unmarshal is not `err`")
					}
					continue
				}
				stmts = append(stmts, s)
			}
			b.WriteString("/-- regenerated from `grpcjson/provider.go` `decodeAmmo`, executed statement by statement (`parsed` = what jsoniter made of\nthe line, `am` = the object taken from the pool): (the object handed back, an error is returned) -/\n")
			b.WriteString("def decodeAmmo (parsed : Option GFields) (am : GObj) : GObj × Bool :=\n  " + xj.decode(stmts, "am", names[1], decoded, false) + "\n\n")
		}
	}
	if fd := c13srcFunc(pj, "Provider", "start"); fd == nil {
		xj.fail(nil, "Provider.start not found")
	} else {
		var outer, inner *ast.ForStmt
		for _, s := range fd.Body.List {
			if f, ok := s.(*ast.ForStmt); ok && outer == nil {
				outer = f
			}
		}
		if outer != nil {
			for _, s := range outer.Body.List {
				if f, ok := s.(*ast.ForStmt); ok {
					if inner != nil {
						xj.fail(f, "Provider.start: two scan loops")
					}
					inner = f
				}
			}
		}
		if outer == nil || inner == nil || outer.Cond != nil || outer.Init != nil || outer.Post != nil {
			xj.fail(fd, "Provider.start: `for { … for …; scanner.Scan() && …; … { … } … }` not found")
		} else {
			b.WriteString("/-- regenerated from `grpcjson/provider.go` `Provider.start`, the body of the scan loop, executed in source order (`pooled` = what\n`p.Pool.Get()` answered): `none` = the function returns an error, `some (sent, ammoNum)` = on to the next line, `sent` went to the sink -/\n")
			b.WriteString("def startBody (coe : Bool) (chosen : Bytes → Bool) (parsed : Option GFields) (pooled : GObj) (ammoNum : Int) : Option (Option GObj × Int) :=\n")
			b.WriteString(xj.body(inner.Body.List, "  ") + "\n\n")
			// the loop condition: scanner.Scan() first, then the limit
			cx := &c13srcX{t: t, p: pj, env: map[string]string{"p.Limit": "limit", "p.Config.Limit": "limit", "ammoNum": "ammoNum"}}
			be, ok := inner.Cond.(*ast.BinaryExpr)
			if !ok || be.Op != token.LAND || c13srcText(pj, be.X) != "scanner.Scan()" {
				xj.fail(inner, "scan loop condition is not `scanner.Scan() && …`: %s", c13srcText(pj, inner.Cond))
			} else {
				b.WriteString("/-- the condition of the scan loop after `scanner.Scan() &&` -/\n")
				b.WriteString("def startLoopCond (limit ammoNum : Int) : Prop := " + cx.cond(be.Y) + "\n")
				b.WriteString("instance (limit ammoNum : Int) : Decidable (startLoopCond limit ammoNum) := by unfold startLoopCond; exact inferInstance\n\n")
			}
			b.WriteString("/-- one round of the outer loop of `Provider.start` without the scan loop, in source order (`passNum` before the round, `ammoNum`\nand `scanErr` after the scan loop): 0 = sought to the start and scanned again | 1 = break | 2 = \"no ammo in file\" |\n3 = the scanner's error is returned | 4 = scanned again without a seek -/\n")
			b.WriteString("def grpcPassEnd (limit passes passNum ammoNum : Int) (scanErr : Bool) : Int :=\n" + xj.passEnd(outer.Body.List, false, "  ") + "\n\n")
		}
	}
	return b.String()
}
