package main

// Area "c02cb" (property C02): what the methods of coreutil.callbackOnFinishSchedule do, re-extracted from the
// CURRENT source of core/coreutil/schedule.go. For every method of the wrapper type a row is emitted for every
// effectful statement that is not the call of the wrapped schedule itself:
//
//	⟨method, wrapped method called (whose results are returned), path condition on those results, action⟩
//
// The path condition is tracked through `if c { … }` and `if c { …; return }` (so `if !ok { Do }` and
// `if ok { return }; Do` give the same row) and is expressed over the results of the wrapped call whatever the
// locals are called: notOk / isOk (second result), eqZero / neZero (first result). The action `x.Do(f)` is
// recorded with the TYPE of `x` (sync.Once is what the model assumes) and the name of the field `f`.
// Anything the walker does not understand becomes an `.other "<source text>"` row (the bridge lemma then fails;
// gen itself does not).

import (
	"bytes"
	"fmt"
	"go/ast"
	"go/printer"
	"go/token"
	"go/types"
	"sort"
	"strconv"
	"strings"

	"golang.org/x/tools/go/packages"
)

func init() {
	areas["c02cb"] = area{
		pkgPath:   "github.com/yandex/pandora/core/coreutil",
		module:    "C02Cb",
		namespace: "Pandora.Gen.C02Cb",
		imports:   []string{"Pandora.Model.C02Ns"},
		extra:     c02cbExtra,
	}
}

func c02cbSrc(p *packages.Package, n ast.Node) string {
	var b bytes.Buffer
	_ = printer.Fprint(&b, p.Fset, n)
	return strings.Join(strings.Fields(b.String()), " ")
}

func c02cbDeref(t types.Type) types.Type {
	if pt, ok := t.(*types.Pointer); ok {
		return pt.Elem()
	}
	return t
}

// c02cbInlined: unexported helper methods of the wrapper that were read in place at a call site; they have no rows of
// their own (what they do is accounted for where they are called)
var c02cbInlined = map[string]bool{}

type c02cbWalk struct {
	p      *packages.Package
	method string
	recv   types.Object
	depth  int          // helper methods being read in place
	inner  string       // method of the wrapped schedule that was called
	val    types.Object // its first result
	ok     types.Object // its second result (Next)
	named  []types.Object
	rows   [][4]string
	retBad string
}

func (w *c02cbWalk) obj(e ast.Expr) types.Object {
	id, ok := e.(*ast.Ident)
	if !ok {
		return nil
	}
	if o := w.p.TypesInfo.Uses[id]; o != nil {
		return o
	}
	return w.p.TypesInfo.Defs[id]
}

func (w *c02cbWalk) isRecv(e ast.Expr) bool { o := w.obj(e); return o != nil && o == w.recv }

// cond normalises a condition over the results of the wrapped call; neg = negated.
func (w *c02cbWalk) cond(e ast.Expr, neg bool) string {
	switch x := e.(type) {
	case *ast.ParenExpr:
		return w.cond(x.X, neg)
	case *ast.UnaryExpr:
		if x.Op == token.NOT {
			return w.cond(x.X, !neg)
		}
	case *ast.Ident:
		if o := w.obj(x); o != nil && o == w.ok {
			if neg {
				return ".notOk"
			}
			return ".isOk"
		}
	case *ast.BinaryExpr:
		if x.Op == token.EQL || x.Op == token.NEQ {
			isZero := func(e ast.Expr) bool {
				tv, ok := w.p.TypesInfo.Types[e]
				return ok && tv.Value != nil && tv.Value.ExactString() == "0"
			}
			isVal := func(e ast.Expr) bool { o := w.obj(e); return o != nil && o == w.val && w.ok == nil }
			if (isVal(x.X) && isZero(x.Y)) || (isZero(x.X) && isVal(x.Y)) {
				if (x.Op == token.EQL) != neg {
					return ".eqZero"
				}
				return ".neZero"
			}
		}
	}
	s := c02cbSrc(w.p, e)
	if neg {
		s = "!(" + s + ")"
	}
	return ".other " + strconv.Quote(s)
}

func (w *c02cbWalk) row(cond, act string) { w.rows = append(w.rows, [4]string{w.method, w.inner, cond, act}) }

func c02cbAnd(a, b string) string {
	if a == "" {
		return b
	}
	return ".other " + strconv.Quote(a+" && "+b)
}

func c02cbShow(c string) string {
	if c == "" {
		return ".always"
	}
	return c
}

// innerCall recognises `s.Schedule.M()` (the embedded wrapped schedule).
func (w *c02cbWalk) innerCall(e ast.Expr) (string, bool) {
	call, ok := e.(*ast.CallExpr)
	if !ok || len(call.Args) != 0 {
		return "", false
	}
	sel, ok := call.Fun.(*ast.SelectorExpr)
	if !ok {
		return "", false
	}
	in, ok := sel.X.(*ast.SelectorExpr)
	if !ok || !w.isRecv(in.X) {
		return "", false
	}
	if v, ok := w.p.TypesInfo.Uses[in.Sel].(*types.Var); !ok || !v.Embedded() {
		return "", false
	}
	return sel.Sel.Name, true
}

// walk returns true when control cannot reach the end of the list.
func (w *c02cbWalk) walk(stmts []ast.Stmt, cond string) bool {
	for _, st := range stmts {
		switch x := st.(type) {
		case *ast.AssignStmt:
			if len(x.Rhs) == 1 {
				if m, ok := w.innerCall(x.Rhs[0]); ok && w.inner == "" && cond == "" {
					w.inner = m
					if len(x.Lhs) >= 1 {
						w.val = w.obj(x.Lhs[0])
					}
					if len(x.Lhs) >= 2 {
						w.ok = w.obj(x.Lhs[1])
					}
					continue
				}
			}
			w.row(c02cbShow(cond), ".other "+strconv.Quote(c02cbSrc(w.p, st)))
		case *ast.IfStmt:
			if x.Init != nil || x.Else != nil {
				w.row(c02cbShow(cond), ".other "+strconv.Quote(c02cbSrc(w.p, st)))
				continue
			}
			term := w.walk(x.Body.List, c02cbAnd(cond, w.cond(x.Cond, false)))
			if term {
				cond = c02cbAnd(cond, w.cond(x.Cond, true))
			}
		case *ast.ExprStmt:
			call, ok := x.X.(*ast.CallExpr)
			if ok {
				if sel, ok := call.Fun.(*ast.SelectorExpr); ok && sel.Sel.Name == "Do" && len(call.Args) == 1 {
					if g, ok := call.Args[0].(*ast.SelectorExpr); ok && w.isRecv(g.X) {
						if f, ok := sel.X.(*ast.SelectorExpr); ok && w.isRecv(f.X) {
							ty := types.TypeString(w.p.TypesInfo.TypeOf(f), nil)
							w.row(c02cbShow(cond), fmt.Sprintf(".guardedCall %s %s", strconv.Quote(ty), strconv.Quote(g.Sel.Name)))
							continue
						}
					}
				}
			}
			// s.helper(): a method of the wrapper without parameters and results (an extracted helper): its statements in
			// place, under the same path condition (round 6)
			if ok && len(call.Args) == 0 && w.depth < 2 {
				if sel, ok := call.Fun.(*ast.SelectorExpr); ok && w.isRecv(sel.X) {
					if si := w.p.TypesInfo.Selections[sel]; si != nil && si.Kind() == types.MethodVal {
						var callee *ast.FuncDecl
						for _, f := range w.p.Syntax {
							for _, d := range f.Decls {
								if fd, ok := d.(*ast.FuncDecl); ok && fd.Body != nil && w.p.TypesInfo.Defs[fd.Name] == si.Obj() {
									callee = fd
								}
							}
						}
						if callee != nil && callee.Type.Params.NumFields() == 0 && (callee.Type.Results == nil || callee.Type.Results.NumFields() == 0) &&
							len(callee.Recv.List) == 1 && len(callee.Recv.List[0].Names) == 1 {
							hasRet := false
							ast.Inspect(callee.Body, func(n ast.Node) bool {
								if _, isRet := n.(*ast.ReturnStmt); isRet {
									hasRet = true
								}
								return !hasRet
							})
							if !hasRet {
								c02cbInlined[callee.Name.Name] = true
								saved := w.recv
								w.recv = w.p.TypesInfo.Defs[callee.Recv.List[0].Names[0]]
								w.depth++
								w.walk(callee.Body.List, cond)
								w.depth--
								w.recv = saved
								continue
							}
						}
					}
				}
			}
			w.row(c02cbShow(cond), ".other "+strconv.Quote(c02cbSrc(w.p, st)))
		case *ast.ReturnStmt:
			// must hand back exactly the results of the wrapped call
			want := []types.Object{w.val}
			if w.ok != nil {
				want = append(want, w.ok)
			}
			good := true
			if len(x.Results) == 0 {
				good = len(w.named) == len(want)
				for i := range want {
					if good && w.named[i] != want[i] {
						good = false
					}
				}
			} else {
				good = len(x.Results) == len(want)
				for i := range want {
					if good && (w.obj(x.Results[i]) == nil || w.obj(x.Results[i]) != want[i]) {
						good = false
					}
				}
			}
			if !good || w.inner == "" {
				w.row(c02cbShow(cond), ".other "+strconv.Quote(c02cbSrc(w.p, st)))
			}
			return true
		default:
			w.row(c02cbShow(cond), ".other "+strconv.Quote(c02cbSrc(w.p, st)))
		}
	}
	return false
}

func c02cbExtra(t *tr) string {
	p := t.pkg
	c02cbInlined = map[string]bool{}
	const typeName = "callbackOnFinishSchedule"
	var rows [][4]string
	var fields [][2]string
	found := false
	for _, f := range p.Syntax {
		for _, d := range f.Decls {
			switch x := d.(type) {
			case *ast.GenDecl:
				for _, sp := range x.Specs {
					ts, ok := sp.(*ast.TypeSpec)
					if !ok || ts.Name.Name != typeName {
						continue
					}
					st, ok := ts.Type.(*ast.StructType)
					if !ok {
						continue
					}
					found = true
					for _, fl := range st.Fields.List {
						ty := types.TypeString(p.TypesInfo.TypeOf(fl.Type), nil)
						if len(fl.Names) == 0 {
							fields = append(fields, [2]string{"(embedded)", ty})
						}
						for _, n := range fl.Names {
							fields = append(fields, [2]string{n.Name, ty})
						}
					}
				}
			case *ast.FuncDecl:
				if x.Body == nil || x.Recv == nil || len(x.Recv.List) != 1 {
					continue
				}
				n, ok := c02cbDeref(p.TypesInfo.TypeOf(x.Recv.List[0].Type)).(*types.Named)
				if !ok || n.Obj().Name() != typeName {
					continue
				}
				w := &c02cbWalk{p: p, method: x.Name.Name}
				if len(x.Recv.List[0].Names) == 1 {
					w.recv = p.TypesInfo.Defs[x.Recv.List[0].Names[0]]
				}
				if x.Type.Results != nil {
					for _, r := range x.Type.Results.List {
						for _, nm := range r.Names {
							w.named = append(w.named, p.TypesInfo.Defs[nm])
						}
					}
				}
				term := w.walk(x.Body.List, "")
				if !term && x.Type.Results != nil && len(x.Type.Results.List) > 0 {
					w.row(".always", `.other "falls off the end"`)
				}
				if len(w.rows) == 0 {
					w.row(".always", ".nothing")
				}
				for i := range w.rows {
					w.rows[i][1] = w.inner
				}
				rows = append(rows, w.rows...)
			}
		}
	}
	if !found {
		t.errs = append(t.errs, "type "+typeName+" not found in "+p.PkgPath)
	}
	{
		var kept [][4]string
		for _, r := range rows {
			if c02cbInlined[r[0]] && r[0] != "" && !ast.IsExported(r[0]) {
				continue
			}
			kept = append(kept, r)
		}
		rows = kept
	}
	sort.Slice(rows, func(i, j int) bool {
		for c := 0; c < 4; c++ {
			if rows[i][c] != rows[j][c] {
				return rows[i][c] < rows[j][c]
			}
		}
		return false
	})
	sort.Slice(fields, func(i, j int) bool { return fields[i][0] < fields[j][0] })
	var b strings.Builder
	b.WriteString("/-- regenerated from `core/coreutil/schedule.go`: the fields of `callbackOnFinishSchedule` with their types -/\n")
	b.WriteString("def cbFields : List (String × String) := [\n")
	for i, f := range fields {
		sep := ","
		if i == len(fields)-1 {
			sep = ""
		}
		fmt.Fprintf(&b, "  (%s, %s)%s\n", strconv.Quote(f[0]), strconv.Quote(f[1]), sep)
	}
	b.WriteString("]\n\n")
	b.WriteString("/-- regenerated from `core/coreutil/schedule.go`: per method of the wrapper, which method of the wrapped schedule it\ncalls and returns the results of, and what else it does, under which condition on those results (a set: sorted) -/\n")
	b.WriteString("def cbRows : List C02CbRow := [\n")
	for i, r := range rows {
		sep := ","
		if i == len(rows)-1 {
			sep = ""
		}
		fmt.Fprintf(&b, "  ⟨%s, %s, %s, %s⟩%s\n", strconv.Quote(r[0]), strconv.Quote(r[1]), r[2], r[3], sep)
	}
	b.WriteString("]\n")
	return b.String()
}
