package main

// Area "aggq" (property C06), second part: core/engine — who runs under which context, and the functions
// between the pool's await loop and `Engine.Run`'s return value.
//
// Emitted (Pandora.Gen.AggQ), next to the control skeletons of area_aggq.go:
//
//	engineRun, enginePoolRun, engineRunAsync, engineStartInstances, engineRunNewInstance,
//	engineInstanceRun, engineOnErrAwaited                      control skeletons (locals are $0, $1 …)
//	enginePoolCtxParam : Nat                                   runAsync's context parameter
//	engineCtxDerive    : List (Nat × Nat × Nat)                every `child, cancel := context.WithCancel(parent)` of runAsync
//	engineProviderRunCtx, engineAggregatorRunCtx,
//	engineStartInstancesCtx : List Nat                         the context arguments of the three calls made by the
//	                                                           goroutines runAsync starts
//	engineHandlePoolCtx, …RunCtx, …RunCancel, …InstanceStartCtx,
//	…InstanceStartCancel : Nat                                 the poolAsyncRunHandle literal runAsync returns: field ↦ local
//	engineInstanceGoStmts : Nat                                number of `go` statements in instance.Run (Shoot and Report are
//	                                                           made by the instance's own goroutine iff this is 0)
//	engineInstanceCalls : List String                          the calls instance.Run makes through its own fields, in order
//	engineRunLoopBound : String                                the condition of the result loop of Engine.Run
//
// Contexts and cancel functions are numbers: the locals of runAsync that these facts mention, numbered in order
// of first mention in the function (so renaming them changes nothing).

import (
	"fmt"
	"go/ast"
	"go/types"
	"sort"
	"strings"

	"golang.org/x/tools/go/packages"
)

func aggqIsContext(ty types.Type) bool {
	if ty == nil {
		return false
	}
	n, ok := ty.(*types.Named)
	return ok && n.Obj().Pkg() != nil && n.Obj().Pkg().Path() == "context" && n.Obj().Name() == "Context"
}

// aggqStripRecv: "p.Aggregator.Run" → "Aggregator.Run" when p is the receiver of fd
func aggqStripRecv(fd *ast.FuncDecl, name string) string {
	if fd.Recv != nil && len(fd.Recv.List) == 1 && len(fd.Recv.List[0].Names) == 1 {
		r := fd.Recv.List[0].Names[0].Name + "."
		if strings.HasPrefix(name, r) {
			return name[len(r):]
		}
	}
	return name
}

type aggqLocalNames struct {
	info  *types.Info
	names map[types.Object]string
}

func (l *aggqLocalNames) of(e ast.Expr) (string, bool) {
	id, ok := e.(*ast.Ident)
	if !ok {
		return "", false
	}
	obj := l.info.Defs[id]
	if obj == nil {
		obj = l.info.Uses[id]
	}
	if obj == nil || !aggqIsLocal(obj) {
		return "", false
	}
	n, ok := l.names[obj]
	return n, ok
}

func aggqStrList(xs []string) string {
	var q []string
	for _, x := range xs {
		q = append(q, aggqLeanStr(x))
	}
	return "[" + strings.Join(q, ", ") + "]"
}

func aggqEngineFacts(b *strings.Builder, t *tr, p *packages.Package) {
	for _, e := range [][3]string{
		{"engineRun", "Engine", "Run"},
		{"enginePoolRun", "instancePool", "Run"},
		{"engineRunAsync", "instancePool", "runAsync"},
		{"engineStartInstances", "instancePool", "startInstances"},
		{"engineOnErrAwaited", "runAwaitHandle", "onErrAwaited"},
		{"engineRunNewInstance", "", "runNewInstance"},
	} {
		aggqEmit(b, t, e[0], e[1], e[2], "core/engine/engine.go")
	}
	aggqEmit(b, t, "engineInstanceRun", "instance", "Run", "core/engine/instance.go")

	// ---- runAsync: the context tree and who runs under which context
	fd := aggqFindMethod(p, "instancePool", "runAsync")
	if fd == nil {
		t.errs = append(t.errs, "core/engine/engine.go: (instancePool).runAsync not found")
		return
	}
	info := p.TypesInfo
	// only the locals these facts mention are numbered, in order of first mention in the function
	mentioned := map[types.Object]bool{}
	mention := func(e ast.Expr) {
		if id, ok := e.(*ast.Ident); ok {
			obj := info.Defs[id]
			if obj == nil {
				obj = info.Uses[id]
			}
			if obj != nil && aggqIsLocal(obj) {
				mentioned[obj] = true
			}
		}
	}
	type derive struct{ child, cancel, parent ast.Expr }
	var derives []derive
	type goCall struct {
		callee string
		ctxs   []ast.Expr
	}
	var goCalls []goCall
	type field struct {
		name string
		val  ast.Expr
	}
	var fields []field
	var schedArgs []ast.Expr // the context / cancel-function arguments of the buildNewInstanceSchedule call
	nSchedCalls := 0
	var param ast.Expr
	if fd.Type.Params != nil {
		for _, f := range fd.Type.Params.List {
			if aggqIsContext(info.TypeOf(f.Type)) && len(f.Names) == 1 {
				param = f.Names[0]
				mention(param)
			}
		}
	}
	ast.Inspect(fd.Body, func(n ast.Node) bool {
		switch x := n.(type) {
		case *ast.AssignStmt:
			if len(x.Lhs) == 2 && len(x.Rhs) == 1 {
				if c, ok := x.Rhs[0].(*ast.CallExpr); ok && phoutSrc(t, c.Fun) == "context.WithCancel" && len(c.Args) == 1 {
					derives = append(derives, derive{x.Lhs[0], x.Lhs[1], c.Args[0]})
					mention(x.Lhs[0])
					mention(x.Lhs[1])
					mention(c.Args[0])
				}
			}
		case *ast.CallExpr:
			if strings.HasSuffix(phoutSrc(t, x.Fun), ".buildNewInstanceSchedule") {
				nSchedCalls++
				for _, a := range x.Args {
					if ty := info.TypeOf(a); aggqIsContext(ty) || aggqIsCancelFunc(ty) {
						schedArgs = append(schedArgs, a)
						mention(a)
					}
				}
			}
		case *ast.GoStmt:
			ast.Inspect(x, func(m ast.Node) bool {
				c, ok := m.(*ast.CallExpr)
				if !ok {
					return true
				}
				var ctxs []ast.Expr
				for _, a := range c.Args {
					if aggqIsContext(info.TypeOf(a)) {
						ctxs = append(ctxs, a)
						mention(a)
					}
				}
				if len(ctxs) > 0 {
					goCalls = append(goCalls, goCall{aggqStripRecv(fd, phoutSrc(t, c.Fun)), ctxs})
				}
				return true
			})
			return false
		case *ast.ReturnStmt:
			for _, r := range x.Results {
				u, ok := r.(*ast.UnaryExpr)
				if !ok {
					continue
				}
				cl, ok := u.X.(*ast.CompositeLit)
				if !ok {
					continue
				}
				for _, el := range cl.Elts {
					if kv, ok := el.(*ast.KeyValueExpr); ok {
						if k, ok := kv.Key.(*ast.Ident); ok {
							fields = append(fields, field{k.Name, kv.Value})
							mention(kv.Value)
						}
					}
				}
			}
		}
		return true
	})
	ln := &aggqLocalNames{info: info, names: map[types.Object]string{}}
	// renumber: only mentioned objects, in order of first mention in the source
	{
		type occ struct {
			obj types.Object
			pos int
		}
		var occs []occ
		ast.Inspect(fd, func(n ast.Node) bool {
			if id, ok := n.(*ast.Ident); ok {
				obj := info.Defs[id]
				if obj == nil {
					obj = info.Uses[id]
				}
				if obj != nil && mentioned[obj] {
					occs = append(occs, occ{obj, int(id.Pos())})
				}
			}
			return true
		})
		sort.SliceStable(occs, func(i, j int) bool { return occs[i].pos < occs[j].pos })
		k := 0
		done := map[types.Object]bool{}
		for _, o := range occs {
			if !done[o.obj] {
				done[o.obj] = true
				ln.names[o.obj] = fmt.Sprintf("c%d", k)
				k++
			}
		}
	}
	// contexts and cancel functions are numbers: the k of c<k>; 999 = not a local of runAsync
	num := func(e ast.Expr) string {
		if s, ok := ln.of(e); ok && strings.HasPrefix(s, "c") {
			return s[1:]
		}
		t.errs = append(t.errs, fmt.Sprintf("core/engine/engine.go runAsync: %s is not a local", phoutSrc(t, e)))
		return "999"
	}
	nums := func(es []ast.Expr) string {
		var q []string
		for _, e := range es {
			q = append(q, num(e))
		}
		return "[" + strings.Join(q, ", ") + "]"
	}
	b.WriteString("/-- regenerated from `(instancePool).runAsync` (its locals are numbered in order of first mention): the context parameter -/\n")
	if param != nil {
		fmt.Fprintf(b, "def enginePoolCtxParam : Nat := %s\n\n", num(param))
	} else {
		t.errs = append(t.errs, "core/engine/engine.go: runAsync has no context parameter")
		fmt.Fprintf(b, "def enginePoolCtxParam : Nat := 999\n\n")
	}
	b.WriteString("/-- regenerated: every `child, cancel := context.WithCancel(parent)` of runAsync as (child, cancel, parent) -/\n")
	b.WriteString("def engineCtxDerive : List (Nat × Nat × Nat) :=\n  [")
	for i, d := range derives {
		if i > 0 {
			b.WriteString(", ")
		}
		fmt.Fprintf(b, "(%s, %s, %s)", num(d.child), num(d.cancel), num(d.parent))
	}
	b.WriteString("]\n\n")
	b.WriteString("/-- regenerated: the context arguments of the calls made by the goroutines runAsync starts -/\n")
	for _, want := range [][2]string{{"Provider.Run", "engineProviderRunCtx"}, {"Aggregator.Run", "engineAggregatorRunCtx"}, {"startInstances", "engineStartInstancesCtx"}} {
		val := "[]"
		n := 0
		for _, g := range goCalls {
			if g.callee == want[0] {
				val = nums(g.ctxs)
				n++
			}
		}
		if n != 1 {
			t.errs = append(t.errs, fmt.Sprintf("core/engine/engine.go runAsync: %d goroutine calls of %s (want 1)", n, want[0]))
		}
		fmt.Fprintf(b, "def %s : List Nat := %s\n", want[1], val)
	}
	if nSchedCalls != 1 {
		t.errs = append(t.errs, fmt.Sprintf("core/engine/engine.go runAsync: %d calls of buildNewInstanceSchedule (want 1)", nSchedCalls))
	}
	b.WriteString("\n/-- regenerated: the context and cancel-function arguments runAsync passes to `buildNewInstanceSchedule` (the shared schedule's on-finish callback cancels the second one) -/\n")
	fmt.Fprintf(b, "def engineBuildScheduleArgs : List Nat := %s\n", nums(schedArgs))
	b.WriteString("\n/-- regenerated: the `poolAsyncRunHandle` literal runAsync returns: which local each context / cancel field is set to -/\n")
	for _, want := range [][2]string{{"poolCtx", "engineHandlePoolCtx"}, {"runCtx", "engineHandleRunCtx"}, {"runCancel", "engineHandleRunCancel"},
		{"instanceStartCtx", "engineHandleInstanceStartCtx"}, {"instanceStartCancel", "engineHandleInstanceStartCancel"}} {
		val := "999"
		for _, f := range fields {
			if f.name == want[0] {
				val = num(f.val)
			}
		}
		if val == "999" {
			t.errs = append(t.errs, "core/engine/engine.go runAsync: handle field "+want[0]+" not set")
		}
		fmt.Fprintf(b, "def %s : Nat := %s\n", want[1], val)
	}
	b.WriteString("\n")

	// ---- instance.Run: Shoot and Report are plain calls of the instance's own goroutine
	if ifd := aggqFindMethod(p, "instance", "Run"); ifd != nil {
		gos := 0
		var calls []string
		ast.Inspect(ifd.Body, func(n ast.Node) bool {
			switch x := n.(type) {
			case *ast.GoStmt:
				gos++
			case *ast.CallExpr:
				name := phoutSrc(t, x.Fun)
				if _, isLit := x.Fun.(*ast.FuncLit); isLit {
					return true
				}
				tv, ok := info.Types[x.Fun]
				if ok && (tv.IsType() || tv.IsBuiltin()) {
					return true
				}
				if aggqSkelIgnoredCallee(name) || strings.HasSuffix(name, ".Debug") {
					return true
				}
				if st := aggqStripRecv(ifd, name); st != name {
					calls = append(calls, st) // only what goes through the instance's own fields
				}
			}
			return true
		})
		fmt.Fprintf(b, "/-- regenerated from `(instance).Run`: number of `go` statements, and the calls it makes through its own fields (source order, receiver stripped, logging dropped) -/\n")
		fmt.Fprintf(b, "def engineInstanceGoStmts : Nat := %d\ndef engineInstanceCalls : List String :=\n  %s\n\n", gos, aggqStrList(calls))
	} else {
		t.errs = append(t.errs, "core/engine/instance.go: (instance).Run not found")
	}

	// ---- Engine.Run: the bound of the loop that receives the pools' results
	if efd := aggqFindMethod(p, "Engine", "Run"); efd != nil {
		bound := ""
		for _, st := range efd.Body.List {
			if f, ok := st.(*ast.ForStmt); ok && f.Cond != nil {
				s := &aggqSkel{t: t}
				bound = aggqRenumber(s.csrc(f.Cond))
			}
		}
		fmt.Fprintf(b, "/-- regenerated from `(Engine).Run`: the condition of the loop that receives one result per pool -/\n")
		fmt.Fprintf(b, "def engineRunLoopBound : String := %s\n\n", aggqLeanStr(bound))
	}
}
