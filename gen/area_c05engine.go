package main

// Area "c05engine" (property C05): a structural reading of the engine's run / await / cleanup code, regenerated from
// the CURRENT source into lean/Pandora/Gen/C05Engine.lean (core-only; vocabulary in lean/Pandora/Model/C05Src.lean).
//
//	lib/errutil/errutil.go   IsCtxError                       -> Lean function `isCtxError` (translated statement by statement)
//	core/engine/engine.go    (*runAwaitHandle).onErrAwaited   -> paths (which context the select listens on)
//	                         (*runAwaitHandle).awaitRun       -> one path list per case of the select of the await loop
//	                         (*runAwaitHandle).checkAllInstancesAreFinished -> its guard as a Lean function + paths
//	                         (*instancePool).Run, awaitRunAsync, warmUpGun, runNewInstance, startInstances -> paths
//	                         (*Engine).Run, (*Engine).Wait    -> paths
//	core/engine/instance.go  newInstance, (*instance).Run (deferred recover), (*instance).Close, closeGun -> paths
//	cli/cli.go               awaitPandoraTermination (branch `err := <-errs` of the outer select), runEngine -> paths
//
// A *path* is one way through a function body: the list of its events in execution order (see C05Src.lean).
// The extractor only enumerates paths; what they MEAN (which context, which return paths call onWaitDone / closeGun,
// that they are the code variant the model describes) is decided in Lean: lean/Pandora/Bridge/C05Engine.lean.
//
// Reading of Go used here (trusted):
//   - `if err != nil {A}; B`  -> A is the path on which the call that assigned `err` last FAILED (`fail:f`), B the one on
//     which it succeeded (`ok:f`); the same for `if err := f(); err != nil`
//   - `if x.cb != nil { x.cb() }` with cb a func-typed field: the guard is taken (the engine always sets the callback;
//     that `newPool` receives `e.wait.Done` is a path fact of Engine.Run)
//   - calls are recorded by their last name, inner calls before outer ones; calls inside a function literal are
//     recorded only when the literal is invoked on the spot, deferred or started with `go` (prefix `defer:` / `go:`);
//     a literal passed as an argument is not entered; logging (`*.log.*`, `ent.Write`) is not recorded
//   - a `for` body is explored for zero and for one iteration
//
// Statements the walker does not know make gen fail (a broken obligation), never a silent skip.

import (
	"bytes"
	"fmt"
	"go/ast"
	"go/parser"
	"go/printer"
	"go/token"
	"go/types"
	"path/filepath"
	"sort"
	"strconv"
	"strings"
)

func init() {
	areas["c05engine"] = area{
		pkgPath:   "github.com/yandex/pandora/core/engine",
		module:    "C05Engine",
		namespace: "Pandora.Gen.C05Engine",
		imports:   []string{"Pandora.Model.C05Src"},
		extra:     c05engineExtra,
	}
}

type c05eX struct {
	t    *tr
	fset *token.FileSet
	// canonical names of receivers, parameters, results and local variables (by what defines them, not by how they
	// are spelled): the emitted texts do not change when a local is renamed
	names map[*ast.Object]string
}

func (x *c05eX) fail(n ast.Node, format string, a ...any) {
	msg := fmt.Sprintf("%s: unsupported (c05engine area): %s", x.fset.Position(n.Pos()), fmt.Sprintf(format, a...))
	x.t.errs = append(x.t.errs, msg)
}

// rawSrc: the source text as written
func (x *c05eX) rawSrc(n ast.Node) string {
	var b bytes.Buffer
	_ = printer.Fprint(&b, x.fset, n)
	return strings.Join(strings.Fields(b.String()), " ")
}

// src: the source text with every receiver / parameter / result / local variable spelled canonically
func (x *c05eX) src(n ast.Node) string {
	type saved struct {
		id   *ast.Ident
		name string
	}
	var undo []saved
	keys := map[*ast.Ident]bool{} // `field: value` of a composite literal: the key is a field name, not a variable
	ast.Inspect(n, func(m ast.Node) bool {
		if cl, ok := m.(*ast.CompositeLit); ok {
			for _, el := range cl.Elts {
				if kv, ok := el.(*ast.KeyValueExpr); ok {
					if id, ok := kv.Key.(*ast.Ident); ok {
						keys[id] = true
					}
				}
			}
		}
		return true
	})
	ast.Inspect(n, func(m ast.Node) bool {
		if id, ok := m.(*ast.Ident); ok && id.Obj != nil && !keys[id] {
			if cn, ok := x.names[id.Obj]; ok {
				undo = append(undo, saved{id, id.Name})
				id.Name = cn
			}
		}
		return true
	})
	out := x.rawSrc(n)
	for _, u := range undo {
		u.id.Name = u.name
	}
	return out
}

const c05eRecv = "‹recv›"

// c05eCancel: the cancel function of `ctx, cancel := context.WithCancel(ctx)` where ctx is the first parameter
const c05eCancel = "‹WithCancel(arg0)#1›"

// rhsBase: what defines a variable: the callee with its (canonical) arguments, `rx:<channel>` for a receive,
// `assert:<type>` … — so that the name of a variable is determined by how it is computed, not by how it is spelled
func (x *c05eX) rhsBase(e ast.Expr) string {
	short := func(s string) string {
		s = c05eAbbrev(strings.ReplaceAll(s, c05eRecv+".", ""))
		if len([]rune(s)) > 60 {
			return ""
		}
		return s
	}
	switch v := e.(type) {
	case *ast.CallExpr:
		name := x.callName(v)
		var as []string
		for _, a := range v.Args {
			switch a.(type) {
			case *ast.Ident, *ast.SelectorExpr:
				as = append(as, x.src(a))
			default:
				as = append(as, "…")
			}
		}
		if t := short(strings.Join(as, ",")); t != "" && len(as) > 0 {
			return name + "(" + t + ")"
		}
		return name
	case *ast.UnaryExpr:
		if v.Op == token.ARROW {
			return "rx:" + short(x.src(v.X))
		}
		if v.Op == token.AND {
			return "lit"
		}
	case *ast.TypeAssertExpr:
		if v.Type != nil {
			return "assert:" + short(x.src(v.Type))
		}
		return "assert"
	case *ast.FuncLit:
		return "func"
	case *ast.CompositeLit:
		return "lit"
	case *ast.BasicLit:
		return "const"
	case *ast.Ident, *ast.SelectorExpr:
		return "copy:" + short(x.src(e))
	}
	return "expr"
}

// c05eAbbrev: inside the name of a variable the names of other variables are abbreviated to what defines them without
// ITS arguments: ‹WithCancel(‹arg0›)#0› -> WithCancel#0 (names stay short, one level of "computed from" is kept)
func c05eAbbrev(s string) string {
	rs := []rune(s)
	var out []rune
	for i := 0; i < len(rs); i++ {
		if rs[i] != '‹' {
			out = append(out, rs[i])
			continue
		}
		depth, j := 0, i
		for ; j < len(rs); j++ {
			if rs[j] == '‹' {
				depth++
			} else if rs[j] == '›' {
				depth--
				if depth == 0 {
					break
				}
			}
		}
		if j >= len(rs) {
			out = append(out, rs[i:]...)
			break
		}
		inner := rs[i+1 : j]
		// drop the parenthesised argument list
		var name []rune
		pd := 0
		for _, r := range inner {
			switch {
			case r == '(':
				pd++
			case r == ')':
				pd--
			case pd == 0:
				name = append(name, r)
			}
		}
		out = append(out, name...)
		i = j
	}
	return string(out)
}

// nameFunc fills x.names for one function: ‹recv›, ‹argK›, ‹resK›, and for a variable defined by `a, b := f(…)` the
// name ‹f#0› / ‹f#1› (‹f› when it is the only one; `@k` for the k-th definition of that kind in the function)
func (x *c05eX) nameFunc(fd *ast.FuncDecl) {
	set := func(id *ast.Ident, name string) {
		if id == nil || id.Obj == nil || id.Name == "_" {
			return
		}
		if _, dup := x.names[id.Obj]; !dup {
			x.names[id.Obj] = name
		}
	}
	if fd.Recv != nil {
		for _, f := range fd.Recv.List {
			for _, n := range f.Names {
				set(n, c05eRecv)
			}
		}
	}
	k := 0
	for _, f := range fd.Type.Params.List {
		for _, n := range f.Names {
			set(n, fmt.Sprintf("‹arg%d›", k))
			k++
		}
	}
	if fd.Type.Results != nil {
		k = 0
		for _, f := range fd.Type.Results.List {
			for _, n := range f.Names {
				set(n, fmt.Sprintf("‹res%d›", k))
				k++
			}
		}
	}
	if fd.Body == nil {
		return
	}
	counts := map[string]int{}
	uniq := func(base string) string {
		counts[base]++
		if counts[base] > 1 {
			return fmt.Sprintf("%s@%d", base, counts[base])
		}
		return base
	}
	ast.Inspect(fd.Body, func(n ast.Node) bool {
		switch s := n.(type) {
		case *ast.AssignStmt:
			if s.Tok != token.DEFINE {
				return true
			}
			defines := func(id *ast.Ident) bool { return id.Obj != nil && id.Obj.Decl == s }
			if len(s.Rhs) == 1 && len(s.Lhs) > 1 {
				base := uniq(x.rhsBase(s.Rhs[0]))
				for i, l := range s.Lhs {
					if id, ok := l.(*ast.Ident); ok && defines(id) {
						set(id, fmt.Sprintf("‹%s#%d›", base, i))
					}
				}
			} else {
				for i, l := range s.Lhs {
					if id, ok := l.(*ast.Ident); ok && defines(id) && i < len(s.Rhs) {
						set(id, "‹"+uniq(x.rhsBase(s.Rhs[i]))+"›")
					}
				}
			}
		case *ast.ValueSpec:
			for i, id := range s.Names {
				base := "var"
				if i < len(s.Values) {
					base = x.rhsBase(s.Values[i])
				}
				set(id, "‹"+uniq(base)+"›")
			}
		case *ast.RangeStmt:
			if s.Tok == token.DEFINE {
				base := uniq("range")
				if id, ok := s.Key.(*ast.Ident); ok {
					set(id, "‹"+base+"#0›")
				}
				if id, ok := s.Value.(*ast.Ident); ok {
					set(id, "‹"+base+"#1›")
				}
			}
		case *ast.FuncLit:
			k := 0
			for _, f := range s.Type.Params.List {
				for _, id := range f.Names {
					set(id, fmt.Sprintf("‹%s#%d›", uniq("litarg"), k))
					k++
				}
			}
		}
		return true
	})
}

func c05eFind(files []*ast.File, recv, name string) *ast.FuncDecl {
	for _, f := range files {
		for _, d := range f.Decls {
			fd, ok := d.(*ast.FuncDecl)
			if !ok || fd.Name.Name != name {
				continue
			}
			if recv == "" {
				if fd.Recv == nil {
					return fd
				}
				continue
			}
			if fd.Recv == nil || len(fd.Recv.List) != 1 {
				continue
			}
			ty := fd.Recv.List[0].Type
			if st, ok := ty.(*ast.StarExpr); ok {
				ty = st.X
			}
			if id, ok := ty.(*ast.Ident); ok && id.Name == recv {
				return fd
			}
		}
	}
	return nil
}

// ---------------------------------------------------------------- calls

// c05eCallName: last name of the called function; `close(x.f)` -> "close:f"
func (x *c05eX) callName(c *ast.CallExpr) string {
	switch f := c.Fun.(type) {
	case *ast.Ident:
		if f.Name == "close" && len(c.Args) == 1 {
			if s, ok := c.Args[0].(*ast.SelectorExpr); ok {
				return "close:" + s.Sel.Name
			}
			return "close:" + x.src(c.Args[0])
		}
		if f.Obj != nil {
			if cn, ok := x.names[f.Obj]; ok {
				return cn // a function-valued parameter or local (`cancel`, `cancelStart`, `gracefulShutdown`)
			}
		}
		return f.Name
	case *ast.SelectorExpr:
		return f.Sel.Name
	case *ast.FuncLit:
		return "<literal>"
	}
	return "<expr>"
}

func (x *c05eX) isLogCall(c *ast.CallExpr) bool {
	s := x.rawSrc(c.Fun)
	return strings.Contains(s, ".log.") || strings.HasPrefix(s, "log.") && !strings.HasSuffix(s, ".Fatal") && !strings.HasSuffix(s, ".Panic") ||
		s == "ent.Write" || strings.HasPrefix(s, "zap.")
}

type c05eWalker struct {
	x *c05eX
	// watched call names; the value says which detail is appended: "" none, "arg0"/"arg1"/"arg2" the source of that
	// argument, "str" the first string literal among the arguments
	watch map[string]string
	limit int
}

func (w *c05eWalker) callEvent(c *ast.CallExpr) (string, bool) {
	name := w.x.callName(c)
	how, ok := w.watch[name]
	if !ok && strings.HasPrefix(name, "close:") {
		how, ok = w.watch["close:*"] // the close of any channel
	}
	if !ok {
		return "", false
	}
	if name == "Fatal" || name == "Panic" {
		// keep log.Fatal / log.Panic (they end the process), drop other logging
	} else if w.x.isLogCall(c) {
		return "", false
	}
	if strings.HasPrefix(how, "recv+") {
		// `x.F.m(args)` -> "F.m": the field the method is called on
		how = how[5:]
		if sel, ok := c.Fun.(*ast.SelectorExpr); ok {
			if inner, ok := sel.X.(*ast.SelectorExpr); ok {
				name = inner.Sel.Name + "." + name
			} else if id, ok := sel.X.(*ast.Ident); ok {
				name = id.Name + "." + name
			}
		}
	}
	switch {
	case how == "recv":
		// `x.m()` -> "m(x)": what the method is called on
		if sel, ok := c.Fun.(*ast.SelectorExpr); ok {
			return name + "(" + w.x.src(sel.X) + ")", true
		}
		return name + "(?)", true
	case strings.HasPrefix(how, "arg"):
		i, _ := strconv.Atoi(how[3:])
		if i < len(c.Args) {
			return name + "(" + w.x.src(c.Args[i]) + ")", true
		}
		return name + "(?)", true
	case how == "str":
		lit := ""
		for _, a := range c.Args {
			ast.Inspect(a, func(n ast.Node) bool {
				if bl, ok := n.(*ast.BasicLit); ok && bl.Kind == token.STRING && lit == "" {
					lit, _ = strconv.Unquote(bl.Value)
				}
				return lit == ""
			})
			if lit != "" {
				break
			}
		}
		return name + "(" + lit + ")", true
	}
	return name, true
}

// calls: watched calls inside an expression / simple statement, inner before outer, source order otherwise.
// Function literals are entered only when they are the callee (invoked on the spot).
func (w *c05eWalker) calls(n ast.Node, prefix string) []string {
	if n == nil {
		return nil
	}
	type ce struct {
		end token.Pos
		ev  string
	}
	var found []ce
	var visit func(n ast.Node)
	visit = func(n ast.Node) {
		ast.Inspect(n, func(m ast.Node) bool {
			switch v := m.(type) {
			case *ast.FuncLit:
				return false // only entered through the CallExpr case below
			case *ast.CallExpr:
				if fl, ok := v.Fun.(*ast.FuncLit); ok {
					// immediately invoked literal: its defers and calls happen here
					for _, st := range fl.Body.List {
						switch s := st.(type) {
						case *ast.DeferStmt:
							for _, e := range w.calls(s.Call, "defer:") {
								found = append(found, ce{s.End(), e})
							}
						default:
							for _, e := range w.calls(s, "") {
								found = append(found, ce{st.End(), e})
							}
						}
					}
					for _, a := range v.Args {
						visit(a)
					}
					return false
				}
				if ev, ok := w.callEvent(v); ok {
					found = append(found, ce{v.End(), "call:" + ev})
				}
			}
			return true
		})
	}
	visit(n)
	sort.SliceStable(found, func(i, j int) bool { return found[i].end < found[j].end })
	var out []string
	for _, f := range found {
		ev := f.ev
		if prefix != "" {
			ev = prefix + strings.TrimPrefix(strings.TrimPrefix(ev, "call:"), "defer:")
		}
		out = append(out, ev)
	}
	return out
}

// flat: events of a `go` / `defer` statement: the watched calls and the select clauses of its literal, in source order
func (w *c05eWalker) flat(call *ast.CallExpr, prefix string) []string {
	fl, ok := call.Fun.(*ast.FuncLit)
	if !ok {
		return w.calls(call, prefix)
	}
	var out []string
	var visit func(st ast.Stmt)
	visit = func(st ast.Stmt) {
		switch s := st.(type) {
		case *ast.BlockStmt:
			for _, b := range s.List {
				visit(b)
			}
		case *ast.DeferStmt:
			out = append(out, w.flat(s.Call, prefix+"defer:")...)
		case *ast.IfStmt:
			if s.Init != nil {
				visit(s.Init)
			}
			out = append(out, w.calls(s.Cond, prefix)...)
			if w.x.src(s.Cond) == "r != nil" || strings.HasSuffix(w.x.src(s.Cond), "!= nil") {
				out = append(out, prefix+"if:"+w.x.src(s.Cond))
			}
			visit(s.Body)
			if s.Else != nil {
				visit(s.Else)
			}
		case *ast.SelectStmt:
			for _, c := range s.Body.List {
				cc := c.(*ast.CommClause)
				if cc.Comm == nil {
					out = append(out, prefix+"comm:default")
				} else {
					out = append(out, w.calls(cc.Comm, prefix)...)
					out = append(out, prefix+"comm:"+w.x.src(cc.Comm))
				}
				for _, b := range cc.Body {
					visit(b)
				}
			}
		case *ast.AssignStmt:
			out = append(out, w.calls(s, prefix)...)
			for i, l := range s.Lhs {
				if id, ok := l.(*ast.Ident); ok && i < len(s.Rhs) && id.Obj != nil {
					// assignment to a named result / captured variable inside the literal
					if _, isCall := s.Rhs[i].(*ast.CallExpr); isCall && s.Tok == token.ASSIGN {
						out = append(out, prefix+"set:"+id.Name+"="+w.x.callName(s.Rhs[i].(*ast.CallExpr)))
					}
				}
			}
		case *ast.SendStmt:
			out = append(out, w.calls(s, prefix)...)
			out = append(out, prefix+"send:"+w.x.src(s.Chan))
		default:
			out = append(out, w.calls(st, prefix)...)
		}
	}
	visit(fl.Body)
	return out
}

// ---------------------------------------------------------------- paths

type c05ePath struct {
	ev      []string
	lastErr string
	done    bool
}

func (p c05ePath) add(ev ...string) c05ePath {
	n := c05ePath{ev: append(append([]string{}, p.ev...), ev...), lastErr: p.lastErr, done: p.done}
	return n
}

// isErrIdent: a variable of type error (by its type where the package is type-checked: core/engine; by the
// conventional name `err` in cli/cli.go, which is only parsed)
func (w *c05eWalker) isErrIdent(e ast.Expr) bool {
	id, ok := e.(*ast.Ident)
	if !ok {
		return false
	}
	if info := w.x.t.pkg.TypesInfo; info != nil {
		if obj := info.ObjectOf(id); obj != nil {
			if v, ok := obj.(*types.Var); ok && !v.IsField() {
				return v.Type().String() == "error"
			}
			return false
		}
	}
	return id.Name == "err"
}

// errAssigned: the statement assigns `err` from a call -> that call's name
func (w *c05eWalker) errAssigned(st ast.Stmt) string {
	as, ok := st.(*ast.AssignStmt)
	if !ok {
		return ""
	}
	for _, l := range as.Lhs {
		if w.isErrIdent(l) {
			if len(as.Rhs) == 1 {
				if c, ok := as.Rhs[0].(*ast.CallExpr); ok {
					return w.x.callName(c)
				}
			}
			if len(as.Rhs) == len(as.Lhs) {
				for i := range as.Lhs {
					if w.isErrIdent(as.Lhs[i]) {
						if c, ok := as.Rhs[i].(*ast.CallExpr); ok {
							return w.x.callName(c)
						}
						return w.x.src(as.Rhs[i])
					}
				}
			}
			return "?"
		}
	}
	return ""
}

// simple: events of a statement without control flow
func (w *c05eWalker) simple(st ast.Stmt, p c05ePath) c05ePath {
	switch s := st.(type) {
	case *ast.AssignStmt:
		p = p.add(w.calls(s, "")...)
		if n := w.errAssigned(s); n != "" {
			p.lastErr = n
		}
		for i, l := range s.Lhs {
			if sel, ok := l.(*ast.SelectorExpr); ok && len(s.Rhs) == len(s.Lhs) {
				p = p.add("set:" + w.x.src(sel) + "=" + w.x.src(s.Rhs[i]))
			}
		}
	case *ast.IncDecStmt:
		if _, ok := s.X.(*ast.SelectorExpr); ok {
			if s.Tok == token.INC {
				p = p.add("inc:" + w.x.src(s.X))
			} else {
				p = p.add("dec:" + w.x.src(s.X))
			}
		}
	case *ast.SendStmt:
		p = p.add(w.calls(s, "")...)
		p = p.add("send:" + w.x.src(s.Chan))
	case *ast.ExprStmt, *ast.DeclStmt, *ast.EmptyStmt:
		p = p.add(w.calls(st, "")...)
	default:
		w.x.fail(st, "statement %T", st)
	}
	return p
}

func (w *c05eWalker) walk(stmts []ast.Stmt, in []c05ePath) []c05ePath {
	cur := in
	for _, st := range stmts {
		var live, finished []c05ePath
		for _, p := range cur {
			if p.done {
				finished = append(finished, p)
			} else {
				live = append(live, p)
			}
		}
		if len(live) == 0 {
			return cur
		}
		next := w.stmt(st, live)
		cur = append(finished, next...)
		if len(cur) > w.limit {
			w.x.fail(st, "more than %d paths", w.limit)
			return cur
		}
	}
	return cur
}

// logOnly: a statement that only logs: `x.log.*(…)`, `ent.Write(…)`, or an `if` (no else) whose init is a log call
// and whose body only logs (`if ent := x.log.Check(…); ent != nil { ent.Write(…) }`, `if err != y { x.log.Debug(…) }`)
func (w *c05eWalker) logOnly(st ast.Stmt) bool {
	switch s := st.(type) {
	case *ast.ExprStmt:
		c, ok := s.X.(*ast.CallExpr)
		if !ok || !w.x.isLogCall(c) {
			return false
		}
		n := w.x.callName(c)
		return n != "Fatal" && n != "Panic"
	case *ast.IfStmt:
		if s.Else != nil || len(s.Body.List) == 0 {
			return false
		}
		if s.Init != nil {
			as, ok := s.Init.(*ast.AssignStmt)
			if !ok || len(as.Rhs) != 1 {
				return false
			}
			c, ok := as.Rhs[0].(*ast.CallExpr)
			if !ok || !w.x.isLogCall(c) {
				return false
			}
		}
		if len(w.calls(s.Cond, "")) > 0 {
			return false
		}
		for _, b := range s.Body.List {
			if !w.logOnly(b) {
				return false
			}
		}
		return true
	}
	return false
}

func (w *c05eWalker) stmt(st ast.Stmt, in []c05ePath) []c05ePath {
	var out []c05ePath
	if w.logOnly(st) {
		return in
	}
	switch s := st.(type) {
	case *ast.BlockStmt:
		return w.walk(s.List, in)
	case *ast.LabeledStmt:
		return w.stmt(s.Stmt, in)
	case *ast.ReturnStmt:
		for _, p := range in {
			p = p.add(w.calls(s, "")...)
			var rs []string
			for _, r := range s.Results {
				if _, ok := r.(*ast.CallExpr); ok {
					rs = append(rs, w.x.callName(r.(*ast.CallExpr))+"(…)")
				} else {
					rs = append(rs, w.x.src(r))
				}
			}
			p = p.add("ret:" + strings.Join(rs, ", "))
			p.done = true
			out = append(out, p)
		}
		return out
	case *ast.DeferStmt:
		for _, p := range in {
			out = append(out, p.add(w.flat(s.Call, "defer:")...))
		}
		return out
	case *ast.GoStmt:
		for _, p := range in {
			out = append(out, p.add(w.flat(s.Call, "go:")...))
		}
		return out
	case *ast.IfStmt:
		for _, p := range in {
			if s.Init != nil {
				p = w.simple(s.Init, p)
			}
			p = p.add(w.calls(s.Cond, "")...)
			thenEv, elseEv := "", ""
			guardOnly := false
			cond := s.Cond
			if be, ok := cond.(*ast.BinaryExpr); ok && (be.Op == token.NEQ || be.Op == token.EQL) && w.x.src(be.Y) == "nil" {
				if w.isErrIdent(be.X) {
					thenEv, elseEv = "fail:"+p.lastErr, "ok:"+p.lastErr
					if be.Op == token.EQL {
						thenEv, elseEv = elseEv, thenEv
					}
				} else if sel, ok := be.X.(*ast.SelectorExpr); ok && be.Op == token.NEQ && s.Else == nil && w.callsOnly(s.Body, sel) {
					guardOnly = true // `if x.cb != nil { x.cb() }`
				}
			}
			if thenEv == "" && !guardOnly {
				// the text of a condition that is one watched call is that call's event text (no variable names)
				text := func(e ast.Expr) string {
					if c, ok := e.(*ast.CallExpr); ok {
						if ev, ok := w.callEvent(c); ok {
							return ev
						}
					}
					return w.x.src(e)
				}
				if ue, ok := cond.(*ast.UnaryExpr); ok && ue.Op == token.NOT {
					thenEv, elseEv = "ncond:"+text(ue.X), "cond:"+text(ue.X)
				} else {
					thenEv, elseEv = "cond:"+text(cond), "ncond:"+text(cond)
				}
			}
			if guardOnly {
				out = append(out, w.walk(s.Body.List, []c05ePath{p})...)
				continue
			}
			out = append(out, w.walk(s.Body.List, []c05ePath{p.add(thenEv)})...)
			if s.Else != nil {
				out = append(out, w.stmt(s.Else, []c05ePath{p.add(elseEv)})...)
			} else {
				out = append(out, p.add(elseEv))
			}
		}
		return out
	case *ast.SelectStmt:
		for _, p := range in {
			for _, c := range s.Body.List {
				cc := c.(*ast.CommClause)
				q := p
				if cc.Comm == nil {
					q = q.add("comm:default")
				} else {
					q = q.add(w.calls(cc.Comm, "")...)
					q = q.add("comm:" + w.x.src(cc.Comm))
					if n := w.errAssigned(cc.Comm); n != "" {
						q.lastErr = n
					}
				}
				out = append(out, w.walk(cc.Body, []c05ePath{q})...)
			}
		}
		return out
	case *ast.SwitchStmt:
		for _, p := range in {
			if s.Init != nil {
				p = w.simple(s.Init, p)
			}
			tag := ""
			if s.Tag != nil {
				tag = w.x.src(s.Tag) + "="
				p = p.add(w.calls(s.Tag, "")...)
			}
			hasDefault := false
			for _, c := range s.Body.List {
				cc := c.(*ast.CaseClause)
				lbl := "default"
				if cc.List != nil {
					var ls []string
					for _, e := range cc.List {
						ls = append(ls, w.x.src(e))
					}
					lbl = strings.Join(ls, "|")
				} else {
					hasDefault = true
				}
				out = append(out, w.walk(cc.Body, []c05ePath{p.add("case:" + tag + lbl)})...)
			}
			if !hasDefault {
				out = append(out, p.add("case:"+tag+"<none>"))
			}
		}
		return out
	case *ast.ForStmt:
		for _, p := range in {
			if s.Init != nil {
				p = w.simple(s.Init, p)
			}
			if s.Cond != nil {
				p = p.add(w.calls(s.Cond, "")...)
			}
			out = append(out, p.add("noloop"))
			out = append(out, w.walk(s.Body.List, []c05ePath{p.add("loop")})...)
		}
		return out
	case *ast.RangeStmt:
		for _, p := range in {
			out = append(out, p.add("noloop"))
			out = append(out, w.walk(s.Body.List, []c05ePath{p.add("loop")})...)
		}
		return out
	case *ast.BranchStmt:
		for _, p := range in {
			out = append(out, p.add(s.Tok.String()))
		}
		return out
	default:
		for _, p := range in {
			out = append(out, w.simple(st, p))
		}
		return out
	}
}

// callsOnly: the block consists of calls of the given func-typed field (and logging)
func (w *c05eWalker) callsOnly(b *ast.BlockStmt, fn *ast.SelectorExpr) bool {
	want := w.x.src(fn)
	n := 0
	for _, st := range b.List {
		es, ok := st.(*ast.ExprStmt)
		if !ok {
			return false
		}
		c, ok := es.X.(*ast.CallExpr)
		if !ok {
			return false
		}
		if w.x.src(c.Fun) == want {
			n++
		} else if !w.x.isLogCall(c) {
			return false
		}
	}
	return n > 0
}

func (w *c05eWalker) paths(body []ast.Stmt) [][]string {
	ps := w.walk(body, []c05ePath{{}})
	var out [][]string
	for _, p := range ps {
		ev := p.ev
		if !p.done {
			ev = append(append([]string{}, ev...), "ret:")
		}
		out = append(out, ev)
	}
	return out
}

// ---------------------------------------------------------------- emit

func c05eLeanPaths(name, doc string, paths [][]string) string {
	var b strings.Builder
	fmt.Fprintf(&b, "/-- %s -/\ndef %s : List Path := [", doc, name)
	for i, p := range paths {
		if i > 0 {
			b.WriteString(",")
		}
		b.WriteString("\n  [")
		for j, e := range p {
			if j > 0 {
				b.WriteString(", ")
			}
			b.WriteString(c05eLeanEv(e))
		}
		b.WriteString("]")
	}
	b.WriteString("]\n\n")
	return b.String()
}

var c05eCtor = map[string]string{"call": "call", "fail": "fail", "ok": "ok", "defer": "dfr", "go": "go", "comm": "comm",
	"case": "swc", "cond": "cond", "ncond": "ncond", "set": "set", "inc": "inc", "dec": "dec", "send": "send", "ret": "ret"}

// c05eLeanEv: "kind:text" -> the constructor of `Pandora.Model.C05.Ev`
func c05eLeanEv(e string) string {
	switch e {
	case "loop":
		return ".loop"
	case "noloop":
		return ".noloop"
	case "break", "continue", "goto", "fallthrough":
		return ".jump " + c05eQuote(e)
	}
	i := strings.IndexByte(e, ':')
	if i < 0 {
		return ".jump " + c05eQuote("?"+e)
	}
	c, ok := c05eCtor[e[:i]]
	if !ok {
		return ".jump " + c05eQuote("?"+e)
	}
	return "." + c + " " + c05eQuote(e[i+1:])
}

// c05eQuote: a Lean string literal (ASCII escapes only)
func c05eQuote(s string) string {
	var b strings.Builder
	b.WriteByte('"')
	for _, r := range s {
		switch {
		case r == '"':
			b.WriteString("\\\"")
		case r == '\\':
			b.WriteString("\\\\")
		case r == '\n':
			b.WriteString("\\n")
		case r == '\t':
			b.WriteString("\\t")
		case r < 32:
			fmt.Fprintf(&b, "\\x%02x", r)
		default:
			b.WriteRune(r)
		}
	}
	b.WriteByte('"')
	return b.String()
}

// ---------------------------------------------------------------- IsCtxError -> Lean

// errExpr: an error-valued or boolean expression of IsCtxError
func (x *c05eX) errExpr(e ast.Expr, imports map[string]string) string {
	switch v := e.(type) {
	case *ast.ParenExpr:
		return "(" + x.errExpr(v.X, imports) + ")"
	case *ast.Ident:
		switch v.Name {
		case "nil":
			return "none"
		case "true", "false":
			return v.Name
		}
		return mangle(v.Name)
	case *ast.UnaryExpr:
		if v.Op == token.NOT {
			return "(!" + x.errExpr(v.X, imports) + ")"
		}
	case *ast.BinaryExpr:
		l, r := x.errExpr(v.X, imports), x.errExpr(v.Y, imports)
		switch v.Op {
		case token.EQL:
			return "(" + l + " == " + r + ")"
		case token.NEQ:
			return "(" + l + " != " + r + ")"
		case token.LAND:
			return "(" + l + " && " + r + ")"
		case token.LOR:
			return "(" + l + " || " + r + ")"
		}
	case *ast.SelectorExpr:
		if id, ok := v.X.(*ast.Ident); ok && imports[id.Name] == "context" {
			switch v.Sel.Name {
			case "Canceled":
				return "(some (GoErr.ctxKind .canceled))"
			case "DeadlineExceeded":
				return "(some (GoErr.ctxKind .deadlineExceeded))"
			}
		}
	case *ast.CallExpr:
		if sel, ok := v.Fun.(*ast.SelectorExpr); ok {
			if id, ok := sel.X.(*ast.Ident); ok {
				pkg := imports[id.Name]
				switch {
				case id.Name == "ctx" && sel.Sel.Name == "Err" && len(v.Args) == 0:
					return "ctxE"
				case (pkg == "github.com/pkg/errors") && sel.Sel.Name == "Cause" && len(v.Args) == 1:
					return "(causeOf " + x.errExpr(v.Args[0], imports) + ")"
				case (pkg == "github.com/pkg/errors" || pkg == "errors") && sel.Sel.Name == "Is" && len(v.Args) == 2:
					return "(errIs " + x.errExpr(v.Args[0], imports) + " " + x.errExpr(v.Args[1], imports) + ")"
				}
			}
		}
	}
	x.fail(e, "expression %s in IsCtxError", x.src(e))
	return "(UNSUPPORTED)"
}

func (x *c05eX) errBlock(stmts []ast.Stmt, imports map[string]string, ind string) string {
	if len(stmts) == 0 {
		return ind + "(UNSUPPORTED-no-return)"
	}
	st, rest := stmts[0], stmts[1:]
	switch s := st.(type) {
	case *ast.ReturnStmt:
		if len(s.Results) == 1 {
			return ind + x.errExpr(s.Results[0], imports)
		}
	case *ast.AssignStmt:
		if len(s.Lhs) == 1 && len(s.Rhs) == 1 && (s.Tok == token.DEFINE || s.Tok == token.ASSIGN) {
			if id, ok := s.Lhs[0].(*ast.Ident); ok {
				return ind + "let " + mangle(id.Name) + " := " + x.errExpr(s.Rhs[0], imports) + "\n" + x.errBlock(rest, imports, ind)
			}
		}
	case *ast.IfStmt:
		if s.Init == nil {
			c := x.errExpr(s.Cond, imports)
			if s.Else == nil {
				return ind + "if " + c + " then\n" + x.errBlock(append(append([]ast.Stmt{}, s.Body.List...), rest...), imports, ind+"  ") +
					"\n" + ind + "else\n" + x.errBlock(rest, imports, ind+"  ")
			}
			if eb, ok := s.Else.(*ast.BlockStmt); ok {
				return ind + "if " + c + " then\n" + x.errBlock(append(append([]ast.Stmt{}, s.Body.List...), rest...), imports, ind+"  ") +
					"\n" + ind + "else\n" + x.errBlock(append(append([]ast.Stmt{}, eb.List...), rest...), imports, ind+"  ")
			}
		}
	case *ast.SwitchStmt:
		if s.Init == nil && s.Tag == nil {
			// switch { case c1: …; case c2: …; default: … }
			var b strings.Builder
			var def []ast.Stmt
			for _, c := range s.Body.List {
				cc := c.(*ast.CaseClause)
				if cc.List == nil {
					def = cc.Body
					continue
				}
				var cs []string
				for _, e := range cc.List {
					cs = append(cs, x.errExpr(e, imports))
				}
				b.WriteString(ind + "if " + strings.Join(cs, " || ") + " then\n" +
					x.errBlock(append(append([]ast.Stmt{}, cc.Body...), rest...), imports, ind+"  ") + "\n" + ind + "else\n")
			}
			b.WriteString(x.errBlock(append(append([]ast.Stmt{}, def...), rest...), imports, ind+"  "))
			return b.String()
		}
	}
	x.fail(st, "statement %s in IsCtxError", x.src(st))
	return ind + "(UNSUPPORTED)"
}

func c05eImports(f *ast.File) map[string]string {
	m := map[string]string{}
	for _, im := range f.Imports {
		p, _ := strconv.Unquote(im.Path.Value)
		name := filepath.Base(p)
		if im.Name != nil {
			name = im.Name.Name
		}
		m[name] = p
	}
	return m
}

func (x *c05eX) isCtxError() string {
	path := filepath.Join(repo, "lib", "errutil", "errutil.go")
	f, err := parser.ParseFile(x.fset, path, nil, parser.SkipObjectResolution)
	if err != nil {
		x.t.errs = append(x.t.errs, "parse "+path+": "+err.Error())
		return ""
	}
	fd := c05eFind([]*ast.File{f}, "", "IsCtxError")
	if fd == nil {
		x.t.errs = append(x.t.errs, "func IsCtxError not found in lib/errutil/errutil.go")
		return ""
	}
	// signature: (ctx context.Context, err error) bool
	var names []string
	for _, fl := range fd.Type.Params.List {
		for _, n := range fl.Names {
			names = append(names, n.Name+":"+x.src(fl.Type))
		}
	}
	if strings.Join(names, ",") != "ctx:context.Context,err:error" || fd.Type.Results == nil || len(fd.Type.Results.List) != 1 ||
		x.src(fd.Type.Results.List[0].Type) != "bool" {
		x.fail(fd, "signature of IsCtxError: %s", strings.Join(names, ","))
		return ""
	}
	body := x.errBlock(fd.Body.List, c05eImports(f), "  ")
	return "/-- regenerated from `lib/errutil/errutil.go` func `IsCtxError`: `ctxErr` = `ctx.Err()`, `err` by its cause -/\n" +
		"def isCtxError (ctxErr : Option CtxKind) (err : Option GoErr) : Bool :=\n" +
		"  let ctxE : Option GoErr := ctxErr.map GoErr.ctxKind\n" + body + "\n\n"
}

// ---------------------------------------------------------------- checkAll guard -> Lean

func (x *c05eX) guardExpr(e ast.Expr, recv string) string {
	switch v := e.(type) {
	case *ast.ParenExpr:
		return "(" + x.guardExpr(v.X, recv) + ")"
	case *ast.BasicLit:
		if v.Kind == token.INT {
			return "(" + v.Value + " : Int)"
		}
	case *ast.UnaryExpr:
		if v.Op == token.NOT {
			return "(!" + x.guardExpr(v.X, recv) + ")"
		}
	case *ast.BinaryExpr:
		l, r := x.guardExpr(v.X, recv), x.guardExpr(v.Y, recv)
		switch v.Op {
		case token.LAND:
			return "(" + l + " && " + r + ")"
		case token.LOR:
			return "(" + l + " || " + r + ")"
		case token.GEQ:
			return "(decide (" + l + " ≥ " + r + "))"
		case token.GTR:
			return "(decide (" + l + " > " + r + "))"
		case token.LEQ:
			return "(decide (" + l + " ≤ " + r + "))"
		case token.LSS:
			return "(decide (" + l + " < " + r + "))"
		case token.EQL:
			return "(decide (" + l + " = " + r + "))"
		case token.NEQ:
			return "(decide (" + l + " ≠ " + r + "))"
		case token.ADD:
			return "(" + l + " + " + r + ")"
		case token.SUB:
			return "(" + l + " - " + r + ")"
		}
	case *ast.SelectorExpr:
		if id, ok := v.X.(*ast.Ident); ok && id.Name == recv {
			switch v.Sel.Name {
			case "awaitedInstances":
				return "awaited"
			case "startedInstances":
				return "started"
			}
		}
	case *ast.CallExpr:
		if x.rawSrc(v.Fun) == recv+".isStartFinished" && len(v.Args) == 0 {
			return "startFinished"
		}
	}
	x.fail(e, "expression %s in the guard of checkAllInstancesAreFinished", x.src(e))
	return "(UNSUPPORTED)"
}

// ---------------------------------------------------------------- the area

func c05engineExtra(t *tr) string {
	x := &c05eX{t: t, fset: t.pkg.Fset, names: map[*ast.Object]string{}}
	files := t.pkg.Syntax
	for _, f := range files {
		for _, d := range f.Decls {
			if fd, ok := d.(*ast.FuncDecl); ok {
				x.nameFunc(fd)
			}
		}
	}
	var b strings.Builder
	b.WriteString("open Pandora.Model.C05\n\n")

	b.WriteString(x.isCtxError())

	need := func(recv, name string) *ast.FuncDecl {
		fd := c05eFind(files, recv, name)
		if fd == nil {
			t.errs = append(t.errs, fmt.Sprintf("c05engine: func (%s) %s not found in core/engine", recv, name))
		}
		return fd
	}
	walker := func(watch map[string]string) *c05eWalker { return &c05eWalker{x: x, watch: watch, limit: 400} }

	// onErrAwaited
	if fd := need("runAwaitHandle", "onErrAwaited"); fd != nil {
		w := walker(map[string]string{})
		ps := w.paths(fd.Body.List)
		for i := range ps {
			for j := range ps[i] {
				ps[i][j] = strings.ReplaceAll(ps[i][j], c05eRecv+".", "")
			}
		}
		b.WriteString(c05eLeanPaths("onErrAwaited", "regenerated from `core/engine/engine.go` `(*runAwaitHandle).onErrAwaited` (receiver prefix dropped)", ps))
	}

	// awaitRun: `for ah.toWait > 0 { select { … } }`
	if fd := need("runAwaitHandle", "awaitRun"); fd != nil {
		recv := fd.Recv.List[0].Names[0].Name
		var loop *ast.ForStmt
		var sel *ast.SelectStmt
		if len(fd.Body.List) == 1 {
			loop, _ = fd.Body.List[0].(*ast.ForStmt)
		}
		if loop != nil && loop.Init == nil && loop.Post == nil && loop.Cond != nil && len(loop.Body.List) == 1 {
			sel, _ = loop.Body.List[0].(*ast.SelectStmt)
		}
		if sel == nil {
			x.fail(fd, "awaitRun is not `for cond { select {…} }`")
		} else {
			fmt.Fprintf(&b, "/-- regenerated from `(*runAwaitHandle).awaitRun`: the loop condition -/\ndef awaitLoopCond : String := %s\n\n",
				c05eQuote(strings.ReplaceAll(x.src(loop.Cond), c05eRecv+".", "")))
			w := walker(map[string]string{"IsCtxError": "arg0", "WithMessage": "str", "onErrAwaited": "",
				"checkAllInstancesAreFinished": "", "instanceStartCancel": "", "isStartFinished": "", "runCancel": ""})
			var names []string
			for _, c := range sel.Body.List {
				cc := c.(*ast.CommClause)
				if cc.Comm == nil {
					x.fail(cc, "default case in the select of awaitRun")
					continue
				}
				// the channel: `v := <-ah.X`
				ch := ""
				ast.Inspect(cc.Comm, func(n ast.Node) bool {
					if u, ok := n.(*ast.UnaryExpr); ok && u.Op == token.ARROW {
						if s, ok := u.X.(*ast.SelectorExpr); ok {
							ch = s.Sel.Name
						}
					}
					return true
				})
				if ch == "" {
					x.fail(cc, "case %s of awaitRun is not a receive from a field", x.src(cc.Comm))
					continue
				}
				names = append(names, ch)
				ps := w.paths(cc.Body)
				for i := range ps {
					for j := range ps[i] {
						ps[i][j] = strings.ReplaceAll(ps[i][j], c05eRecv+".", "")
					}
				}
				b.WriteString(c05eLeanPaths("await_"+ch, "regenerated from `(*runAwaitHandle).awaitRun`: the body of `case … := <-"+recv+"."+ch+"` (receiver prefix dropped)", ps))
			}
			b.WriteString("/-- the channels the await loop selects on, in source order -/\ndef awaitChannels : List String := [")
			for i, n := range names {
				if i > 0 {
					b.WriteString(", ")
				}
				b.WriteString(c05eQuote(n))
			}
			b.WriteString("]\n\n")
		}
	}

	// checkAllInstancesAreFinished
	if fd := need("runAwaitHandle", "checkAllInstancesAreFinished"); fd != nil {
		recv := fd.Recv.List[0].Names[0].Name
		// first statement: `allFinished := <guard>`; second: `if !allFinished { return }`
		ok := false
		if len(fd.Body.List) >= 2 {
			as, ok1 := fd.Body.List[0].(*ast.AssignStmt)
			is, ok2 := fd.Body.List[1].(*ast.IfStmt)
			if ok1 && ok2 && len(as.Lhs) == 1 && len(as.Rhs) == 1 && is.Else == nil && is.Init == nil && len(is.Body.List) == 1 {
				if _, isRet := is.Body.List[0].(*ast.ReturnStmt); isRet && x.src(is.Cond) == "!"+x.src(as.Lhs[0]) {
					ok = true
					fmt.Fprintf(&b, "/-- regenerated from `(*runAwaitHandle).checkAllInstancesAreFinished`: the guard under which the run results are closed -/\n"+
						"def checkAllGuard (startFinished : Bool) (awaited started : Int) : Bool :=\n  %s\n\n", x.guardExpr(as.Rhs[0], recv))
					w := walker(map[string]string{"close:runRes": "", "runCancel": "", "instanceStartCancel": "", "Panic": ""})
					ps := w.paths(fd.Body.List[2:])
					for i := range ps {
						for j := range ps[i] {
							ps[i][j] = strings.ReplaceAll(ps[i][j], c05eRecv+".", "")
						}
					}
					b.WriteString(c05eLeanPaths("checkAllEffects", "regenerated from `checkAllInstancesAreFinished`: what happens once the guard holds", ps))
				}
			}
		}
		if !ok {
			x.fail(fd, "checkAllInstancesAreFinished does not start with `g := <guard>; if !g { return }`")
		}
	}
	if fd := need("runAwaitHandle", "isStartFinished"); fd != nil {
		txt := ""
		if len(fd.Body.List) == 1 {
			if r, ok := fd.Body.List[0].(*ast.ReturnStmt); ok && len(r.Results) == 1 {
				txt = strings.ReplaceAll(x.src(r.Results[0]), c05eRecv+".", "")
			}
		}
		fmt.Fprintf(&b, "/-- regenerated from `(*runAwaitHandle).isStartFinished` -/\ndef isStartFinished : String := %s\n\n", c05eQuote(txt))
	}
	if fd := need("instancePool", "newAwaitRunHandle"); fd != nil {
		// the initial value of toWait
		val := ""
		ast.Inspect(fd, func(n ast.Node) bool {
			if kv, ok := n.(*ast.KeyValueExpr); ok && x.rawSrc(kv.Key) == "toWait" {
				if tv, ok := t.pkg.TypesInfo.Types[kv.Value]; ok && tv.Value != nil {
					val = tv.Value.ExactString()
				}
			}
			return true
		})
		if val == "" {
			x.fail(fd, "initial toWait is not a constant")
			val = "0"
		}
		fmt.Fprintf(&b, "/-- regenerated from `(*instancePool).newAwaitRunHandle`: the initial `toWait` -/\ndef resultsToWait : Nat := %s\n\n", val)
	}

	// instancePool.Run
	if fd := need("instancePool", "Run"); fd != nil {
		w := walker(map[string]string{"onWaitDone": "", "warmUpGun": "", "runAsync": "", "awaitRunAsync": "", c05eCancel: ""})
		b.WriteString(c05eLeanPaths("poolRun", "regenerated from `(*instancePool).Run`", w.paths(fd.Body.List)))
	}
	if fd := need("instancePool", "awaitRunAsync"); fd != nil {
		w := walker(map[string]string{"onWaitDone": "", "awaitRun": "", "close:awaitErr": "", "newAwaitRunHandle": ""})
		b.WriteString(c05eLeanPaths("awaitRunAsync", "regenerated from `(*instancePool).awaitRunAsync`", w.paths(fd.Body.List)))
	}
	if fd := need("instancePool", "warmUpGun"); fd != nil {
		w := walker(map[string]string{"NewGun": "", "WarmUp": "", "closeGun": "", "Close": ""})
		b.WriteString(c05eLeanPaths("warmUpGun", "regenerated from `(*instancePool).warmUpGun`", w.paths(fd.Body.List)))
	}
	if fd := need("", "newInstance"); fd != nil {
		w := walker(map[string]string{"newSchedule": "", "newGun": "", "Bind": "", "closeGun": "", "Close": ""})
		b.WriteString(c05eLeanPaths("newInstance", "regenerated from `core/engine/instance.go` `newInstance`", w.paths(fd.Body.List)))
	}
	if fd := need("", "runNewInstance"); fd != nil {
		w := walker(map[string]string{"newInstance": "", "Close": "", "Run": "", "closeGun": ""})
		b.WriteString(c05eLeanPaths("runNewInstance", "regenerated from `runNewInstance`", w.paths(fd.Body.List)))
	}
	if fd := need("instancePool", "startInstances"); fd != nil {
		w := walker(map[string]string{"newInstance": "", "runNewInstance": "", "Close": "", "Run": "", "Wait": "arg0", "Err": "recv"})
		b.WriteString(c05eLeanPaths("startInstances", "regenerated from `(*instancePool).startInstances`", w.paths(fd.Body.List)))
	}
	if fd := need("instance", "Close"); fd != nil {
		w := walker(map[string]string{"closeGun": "", "Close": ""})
		b.WriteString(c05eLeanPaths("instanceClose", "regenerated from `(*instance).Close`", w.paths(fd.Body.List)))
	}
	if fd := need("", "closeGun"); fd != nil {
		w := walker(map[string]string{"Close": ""})
		b.WriteString(c05eLeanPaths("closeGun", "regenerated from `closeGun`", w.paths(fd.Body.List)))
	}
	if fd := need("instance", "Run"); fd != nil {
		// only the deferred recover of the function matters here (the loop is C03's area "instloop")
		w := walker(map[string]string{"recover": "", "Errorf": ""})
		var ev []string
		named := ""
		if fd.Type.Results != nil && len(fd.Type.Results.List) == 1 && len(fd.Type.Results.List[0].Names) == 1 {
			named = fd.Type.Results.List[0].Names[0].Name
		}
		for _, st := range fd.Body.List {
			if d, ok := st.(*ast.DeferStmt); ok {
				ev = append(ev, w.flat(d.Call, "defer:")...)
			}
		}
		for i := range ev {
			if named != "" {
				ev[i] = strings.ReplaceAll(ev[i], "set:"+named+"=", "set:<result>=")
			}
		}
		b.WriteString(c05eLeanPaths("instanceRunDefers", "regenerated from `(*instance).Run`: its deferred statements (`<result>` = the named result)", [][]string{ev}))
		// … and the shooting loop.  `for !waiter.IsFinished(ctx) { err := func() error {…}(); if err != nil { return err } };
		// return ctx.Err()`: the literal (one iteration) and the loop around it are walked separately
		var body []ast.Stmt
		var loop *ast.ForStmt
		for _, st := range fd.Body.List {
			if _, ok := st.(*ast.DeferStmt); !ok {
				body = append(body, st)
			}
			if f, ok := st.(*ast.ForStmt); ok {
				loop = f
			}
		}
		var iterCall *ast.CallExpr
		if loop != nil {
			for _, st := range loop.Body.List {
				if as, ok := st.(*ast.AssignStmt); ok && len(as.Rhs) == 1 {
					if c, ok := as.Rhs[0].(*ast.CallExpr); ok && len(c.Args) == 0 {
						if _, ok := c.Fun.(*ast.FuncLit); ok {
							iterCall = c
						}
					}
				}
			}
		}
		if iterCall == nil {
			x.fail(fd, "instance.Run is not `for … { err := func() error {…}(); … }`")
		} else {
			lit := iterCall.Fun.(*ast.FuncLit)
			wi := walker(map[string]string{"Acquire": "", "Release": "", "Wait": "arg0", "IsSlowDown": "arg0", "Shoot": "", "Report": ""})
			b.WriteString(c05eLeanPaths("instanceRunIter", "regenerated from `(*instance).Run`: one iteration of the shooting loop (the function literal called in the loop body)", wi.paths(lit.Body.List)))
			iterCall.Fun = ast.NewIdent("‹iteration›")
			wl := walker(map[string]string{"IsFinished": "arg0", "‹iteration›": "", "Err": "recv"})
			b.WriteString(c05eLeanPaths("instanceRunLoop", "regenerated from `(*instance).Run`: the loop around the iteration (0 or 1 times) and what is returned; deferred statements left out", wl.paths(body)))
			iterCall.Fun = lit
		}
	}
	if fd := need("instancePool", "runAsync"); fd != nil {
		w := walker(map[string]string{"WithCancel": "arg0", "buildNewInstanceSchedule": "", "Run": "recv+arg0", "startInstances": "arg0"})
		b.WriteString(c05eLeanPaths("runAsync", "regenerated from `(*instancePool).runAsync` (context tree, what is started)", w.paths(fd.Body.List)))
		// the handle it returns: which value goes into which field
		var pairs []string
		ast.Inspect(fd.Body, func(n ast.Node) bool {
			r, ok := n.(*ast.ReturnStmt)
			if !ok || len(r.Results) == 0 {
				return true
			}
			e := r.Results[0]
			if u, ok := e.(*ast.UnaryExpr); ok && u.Op == token.AND {
				e = u.X
			}
			if cl, ok := e.(*ast.CompositeLit); ok {
				for _, el := range cl.Elts {
					if kv, ok := el.(*ast.KeyValueExpr); ok {
						pairs = append(pairs, "("+c05eQuote(x.rawSrc(kv.Key))+", "+c05eQuote(x.src(kv.Value))+")")
					}
				}
			}
			return true
		})
		fmt.Fprintf(&b, "/-- regenerated from `runAsync`: the fields of the handle it returns and the values stored in them -/\ndef runAsyncHandle : List (String × String) := [%s]\n\n", strings.Join(pairs, ", "))
	}

	if fd := need("instancePool", "buildNewInstanceSchedule"); fd != nil {
		w := walker(map[string]string{"NewRPSSchedule": "", "NewCallbackOnFinishSchedule": ""})
		b.WriteString(c05eLeanPaths("buildNewInstanceSchedule", "regenerated from `(*instancePool).buildNewInstanceSchedule` (per-instance factory, or one shared schedule built here)", w.paths(fd.Body.List)))
		// the callback handed to NewCallbackOnFinishSchedule: what it does when the shared schedule has run out
		var cb *ast.FuncLit
		ast.Inspect(fd, func(n ast.Node) bool {
			if c, ok := n.(*ast.CallExpr); ok && x.callName(c) == "NewCallbackOnFinishSchedule" {
				for _, a := range c.Args {
					if fl, ok := a.(*ast.FuncLit); ok {
						cb = fl
					}
				}
			}
			return true
		})
		if cb == nil {
			x.fail(fd, "no callback literal passed to NewCallbackOnFinishSchedule")
		} else {
			w := walker(map[string]string{"‹arg1›": ""}) // cancelStart, the second parameter
			b.WriteString(c05eLeanPaths("sharedScheduleFinished", "regenerated from `buildNewInstanceSchedule`: the on-finish callback of the shared RPS schedule", w.paths(cb.Body.List)))
		}
	}

	// Engine.Run / Wait
	if fd := need("Engine", "Run"); fd != nil {
		w := walker(map[string]string{"Add": "", "newPool": "arg2", "Run": "", "WithMessage": "arg0", "Err": "", c05eCancel: ""})
		b.WriteString(c05eLeanPaths("engineRun", "regenerated from `(*Engine).Run`", w.paths(fd.Body.List)))
	}
	if fd := need("Engine", "Wait"); fd != nil {
		w := walker(map[string]string{"Wait": ""})
		b.WriteString(c05eLeanPaths("engineWait", "regenerated from `(*Engine).Wait`", w.paths(fd.Body.List)))
	}
	if fd := need("", "newPool"); fd != nil {
		// which parameter becomes the onWaitDone field
		idx := -1
		i := 0
		var pnames []string
		for _, fl := range fd.Type.Params.List {
			for _, n := range fl.Names {
				pnames = append(pnames, n.Name)
				i++
			}
		}
		ast.Inspect(fd, func(n ast.Node) bool {
			if kv, ok := n.(*ast.KeyValueExpr); ok && x.rawSrc(kv.Key) == "onWaitDone" {
				for k, pn := range pnames {
					if x.rawSrc(kv.Value) == pn {
						idx = k
					}
				}
			}
			return true
		})
		fmt.Fprintf(&b, "/-- regenerated from `newPool`: index of the parameter stored in the `onWaitDone` field (-1: none) -/\ndef newPoolWaitDoneParam : Int := %d\n\n", idx)
	}

	// cli
	cliPath := filepath.Join(repo, "cli", "cli.go")
	cf, err := parser.ParseFile(x.fset, cliPath, nil, 0)
	if err != nil {
		t.errs = append(t.errs, "parse "+cliPath+": "+err.Error())
	} else {
		for _, d := range cf.Decls {
			if fd, ok := d.(*ast.FuncDecl); ok {
				x.nameFunc(fd)
			}
		}
		if fd := c05eFind([]*ast.File{cf}, "", "awaitPandoraTermination"); fd == nil {
			t.errs = append(t.errs, "c05engine: awaitPandoraTermination not found in cli/cli.go")
		} else {
			var outer *ast.SelectStmt
			for _, st := range fd.Body.List {
				if s, ok := st.(*ast.SelectStmt); ok {
					outer = s
				}
			}
			var clause *ast.CommClause
			if outer != nil {
				for _, c := range outer.Body.List {
					cc := c.(*ast.CommClause)
					// the case that receives from a PARAMETER of the function (the channel of Engine.Run's result);
					// the other one receives from the local signal channel
					fromParam := false
					if cc.Comm != nil {
						ast.Inspect(cc.Comm, func(n ast.Node) bool {
							if u, ok := n.(*ast.UnaryExpr); ok && u.Op == token.ARROW {
								if id, ok := u.X.(*ast.Ident); ok && id.Obj != nil {
									_, fromParam = id.Obj.Decl.(*ast.Field)
								}
							}
							return true
						})
					}
					if fromParam {
						clause = cc
					}
				}
			}
			if clause == nil {
				x.fail(fd, "no case of the outer select of awaitPandoraTermination receives from a parameter")
			} else {
				w := walker(map[string]string{"‹arg1›": "", "Wait": "", "Fatal": "", "Exit": "", "Panic": ""}) // ‹arg1›: gracefulShutdown
				b.WriteString(c05eLeanPaths("cliEngineReturned", "regenerated from `cli/cli.go` `awaitPandoraTermination`: the branch taken when `Engine.Run` returns before a signal", w.paths(clause.Body)))
			}
			// the other case of the outer select: a signal
			var sigClause *ast.CommClause
			if outer != nil {
				for _, c := range outer.Body.List {
					cc := c.(*ast.CommClause)
					if cc.Comm != nil && cc != clause {
						sigClause = cc
					}
				}
			}
			if sigClause == nil || outer == nil || len(outer.Body.List) != 2 {
				x.fail(fd, "the outer select of awaitPandoraTermination is not {signal, errs}")
			} else {
				w := walker(map[string]string{"‹arg1›": "", "Wait": "", "Fatal": "", "Exit": "", "Panic": "", "close:*": "", "After": ""})
				b.WriteString(c05eLeanPaths("cliSignalled", "regenerated from `cli/cli.go` `awaitPandoraTermination`: the branch taken when a signal arrives first (`"+x.src(sigClause.Comm)+"`)", w.paths(sigClause.Body)))
			}
		}
		if fd := c05eFind([]*ast.File{cf}, "", "runEngine"); fd == nil {
			t.errs = append(t.errs, "c05engine: runEngine not found in cli/cli.go")
		} else {
			w := walker(map[string]string{"Run": "", c05eCancel: ""})
			b.WriteString(c05eLeanPaths("cliRunEngine", "regenerated from `cli/cli.go` `runEngine`", w.paths(fd.Body.List)))
		}
	}
	return b.String()
}
