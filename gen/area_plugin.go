package main

// Area "plugin" (property C18): core/plugin (registry.go, constructor.go, plugin.go), plus structural readings of
// core/register/register.go and core/engine (engine.go, instance.go).
//
// 1. TYPE EXPECTATIONS.  Every function whose job is to check a constructor's reflect.Type with `expect(cond, …)` is
//    translated, statement by statement, into a Lean function returning the list of the checked conditions in
//    evaluation order (`<name>Expects … : List Bool`; a registration is accepted iff all of them hold):
//      newImplConstructor, newPluginConstructor, newFactoryConstructor, expectPluginConstructor,
//      newDefaultConfigContainer, (*Registry).Register (its own three expectations), and isFactoryType as a Bool function.
//    Conditions are expressions over an abstract reflect.Type (`Pandora.Model.C18Ty.Ty`):
//      x.Kind() x.NumIn() x.NumOut() x.In(i) x.Out(i) x.Elem() x.Implements(p)  → accessor of the same name
//      reflect.TypeOf(v) / reflect.ValueOf(v) / v.Type()  → the dynamic type of v (an `interface{}` parameter IS its type)
//      reflect.FuncOf(nil, []reflect.Type{c}, false)      → Ty.funcOf0 c
//      v == nil for an optional `interface{}` parameter    → v.isNone
//    Anything else makes gen fail (a broken obligation).
// 2. RESULT CONVERSION.  convertFactoryOutParams: the two size comparisons and what the trim branch does with a non-nil
//    error; the `switch factoryType.NumOut()` in the closure of pluginConstructor.NewFactory (what a config error becomes).
// 3. WHERE USER CODE IS CALLED.  For the functions that call user code (default-config function, fillConf,
//    registered constructor, registered factory, getMaybeConf) the number of call sites outside / inside the
//    function literal handed to reflect.MakeFunc, and inside loops — i.e. once per NewFactory or once per product.
//    The same table for the engine: who calls NewGun / newGun / newSchedule / NewRPSSchedule how often.
// 4. core/register: which plugin interface each helper registers for.

import (
	"bytes"
	"fmt"
	"go/ast"
	"go/printer"
	"go/token"
	"go/types"
	"sort"
	"strings"

	"golang.org/x/tools/go/packages"
)

func init() {
	areas["plugin"] = area{
		pkgPath:   "github.com/yandex/pandora/core/plugin",
		module:    "Plugin",
		namespace: "Pandora.Gen.Plugin",
		imports:   []string{"Pandora.Model.C18Ty"},
		extra:     pluginExtra,
	}
}

func pluginSrc(fset *token.FileSet, n ast.Node) string {
	var b bytes.Buffer
	_ = printer.Fprint(&b, fset, n)
	return strings.Join(strings.Fields(b.String()), " ")
}


// ---------------------------------------------------------------- canonical source text
//
// Structural readings are source text of short statements.  So that renaming a parameter, receiver or local variable does
// not change a reading, every identifier that denotes a variable declared INSIDE the function (parameters, receiver,
// named results, locals, parameters of function literals) is printed as `$<type>` (`$<type>#k` for the k-th further
// variable of the same type, in declaration order): `registered.defaultConfig.Get` reads
// `$nameRegistryEntry.defaultConfig.Get`, `c.newPlugin.Call` reads `$*pluginConstructor.newPlugin.Call`.  Fields, package
// level identifiers and everything else are printed as they are.

func pluginShortType(p *packages.Package, t types.Type) string {
	switch u := t.(type) {
	case *types.Signature:
		return "func"
	case *types.Slice:
		return "[]" + pluginShortType(p, u.Elem())
	case *types.Pointer:
		return "*" + pluginShortType(p, u.Elem())
	case *types.Interface:
		if u.Empty() {
			return "any"
		}
	}
	if it, ok := t.Underlying().(*types.Interface); ok && it.Empty() {
		if _, named := t.(*types.Named); !named {
			return "any"
		}
	}
	return types.TypeString(t, func(q *types.Package) string {
		if q == p.Types {
			return ""
		}
		return q.Name()
	})
}

var pluginLocalCache = map[*ast.FuncDecl]map[types.Object]string{}

func pluginLocals(p *packages.Package, fd *ast.FuncDecl) map[types.Object]string {
	if m, ok := pluginLocalCache[fd]; ok {
		return m
	}
	var objs []types.Object
	seen := map[types.Object]bool{}
	ast.Inspect(fd, func(n ast.Node) bool {
		id, ok := n.(*ast.Ident)
		if !ok {
			return true
		}
		obj := p.TypesInfo.Defs[id]
		v, isVar := obj.(*types.Var)
		if !isVar || v.IsField() || seen[obj] || id.Name == "_" {
			return true
		}
		seen[obj] = true
		objs = append(objs, obj)
		return true
	})
	sort.SliceStable(objs, func(i, j int) bool { return objs[i].Pos() < objs[j].Pos() })
	m := map[types.Object]string{}
	count := map[string]int{}
	for _, o := range objs {
		ty := pluginShortType(p, o.Type())
		k := count[ty]
		count[ty]++
		if k == 0 {
			m[o] = "$" + ty
		} else {
			m[o] = fmt.Sprintf("$%s#%d", ty, k)
		}
	}
	pluginLocalCache[fd] = m
	return m
}

// pluginCanon prints n (a node inside fd) with the function's own variables replaced by their canonical names.
func pluginCanon(p *packages.Package, fd *ast.FuncDecl, n ast.Node) string {
	if n == nil {
		return ""
	}
	loc := pluginLocals(p, fd)
	type saved struct {
		id   *ast.Ident
		name string
	}
	var undo []saved
	ast.Inspect(n, func(m ast.Node) bool {
		id, ok := m.(*ast.Ident)
		if !ok {
			return true
		}
		obj := p.TypesInfo.ObjectOf(id)
		if obj == nil {
			return true
		}
		if c, ok := loc[obj]; ok {
			undo = append(undo, saved{id, id.Name})
			id.Name = c
		}
		return true
	})
	out := pluginSrc(p.Fset, n)
	for _, u := range undo {
		u.id.Name = u.name
	}
	return out
}

// pluginFindDecl finds a function ("name") or method ("Recv.name", pointer or value receiver).
func pluginFindDecl(p *packages.Package, name string) *ast.FuncDecl {
	recv := ""
	if i := strings.Index(name, "."); i >= 0 {
		recv, name = name[:i], name[i+1:]
	}
	for _, f := range p.Syntax {
		for _, d := range f.Decls {
			fd, ok := d.(*ast.FuncDecl)
			if !ok || fd.Name.Name != name {
				continue
			}
			if recv == "" {
				if fd.Recv == nil {
					return fd
				}
				continue
			}
			if fd.Recv == nil || len(fd.Recv.List) != 1 {
				continue
			}
			rt := fd.Recv.List[0].Type
			if st, ok := rt.(*ast.StarExpr); ok {
				rt = st.X
			}
			if id, ok := rt.(*ast.Ident); ok && id.Name == recv {
				return fd
			}
		}
	}
	return nil
}

// ---------------------------------------------------------------- 1. expectations

type pluginTx struct {
	t      *tr
	vars   map[string]string // Go name -> Lean expression (params, translated locals)
	option map[string]bool   // optional interface{} params: Option Ty
	opaque map[string]bool   // locals whose definition is not translated: must not be used in a condition
	known  map[string]bool   // expectation functions translated in this area
}

var pluginKinds = map[string]string{"Func": "Kind.func", "Struct": "Kind.struct", "Ptr": "Kind.ptr", "Pointer": "Kind.ptr",
	"Interface": "Kind.iface"}

func (x *pluginTx) isNil(e ast.Expr) bool {
	id, ok := e.(*ast.Ident)
	return ok && id.Name == "nil"
}

func (x *pluginTx) expr(e ast.Expr) string {
	t := x.t
	switch v := e.(type) {
	case *ast.ParenExpr:
		return "(" + x.expr(v.X) + ")"
	case *ast.Ident:
		switch v.Name {
		case "true", "false":
			return v.Name
		case "errorType":
			return "Ty.error"
		}
		if x.opaque[v.Name] {
			return t.fail(v, "condition uses %s, whose definition is outside the translated subset", v.Name)
		}
		if s, ok := x.vars[v.Name]; ok {
			if x.option[v.Name] {
				return "(" + s + ".getD Ty.invalid)"
			}
			return s
		}
		return t.fail(v, "identifier %s", v.Name)
	case *ast.BasicLit:
		if v.Kind == token.INT || v.Kind == token.STRING {
			return v.Value
		}
		return t.fail(v, "literal %s", v.Value)
	case *ast.UnaryExpr:
		if v.Op == token.NOT {
			return "(!" + x.expr(v.X) + ")"
		}
		return t.fail(v, "unary %s", v.Op)
	case *ast.BinaryExpr:
		// comparison of an optional parameter with nil
		if v.Op == token.EQL || v.Op == token.NEQ {
			var other ast.Expr
			if x.isNil(v.Y) {
				other = v.X
			} else if x.isNil(v.X) {
				other = v.Y
			}
			if other != nil {
				id, ok := other.(*ast.Ident)
				if !ok || !x.option[id.Name] {
					return t.fail(v, "nil comparison of %s", pluginSrc(t.pkg.Fset, other))
				}
				if v.Op == token.EQL {
					return "(" + x.vars[id.Name] + ").isNone"
				}
				return "(" + x.vars[id.Name] + ").isSome"
			}
		}
		ops := map[token.Token]string{token.EQL: "==", token.NEQ: "!=", token.LAND: "&&", token.LOR: "||",
			token.LEQ: "≤", token.GEQ: "≥", token.LSS: "<", token.GTR: ">"}
		op, ok := ops[v.Op]
		if !ok {
			return t.fail(v, "operator %s", v.Op)
		}
		l, r := x.expr(v.X), x.expr(v.Y)
		switch v.Op {
		case token.LEQ, token.GEQ, token.LSS, token.GTR:
			return "(decide (" + l + " " + op + " " + r + "))"
		}
		return "(" + l + " " + op + " " + r + ")"
	case *ast.SelectorExpr:
		if id, ok := v.X.(*ast.Ident); ok && id.Name == "reflect" {
			if k, ok := pluginKinds[v.Sel.Name]; ok {
				return k
			}
		}
		return t.fail(v, "selector %s", pluginSrc(t.pkg.Fset, v))
	case *ast.CallExpr:
		if id, isId := v.Fun.(*ast.Ident); isId && id.Name == "isFactoryType" && len(v.Args) == 1 {
			// round 6: the regenerated Lean function of the same name (defined before its first use in Gen/Plugin.lean)
			return "(isFactoryType " + x.expr(v.Args[0]) + ")"
		}
		sel, ok := v.Fun.(*ast.SelectorExpr)
		if !ok {
			return t.fail(v, "call %s", pluginSrc(t.pkg.Fset, v))
		}
		if id, ok := sel.X.(*ast.Ident); ok && id.Name == "reflect" {
			switch sel.Sel.Name {
			case "TypeOf", "ValueOf":
				if len(v.Args) == 1 {
					return x.expr(v.Args[0])
				}
			case "FuncOf":
				// reflect.FuncOf(nil, []reflect.Type{c}, false)
				if len(v.Args) == 3 && x.isNil(v.Args[0]) && pluginSrc(t.pkg.Fset, v.Args[2]) == "false" {
					if cl, ok := v.Args[1].(*ast.CompositeLit); ok && len(cl.Elts) == 1 {
						return "(Ty.funcOf0 " + x.expr(cl.Elts[0]) + ")"
					}
				}
			}
			return t.fail(v, "reflect call %s", pluginSrc(t.pkg.Fset, v))
		}
		recv := x.expr(sel.X)
		arg := func(n int) bool { return len(v.Args) == n }
		switch sel.Sel.Name {
		case "Kind":
			if arg(0) {
				return "(" + recv + ").kind"
			}
		case "NumIn":
			if arg(0) {
				return "(" + recv + ").numIn"
			}
		case "NumOut":
			if arg(0) {
				return "(" + recv + ").numOut"
			}
		case "Elem":
			if arg(0) {
				return "(" + recv + ").elem"
			}
		case "Type":
			if arg(0) {
				return recv
			}
		case "In":
			if arg(1) {
				return "((" + recv + ").inp " + x.expr(v.Args[0]) + ")"
			}
		case "Out":
			if arg(1) {
				return "((" + recv + ").out " + x.expr(v.Args[0]) + ")"
			}
		case "Implements":
			if arg(1) {
				return "((" + recv + ").implements " + x.expr(v.Args[0]) + ")"
			}
		}
		return t.fail(v, "method call %s", pluginSrc(t.pkg.Fset, v))
	}
	return t.fail(e, "expression %s", pluginSrc(t.pkg.Fset, e))
}

func pluginCallName(s ast.Stmt) (string, *ast.CallExpr) {
	es, ok := s.(*ast.ExprStmt)
	if !ok {
		return "", nil
	}
	c, ok := es.X.(*ast.CallExpr)
	if !ok {
		return "", nil
	}
	if id, ok := c.Fun.(*ast.Ident); ok {
		return id.Name, c
	}
	return "", nil
}

func (x *pluginTx) callKnown(c *ast.CallExpr) string {
	name := c.Fun.(*ast.Ident).Name
	var args []string
	for _, a := range c.Args {
		args = append(args, x.expr(a))
	}
	return name + "Expects " + strings.Join(args, " ")
}

func pluginEndsInReturn(b *ast.BlockStmt) bool {
	if len(b.List) == 0 {
		return false
	}
	_, ok := b.List[len(b.List)-1].(*ast.ReturnStmt)
	return ok
}

// expects translates a statement list into a Lean `List Bool` expression.
func (x *pluginTx) expects(stmts []ast.Stmt, ind string) string {
	t := x.t
	if len(stmts) == 0 {
		return "[]"
	}
	s, rest := stmts[0], stmts[1:]
	switch v := s.(type) {
	case *ast.ExprStmt:
		name, c := pluginCallName(s)
		switch {
		case name == "expect" && len(c.Args) >= 1:
			return "[" + x.expr(c.Args[0]) + "] ++\n" + ind + x.expects(rest, ind)
		case name == "panic":
			return "[false]"
		case name != "" && x.known[name]:
			return "(" + x.callKnown(c) + ") ++\n" + ind + x.expects(rest, ind)
		}
		return t.fail(s, "statement %s", pluginSrc(t.pkg.Fset, s))
	case *ast.AssignStmt:
		if len(v.Lhs) == 1 && len(v.Rhs) == 1 && (v.Tok == token.DEFINE || v.Tok == token.ASSIGN) {
			if id, ok := v.Lhs[0].(*ast.Ident); ok {
				// try to translate the right-hand side; when it is outside the subset the variable becomes opaque
				saved := len(t.errs)
				rhs := x.expr(v.Rhs[0])
				if len(t.errs) > saved {
					t.errs = t.errs[:saved]
					x.opaque[id.Name] = true
					delete(x.vars, id.Name)
					return x.expects(rest, ind)
				}
				delete(x.opaque, id.Name)
				x.vars[id.Name] = mangle(id.Name)
				return "(let " + mangle(id.Name) + " := " + rhs + "\n" + ind + x.expects(rest, ind) + ")"
			}
		}
		return t.fail(s, "assignment %s", pluginSrc(t.pkg.Fset, s))
	case *ast.IfStmt:
		if v.Init != nil {
			return t.fail(s, "if with init")
		}
		cond := x.expr(v.Cond)
		var els []ast.Stmt
		if v.Else != nil {
			eb, ok := v.Else.(*ast.BlockStmt)
			if !ok {
				return t.fail(s, "else-if")
			}
			els = eb.List
		}
		if pluginEndsInReturn(v.Body) {
			return "(if " + cond + " then\n" + ind + "  " + x.expects(v.Body.List, ind+"  ") + "\n" + ind + "else\n" + ind + "  " +
				x.expects(append(append([]ast.Stmt{}, els...), rest...), ind+"  ") + ")"
		}
		return "(if " + cond + " then\n" + ind + "  " + x.expects(v.Body.List, ind+"  ") + "\n" + ind + "else\n" + ind + "  " +
			x.expects(els, ind+"  ") + ") ++\n" + ind + x.expects(rest, ind)
	case *ast.ReturnStmt:
		if len(v.Results) == 1 {
			if c, ok := v.Results[0].(*ast.CallExpr); ok {
				if id, ok := c.Fun.(*ast.Ident); ok && x.known[id.Name] {
					return "(" + x.callKnown(c) + ")"
				}
			}
		}
		return "[]"
	}
	return t.fail(s, "statement %T", s)
}

// boolBody translates `x := e; if c { return e }; …; return e` into a Lean Bool expression.
func (x *pluginTx) boolBody(stmts []ast.Stmt, ind string) string {
	t := x.t
	if len(stmts) == 0 {
		return t.fail(t.pkg.Syntax[0], "function without final return")
	}
	s, rest := stmts[0], stmts[1:]
	switch v := s.(type) {
	case *ast.AssignStmt:
		if len(v.Lhs) == 1 && len(v.Rhs) == 1 && v.Tok == token.DEFINE {
			if id, ok := v.Lhs[0].(*ast.Ident); ok {
				rhs := x.expr(v.Rhs[0])
				x.vars[id.Name] = mangle(id.Name)
				return "let " + mangle(id.Name) + " := " + rhs + "\n" + ind + x.boolBody(rest, ind)
			}
		}
	case *ast.IfStmt:
		if v.Init == nil && v.Else == nil && len(v.Body.List) == 1 {
			if r, ok := v.Body.List[0].(*ast.ReturnStmt); ok && len(r.Results) == 1 {
				return "if " + x.expr(v.Cond) + " then " + x.expr(r.Results[0]) + " else\n" + ind + x.boolBody(rest, ind)
			}
		}
	case *ast.ReturnStmt:
		if len(v.Results) == 1 {
			return x.expr(v.Results[0])
		}
	}
	return t.fail(s, "statement %s", pluginSrc(t.pkg.Fset, s))
}

type pluginFn struct {
	name   string
	option []string // optional interface{} parameters
}

func (x *pluginTx) params(fd *ast.FuncDecl, option []string) string {
	t := x.t
	x.vars = map[string]string{}
	x.option = map[string]bool{}
	x.opaque = map[string]bool{}
	for _, o := range option {
		x.option[o] = true
	}
	var ps []string
	for _, f := range fd.Type.Params.List {
		ty := t.pkg.TypesInfo.TypeOf(f.Type)
		var lt string
		switch {
		case ty.String() == "reflect.Type":
			lt = "Ty"
		case isBool(ty):
			lt = "Bool"
		case isString(ty):
			lt = "String"
		case isInt(ty):
			lt = "Nat"
		default:
			if it, ok := ty.Underlying().(*types.Interface); ok && it.Empty() {
				lt = "Ty"
			} else {
				lt = t.fail(f, "parameter type %s", ty)
			}
		}
		for _, n := range f.Names {
			l := lt
			if x.option[n.Name] {
				l = "Option Ty"
			}
			x.vars[n.Name] = mangle(n.Name)
			ps = append(ps, "("+mangle(n.Name)+" : "+l+")")
		}
	}
	return strings.Join(ps, " ")
}

// ---------------------------------------------------------------- 3. call-site table

type pluginSite struct {
	fn      string   // function or Recv.method
	callees []string // source text of the called expression
}

type pluginCount struct{ outside, inLit, inLoop int }

// callee is given in canonical form (see pluginCanon)
func pluginCountCalls(p *packages.Package, fd *ast.FuncDecl, callee string) pluginCount {
	var c pluginCount
	var walk func(n ast.Node, lit, loop bool)
	walk = func(n ast.Node, lit, loop bool) {
		ast.Inspect(n, func(m ast.Node) bool {
			if m == nil || m == n {
				return true
			}
			switch v := m.(type) {
			case *ast.FuncLit:
				walk(v.Body, true, loop)
				return false
			case *ast.ForStmt:
				if v.Init != nil {
					walk(v.Init, lit, loop)
				}
				if v.Cond != nil {
					walk(&ast.ExprStmt{X: v.Cond}, lit, true)
				}
				if v.Post != nil {
					walk(v.Post, lit, true)
				}
				walk(v.Body, lit, true)
				return false
			case *ast.RangeStmt:
				walk(&ast.ExprStmt{X: v.X}, lit, loop)
				walk(v.Body, lit, true)
				return false
			case *ast.CallExpr:
				if pluginCanon(p, fd, v.Fun) == callee {
					if lit {
						c.inLit++
					} else {
						c.outside++
					}
					if loop {
						c.inLoop++
					}
				}
			}
			return true
		})
	}
	walk(fd.Body, false, false)
	return c
}

func pluginSiteTable(t *tr, p *packages.Package, name string, sites []pluginSite) string {
	var b strings.Builder
	fmt.Fprintf(&b, "def %s : List (String × String × Nat × Nat × Nat) :=\n  [", name)
	first := true
	for _, s := range sites {
		fd := pluginFindDecl(p, s.fn)
		if fd == nil {
			t.errs = append(t.errs, "function "+s.fn+" not found in "+p.PkgPath)
			continue
		}
		for _, callee := range s.callees {
			c := pluginCountCalls(p, fd, callee)
			if !first {
				b.WriteString(",\n   ")
			}
			first = false
			fmt.Fprintf(&b, "(%q, %q, %d, %d, %d)", s.fn, callee, c.outside, c.inLit, c.inLoop)
		}
	}
	b.WriteString("]\n")
	return b.String()
}

// ---------------------------------------------------------------- extra

func pluginExtra(t *tr) string {
	var b strings.Builder
	p := t.pkg
	b.WriteString("open Pandora.Model.C18Ty\n\n")
	x := &pluginTx{t: t, known: map[string]bool{}}
	fns := []pluginFn{
		{name: "expectPluginConstructor"},
		{name: "newPluginConstructor"},
		{name: "newFactoryConstructor"},
		{name: "newImplConstructor"},
		{name: "newDefaultConfigContainer", option: []string{"defaultConfig"}},
	}
	for _, f := range fns {
		fd := pluginFindDecl(p, f.name)
		if fd == nil {
			t.errs = append(t.errs, "function "+f.name+" not found")
			continue
		}
		ps := x.params(fd, f.option)
		body := x.expects(fd.Body.List, "  ")
		fmt.Fprintf(&b, "/-- regenerated from core/plugin func `%s`: the conditions it `expect`s, in evaluation order -/\ndef %sExpects %s : List Bool :=\n  %s\n\n",
			f.name, f.name, ps, body)
		x.known[f.name] = true
	}
	// which implConstructor is chosen
	if fd := pluginFindDecl(p, "newImplConstructor"); fd != nil {
		ps := x.params(fd, nil)
		found := false
		for _, s := range fd.Body.List {
			switch v := s.(type) {
			case *ast.AssignStmt:
				if id, ok := v.Lhs[0].(*ast.Ident); ok && len(v.Rhs) == 1 {
					rhs := x.expr(v.Rhs[0])
					x.vars[id.Name] = "(" + rhs + ")"
				}
			case *ast.IfStmt:
				if len(v.Body.List) == 1 && strings.HasPrefix(pluginCanon(p, fd, v.Body.List[0]), "return newFactoryConstructor(") {
					fmt.Fprintf(&b, "/-- regenerated from `newImplConstructor`: the condition under which the constructor is taken as a FACTORY constructor -/\ndef isFactoryConstructor %s : Bool :=\n  %s\n\n", ps, x.expr(v.Cond))
					found = true
				}
			}
		}
		if !found {
			t.fail(fd, "newImplConstructor: no `if … { return newFactoryConstructor(…) }`")
		}
	}
	// Register's own expectations (top-level expect calls; nothing else in the body may leave the function)
	if fd := pluginFindDecl(p, "Registry.Register"); fd == nil {
		t.errs = append(t.errs, "method Registry.Register not found")
	} else {
		x.option, x.opaque = map[string]bool{}, map[string]bool{}
		// by role, not by name: the reflect.Type parameter, the string parameter, the `ok` of the comma-ok map lookup
		x.vars = map[string]string{}
		for _, f := range fd.Type.Params.List {
			ty := t.pkg.TypesInfo.TypeOf(f.Type)
			for _, n := range f.Names {
				switch {
				case ty.String() == "reflect.Type":
					x.vars[n.Name] = "pluginType"
				case isString(ty):
					x.vars[n.Name] = "name"
				}
			}
		}
		for _, s := range fd.Body.List {
			if as, ok := s.(*ast.AssignStmt); ok && len(as.Lhs) == 2 && len(as.Rhs) == 1 {
				if _, isIdx := as.Rhs[0].(*ast.IndexExpr); isIdx {
					if id, ok := as.Lhs[1].(*ast.Ident); ok {
						x.vars[id.Name] = "alreadyRegistered"
					}
				}
			}
		}
		var conds []string
		for _, s := range fd.Body.List {
			if name, c := pluginCallName(s); name == "expect" {
				conds = append(conds, x.expr(c.Args[0]))
				continue
			}
			bad := false
			ast.Inspect(s, func(n ast.Node) bool {
				switch v := n.(type) {
				case *ast.ReturnStmt:
					bad = true
				case *ast.CallExpr:
					if id, ok := v.Fun.(*ast.Ident); ok && (id.Name == "expect" || id.Name == "panic") {
						bad = true
					}
				}
				return true
			})
			if bad {
				t.fail(s, "Register: conditional expectation / early exit %s", pluginCanon(p, fd, s))
			}
		}
		fmt.Fprintf(&b, "/-- regenerated from `(*Registry).Register`: its own expectations (`alreadyRegistered` = the map lookup's ok) -/\ndef registerExpects (pluginType : Ty) (name : String) (alreadyRegistered : Bool) : List Bool :=\n  [%s]\n\n",
			strings.Join(conds, ",\n   "))
		last := fd.Body.List[len(fd.Body.List)-1]
		fmt.Fprintf(&b, "/-- the statement that stores the entry -/\ndef registerStores : String := %q\n\n", pluginCanon(p, fd, last))
	}
	if fd := pluginFindDecl(p, "newNameRegistryEntry"); fd != nil {
		var calls []string
		for _, s := range fd.Body.List {
			if as, ok := s.(*ast.AssignStmt); ok && len(as.Rhs) == 1 {
				calls = append(calls, pluginCanon(p, fd, as.Rhs[0]))
			}
		}
		fmt.Fprintf(&b, "/-- regenerated from `newNameRegistryEntry`: the two checks a registration goes through -/\ndef entryChecks : List String := [%s]\n\n", pluginQuoteList(calls))
	} else {
		t.errs = append(t.errs, "func newNameRegistryEntry not found")
	}
	// isFactoryType
	if fd := pluginFindDecl(p, "isFactoryType"); fd != nil {
		ps := x.params(fd, nil)
		fmt.Fprintf(&b, "/-- regenerated from core/plugin func `isFactoryType` -/\ndef isFactoryType %s : Bool :=\n  %s\n\n", ps, x.boolBody(fd.Body.List, "  "))
	} else {
		t.errs = append(t.errs, "func isFactoryType not found")
	}

	// 2. convertFactoryOutParams (canonical names: $reflect.Type = pluginType, $int = numOut, $[]reflect.Value = out)
	if fd := pluginFindDecl(p, "convertFactoryOutParams"); fd != nil {
		var appendCond, trimCond, trimBody, appended string
		okCases := ""
		for _, s := range fd.Body.List {
			switch v := s.(type) {
			case *ast.SwitchStmt:
				if pluginCanon(p, fd, v.Tag) == "$int" {
					for _, c := range v.Body.List {
						cc := c.(*ast.CaseClause)
						if cc.List != nil && len(cc.Body) == 0 {
							var ks []string
							for _, e := range cc.List {
								ks = append(ks, pluginCanon(p, fd, e))
							}
							okCases = strings.Join(ks, ",")
						}
					}
				}
			case *ast.IfStmt:
				c := pluginCanon(p, fd, v.Cond)
				switch c {
				case "len($[]reflect.Value) < $int":
					appendCond = c
					if len(v.Body.List) == 1 {
						appended = pluginCanon(p, fd, v.Body.List[0])
					}
				case "$int < len($[]reflect.Value)":
					trimCond = c
					var parts []string
					for _, bs := range v.Body.List {
						parts = append(parts, pluginCanon(p, fd, bs))
					}
					trimBody = strings.Join(parts, " ; ")
				}
			}
		}
		b.WriteString("/-- regenerated from `convertFactoryOutParams` (structural reading): accepted numOut values, the branch that appends a\nnil error, the branch that drops the error result (statement shapes, independent of variable names) -/\n")
		fmt.Fprintf(&b, "def convertNumOutCases : String := %q\n", okCases)
		fmt.Fprintf(&b, "def convertAppendCond : String := %q\n", appendCond)
		fmt.Fprintf(&b, "def convertAppended : String := %q\n", appended)
		fmt.Fprintf(&b, "def convertTrimCond : String := %q\n", trimCond)
		fmt.Fprintf(&b, "def convertTrimBody : String := %q\n\n", trimBody)
	} else {
		t.errs = append(t.errs, "func convertFactoryOutParams not found")
	}
	// the config-error switch in pluginConstructor.NewFactory's closure
	if fd := pluginFindDecl(p, "pluginConstructor.NewFactory"); fd != nil {
		var sw *ast.SwitchStmt
		ast.Inspect(fd, func(n ast.Node) bool {
			if s, ok := n.(*ast.SwitchStmt); ok && s.Tag != nil && pluginCanon(p, fd, s.Tag) == "$reflect.Type.NumOut()" {
				sw = s
			}
			return true
		})
		if sw == nil {
			// round 6: the text reading is informative only (the semantic one is `confErrTable`, area_plugin_r6.go): a
			// rewrite without a switch is not a failed reading
			b.WriteString("def confErrSwitch : List (String × String) := []\n\n")
		} else {
			var rows []string
			for _, c := range sw.Body.List {
				cc := c.(*ast.CaseClause)
				key := "default"
				if cc.List != nil {
					var ks []string
					for _, e := range cc.List {
						ks = append(ks, pluginCanon(p, fd, e))
					}
					key = strings.Join(ks, ",")
				}
				var parts []string
				for _, bs := range cc.Body {
					parts = append(parts, pluginCanon(p, fd, bs))
				}
				body := strings.Join(parts, " ; ")
				if key == "default" {
					body = "panic(other)"
					if len(cc.Body) != 1 || !strings.HasPrefix(pluginCanon(p, fd, cc.Body[0]), "panic(") {
						body = strings.Join(parts, " ; ")
					}
				}
				rows = append(rows, fmt.Sprintf("(%q, %q)", key, body))
			}
			fmt.Fprintf(&b, "/-- regenerated from the closure of `pluginConstructor.NewFactory`: what a config error becomes, by `factoryType.NumOut()` -/\ndef confErrSwitch : List (String × String) :=\n  [%s]\n\n", strings.Join(rows, ",\n   "))
		}
		// the switch is guarded by `err != nil` directly after `maybeConf, err = getMaybeConf()`
	}
	// the "hand out as is" shortcuts
	short := func(fn string) string {
		fd := pluginFindDecl(p, fn)
		if fd == nil {
			t.errs = append(t.errs, fn+" not found")
			return ""
		}
		for _, s := range fd.Body.List {
			if is, ok := s.(*ast.IfStmt); ok && len(is.Body.List) == 1 {
				if _, ok := is.Body.List[0].(*ast.ReturnStmt); ok && strings.Contains(pluginCanon(p, fd, is.Cond), "== $reflect.Type") {
					return pluginCanon(p, fd, is.Cond) + " => " + pluginCanon(p, fd, is.Body.List[0])
				}
			}
		}
		return ""
	}
	fmt.Fprintf(&b, "/-- regenerated: when the registered function itself is handed out by `NewFactory` -/\ndef pluginShortcut : String := %q\ndef factoryShortcut : String := %q\n\n",
		short("pluginConstructor.NewFactory"), short("factoryConstructor.NewFactory"))

	// 3. call sites of user code in core/plugin (callees in canonical form)
	b.WriteString("/-- regenerated: (function, called expression, call sites outside function literals, inside function literals, inside loops);\nvariables of the function are named by their type (`$<type>`), so renaming a local does not change the table -/\n")
	b.WriteString(pluginSiteTable(t, p, "callSites", []pluginSite{
		{"Registry.New", []string{"$nameRegistryEntry.defaultConfig.Get", "$nameRegistryEntry.constructor.NewPlugin", "$func"}},
		{"Registry.NewFactory", []string{"$nameRegistryEntry.defaultConfig.Get", "$nameRegistryEntry.constructor.NewFactory", "$func"}},
		{"Registry.get", []string{"errors.Errorf"}},
		{"defaultConfigContainer.Get", []string{"$defaultConfigContainer.new", "$func"}},
		{"defaultConfigContainer.new", []string{"$defaultConfigContainer.newValue.Call"}},
		{"pluginConstructor.NewPlugin", []string{"$*pluginConstructor.newPlugin.Call"}},
		{"pluginConstructor.NewFactory", []string{"$func", "$*pluginConstructor.newPlugin.Call", "convertFactoryOutParams"}},
		{"factoryConstructor.NewPlugin", []string{"$*factoryConstructor.callNewFactory", "$reflect.Value.Call"}},
		{"factoryConstructor.NewFactory", []string{"$func", "$*factoryConstructor.callNewFactory", "$reflect.Value.Call", "convertFactoryOutParams"}},
		{"factoryConstructor.callNewFactory", []string{"$*factoryConstructor.newFactory.Call"}},
	}))
	b.WriteString("\n")
	// the fillConf check of NewFactory when no config is required
	if fd := pluginFindDecl(p, "Registry.NewFactory"); fd != nil {
		var conds []string
		ast.Inspect(fd, func(n ast.Node) bool {
			if is, ok := n.(*ast.IfStmt); ok {
				c := pluginCanon(p, fd, is.Cond)
				if c == "$nameRegistryEntry.defaultConfig.configRequired()" || c == "$func != nil" {
					conds = append(conds, c)
				}
			}
			return true
		})
		fmt.Fprintf(&b, "/-- regenerated from `(*Registry).NewFactory`: the branch conditions around getMaybeConfig / the empty-struct fillConf check -/\ndef newFactoryBranches : List String := [%s]\n\n", pluginQuoteList(conds))
	}
	// `get`: the two map lookups, each with its own error, nothing else
	if fd := pluginFindDecl(p, "Registry.get"); fd != nil {
		var rows []string
		for _, s := range fd.Body.List {
			switch v := s.(type) {
			case *ast.AssignStmt:
				if len(v.Rhs) == 1 {
					if ix, ok := v.Rhs[0].(*ast.IndexExpr); ok {
						rows = append(rows, "lookup "+pluginCanon(p, fd, ix))
					}
				}
			case *ast.IfStmt:
				var parts []string
				for _, bs := range v.Body.List {
					switch w := bs.(type) {
					case *ast.AssignStmt:
						if c, ok := w.Rhs[0].(*ast.CallExpr); ok {
							parts = append(parts, pluginCanon(p, fd, w.Lhs[0])+" = "+pluginCanon(p, fd, c.Fun)+"(…)")
						} else {
							parts = append(parts, pluginCanon(p, fd, bs))
						}
					default:
						parts = append(parts, pluginCanon(p, fd, bs))
					}
				}
				rows = append(rows, "if "+pluginCanon(p, fd, v.Cond)+" { "+strings.Join(parts, " ; ")+" }")
			case *ast.ReturnStmt:
				rows = append(rows, pluginCanon(p, fd, v))
			default:
				rows = append(rows, "other "+pluginCanon(p, fd, s))
			}
		}
		fmt.Fprintf(&b, "/-- regenerated from `(*Registry).get`: look the plugin type up, then the name; each miss is an error result -/\ndef getSteps : List String := [%s]\n\n", pluginQuoteList(rows))
	} else {
		t.errs = append(t.errs, "method Registry.get not found")
	}
	// Register: how the name table is found / created and where the entry goes
	if fd := pluginFindDecl(p, "Registry.Register"); fd != nil {
		var rows []string
		for _, s := range fd.Body.List {
			if name, _ := pluginCallName(s); name == "expect" {
				rows = append(rows, "expect")
				continue
			}
			switch v := s.(type) {
			case *ast.IfStmt:
				var parts []string
				for _, bs := range v.Body.List {
					parts = append(parts, pluginCanon(p, fd, bs))
				}
				rows = append(rows, "if "+pluginCanon(p, fd, v.Cond)+" { "+strings.Join(parts, " ; ")+" }")
			default:
				// only what touches the name table matters for the order (fetching the optional argument does not)
				if c := pluginCanon(p, fd, s); strings.Contains(c, "$nameRegistry") {
					rows = append(rows, c)
				}
			}
		}
		fmt.Fprintf(&b, "/-- regenerated from `(*Registry).Register`: its statements that are expectations or touch the name table, in order (`expect` = one expectation, see `registerExpects`) -/\ndef registerSteps : List String := [%s]\n\n", pluginQuoteList(rows))
	}
	if fd := pluginFindDecl(p, "Registry.Lookup"); fd != nil {
		var rows []string
		for _, s := range fd.Body.List {
			rows = append(rows, pluginCanon(p, fd, s))
		}
		fmt.Fprintf(&b, "/-- regenerated from `(*Registry).Lookup` -/\ndef lookupSteps : List String := [%s]\n\n", pluginQuoteList(rows))
	}
	// `new`: the kinds handled and what happens to a nil pointer / a non-addressable struct
	if fd := pluginFindDecl(p, "defaultConfigContainer.new"); fd != nil {
		var rows []string
		ast.Inspect(fd, func(n ast.Node) bool {
			if sw, ok := n.(*ast.SwitchStmt); ok && sw.Tag != nil && pluginCanon(p, fd, sw.Tag) == "$reflect.Value.Kind()" {
				for _, c := range sw.Body.List {
					cc := c.(*ast.CaseClause)
					key := "default"
					if cc.List != nil {
						key = pluginCanon(p, fd, cc.List[0])
					}
					var parts []string
					for _, bs := range cc.Body {
						if _, isIf := bs.(*ast.IfStmt); isIf {
							is := bs.(*ast.IfStmt)
							var inner []string
							for _, s2 := range is.Body.List {
								inner = append(inner, pluginCanon(p, fd, s2))
							}
							parts = append(parts, "if "+pluginCanon(p, fd, is.Cond)+" { "+strings.Join(inner, " ; ")+" }")
						} else {
							parts = append(parts, pluginCanon(p, fd, bs))
						}
					}
					rows = append(rows, fmt.Sprintf("(%q, %q)", key, strings.Join(parts, " ; ")))
				}
			}
			return true
		})
		fmt.Fprintf(&b, "/-- regenerated from `defaultConfigContainer.new`: per kind of the default value, how the config handed to fillConf\nand to the constructor is obtained ($reflect.Value = conf, $reflect.Value#1 = the addressable copy, $any = fillAddr) -/\ndef newConfigSwitch : List (String × String) :=\n  [%s]\n\n", strings.Join(rows, ",\n   "))
	}

	// the config hooks (core/plugin/pluginconfig): Lookup first, then parseConf, then creation by name; what parseConf tests
	hk := load("github.com/yandex/pandora/core/plugin/pluginconfig")
	for _, fn := range []string{"Hook", "FactoryHook"} {
		fd := pluginFindDecl(hk, fn)
		if fd == nil {
			t.errs = append(t.errs, "pluginconfig."+fn+" not found")
			continue
		}
		var rows []string
		for _, s := range fd.Body.List {
			if is, ok := s.(*ast.IfStmt); ok {
				var parts []string
				for _, bs := range is.Body.List {
					parts = append(parts, pluginCanon(hk, fd, bs))
				}
				rows = append(rows, "if "+pluginCanon(hk, fd, is.Cond)+" { "+strings.Join(parts, " ; ")+" }")
				continue
			}
			rows = append(rows, pluginCanon(hk, fd, s))
		}
		lname := "hookSteps"
		if fn == "FactoryHook" {
			lname = "factoryHookSteps"
		}
		fmt.Fprintf(&b, "/-- regenerated from core/plugin/pluginconfig func `%s` ($reflect.Type#1 = the field's type, $any = the data) -/\ndef %s : List String := [%s]\n", fn, lname, pluginQuoteList(rows))
	}
	if fd := pluginFindDecl(hk, "parseConf"); fd != nil {
		var conds, deletes []string
		ast.Inspect(fd.Body, func(n ast.Node) bool {
			switch v := n.(type) {
			case *ast.FuncLit:
				return false // the fillConf closure
			case *ast.IfStmt:
				conds = append(conds, pluginCanon(hk, fd, v.Cond))
			case *ast.CallExpr:
				if id, ok := v.Fun.(*ast.Ident); ok && id.Name == "delete" {
					deletes = append(deletes, pluginCanon(hk, fd, v))
				}
			}
			return true
		})
		fmt.Fprintf(&b, "/-- regenerated from `parseConf`: the conditions it tests (outside the fillConf closure), what it deletes from the data -/\ndef parseConfConds : List String := [%s]\ndef parseConfDeletes : List String := [%s]\n\n", pluginQuoteList(conds), pluginQuoteList(deletes))
		b.WriteString(pluginParseConfFlow(hk, fd))
		b.WriteString(pluginKeyMapCopies(t, hk))
	} else {
		t.errs = append(t.errs, "pluginconfig.parseConf not found")
	}

	// engine: who calls the factories
	eng := load("github.com/yandex/pandora/core/engine")
	b.WriteString("/-- regenerated from core/engine: call sites of the gun / schedule factories -/\n")
	b.WriteString(pluginSiteTable(t, eng, "engineSites", []pluginSite{
		{"instancePool.warmUpGun", []string{"$*instancePool.NewGun"}},
		{"newInstance", []string{"$instanceDeps.newGun", "$instanceDeps.newSchedule"}},
		{"runNewInstance", []string{"newInstance"}},
		{"instancePool.startInstances", []string{"newInstance", "runNewInstance", "$*instancePool.NewGun"}},
		{"instancePool.buildNewInstanceSchedule", []string{"$*instancePool.NewRPSSchedule"}},
	}))
	// instanceDeps literal: newGun: p.NewGun
	if fd := pluginFindDecl(eng, "instancePool.startInstances"); fd != nil {
		var kv []string
		ast.Inspect(fd, func(n ast.Node) bool {
			if e, ok := n.(*ast.KeyValueExpr); ok {
				k := pluginSrc(eng.Fset, e.Key)
				if k == "newGun" || k == "newSchedule" {
					kv = append(kv, k+": "+pluginCanon(eng, fd, e.Value))
				}
			}
			return true
		})
		sort.Strings(kv)
		fmt.Fprintf(&b, "def engineDeps : List String := [%s]\n", pluginQuoteList(kv))
	}
	if fd := pluginFindDecl(eng, "instancePool.buildNewInstanceSchedule"); fd != nil {
		first := ""
		if len(fd.Body.List) > 0 {
			first = pluginCanon(eng, fd, fd.Body.List[0])
		}
		fmt.Fprintf(&b, "def enginePerInstanceBranch : String := %q\n\n", first)
	}

	// round 4: the decoder configuration of config.Decode (the fillConf of the hook path)
	b.WriteString(pluginDecoderConfig(t, load("github.com/yandex/pandora/core/config")))

	// 4. core/register
	reg := load("github.com/yandex/pandora/core/register")
	var rows []string
	for _, f := range reg.Syntax {
		for _, d := range f.Decls {
			fd, ok := d.(*ast.FuncDecl)
			if !ok || fd.Recv != nil {
				continue
			}
			if fd.Name.Name == "RegisterPtr" {
				var parts []string
				for _, s := range fd.Body.List {
					parts = append(parts, pluginCanon(reg, fd, s))
				}
				fmt.Fprintf(&b, "/-- regenerated from core/register func `RegisterPtr` ($any = ptr, $string = name, $any#1 = the constructor) -/\ndef registerPtrBody : String := %q\n", strings.Join(parts, " ; "))
				continue
			}
			// the helper declares ONE variable of a pointer-to-interface type and passes it on
			ptrT, call := "", ""
			for _, s := range fd.Body.List {
				switch v := s.(type) {
				case *ast.DeclStmt:
					if gd, ok := v.Decl.(*ast.GenDecl); ok && len(gd.Specs) == 1 {
						if vs, ok := gd.Specs[0].(*ast.ValueSpec); ok && len(vs.Names) == 1 && vs.Type != nil {
							if _, isPtr := reg.TypesInfo.TypeOf(vs.Type).(*types.Pointer); isPtr {
								ptrT = pluginSrc(reg.Fset, vs.Type)
							}
						}
					}
				case *ast.ExprStmt:
					call = pluginCanon(reg, fd, v.X)
				}
			}
			rows = append(rows, fmt.Sprintf("(%q, %q, %q)", fd.Name.Name, ptrT, call))
		}
	}
	sort.Strings(rows)
	fmt.Fprintf(&b, "/-- regenerated from core/register: (helper, type of its pointer variable, the call it makes) -/\ndef registerHelpers : List (String × String × String) :=\n  [%s]\n", strings.Join(rows, ",\n   "))
	b.WriteString(pluginR6(t, p, x))
	return b.String()
}

// pluginParseConfFlow reads off parseConf how a caller can get a nil error: every `return` (outside the fillConf closure)
// and every assignment to the func-typed result, in source order.  A return is printed with the innermost enclosing
// condition, and with the statement right before it in its block (assigned variable, called function); an assignment to
// the func-typed result with its innermost enclosing condition and whether a closure is assigned.
func pluginParseConfFlow(p *packages.Package, fd *ast.FuncDecl) string {
	var fillObj types.Object
	if fd.Type.Results != nil {
		for _, f := range fd.Type.Results.List {
			if _, isFunc := p.TypesInfo.TypeOf(f.Type).Underlying().(*types.Signature); isFunc {
				for _, n := range f.Names {
					fillObj = p.TypesInfo.Defs[n]
				}
			}
		}
	}
	var rows []string
	row := func(kind, ctx, lhs, callee, res string) {
		rows = append(rows, fmt.Sprintf("(%q, %q, %q, %q, %q)", kind, ctx, lhs, callee, res))
	}
	var walkBlock func(list []ast.Stmt, ctx string)
	var walkStmt func(s ast.Stmt, prev ast.Stmt, ctx string)
	walkBlock = func(list []ast.Stmt, ctx string) {
		var prev ast.Stmt
		for _, s := range list {
			walkStmt(s, prev, ctx)
			prev = s
		}
	}
	walkStmt = func(s ast.Stmt, prev ast.Stmt, ctx string) {
		switch v := s.(type) {
		case *ast.ReturnStmt:
			lhs, callee := "", ""
			if as, ok := prev.(*ast.AssignStmt); ok && len(as.Lhs) == 1 && len(as.Rhs) == 1 {
				lhs = pluginCanon(p, fd, as.Lhs[0])
				if call, ok := as.Rhs[0].(*ast.CallExpr); ok {
					callee = pluginCanon(p, fd, call.Fun)
				}
			}
			var res []string
			for _, r := range v.Results {
				res = append(res, pluginCanon(p, fd, r))
			}
			row("ret", ctx, lhs, callee, strings.Join(res, ", "))
		case *ast.AssignStmt:
			for i, l := range v.Lhs {
				if id, ok := l.(*ast.Ident); ok && fillObj != nil && p.TypesInfo.ObjectOf(id) == fillObj {
					kind := "other"
					if len(v.Rhs) == len(v.Lhs) {
						if _, isLit := v.Rhs[i].(*ast.FuncLit); isLit {
							kind = "func"
						} else {
							kind = pluginCanon(p, fd, v.Rhs[i])
						}
					}
					row("fill", ctx, "", kind, "")
				}
			}
		case *ast.IfStmt:
			cond := pluginCanon(p, fd, v.Cond)
			walkBlock(v.Body.List, cond)
			if v.Else != nil {
				walkStmt(v.Else, nil, "!("+cond+")")
			}
		case *ast.BlockStmt:
			walkBlock(v.List, ctx)
		case *ast.RangeStmt:
			walkBlock(v.Body.List, "range")
		case *ast.ForStmt:
			walkBlock(v.Body.List, "for")
		case *ast.SwitchStmt:
			for _, c := range v.Body.List {
				walkBlock(c.(*ast.CaseClause).Body, "switch")
			}
		case *ast.TypeSwitchStmt:
			for _, c := range v.Body.List {
				walkBlock(c.(*ast.CaseClause).Body, "switch")
			}
		case *ast.LabeledStmt:
			walkStmt(v.Stmt, prev, ctx)
		}
	}
	walkBlock(fd.Body.List, "")
	// what the fillConf closure does to the configuration: the functions of the config package it calls
	var decoders []string
	ast.Inspect(fd.Body, func(n ast.Node) bool {
		lit, ok := n.(*ast.FuncLit)
		if !ok {
			return true
		}
		ast.Inspect(lit.Body, func(m ast.Node) bool {
			if call, ok := m.(*ast.CallExpr); ok {
				if sel, ok := call.Fun.(*ast.SelectorExpr); ok {
					if id, ok := sel.X.(*ast.Ident); ok {
						if pn, ok := p.TypesInfo.ObjectOf(id).(*types.PkgName); ok && pn.Imported().Path() == "github.com/yandex/pandora/core/config" {
							decoders = append(decoders, "config."+sel.Sel.Name)
						}
					}
				}
			}
			return true
		})
		return false
	})
	flow := fmt.Sprintf("/-- regenerated from `parseConf`: the functions of core/config the fillConf closure calls on the configuration -/\ndef parseConfDecoder : List String := [%s]\n", pluginQuoteList(decoders))
	return flow + fmt.Sprintf("/-- regenerated from `parseConf`: how it can return — every `return` outside the fillConf closure and every assignment to\nthe func-typed result (the fillConf it hands to plugin.New / NewFactory), in source order:\n(\"ret\", innermost enclosing condition, variable assigned right before, function called there, explicit results) /\n(\"fill\", innermost enclosing condition, \"\", \"func\" for a closure, \"\") -/\ndef parseConfFlow : List (String × String × String × String × String) :=\n  [%s]\n\n", strings.Join(rows, ",\n   "))
}

// pluginKeyMapCopies reads off toStringKeyMap that the map parseConf deletes the `type` key from is a COPY of the
// decoder's data: what the map-typed result is assigned from (the called function), and which maps are written to.
func pluginKeyMapCopies(t *tr, p *packages.Package) string {
	fd := pluginFindDecl(p, "toStringKeyMap")
	if fd == nil {
		t.errs = append(t.errs, "pluginconfig.toStringKeyMap not found")
		return ""
	}
	var outObj types.Object
	if fd.Type.Results != nil {
		for _, f := range fd.Type.Results.List {
			if _, isMap := p.TypesInfo.TypeOf(f.Type).Underlying().(*types.Map); isMap {
				for _, n := range f.Names {
					outObj = p.TypesInfo.Defs[n]
				}
			}
		}
	}
	var from, writes []string
	ast.Inspect(fd.Body, func(n ast.Node) bool {
		switch v := n.(type) {
		case *ast.AssignStmt:
			for i, l := range v.Lhs {
				switch lv := l.(type) {
				case *ast.Ident:
					if outObj != nil && p.TypesInfo.ObjectOf(lv) == outObj && len(v.Rhs) == len(v.Lhs) {
						if call, ok := v.Rhs[i].(*ast.CallExpr); ok {
							from = append(from, pluginCanon(p, fd, call.Fun))
						} else {
							from = append(from, pluginCanon(p, fd, v.Rhs[i]))
						}
					}
				case *ast.IndexExpr:
					writes = append(writes, pluginCanon(p, fd, lv.X))
				}
			}
		case *ast.CallExpr:
			if id, ok := v.Fun.(*ast.Ident); ok && id.Name == "delete" && len(v.Args) > 0 {
				writes = append(writes, "delete "+pluginCanon(p, fd, v.Args[0]))
			}
		}
		return true
	})
	return fmt.Sprintf("/-- regenerated from `toStringKeyMap`: what its map result is assigned from (called function), which maps it writes to -/\ndef keyMapFrom : List String := [%s]\ndef keyMapWrites : List String := [%s]\n\n", pluginQuoteList(from), pluginQuoteList(writes))
}

func pluginQuoteList(xs []string) string {
	var q []string
	for _, s := range xs {
		q = append(q, fmt.Sprintf("%q", s))
	}
	return strings.Join(q, ", ")
}

// ---------------------------------------------------------------- round 4: the decoder of the hook path
//
// pluginDecoderConfig reads core/config `newDecoderConfig` (the mapstructure.DecoderConfig of every config.Decode, which
// is the fillConf the config hooks hand to plugin.New / NewFactory):
//   decoderFresh        every value the function returns is a DecoderConfig allocated by THIS call (`return &T{…}`, or a
//                       local variable whose only definition is `&T{…}` / `T{…}` returned by address) — not the address
//                       of anything that outlives the call (a package-level variable, a field, a cached pointer);
//   decoderZeroFields / decoderErrorUnused / decoderWeaklyTyped
//                       the constant value of the flag in that literal (absent = false), overridden by a later
//                       `x.Flag = const` on the local variable; a non-constant value is a failed reading;
//   decoderResultFrom   canonical text of what the Result field is set to (`$any` = the function's parameter);
//   decodeMakes         canonical arguments of the mapstructure.NewDecoder calls of `Decode`;
//   decodeAndValidateCalls  the package-level functions `DecodeAndValidate` calls, in source order.
func pluginDecoderConfig(t *tr, p *packages.Package) string {
	var b strings.Builder
	fd := pluginFindDecl(p, "newDecoderConfig")
	if fd == nil {
		t.errs = append(t.errs, "config.newDecoderConfig not found")
		return ""
	}
	isDecCfg := func(e ast.Expr) bool {
		ty := p.TypesInfo.TypeOf(e)
		return ty != nil && strings.HasSuffix(ty.String(), "mapstructure.DecoderConfig")
	}
	// literal behind an expression: `&T{…}` / `T{…}`
	litOf := func(e ast.Expr) *ast.CompositeLit {
		if u, ok := e.(*ast.UnaryExpr); ok && u.Op == token.AND {
			e = u.X
		}
		if cl, ok := e.(*ast.CompositeLit); ok && isDecCfg(cl) {
			return cl
		}
		return nil
	}
	// local variables of the function: object -> their defining expressions
	defs := map[types.Object][]ast.Expr{}
	sets := map[types.Object][][2]ast.Expr{} // x.Field = v, in source order: (selector, value)
	var order []ast.Stmt
	ast.Inspect(fd.Body, func(n ast.Node) bool {
		if as, ok := n.(*ast.AssignStmt); ok && len(as.Lhs) == len(as.Rhs) {
			for i, l := range as.Lhs {
				switch lv := l.(type) {
				case *ast.Ident:
					if o := p.TypesInfo.ObjectOf(lv); o != nil && o.Parent() != p.Types.Scope() {
						defs[o] = append(defs[o], as.Rhs[i])
					}
				case *ast.SelectorExpr:
					if id, ok := lv.X.(*ast.Ident); ok {
						if o := p.TypesInfo.ObjectOf(id); o != nil {
							sets[o] = append(sets[o], [2]ast.Expr{lv, as.Rhs[i]})
						}
					}
				}
			}
			order = append(order, as)
		}
		return true
	})
	fresh := true
	var lit *ast.CompositeLit
	var local types.Object
	nret := 0
	ast.Inspect(fd.Body, func(n ast.Node) bool {
		if _, isLit := n.(*ast.FuncLit); isLit {
			return false
		}
		rs, ok := n.(*ast.ReturnStmt)
		if !ok || len(rs.Results) != 1 {
			return true
		}
		nret++
		e := rs.Results[0]
		if u, ok := e.(*ast.UnaryExpr); ok && u.Op == token.AND {
			if _, isId := u.X.(*ast.Ident); isId {
				e = u.X
			}
		}
		if l := litOf(e); l != nil {
			lit = l
			return true
		}
		if id, ok := e.(*ast.Ident); ok {
			o := p.TypesInfo.ObjectOf(id)
			if o != nil && o.Parent() != p.Types.Scope() && len(defs[o]) == 1 && litOf(defs[o][0]) != nil {
				lit, local = litOf(defs[o][0]), o
				return true
			}
		}
		fresh = false
		return true
	})
	if nret == 0 || lit == nil {
		fresh = false
	}
	flags := map[string]string{"ZeroFields": "false", "ErrorUnused": "false", "WeaklyTypedInput": "false"}
	resultFrom := ""
	setFlag := func(name string, v ast.Expr) {
		if name == "Result" {
			resultFrom = pluginCanon(p, fd, v)
			return
		}
		if _, ok := flags[name]; !ok {
			return
		}
		tv, ok := p.TypesInfo.Types[v]
		if !ok || tv.Value == nil {
			t.fail(v, "newDecoderConfig: %s is not a constant", name)
			flags[name] = "false /- not a constant -/"
			fresh = false
			return
		}
		flags[name] = tv.Value.String()
	}
	// the flags: from the literal when the function allocates one, otherwise from wherever the returned value is built
	// (so that a shared decoder config still yields readings and only `decoderFresh` is false)
	if lit == nil {
		for _, f := range p.Syntax {
			ast.Inspect(f, func(n ast.Node) bool {
				if cl, ok := n.(*ast.CompositeLit); ok && isDecCfg(cl) && lit == nil {
					has := false
					for _, el := range cl.Elts {
						if kv, ok := el.(*ast.KeyValueExpr); ok && pluginSrc(p.Fset, kv.Key) == "DecodeHook" {
							has = true
						}
					}
					if has {
						lit = cl
					}
				}
				return true
			})
		}
	}
	if lit != nil {
		for _, el := range lit.Elts {
			if kv, ok := el.(*ast.KeyValueExpr); ok {
				setFlag(pluginSrc(p.Fset, kv.Key), kv.Value)
			}
		}
	}
	for o, ss := range sets {
		if o == local || (local == nil && pluginIsDecCfgObj(o)) {
			for _, s := range ss {
				setFlag(s[0].(*ast.SelectorExpr).Sel.Name, s[1])
			}
		}
	}
	_ = order
	fmt.Fprintf(&b, "/-- regenerated from core/config func `newDecoderConfig`: is every returned DecoderConfig allocated by the call itself -/\ndef decoderFresh : Bool := %v\n", fresh)
	fmt.Fprintf(&b, "/-- regenerated from core/config func `newDecoderConfig`: the decoder's flags (absent = false) -/\ndef decoderZeroFields : Bool := %s\ndef decoderErrorUnused : Bool := %s\ndef decoderWeaklyTyped : Bool := %s\n",
		flags["ZeroFields"], flags["ErrorUnused"], flags["WeaklyTypedInput"])
	fmt.Fprintf(&b, "/-- what the Result field is set to ($any = the parameter of newDecoderConfig) -/\ndef decoderResultFrom : String := %q\n", resultFrom)
	if dd := pluginFindDecl(p, "Decode"); dd != nil {
		var args []string
		ast.Inspect(dd.Body, func(n ast.Node) bool {
			if c, ok := n.(*ast.CallExpr); ok {
				if sel, ok := c.Fun.(*ast.SelectorExpr); ok && sel.Sel.Name == "NewDecoder" {
					for _, a := range c.Args {
						args = append(args, pluginCanon(p, dd, a))
					}
				}
			}
			return true
		})
		fmt.Fprintf(&b, "/-- regenerated from core/config func `Decode`: the arguments of its mapstructure.NewDecoder calls ($any = conf, $any#1 = result) -/\ndef decodeMakes : List String := [%s]\n", pluginQuoteList(args))
	} else {
		t.errs = append(t.errs, "config.Decode not found")
	}
	if dv := pluginFindDecl(p, "DecodeAndValidate"); dv != nil {
		var calls []string
		ast.Inspect(dv.Body, func(n ast.Node) bool {
			if c, ok := n.(*ast.CallExpr); ok {
				if id, ok := c.Fun.(*ast.Ident); ok {
					if o := p.TypesInfo.ObjectOf(id); o != nil && o.Parent() == p.Types.Scope() {
						calls = append(calls, id.Name+"("+pluginCanonArgs(p, dv, c.Args)+")")
					}
				}
			}
			return true
		})
		fmt.Fprintf(&b, "/-- regenerated from core/config func `DecodeAndValidate`: the package-level functions it calls, in source order -/\ndef decodeAndValidateCalls : List String := [%s]\n\n", pluginQuoteList(calls))
	} else {
		t.errs = append(t.errs, "config.DecodeAndValidate not found")
	}
	return b.String()
}

func pluginIsDecCfgObj(o types.Object) bool {
	return o != nil && o.Type() != nil && strings.HasSuffix(strings.TrimPrefix(o.Type().String(), "*"), "mapstructure.DecoderConfig")
}

func pluginCanonArgs(p *packages.Package, fd *ast.FuncDecl, args []ast.Expr) string {
	var out []string
	for _, a := range args {
		out = append(out, pluginCanon(p, fd, a))
	}
	return strings.Join(out, ", ")
}
