package main

// Area "instloop" (property C03), second part: the goroutine that starts the instances and what the pool launches.
//
//	core/engine/engine.go    (*instancePool).startInstances as three lists of `Pandora.Model.C03Start.SInstr` (before the
//	                         loop, loop body followed by the post statement, after the loop); runNewInstance (the run result
//	                         of an instance is computed by calling its Run); (*instancePool).runAsync: the goroutines it
//	                         launches, what each sends on which channel, the buffer sizes, how the contexts are derived
//	core/plugin/constructor.go  (*pluginConstructor).NewFactory: what the factory it builds does AT EVERY CALL
//
// Reading of Go used here (locals and parameters are identified by their objects, not by their names):
//
//	W := coreutil.NewWaiter(p.StartupSchedule)                          -> .mkWaiter
//	[ok :=] W.Wait(<1st ctx param>) ; if !ok { err = <1st>.Err(); return }   -> .waitOrReturnCtxErr
//	F, err := newInstance(<2nd ctx param>, …, 0, …); if err != nil { return }  -> .newFirstOrReturn
//	started++                                                           -> .incStarted
//	go func() { R <- instanceRunResult{0, func() error { defer F.Close(); return F.Run(<2nd>) }()} }()  -> .goRunFirst
//	V := started                                                        -> .bindId
//	go func() { R <- instanceRunResult{V, runNewInstance(<2nd>, …, V, …)} }()   -> .goRunNew
//	err = <1st>.Err()                                                   -> .setErrCtx
//	return                                                              -> .ret
//	for ; W.Wait(<1st>); POST { BODY }                                  -> the loop list BODY ++ POST (no `continue` inside)
//	logging, local definitions without calls / channel operations       -> (nothing)
//	anything else                                                       -> .other "<source>"

import (
	"go/ast"
	"go/token"
	"go/types"
	"sort"
	"strconv"
	"strings"

	"golang.org/x/tools/go/packages"
)

type instloopStartX struct {
	*instloopW
	aw       *instloopAwaitX
	info     *types.Info
	startCtx types.Object
	runCtx   types.Object
	runRes   types.Object
	started  types.Object
	errRes   types.Object
	waiter   types.Object
	first    types.Object
	idVar    types.Object
}

func (x *instloopStartX) obj(e ast.Expr) types.Object {
	id, ok := e.(*ast.Ident)
	if !ok {
		return nil
	}
	if o := x.info.Uses[id]; o != nil {
		return o
	}
	return x.info.Defs[id]
}

func (x *instloopStartX) is(e ast.Expr, o types.Object) bool { return o != nil && x.obj(e) == o }

// isWait: `W.Wait(<startCtx>)`
func (x *instloopStartX) isWait(e ast.Expr) bool {
	c, ok := e.(*ast.CallExpr)
	if !ok || len(c.Args) != 1 || !x.is(c.Args[0], x.startCtx) {
		return false
	}
	se, ok := c.Fun.(*ast.SelectorExpr)
	return ok && se.Sel.Name == "Wait" && x.is(se.X, x.waiter)
}

// isCtxErr: `<startCtx>.Err()`
func (x *instloopStartX) isCtxErr(e ast.Expr) bool {
	c, ok := e.(*ast.CallExpr)
	if !ok || len(c.Args) != 0 {
		return false
	}
	se, ok := c.Fun.(*ast.SelectorExpr)
	return ok && se.Sel.Name == "Err" && x.is(se.X, x.startCtx)
}

// isErrCtxAssign: `err = <startCtx>.Err()` (the named result)
func (x *instloopStartX) isErrCtxAssign(s ast.Stmt) bool {
	as, ok := s.(*ast.AssignStmt)
	return ok && as.Tok == token.ASSIGN && len(as.Lhs) == 1 && len(as.Rhs) == 1 && x.is(as.Lhs[0], x.errRes) && x.isCtxErr(as.Rhs[0])
}

func instloopIsBareReturn(s ast.Stmt) bool {
	r, ok := s.(*ast.ReturnStmt)
	return ok && len(r.Results) == 0
}

// sendOnRunRes: `go func() { R <- instanceRunResult{A, B} }()` -> A, B
func (x *instloopStartX) sendOnRunRes(s ast.Stmt) (ast.Expr, ast.Expr, bool) {
	g, ok := s.(*ast.GoStmt)
	if !ok || len(g.Call.Args) != 0 {
		return nil, nil, false
	}
	fl, ok := g.Call.Fun.(*ast.FuncLit)
	if !ok || len(fl.Body.List) != 1 {
		return nil, nil, false
	}
	snd, ok := fl.Body.List[0].(*ast.SendStmt)
	if !ok || !x.is(snd.Chan, x.runRes) {
		return nil, nil, false
	}
	cl, ok := snd.Value.(*ast.CompositeLit)
	if !ok || x.src(cl.Type) != "instanceRunResult" || len(cl.Elts) != 2 {
		return nil, nil, false
	}
	a, b := cl.Elts[0], cl.Elts[1]
	if kv, isKV := a.(*ast.KeyValueExpr); isKV {
		kb, isKB := b.(*ast.KeyValueExpr)
		if !isKB {
			return nil, nil, false
		}
		if x.src(kv.Key) == "Err" {
			kv, kb = kb, kv
		}
		if x.src(kv.Key) != "ID" || x.src(kb.Key) != "Err" {
			return nil, nil, false
		}
		a, b = kv.Value, kb.Value
	}
	return a, b, true
}

func (x *instloopStartX) stmts(list []ast.Stmt) []string {
	var out []string
	for k := 0; k < len(list); k++ {
		s := list[k]
		if x.aw.isLog(s) {
			continue
		}
		next := func() ast.Stmt {
			for j := k + 1; j < len(list); j++ {
				if !x.aw.isLog(list[j]) {
					return list[j]
				}
			}
			return nil
		}
		skipNext := func() {
			for j := k + 1; j < len(list); j++ {
				if !x.aw.isLog(list[j]) {
					k = j
					return
				}
			}
		}
		// `if !ok { err = ctx.Err(); return }`
		isFailBlock := func(ifs *ast.IfStmt, okName types.Object) bool {
			if ifs.Init != nil || ifs.Else != nil {
				return false
			}
			u, isU := ifs.Cond.(*ast.UnaryExpr)
			if !isU || u.Op != token.NOT {
				return false
			}
			if okName != nil {
				if !x.is(u.X, okName) {
					return false
				}
			} else if !x.isWait(u.X) {
				return false
			}
			var l []ast.Stmt
			for _, b := range ifs.Body.List {
				if !x.aw.isLog(b) {
					l = append(l, b)
				}
			}
			return len(l) == 2 && x.isErrCtxAssign(l[0]) && instloopIsBareReturn(l[1])
		}
		switch v := s.(type) {
		case *ast.AssignStmt:
			// W := coreutil.NewWaiter(p.StartupSchedule)
			if v.Tok == token.DEFINE && len(v.Lhs) == 1 && len(v.Rhs) == 1 {
				if c, ok := v.Rhs[0].(*ast.CallExpr); ok && x.src(c.Fun) == "coreutil.NewWaiter" && len(c.Args) == 1 &&
					x.src(c.Args[0]) == x.recv+".StartupSchedule" {
					x.waiter = x.obj(v.Lhs[0])
					out = append(out, ".mkWaiter")
					continue
				}
				// ok := W.Wait(startCtx); if !ok { err = startCtx.Err(); return }
				if x.isWait(v.Rhs[0]) {
					if ifs, ok := next().(*ast.IfStmt); ok && isFailBlock(ifs, x.obj(v.Lhs[0])) {
						skipNext()
						out = append(out, ".waitOrReturnCtxErr")
						continue
					}
				}
				// V := started
				if x.is(v.Rhs[0], x.started) {
					x.idVar = x.obj(v.Lhs[0])
					out = append(out, ".bindId")
					continue
				}
			}
			// F, err := newInstance(runCtx, …, 0, …); if err != nil { return }
			if len(v.Lhs) == 2 && len(v.Rhs) == 1 && x.is(v.Lhs[1], x.errRes) {
				if c, ok := v.Rhs[0].(*ast.CallExpr); ok && x.src(c.Fun) == "newInstance" && len(c.Args) == 5 && x.is(c.Args[0], x.runCtx) && x.src(c.Args[3]) == "0" {
					if ifs, ok := next().(*ast.IfStmt); ok && ifs.Init == nil && ifs.Else == nil {
						if be, ok := ifs.Cond.(*ast.BinaryExpr); ok && be.Op == token.NEQ && x.is(be.X, x.errRes) && x.src(be.Y) == "nil" {
							var l []ast.Stmt
							for _, b := range ifs.Body.List {
								if !x.aw.isLog(b) {
									l = append(l, b)
								}
							}
							if len(l) == 1 && instloopIsBareReturn(l[0]) {
								x.first = x.obj(v.Lhs[0])
								skipNext()
								out = append(out, ".newFirstOrReturn")
								continue
							}
						}
					}
				}
			}
			if x.isErrCtxAssign(v) {
				out = append(out, ".setErrCtx")
				continue
			}
			if x.aw.pureLocal(v) {
				continue
			}
			out = append(out, ".other "+instloopStr(x.src(s)))
		case *ast.IfStmt:
			// if !W.Wait(startCtx) { err = startCtx.Err(); return }
			if isFailBlock(v, nil) {
				out = append(out, ".waitOrReturnCtxErr")
				continue
			}
			out = append(out, ".other "+instloopStr(x.src(s)))
		case *ast.IncDecStmt:
			if v.Tok == token.INC && x.is(v.X, x.started) {
				out = append(out, ".incStarted")
				continue
			}
			out = append(out, ".other "+instloopStr(x.src(s)))
		case *ast.GoStmt:
			id, val, ok := x.sendOnRunRes(v)
			if !ok {
				out = append(out, ".other "+instloopStr(x.src(s)))
				continue
			}
			// first instance: id 0, the value is `func() error { defer F.Close(); return F.Run(runCtx) }()`
			if x.src(id) == "0" {
				if c, isC := val.(*ast.CallExpr); isC && len(c.Args) == 0 {
					if fl, isFl := c.Fun.(*ast.FuncLit); isFl && len(fl.Body.List) == 2 {
						d, isD := fl.Body.List[0].(*ast.DeferStmt)
						r, isR := fl.Body.List[1].(*ast.ReturnStmt)
						if isD && isR && len(r.Results) == 1 {
							ds, dok := d.Call.Fun.(*ast.SelectorExpr)
							rc, rok := r.Results[0].(*ast.CallExpr)
							if dok && rok && ds.Sel.Name == "Close" && x.is(ds.X, x.first) && len(rc.Args) == 1 && x.is(rc.Args[0], x.runCtx) {
								if rs, isS := rc.Fun.(*ast.SelectorExpr); isS && rs.Sel.Name == "Run" && x.is(rs.X, x.first) {
									out = append(out, ".goRunFirst")
									continue
								}
							}
						}
					}
				}
			}
			// later instances: id V, value runNewInstance(runCtx, …, V, …)
			if x.idVar != nil && x.is(id, x.idVar) {
				if c, isC := val.(*ast.CallExpr); isC && x.src(c.Fun) == "runNewInstance" && len(c.Args) == 5 && x.is(c.Args[0], x.runCtx) && x.is(c.Args[3], x.idVar) {
					out = append(out, ".goRunNew")
					continue
				}
			}
			out = append(out, ".other "+instloopStr(x.src(s)))
		case *ast.ReturnStmt:
			if len(v.Results) == 0 {
				out = append(out, ".ret")
				continue
			}
			out = append(out, ".other "+instloopStr(x.src(s)))
		default:
			out = append(out, ".other "+instloopStr(x.src(s)))
		}
	}
	return out
}

func instloopHasContinue(b *ast.BlockStmt) bool {
	found := false
	ast.Inspect(b, func(n ast.Node) bool {
		switch v := n.(type) {
		case *ast.FuncLit:
			return false
		case *ast.BranchStmt:
			if v.Tok == token.CONTINUE || v.Tok == token.BREAK || v.Tok == token.GOTO {
				found = true
			}
		}
		return !found
	})
	return found
}

func instloopStart(t *tr, en *packages.Package) string {
	var b strings.Builder
	notFound := []string{".other \"startInstances not found\""}
	pre, loop, post := notFound, notFound, notFound
	if fd := instloopFindMethod(en, "instancePool", "startInstances"); fd != nil && len(fd.Recv.List[0].Names) == 1 {
		w := &instloopW{t: t, pkg: en, recv: fd.Recv.List[0].Names[0].Name}
		x := &instloopStartX{instloopW: w, aw: &instloopAwaitX{instloopW: w, bound: "\x00"}, info: en.TypesInfo}
		var params, results []types.Object
		for _, f := range fd.Type.Params.List {
			for _, n := range f.Names {
				params = append(params, en.TypesInfo.Defs[n])
			}
		}
		if fd.Type.Results != nil {
			for _, f := range fd.Type.Results.List {
				for _, n := range f.Names {
					results = append(results, en.TypesInfo.Defs[n])
				}
			}
		}
		if len(params) == 4 && len(results) == 2 {
			x.startCtx, x.runCtx, x.runRes = params[0], params[1], params[3]
			x.started, x.errRes = results[0], results[1]
			// the loop is the (only) top-level `for`
			at := -1
			for k, s := range fd.Body.List {
				if _, ok := s.(*ast.ForStmt); ok {
					if at >= 0 {
						at = -2
						break
					}
					at = k
				}
			}
			if at >= 0 {
				fs := fd.Body.List[at].(*ast.ForStmt)
				pre = x.stmts(fd.Body.List[:at])
				if fs.Init == nil && fs.Cond != nil && x.isWait(fs.Cond) && !instloopHasContinue(fs.Body) {
					body := append([]ast.Stmt{}, fs.Body.List...)
					if fs.Post != nil {
						body = append(body, fs.Post)
					}
					loop = x.stmts(body)
				} else {
					loop = []string{".other " + instloopStr("for "+x.src(fs.Cond)+" …")}
				}
				post = x.stmts(fd.Body.List[at+1:])
			} else {
				x.fail(fd, "startInstances shape: exactly one top-level for loop expected")
			}
		} else {
			x.fail(fd, "startInstances signature: (startCtx, runCtx, newInstanceSchedule, runRes) (started, err) expected")
		}
	} else {
		t.errs = append(t.errs, "method (*instancePool).startInstances not found")
	}
	b.WriteString("/-- regenerated from `core/engine/engine.go` `(*instancePool).startInstances`: the statements before its loop -/\n")
	b.WriteString("def startPre : List Pandora.Model.C03Start.SInstr := " + instloopList(pre, "  ") + "\n\n")
	b.WriteString("/-- regenerated from `startInstances`: `for ; waiter.Wait(startCtx); POST { BODY }` as BODY ++ POST -/\n")
	b.WriteString("def startLoop : List Pandora.Model.C03Start.SInstr := " + instloopList(loop, "  ") + "\n\n")
	b.WriteString("/-- regenerated from `startInstances`: the statements after its loop -/\n")
	b.WriteString("def startPost : List Pandora.Model.C03Start.SInstr := " + instloopList(post, "  ") + "\n\n")

	// ---- runNewInstance: create, (fail ->) return the error, close after Run, the result is what Run returns
	shape := false
	if fd := findFunc(en, "runNewInstance"); fd != nil && len(fd.Type.Params.List) > 0 && len(fd.Type.Params.List[0].Names) > 0 {
		w := &instloopW{t: t, pkg: en}
		ctxName := fd.Type.Params.List[0].Names[0].Name
		aw := &instloopAwaitX{instloopW: &instloopW{t: t, pkg: en, recv: "\x00"}, bound: "\x00"}
		var l []ast.Stmt
		for _, s := range fd.Body.List {
			if !aw.isLog(s) {
				l = append(l, s)
			}
		}
		if len(l) == 4 {
			as, ok0 := l[0].(*ast.AssignStmt)
			ifs, ok1 := l[1].(*ast.IfStmt)
			d, ok2 := l[2].(*ast.DeferStmt)
			r, ok3 := l[3].(*ast.ReturnStmt)
			if ok0 && ok1 && ok2 && ok3 && len(as.Lhs) == 2 && len(as.Rhs) == 1 && len(r.Results) == 1 {
				inst, errN := w.src(as.Lhs[0]), w.src(as.Lhs[1])
				c, isC := as.Rhs[0].(*ast.CallExpr)
				if isC && w.src(c.Fun) == "newInstance" && len(c.Args) >= 1 && w.src(c.Args[0]) == ctxName &&
					ifs.Init == nil && ifs.Else == nil && w.src(ifs.Cond) == errN+" != nil" && len(ifs.Body.List) == 1 && w.src(ifs.Body.List[0]) == "return "+errN &&
					w.src(d.Call) == inst+".Close()" && w.src(r.Results[0]) == inst+".Run("+ctxName+")" {
					shape = true
				}
			}
		}
	} else {
		t.errs = append(t.errs, "func runNewInstance not found")
	}
	b.WriteString("/-- regenerated from `core/engine/engine.go` `runNewInstance`: `inst, err := newInstance(ctx, …); if err != nil { return err };\ndefer inst.Close(); return inst.Run(ctx)` — the run result of an instance is what its `Run` returned -/\n")
	b.WriteString("def runNewInstanceRunsThenCloses : Bool := " + strconv.FormatBool(shape) + "\n\n")

	// ---- runAsync: the goroutines it launches and what each sends, the channels, the contexts
	var gos, chans, ctxs []string
	runResBuf := "0"
	if fd := instloopFindMethod(en, "instancePool", "runAsync"); fd != nil && len(fd.Recv.List[0].Names) == 1 && len(fd.Type.Params.List) == 1 && len(fd.Type.Params.List[0].Names) == 1 {
		w := &instloopW{t: t, pkg: en, recv: fd.Recv.List[0].Names[0].Name}
		info := en.TypesInfo
		poolCtx := info.Defs[fd.Type.Params.List[0].Names[0]]
		role := map[types.Object]string{poolCtx: "pool"} // context / cancel objects -> role
		field := map[types.Object]string{}               // local -> field of the returned handle it is stored in
		size := map[types.Object]string{}                // channel local -> buffer size
		objOf := func(e ast.Expr) types.Object {
			if id, ok := e.(*ast.Ident); ok {
				if o := info.Uses[id]; o != nil {
					return o
				}
				return info.Defs[id]
			}
			return nil
		}
		name := func(e ast.Expr) string { // an argument / channel by its role, else its source text
			if o := objOf(e); o != nil {
				if r, ok := role[o]; ok {
					return "ctx:" + r
				}
				if f, ok := field[o]; ok {
					return "chan:" + f
				}
			}
			return w.src(e)
		}
		// the returned handle: which local goes into which field
		ast.Inspect(fd.Body, func(n ast.Node) bool {
			cl, ok := n.(*ast.CompositeLit)
			if !ok || w.src(cl.Type) != "poolAsyncRunHandle" {
				return true
			}
			for _, e := range cl.Elts {
				if kv, ok := e.(*ast.KeyValueExpr); ok {
					if o := objOf(kv.Value); o != nil {
						field[o] = w.src(kv.Key)
					}
				}
			}
			return false
		})
		// contexts and channels, wherever they are declared at the top level of the function
		var visit func(n ast.Node) bool
		visit = func(n ast.Node) bool {
			switch v := n.(type) {
			case *ast.FuncLit:
				return false
			case *ast.AssignStmt:
				if len(v.Lhs) == 2 && len(v.Rhs) == 1 {
					if c, ok := v.Rhs[0].(*ast.CallExpr); ok && w.src(c.Fun) == "context.WithCancel" && len(c.Args) == 1 {
						parent := name(c.Args[0])
						o := objOf(v.Lhs[0])
						r := field[o]
						if r == "" {
							r = w.src(v.Lhs[0])
						}
						r = strings.TrimSuffix(r, "Ctx")
						role[o] = r
						if co := objOf(v.Lhs[1]); co != nil {
							role[co] = r + "-cancel"
						}
						ctxs = append(ctxs, r+" = WithCancel("+parent+")")
					}
				}
				for k, rhs := range v.Rhs {
					if c, ok := rhs.(*ast.CallExpr); ok && w.src(c.Fun) == "make" && len(c.Args) >= 1 && k < len(v.Lhs) {
						if _, isChan := c.Args[0].(*ast.ChanType); isChan {
							sz := "0"
							if len(c.Args) == 2 {
								if tv, ok := info.Types[c.Args[1]]; ok && tv.Value != nil {
									sz = tv.Value.ExactString()
								} else {
									sz = w.src(c.Args[1])
								}
							}
							size[objOf(v.Lhs[k])] = sz
						}
					}
				}
			case *ast.ValueSpec:
				for k, rhs := range v.Values {
					if c, ok := rhs.(*ast.CallExpr); ok && w.src(c.Fun) == "make" && len(c.Args) >= 1 && k < len(v.Names) {
						if _, isChan := c.Args[0].(*ast.ChanType); isChan {
							sz := "0"
							if len(c.Args) == 2 {
								if tv, ok := info.Types[c.Args[1]]; ok && tv.Value != nil {
									sz = tv.Value.ExactString()
								} else {
									sz = w.src(c.Args[1])
								}
							}
							size[info.Defs[v.Names[k]]] = sz
						}
					}
				}
			}
			return true
		}
		ast.Inspect(fd.Body, visit)
		for o, sz := range size {
			f := field[o]
			if f == "" {
				f = o.Name()
			}
			if f == "runRes" { // its buffer is a matter of tuning ("Seems good enough"): only that there is one
				runResBuf = sz
				continue
			}
			chans = append(chans, f+":"+sz)
		}
		// the goroutines: every send they perform, with the calls that compute the value (arguments by role)
		for _, s := range fd.Body.List {
			g, ok := s.(*ast.GoStmt)
			if !ok {
				continue
			}
			fl, ok := g.Call.Fun.(*ast.FuncLit)
			if !ok {
				gos = append(gos, "go "+w.src(g.Call))
				continue
			}
			// locals of the goroutine that hold the result of a call: `started, err := p.startInstances(…)`
			val := map[types.Object]string{}
			callText := func(c *ast.CallExpr) string {
				var as []string
				for _, a := range c.Args {
					n := name(a)
					if strings.HasPrefix(n, "ctx:") || strings.HasPrefix(n, "chan:") {
						as = append(as, n)
					}
				}
				return strings.TrimPrefix(w.src(c.Fun), w.recv+".") + "(" + strings.Join(as, ", ") + ")"
			}
			var sends []string
			for _, st := range fl.Body.List {
				switch v := st.(type) {
				case *ast.AssignStmt:
					if len(v.Rhs) == 1 {
						if c, ok := v.Rhs[0].(*ast.CallExpr); ok {
							for _, l := range v.Lhs {
								if o := objOf(l); o != nil {
									val[o] = callText(c)
								}
							}
							continue
						}
					}
					aw := &instloopAwaitX{instloopW: w, bound: "\x00"}
					if !aw.pureLocal(v) {
						sends = append(sends, "other:"+w.src(st))
					}
				case *ast.SendStmt:
					what := ""
					switch e := v.Value.(type) {
					case *ast.CallExpr:
						what = callText(e)
					case *ast.CompositeLit:
						seen := map[string]bool{}
						for _, el := range e.Elts {
							if kv, ok := el.(*ast.KeyValueExpr); ok {
								el = kv.Value
							}
							if o := objOf(el); o != nil && val[o] != "" && !seen[val[o]] {
								seen[val[o]] = true
								what += val[o]
							}
						}
						what = w.src(e.Type) + "{" + what + "}"
					default:
						what = w.src(v.Value)
					}
					sends = append(sends, name(v.Chan)+" <- "+what)
				default:
					sends = append(sends, "other:"+w.src(st))
				}
			}
			gos = append(gos, strings.Join(sends, "; "))
		}
		sort.Strings(gos)
		sort.Strings(chans)
		sort.Strings(ctxs)
	} else {
		t.errs = append(t.errs, "method (*instancePool).runAsync not found")
	}
	q := func(l []string) string {
		var o []string
		for _, s := range l {
			o = append(o, instloopStr(s))
		}
		return "[" + strings.Join(o, ",\n  ") + "]"
	}
	b.WriteString("/-- regenerated from `core/engine/engine.go` `(*instancePool).runAsync`: per goroutine it launches, the sends it\nperforms (channel by the field of the run handle it is stored in, the value by the call that computes it with its context /\nchannel arguments by role); sorted -/\n")
	b.WriteString("def runAsyncGoroutines : List String := " + q(gos) + "\n\n")
	b.WriteString("/-- regenerated from `runAsync`: the result channels it makes besides `runRes` (handle field : buffer size); sorted -/\n")
	b.WriteString("def runAsyncChannels : List String := " + q(chans) + "\n\n")
	if _, err := strconv.Atoi(runResBuf); err != nil {
		runResBuf = "0"
	}
	b.WriteString("/-- regenerated from `runAsync`: the buffer of `runRes` -/\n")
	b.WriteString("def runAsyncRunResBuf : Nat := " + runResBuf + "\n\n")
	b.WriteString("/-- regenerated from `runAsync`: how the contexts are derived; sorted -/\n")
	b.WriteString("def runAsyncContexts : List String := " + q(ctxs) + "\n\n")

	// ---- core/plugin/constructor.go (*pluginConstructor).NewFactory: the calls the factory it builds performs at EVERY
	//      call (calls inside the function literal handed to reflect.MakeFunc; nested function literals — a sync.Once.Do,
	//      a cached closure — are not entered, so a call moved into one is no longer "at every call")
	var perCall []string
	more := instloopLoad("github.com/yandex/pandora/core/plugin", "github.com/yandex/pandora/core/coreutil")
	pl := more["github.com/yandex/pandora/core/plugin"]
	if fd := instloopFindMethod(pl, "pluginConstructor", "NewFactory"); fd != nil && len(fd.Recv.List[0].Names) == 1 {
		w := &instloopW{t: t, pkg: pl, recv: fd.Recv.List[0].Names[0].Name}
		var lit *ast.FuncLit
		ast.Inspect(fd.Body, func(n ast.Node) bool {
			if c, ok := n.(*ast.CallExpr); ok && w.src(c.Fun) == "reflect.MakeFunc" && len(c.Args) == 2 && lit == nil {
				if fl, ok := c.Args[1].(*ast.FuncLit); ok {
					lit = fl
				}
				return false
			}
			return true
		})
		if lit != nil {
			seen := map[string]bool{}
			ast.Inspect(lit.Body, func(n ast.Node) bool {
				switch v := n.(type) {
				case *ast.FuncLit:
					return false
				case *ast.CallExpr:
					f := w.src(v.Fun)
					if (f == "getMaybeConf" || f == w.recv+".newPlugin.Call") && !seen[f] {
						seen[f] = true
						perCall = append(perCall, strings.TrimPrefix(f, w.recv+"."))
					}
				}
				return true
			})
			sort.Strings(perCall)
		} else {
			w.fail(fd, "NewFactory shape: reflect.MakeFunc(factoryType, func(…) …) expected")
		}
	} else {
		t.errs = append(t.errs, "method (*pluginConstructor).NewFactory not found")
	}
	b.WriteString("/-- regenerated from `core/plugin/constructor.go` `(*pluginConstructor).NewFactory`: of `getMaybeConf()` (decode the\nplugin's config from the configuration data) and `newPlugin.Call(…)` (the registered constructor), the ones the factory\nperforms at EVERY call (nested function literals not entered); sorted -/\n")
	b.WriteString("def factoryPerCall : List String := " + q(perCall) + "\n\n")
	b.WriteString(instloopCallback(t, more["github.com/yandex/pandora/core/coreutil"]))
	b.WriteString(instloopEngineRun(t, en))
	// ---- engine.go: (*instancePool).Run, the await goroutine; plugin registry: the config getter (area_instloop_pool.go)
	b.WriteString(instloopPool(t, en, pl))
	return b.String()
}

// instloopEngineRun: (*Engine).Run — the loop that awaits the pools: its header (loop variable and receiver normalised),
// every `return` inside it, and the statement after it.
func instloopEngineRun(t *tr, en *packages.Package) string {
	var b strings.Builder
	header, after := "?", "?"
	var rets []string
	if fd := instloopFindMethod(en, "Engine", "Run"); fd != nil && len(fd.Recv.List[0].Names) == 1 {
		w := &instloopW{t: t, pkg: en, recv: fd.Recv.List[0].Names[0].Name}
		var loop *ast.ForStmt
		at := -1
		for k, st := range fd.Body.List {
			if fs, ok := st.(*ast.ForStmt); ok {
				loop, at = fs, k
			}
		}
		if loop != nil && loop.Init != nil && loop.Cond != nil && loop.Post != nil {
			iv := ""
			if as, ok := loop.Init.(*ast.AssignStmt); ok && len(as.Lhs) == 1 {
				iv = w.src(as.Lhs[0])
			}
			norm := func(x string) string {
				x = strings.ReplaceAll(x, w.recv+".", "$.")
				if iv != "" {
					var o []string
					for _, f := range strings.Fields(x) {
						if f == iv {
							f = "$i"
						} else if f == iv+"++" {
							f = "$i++"
						}
						o = append(o, f)
					}
					x = strings.Join(o, " ")
				}
				return x
			}
			header = "for " + norm(w.src(loop.Init)) + "; " + norm(w.src(loop.Cond)) + "; " + norm(w.src(loop.Post))
			ast.Inspect(loop.Body, func(n ast.Node) bool {
				switch v := n.(type) {
				case *ast.FuncLit:
					return false
				case *ast.ReturnStmt:
					rets = append(rets, w.src(v))
				}
				return true
			})
			sort.Strings(rets)
			if at+1 < len(fd.Body.List) {
				after = w.src(fd.Body.List[at+1])
			}
		} else {
			w.fail(fd, "Engine.Run shape: a three-clause for loop over the pools expected")
		}
	} else {
		t.errs = append(t.errs, "method (*Engine).Run not found")
	}
	q := func(l []string) string {
		var o []string
		for _, x := range l {
			o = append(o, instloopStr(x))
		}
		return "[" + strings.Join(o, ",\n  ") + "]"
	}
	b.WriteString("/-- regenerated from `core/engine/engine.go` `(*Engine).Run`: the header of the loop that awaits the pool results -/\n")
	b.WriteString("def engineRunLoop : String := " + instloopStr(header) + "\n\n")
	b.WriteString("/-- regenerated from `(*Engine).Run`: every `return` inside that loop; sorted -/\n")
	b.WriteString("def engineRunReturnsInLoop : List String := " + q(rets) + "\n\n")
	b.WriteString("/-- regenerated from `(*Engine).Run`: the statement after the loop -/\n")
	b.WriteString("def engineRunAfterLoop : String := " + instloopStr(after) + "\n\n")
	return b.String()
}

// instloopCallback: core/coreutil/schedule.go, the wrapper the engine puts around the SHARED profile
// (NewCallbackOnFinishSchedule): what its Left() / Next() return and when they fire the finish callback, as functions of
// what the wrapped schedule answered.
//
//	V := s.Schedule.Left()  |  A, B = s.Schedule.Next()      the one call of the wrapped schedule (first statement)
//	if COND { … }                                            COND over V / B and integer literals
//	s.onFinishOnce.Do(s.onFinish)                            -> the callback has fired (once)
//	return [E]                                               -> (E, fired)
func instloopCallback(t *tr, cu *packages.Package) string {
	var b strings.Builder
	for _, m := range []string{"Left", "Next"} {
		body := "(UNSUPPORTED)"
		fd := instloopFindMethod(cu, "callbackOnFinishSchedule", m)
		if fd == nil || len(fd.Recv.List[0].Names) != 1 || len(fd.Body.List) < 2 {
			t.errs = append(t.errs, "method (*callbackOnFinishSchedule)."+m+" not found")
		} else {
			w := &instloopW{t: t, pkg: cu, recv: fd.Recv.List[0].Names[0].Name}
			val := "" // the Go variable holding the inner answer the function looks at
			if as, ok := fd.Body.List[0].(*ast.AssignStmt); ok && len(as.Rhs) == 1 && w.src(as.Rhs[0]) == w.recv+".Schedule."+m+"()" {
				if m == "Left" && len(as.Lhs) == 1 {
					val = w.src(as.Lhs[0])
				}
				if m == "Next" && len(as.Lhs) == 2 {
					val = w.src(as.Lhs[1])
				}
			}
			lean := map[string]string{"Left": "left", "Next": "ok"}[m]
			var expr func(e ast.Expr) (string, bool)
			expr = func(e ast.Expr) (string, bool) {
				switch v := e.(type) {
				case *ast.Ident:
					if v.Name == val {
						return lean, true
					}
				case *ast.BasicLit:
					if v.Kind == token.INT {
						return "(" + v.Value + " : Int)", true
					}
				case *ast.ParenExpr:
					return expr(v.X)
				case *ast.UnaryExpr:
					if v.Op == token.NOT {
						if x, ok := expr(v.X); ok {
							return "(!" + x + ")", true
						}
					}
				case *ast.BinaryExpr:
					op := map[token.Token]string{token.EQL: "=", token.LEQ: "≤", token.LSS: "<", token.GEQ: "≥", token.GTR: ">", token.NEQ: "≠"}[v.Op]
					l, lok := expr(v.X)
					r, rok := expr(v.Y)
					if op != "" && lok && rok {
						return "decide (" + l + " " + op + " " + r + ")", true
					}
				}
				return "", false
			}
			var tr func(list []ast.Stmt, fired bool) (string, bool)
			tr = func(list []ast.Stmt, fired bool) (string, bool) {
				if len(list) == 0 {
					return "", false
				}
				switch v := list[0].(type) {
				case *ast.IfStmt:
					if v.Init != nil || v.Else != nil {
						return "", false
					}
					c, ok := expr(v.Cond)
					if !ok {
						return "", false
					}
					th, ok1 := tr(append(append([]ast.Stmt{}, v.Body.List...), list[1:]...), fired)
					el, ok2 := tr(list[1:], fired)
					if !ok1 || !ok2 {
						return "", false
					}
					return "(if " + c + " then " + th + " else " + el + ")", true
				case *ast.ExprStmt:
					if w.src(v.X) == w.recv+".onFinishOnce.Do("+w.recv+".onFinish)" {
						return tr(list[1:], true)
					}
				case *ast.ReturnStmt:
					ret := lean
					if len(v.Results) == 1 && m == "Left" {
						r, ok := expr(v.Results[0])
						if !ok {
							return "", false
						}
						ret = r
					} else if len(v.Results) != 0 || m != "Next" {
						return "", false
					}
					return "(" + ret + ", " + strconv.FormatBool(fired) + ")", true
				}
				return "", false
			}
			if val != "" {
				if tx, ok := tr(fd.Body.List[1:], false); ok {
					body = tx
				}
			}
			if body == "(UNSUPPORTED)" {
				w.fail(fd, "callbackOnFinishSchedule.%s shape", m)
			}
		}
		if m == "Left" {
			b.WriteString("/-- regenerated from `core/coreutil/schedule.go` `(*callbackOnFinishSchedule).Left` (the wrapper of the SHARED profile):\n(what it returns, whether it fires the finish callback) for the wrapped schedule's answer `left` -/\n")
			b.WriteString("def callbackLeft (left : Int) : Int × Bool := " + body + "\n\n")
		} else {
			b.WriteString("/-- regenerated from `(*callbackOnFinishSchedule).Next`: (the `ok` it returns, whether it fires the finish callback) for the\nwrapped schedule's `ok`; the time is passed on -/\n")
			b.WriteString("def callbackNext (ok : Bool) : Bool × Bool := " + body + "\n\n")
		}
	}
	return b.String()
}
