package main

// Area "config", fifth part (round 4): core/plugin — how the registry hands a config to a constructor.
//
// For every function of core/plugin (registry.go, constructor.go) that takes part in building a plugin instance, the
// calls that matter (the default-config constructor, fillConf, the getMaybeConf closure, the registered constructor,
// Get / new / NewPlugin / NewFactory / callNewFactory) are listed as
//
//	<callee>(<argument types>) @<closure depth> [if <guards>]
//
// where a callee / guard that starts at a local variable is named by the TYPE of that variable (`registered.defaultConfig.Get`
// -> `nameRegistryEntry.defaultConfig.Get`), a function-typed variable by its signature without parameter names, the
// closure depth is the number of function literals around the call (0 = runs when the function runs, 1 = runs when the
// returned closure / factory is called) and the guards are the conditions of the enclosing `if`s (`!` for the else
// branch).  The list of every function is SORTED: renamed locals, reordered independent statements, added logging and
// added local variables do not change it; a call that moves into or out of a closure, loses its guard, or disappears does.

import (
	"fmt"
	"go/ast"
	"go/types"
	"sort"
	"strings"

	"golang.org/x/tools/go/packages"
)

var configPluginFuncs = []string{
	"Registry.New", "Registry.NewFactory", "defaultConfigContainer.Get", "defaultConfigContainer.new",
	"pluginConstructor.NewPlugin", "pluginConstructor.NewFactory",
	"factoryConstructor.NewPlugin", "factoryConstructor.NewFactory", "factoryConstructor.callNewFactory",
}

var configPluginCallees = map[string]bool{
	"Get": true, "new": true, "NewPlugin": true, "NewFactory": true, "callNewFactory": true, "Call": true, "get": true,
}

func configRecvName(fd *ast.FuncDecl) string {
	if fd.Recv == nil || len(fd.Recv.List) != 1 {
		return ""
	}
	e := fd.Recv.List[0].Type
	if st, ok := e.(*ast.StarExpr); ok {
		e = st.X
	}
	if id, ok := e.(*ast.Ident); ok {
		return id.Name
	}
	return ""
}

func configFindMethod(p *packages.Package, full string) *ast.FuncDecl {
	recv, name, _ := strings.Cut(full, ".")
	for _, f := range p.Syntax {
		for _, d := range f.Decls {
			if fd, ok := d.(*ast.FuncDecl); ok && fd.Name.Name == name && configRecvName(fd) == recv {
				return fd
			}
		}
	}
	return nil
}

// configTypeNoNames: a type as text; signatures without parameter names, package-local named types without the path
func configTypeNoNames(ty types.Type) string {
	switch x := ty.(type) {
	case *types.Signature:
		var ps, rs []string
		for i := 0; i < x.Params().Len(); i++ {
			ps = append(ps, configTypeNoNames(x.Params().At(i).Type()))
		}
		for i := 0; i < x.Results().Len(); i++ {
			rs = append(rs, configTypeNoNames(x.Results().At(i).Type()))
		}
		s := "func(" + strings.Join(ps, ", ") + ")"
		switch len(rs) {
		case 0:
		case 1:
			s += " " + rs[0]
		default:
			s += " (" + strings.Join(rs, ", ") + ")"
		}
		return s
	case *types.Pointer:
		return "*" + configTypeNoNames(x.Elem())
	case *types.Slice:
		return "[]" + configTypeNoNames(x.Elem())
	case *types.Named:
		if x.Obj().Pkg() != nil && x.Obj().Pkg().Name() != "plugin" {
			return x.Obj().Pkg().Name() + "." + x.Obj().Name()
		}
		return x.Obj().Name()
	}
	return types.TypeString(ty, func(p *types.Package) string { return p.Name() })
}

// configPluginExpr: an expression with every local variable replaced by its type
func configPluginExpr(p *packages.Package, fd *ast.FuncDecl, e ast.Expr) string {
	switch x := e.(type) {
	case *ast.Ident:
		if v, ok := p.TypesInfo.ObjectOf(x).(*types.Var); ok && !v.IsField() && v.Pos() >= fd.Pos() && v.Pos() <= fd.End() {
			ty := v.Type()
			if pt, ok := ty.(*types.Pointer); ok {
				ty = pt.Elem()
			}
			return configTypeNoNames(ty)
		}
		return x.Name
	case *ast.SelectorExpr:
		return configPluginExpr(p, fd, x.X) + "." + x.Sel.Name
	case *ast.CallExpr:
		var as []string
		for _, a := range x.Args {
			as = append(as, configPluginExpr(p, fd, a))
		}
		return configPluginExpr(p, fd, x.Fun) + "(" + strings.Join(as, ", ") + ")"
	case *ast.UnaryExpr:
		return x.Op.String() + configPluginExpr(p, fd, x.X)
	case *ast.BinaryExpr:
		return configPluginExpr(p, fd, x.X) + " " + x.Op.String() + " " + configPluginExpr(p, fd, x.Y)
	case *ast.ParenExpr:
		return "(" + configPluginExpr(p, fd, x.X) + ")"
	case *ast.IndexExpr:
		return configPluginExpr(p, fd, x.X) + "[" + configPluginExpr(p, fd, x.Index) + "]"
	}
	return cfSrc(p, e)
}

func configPluginCalls(p *packages.Package, fd *ast.FuncDecl) []string {
	var out []string
	var walk func(n ast.Node, depth int, guards []string)
	walkList := func(list []ast.Stmt, depth int, guards []string) {
		for _, st := range list {
			walk(st, depth, guards)
		}
	}
	walk = func(n ast.Node, depth int, guards []string) {
		switch x := n.(type) {
		case nil:
			return
		case *ast.IfStmt:
			if x.Init != nil {
				walk(x.Init, depth, guards)
			}
			c := configPluginExpr(p, fd, x.Cond)
			walk(x.Cond, depth, guards)
			walkList(x.Body.List, depth, append(append([]string{}, guards...), c))
			if x.Else != nil {
				walk(x.Else, depth, append(append([]string{}, guards...), "!("+c+")"))
			}
			return
		case *ast.FuncLit:
			walkList(x.Body.List, depth+1, nil) // the guards around the literal guard its creation, not its calls
			return
		case *ast.CallExpr:
			interesting := false
			switch f := x.Fun.(type) {
			case *ast.Ident:
				if v, ok := p.TypesInfo.ObjectOf(f).(*types.Var); ok {
					_, isSig := v.Type().Underlying().(*types.Signature)
					interesting = isSig
				}
			case *ast.SelectorExpr:
				interesting = configPluginCallees[f.Sel.Name]
			}
			if interesting {
				s := configPluginExpr(p, fd, x) + fmt.Sprintf(" @%d", depth)
				if len(guards) > 0 {
					s += " if " + strings.Join(guards, " && ")
				}
				out = append(out, s)
			}
		}
		// children
		ast.Inspect(n, func(m ast.Node) bool {
			if m == n || m == nil {
				return true
			}
			switch m.(type) {
			case *ast.IfStmt, *ast.FuncLit, *ast.CallExpr:
				walk(m, depth, guards)
				return false
			}
			return true
		})
	}
	walkList(fd.Body.List, 0, nil)
	sort.Strings(out)
	return out
}

func configPluginFacts(t *tr) string {
	pp := load("github.com/yandex/pandora/core/plugin")
	var rows []string
	for _, full := range configPluginFuncs {
		fd := configFindMethod(pp, full)
		if fd == nil || fd.Body == nil {
			t.errs = append(t.errs, "core/plugin: "+full+" not found")
			continue
		}
		rows = append(rows, fmt.Sprintf("(%q, %s)", full, cfQ(configPluginCalls(pp, fd))))
	}
	var b strings.Builder
	b.WriteString("\n/-- core/plugin: per function, the calls that hand a config to a constructor — callee(argument types) @closure depth\n" +
		"[if guards], locals named by their type, sorted (see gen/area_config_plugin.go) -/\n")
	b.WriteString("def pluginCalls : List (String × List String) := [\n  " + strings.Join(rows, ",\n  ") + "]\n")
	return b.String()
}

// ---- single-assignment locals inlined into a pinned condition (round 4)

// configPureDefs: the locals of fd that are defined exactly once (`x := e`, one value), never assigned again, and whose
// defining expression is free of calls other than to package strings / len: a condition that mentions such a local
// says the same as the condition with the expression in its place (hoisting `strings.TrimSpace(s)` out of a condition
// is no change of behaviour)
func configPureDefs(p *packages.Package, fd *ast.FuncDecl) map[types.Object]ast.Expr {
	defs := map[types.Object]ast.Expr{}
	writes := map[types.Object]int{}
	ast.Inspect(fd, func(n ast.Node) bool {
		switch x := n.(type) {
		case *ast.AssignStmt:
			for i, l := range x.Lhs {
				id, ok := l.(*ast.Ident)
				if !ok {
					continue
				}
				obj := p.TypesInfo.ObjectOf(id)
				if obj == nil {
					continue
				}
				writes[obj]++
				if len(x.Lhs) == len(x.Rhs) && x.Tok.String() == ":=" {
					defs[obj] = x.Rhs[i]
				}
			}
		case *ast.IncDecStmt:
			if id, ok := x.X.(*ast.Ident); ok {
				writes[p.TypesInfo.ObjectOf(id)] += 2
			}
		case *ast.RangeStmt:
			for _, e := range []ast.Expr{x.Key, x.Value} {
				if id, ok := e.(*ast.Ident); ok {
					writes[p.TypesInfo.ObjectOf(id)] += 2
				}
			}
		case *ast.UnaryExpr:
			if x.Op.String() == "&" {
				if id, ok := x.X.(*ast.Ident); ok {
					writes[p.TypesInfo.ObjectOf(id)] += 2
				}
			}
		}
		return true
	})
	out := map[types.Object]ast.Expr{}
	for obj, e := range defs {
		if writes[obj] != 1 {
			continue
		}
		pure := true
		ast.Inspect(e, func(n ast.Node) bool {
			if call, ok := n.(*ast.CallExpr); ok {
				f := cfSrc(p, call.Fun)
				if !strings.HasPrefix(f, "strings.") && f != "len" {
					pure = false
				}
			}
			if _, ok := n.(*ast.FuncLit); ok {
				pure = false
			}
			return pure
		})
		if pure {
			out[obj] = e
		}
	}
	return out
}

// configInline: e with every pure single-assignment local replaced by its defining expression (recursively)
func configInline(p *packages.Package, e ast.Expr, defs map[types.Object]ast.Expr, depth int) ast.Expr {
	if depth > 8 {
		return e
	}
	switch x := e.(type) {
	case *ast.Ident:
		if d, ok := defs[p.TypesInfo.ObjectOf(x)]; ok {
			in := configInline(p, d, defs, depth+1)
			switch in.(type) {
			case *ast.Ident, *ast.CallExpr, *ast.SelectorExpr, *ast.IndexExpr, *ast.BasicLit, *ast.ParenExpr:
				return in
			}
			return &ast.ParenExpr{X: in}
		}
		return x
	case *ast.BinaryExpr:
		return &ast.BinaryExpr{X: configInline(p, x.X, defs, depth), Op: x.Op, Y: configInline(p, x.Y, defs, depth)}
	case *ast.UnaryExpr:
		return &ast.UnaryExpr{Op: x.Op, X: configInline(p, x.X, defs, depth)}
	case *ast.ParenExpr:
		return &ast.ParenExpr{X: configInline(p, x.X, defs, depth)}
	case *ast.CallExpr:
		args := make([]ast.Expr, len(x.Args))
		for i, a := range x.Args {
			args[i] = configInline(p, a, defs, depth)
		}
		return &ast.CallExpr{Fun: configInline(p, x.Fun, defs, depth), Args: args, Ellipsis: x.Ellipsis}
	case *ast.SelectorExpr:
		return &ast.SelectorExpr{X: configInline(p, x.X, defs, depth), Sel: x.Sel}
	case *ast.IndexExpr:
		return &ast.IndexExpr{X: configInline(p, x.X, defs, depth), Index: configInline(p, x.Index, defs, depth)}
	}
	return e
}
