package main

// Area "c05prov" (property C05, round 6): the ammo providers the engine runs.  The engine's contract with a provider
// ("Run returns nil only at the regular end of the ammo; when Run has returned, Acquire does not block any more") lives
// in the providers, not in the anchored engine files.  Regenerated from the CURRENT source into
// lean/Pandora/Gen/C05Prov.lean with the path walker of area c05engine (same vocabulary `Pandora.Model.C05.Path`):
//
//	core/provider/decoder.go           (*DecodeProvider).Run        -> paths (deferred close of OutQueue, the io.EOF test, …)
//	core/provider/json.go              (*JSONAmmoDecoder).Decode    -> paths
//	core/provider/queue.go             (*AmmoQueue).Acquire         -> paths
//	components/providers/grpc/provider.go (*Provider).Run, (*Provider).Acquire -> paths
//	components/providers/http/provider/provider.go (*Provider).Run     -> paths (the deferred close of Sink comes first)
//
// What the paths mean is decided in Lean: lean/Pandora/Bridge/C05Prov.lean.

import (
	"fmt"
	"go/ast"
	"strings"
)

func init() {
	areas["c05prov"] = area{
		pkgPath:   "github.com/yandex/pandora/core/provider",
		module:    "C05Prov",
		namespace: "Pandora.Gen.C05Prov",
		imports:   []string{"Pandora.Model.C05Src"},
		extra:     c05provExtra,
	}
}

func c05provEmit(b *strings.Builder, t *tr, pkgDoc string, specs [][3]string, watch map[string]string) {
	x := &c05eX{t: t, fset: t.pkg.Fset, names: map[*ast.Object]string{}}
	files := t.pkg.Syntax
	for _, f := range files {
		for _, d := range f.Decls {
			if fd, ok := d.(*ast.FuncDecl); ok {
				x.nameFunc(fd)
			}
		}
	}
	for _, s := range specs {
		recv, name, lean := s[0], s[1], s[2]
		fd := c05eFind(files, recv, name)
		if fd == nil {
			t.errs = append(t.errs, fmt.Sprintf("c05prov: func (%s) %s not found in %s", recv, name, pkgDoc))
			continue
		}
		w := &c05eWalker{x: x, watch: watch, limit: 600}
		b.WriteString(c05eLeanPaths(lean, fmt.Sprintf("regenerated from `%s` `(*%s).%s`", pkgDoc, recv, name), w.paths(fd.Body.List)))
	}
}

func c05provExtra(t *tr) string {
	var b strings.Builder
	b.WriteString("open Pandora.Model.C05\n\n")
	watch := map[string]string{
		"close:*": "", "OpenSource": "", "newDecoder": "", "Decode": "", "WithMessage": "str", "Wrap": "str", "Wrapf": "str",
		"Close": "", "Open": "", "start": "", "WhatIsNext": "", "ReadVal": "", "NewMultiPassReader": "", "Cause": "arg0",
		"Is": "arg1", "New": "str", "Errorf": "str",
	}
	c05provEmit(&b, t, "core/provider", [][3]string{
		{"DecodeProvider", "Run", "srcDecodeRun"},
		{"JSONAmmoDecoder", "Decode", "srcJsonDecode"},
		{"AmmoQueue", "Acquire", "srcQueueAcquire"},
	}, watch)
	g := &tr{pkg: load("github.com/yandex/pandora/components/providers/grpc"), known: map[string]string{}, translating: map[string]bool{}}
	c05provEmit(&b, g, "components/providers/grpc", [][3]string{
		{"Provider", "Run", "srcGrpcRun"},
		{"Provider", "Acquire", "srcGrpcAcquire"},
	}, watch)
	t.errs = append(t.errs, g.errs...)
	h := &tr{pkg: load("github.com/yandex/pandora/components/providers/http/provider"), known: map[string]string{}, translating: map[string]bool{}}
	c05provEmit(&b, h, "components/providers/http/provider", [][3]string{
		{"Provider", "Run", "srcHttpRun"},
	}, map[string]string{"close:*": "", "Close": "", "InitMiddleware": "", "loadAmmo": "", "runPreloaded": "", "runFullScan": ""})
	t.errs = append(t.errs, h.errs...)
	return b.String()
}
