package main

// Area "c05wait" (property C05, round 4): what ends the shooting loop of an instance lives in core/coreutil, which the
// anchored instance.go only calls.  Regenerated from the CURRENT source into lean/Pandora/Gen/C05Wait.lean, with the
// path walker of area c05engine (same reading of Go, same vocabulary `Pandora.Model.C05.Path`):
//
//	core/coreutil/waiter.go    (*Waiter).IsFinished, (*Waiter).Wait, (*Waiter).IsSlowDown      -> paths
//	core/coreutil/schedule.go  (*callbackOnFinishSchedule).Next, (*callbackOnFinishSchedule).Left -> paths
//
// What the paths mean (which of them return true, that the context is looked at before a token is taken, that the
// finish callback fires exactly when the wrapped schedule says it is finished) is decided in Lean:
// lean/Pandora/Bridge/C05Wait.lean.

import (
	"fmt"
	"go/ast"
	"strings"
)

func init() {
	areas["c05wait"] = area{
		pkgPath:   "github.com/yandex/pandora/core/coreutil",
		module:    "C05Wait",
		namespace: "Pandora.Gen.C05Wait",
		imports:   []string{"Pandora.Model.C05Src"},
		extra:     c05waitExtra,
	}
}

func c05waitExtra(t *tr) string {
	x := &c05eX{t: t, fset: t.pkg.Fset, names: map[*ast.Object]string{}}
	files := t.pkg.Syntax
	for _, f := range files {
		for _, d := range f.Decls {
			if fd, ok := d.(*ast.FuncDecl); ok {
				x.nameFunc(fd)
			}
		}
	}
	var b strings.Builder
	b.WriteString("open Pandora.Model.C05\n\n")
	emit := func(recv, name, lean string, watch map[string]string) {
		fd := c05eFind(files, recv, name)
		if fd == nil {
			t.errs = append(t.errs, fmt.Sprintf("c05wait: func (%s) %s not found in core/coreutil", recv, name))
			return
		}
		w := &c05eWalker{x: x, watch: watch, limit: 400}
		b.WriteString(c05eLeanPaths(lean, fmt.Sprintf("regenerated from `core/coreutil` `(*%s).%s`", recv, name), w.paths(fd.Body.List)))
	}
	emit("Waiter", "IsFinished", "isFinished", map[string]string{"Left": "", "Next": ""})
	emit("Waiter", "Wait", "wait", map[string]string{"Left": "", "Next": "", "NewTimer": "", "Reset": ""})
	emit("Waiter", "IsSlowDown", "isSlowDown", map[string]string{"Left": "", "Next": ""})
	emit("callbackOnFinishSchedule", "Next", "cbNext", map[string]string{"Next": "", "Left": "", "Do": "arg0"})
	emit("callbackOnFinishSchedule", "Left", "cbLeft", map[string]string{"Next": "", "Left": "", "Do": "arg0"})
	return b.String()
}
