package main

// Area "respguard" (property C19): regenerates, core-Lean only, the response-dependent arithmetic / tables and an
// inventory of every place of the anchored files where Go can panic at run time:
//
//	substrIdx start end_ l : Int × Int   the index arithmetic of the closure returned by VarHeaderPostprocessor.substr
//	                                     (statement by statement; the pair is what `in[lo:hi]` is sliced with)
//	substrDefaultEnd                     the value of `end` when the modifier has one argument
//	sizeRejects op val len : Option Bool the `switch a.Size.Op` of assert/response (http): none = "unknown op" error
//	httpStatusRejects / grpcStatusRejects cfg got : Bool     the status_code comparison of both assertions
//	grpcAssertSteps                      the order of the checks of the gRPC assertion (status, empty payload, nil message, contains)
//	httpAssertSteps                      the order of the checks of the http assertion
//	httpBodyReadCond p s b : Bool, httpBodyReadUnknownAtoms  the condition under which the http assertion reads the body
//	                                     (boolean function of `len(a.Body) > 0`, `a.Size != nil`, `body != nil`)
//	checkHTTP2Conds, notHTTP2PanicMsg, nextProtoTLS, panicOnHTTP1Do                panicOnHTTP1Client / checkHTTP2
//	doErrPanics a b c : Bool, doErrUnknownAtoms  the condition of the panicking `if` of the error branch of Do as a
//	                                     boolean function of its atoms (errors.As / Op == "remote error" / text of alert 120)
//	varHeaderProcess, varJsonpathProcess, varXpathProcess, xpathValuesFromDOM, scenarioPostLoop
//	                                     the statements of the extractors and of the postprocessor loop in a canonical
//	                                     spelling (locals renamed to v<i>, error texts dropped)
//	recoverFormat                        instance.Run: the deferred recover() and the error it turns a panic into
//	explicitPanics                       every `panic(..)` / `<logger>.Panic(..)` call of the scanned files
//	uncheckedAssertions                  every type assertion WITHOUT comma-ok (outside type switches)
//	indexings                            every index / slice expression on a string, slice or array (not maps)
//	nilMapWrites is not needed: every map written in the scanned files is created by make/literal in the same function
//	                                     (checked here: `mapWritesWithoutMake`)
//
// Entries are `file|func|text` (no line numbers: moving code around does not change them), sorted.
// Anything that does not have the expected shape is a translation error (gen exits non-zero).

import (
	"fmt"
	"go/ast"
	"go/constant"
	"go/printer"
	"go/token"
	"go/types"
	"os"
	"path/filepath"
	"sort"
	"strconv"
	"strings"

	"golang.org/x/tools/go/packages"
)

const (
	rgPostHTTP = "github.com/yandex/pandora/components/providers/scenario/http/postprocessor"
	rgPostGRPC = "github.com/yandex/pandora/components/providers/scenario/grpc/postprocessor"
	rgGunHTTP  = "github.com/yandex/pandora/components/guns/http"
	rgGunScn   = "github.com/yandex/pandora/components/guns/http_scenario"
	rgGunGRPC  = "github.com/yandex/pandora/components/guns/grpc"
	rgGunGScn  = "github.com/yandex/pandora/components/guns/grpc/scenario"
	rgEngine   = "github.com/yandex/pandora/core/engine"
)

func init() {
	areas["respguard"] = area{
		pkgPath:   rgPostGRPC, // small package: main() loads it with all dependencies from source; the area itself loads everything in one call
		module:    "RespGuard",
		namespace: "Pandora.Gen.RespGuard",
		imports:   []string{"Pandora.Model.C10Ns", "Pandora.Model.C19Vars"},
		extra:     respGuardExtra,
	}
}

// rgLoadAll type-checks all packages of the area in ONE go/packages call (dependencies come from export data).
func rgLoadAll(paths ...string) map[string]*packages.Package {
	cfg := &packages.Config{Mode: packages.NeedName | packages.NeedSyntax | packages.NeedTypes | packages.NeedTypesInfo |
		packages.NeedFiles | packages.NeedImports, Dir: repo, BuildFlags: []string{"-tags=verif"}}
	pkgs, err := packages.Load(cfg, paths...)
	if err != nil {
		fmt.Fprintln(os.Stderr, "load:", err)
		os.Exit(1)
	}
	out := map[string]*packages.Package{}
	for _, p := range pkgs {
		if len(p.Errors) > 0 {
			fmt.Fprintln(os.Stderr, "load errors:", p.PkgPath, p.Errors)
			os.Exit(1)
		}
		out[p.PkgPath] = p
	}
	for _, w := range paths {
		if out[w] == nil {
			fmt.Fprintln(os.Stderr, "load: package not found:", w)
			os.Exit(1)
		}
	}
	return out
}

func rgFindMethod(p *packages.Package, recv, name string) *ast.FuncDecl {
	for _, f := range p.Syntax {
		for _, d := range f.Decls {
			fd, ok := d.(*ast.FuncDecl)
			if !ok || fd.Recv == nil || fd.Name.Name != name || len(fd.Recv.List) != 1 {
				continue
			}
			ty := fd.Recv.List[0].Type
			if st, ok := ty.(*ast.StarExpr); ok {
				ty = st.X
			}
			if id, ok := ty.(*ast.Ident); ok && id.Name == recv {
				return fd
			}
		}
	}
	return nil
}

func rgName(s string) string {
	if s == "end" {
		return "end_"
	}
	return mangle(s)
}

// rgIntExpr translates an integer / boolean expression over identifiers and literals to core Lean (Int).
func rgIntExpr(t *tr, p *packages.Package, e ast.Expr, lenOf map[string]string) string {
	switch x := e.(type) {
	case *ast.ParenExpr:
		return rgIntExpr(t, p, x.X, lenOf)
	case *ast.Ident:
		return rgName(x.Name)
	case *ast.BasicLit:
		if x.Kind == token.INT {
			return "(" + x.Value + " : Int)"
		}
	case *ast.UnaryExpr:
		if x.Op == token.SUB {
			return "(-" + rgIntExpr(t, p, x.X, lenOf) + ")"
		}
	case *ast.CallExpr:
		if id, ok := x.Fun.(*ast.Ident); ok && id.Name == "len" && len(x.Args) == 1 {
			if a, ok := x.Args[0].(*ast.Ident); ok {
				if v, ok := lenOf[a.Name]; ok {
					return v
				}
			}
		}
	case *ast.BinaryExpr:
		l, r := rgIntExpr(t, p, x.X, lenOf), rgIntExpr(t, p, x.Y, lenOf)
		switch x.Op {
		case token.ADD:
			return "(" + l + " + " + r + ")"
		case token.SUB:
			return "(" + l + " - " + r + ")"
		case token.LSS:
			return "(" + l + " < " + r + ")"
		case token.LEQ:
			return "(" + l + " ≤ " + r + ")"
		case token.GTR:
			return "(" + l + " > " + r + ")"
		case token.GEQ:
			return "(" + l + " ≥ " + r + ")"
		case token.EQL:
			return "(" + l + " = " + r + ")"
		case token.NEQ:
			return "(" + l + " ≠ " + r + ")"
		}
	}
	gsFail(t, p, e, "respguard: expression %s", nodeString(p, e))
	return "(UNSUPPORTED)"
}

func oneLine(s string) string { return strings.Join(strings.Fields(s), " ") }

func leanStrList(xs []string) string {
	var q []string
	for _, x := range xs {
		q = append(q, strconv.Quote(x))
	}
	if len(q) == 0 {
		return "[]"
	}
	return "[\n  " + strings.Join(q, ",\n  ") + "]"
}

func respGuardExtra(t *tr) string {
	var b strings.Builder
	all := rgLoadAll(rgPostHTTP, rgPostGRPC, rgGunHTTP, rgGunScn, rgGunGRPC, rgGunGScn, rgEngine)
	p := all[rgPostHTTP]
	t.pkg = p

	// ---------------------------------------------------------------- 1. substr closure
	fd := rgFindMethod(p, "VarHeaderPostprocessor", "substr")
	if fd == nil {
		t.errs = append(t.errs, "VarHeaderPostprocessor.substr not found")
		return ""
	}
	// `end := <const>` in the method body
	defEnd := ""
	for _, s := range fd.Body.List {
		if as, ok := s.(*ast.AssignStmt); ok && as.Tok == token.DEFINE && len(as.Lhs) == 1 && len(as.Rhs) == 1 {
			if id, ok := as.Lhs[0].(*ast.Ident); ok && id.Name == "end" {
				if tv, ok := p.TypesInfo.Types[as.Rhs[0]]; ok && tv.Value != nil {
					defEnd = constant.ToInt(tv.Value).ExactString()
				}
			}
		}
	}
	if defEnd == "" {
		gsFail(t, p, fd, "substr: `end := <constant>` not found")
		defEnd = "0"
	}
	var lit *ast.FuncLit
	if n := len(fd.Body.List); n > 0 {
		if r, ok := fd.Body.List[n-1].(*ast.ReturnStmt); ok && len(r.Results) == 2 {
			lit, _ = r.Results[0].(*ast.FuncLit)
		}
	}
	if lit == nil || len(lit.Type.Params.List) != 1 || len(lit.Type.Params.List[0].Names) != 1 {
		gsFail(t, p, fd, "substr: last statement must be `return func(in string) string {...}, nil`")
		return ""
	}
	in := lit.Type.Params.List[0].Names[0].Name
	body := lit.Body.List
	var lines []string
	lenVar := ""
	lenOf := map[string]string{}
	okShape := len(body) >= 2
	if okShape {
		// l := len(in)
		as, ok := body[0].(*ast.AssignStmt)
		okShape = ok && as.Tok == token.DEFINE && len(as.Lhs) == 1 && len(as.Rhs) == 1 && oneLine(nodeString(p, as.Rhs[0])) == "len("+in+")"
		if okShape {
			lenVar = as.Lhs[0].(*ast.Ident).Name
			lenOf[in] = rgName(lenVar)
		}
	}
	if !okShape {
		gsFail(t, p, lit, "substr closure: first statement must be `l := len(%s)`", in)
		return ""
	}
	assigned := map[string]bool{}
	for _, s := range body[1 : len(body)-1] {
		ifs, ok := s.(*ast.IfStmt)
		if !ok || ifs.Init != nil || ifs.Else != nil || len(ifs.Body.List) != 1 {
			gsFail(t, p, s, "substr closure: only `if c { v = e }` / `if c { a, b = b, a }` statements are understood")
			continue
		}
		as, ok := ifs.Body.List[0].(*ast.AssignStmt)
		if !ok || as.Tok != token.ASSIGN {
			gsFail(t, p, s, "substr closure: if body must be an assignment")
			continue
		}
		c := rgIntExpr(t, p, ifs.Cond, lenOf)
		switch {
		case len(as.Lhs) == 1 && len(as.Rhs) == 1:
			id, ok := as.Lhs[0].(*ast.Ident)
			if !ok {
				gsFail(t, p, s, "substr closure: assignment target")
				continue
			}
			v := rgName(id.Name)
			assigned[id.Name] = true
			lines = append(lines, fmt.Sprintf("  let %s : Int := if %s then %s else %s", v, c, rgIntExpr(t, p, as.Rhs[0], lenOf), v))
		case len(as.Lhs) == 2 && len(as.Rhs) == 2:
			a, ok1 := as.Lhs[0].(*ast.Ident)
			bb, ok2 := as.Lhs[1].(*ast.Ident)
			if !ok1 || !ok2 {
				gsFail(t, p, s, "substr closure: assignment target")
				continue
			}
			assigned[a.Name], assigned[bb.Name] = true, true
			// simultaneous assignment: evaluate both right-hand sides first
			lines = append(lines, fmt.Sprintf("  let rgPair : Int × Int := if %s then (%s, %s) else (%s, %s)", c,
				rgIntExpr(t, p, as.Rhs[0], lenOf), rgIntExpr(t, p, as.Rhs[1], lenOf), rgName(a.Name), rgName(bb.Name)))
			lines = append(lines, fmt.Sprintf("  let %s : Int := rgPair.1", rgName(a.Name)))
			lines = append(lines, fmt.Sprintf("  let %s : Int := rgPair.2", rgName(bb.Name)))
		default:
			gsFail(t, p, s, "substr closure: assignment arity")
		}
	}
	ret, ok := body[len(body)-1].(*ast.ReturnStmt)
	var se *ast.SliceExpr
	if ok && len(ret.Results) == 1 {
		se, _ = ret.Results[0].(*ast.SliceExpr)
	}
	if se == nil || se.Slice3 || se.Low == nil || se.High == nil || oneLine(nodeString(p, se.X)) != in {
		gsFail(t, p, lit, "substr closure: last statement must be `return %s[lo:hi]`", in)
		return ""
	}
	// free variables of the closure: the two captured integers of the method
	params := []string{rgName("start"), rgName("end")}
	for n := range assigned {
		if n != "start" && n != "end" {
			gsFail(t, p, lit, "substr closure assigns unexpected variable %s", n)
		}
	}
	b.WriteString("/-- regenerated from `components/providers/scenario/http/postprocessor/var_header.go`, the closure returned by\n`(*VarHeaderPostprocessor).substr`: the pair the header value is sliced with (`" + oneLine(nodeString(p, ret)) + "`), as a function of the\ncaptured `start`, `end` and of `" + lenVar + " = len(" + in + ")`; one `let` per statement -/\n")
	b.WriteString("def substrIdx (" + strings.Join(params, " ") + " " + rgName(lenVar) + " : Int) : Int × Int :=\n")
	b.WriteString(strings.Join(lines, "\n") + "\n")
	b.WriteString("  (" + rgIntExpr(t, p, se.Low, lenOf) + ", " + rgIntExpr(t, p, se.High, lenOf) + ")\n\n")
	b.WriteString("/-- `end` when the modifier has a single argument -/\ndef substrDefaultEnd : Int := " + defEnd + "\n\n")

	// the modifier names of parseModifier's switch
	if pm := rgFindMethod(p, "VarHeaderPostprocessor", "parseModifier"); pm != nil {
		var names []string
		ast.Inspect(pm, func(n ast.Node) bool {
			if sw, ok := n.(*ast.SwitchStmt); ok && sw.Tag != nil && oneLine(nodeString(p, sw.Tag)) == "name" {
				for _, cs := range sw.Body.List {
					for _, l := range cs.(*ast.CaseClause).List {
						if tv, ok := p.TypesInfo.Types[l]; ok && tv.Value != nil {
							names = append(names, constant.StringVal(tv.Value))
						}
					}
				}
			}
			return true
		})
		sort.Strings(names)
		b.WriteString("/-- the modifier names `parseModifier` knows (sorted) -/\ndef modifierNames : List String := " + leanStrList(names) + "\n\n")
	} else {
		t.errs = append(t.errs, "VarHeaderPostprocessor.parseModifier not found")
	}

	// the guard of the only index expression on extracted values: `if <cond> { result[k] = values[0] }`
	if xp := rgFindMethod(p, "VarXpathPostprocessor", "Process"); xp == nil {
		t.errs = append(t.errs, "VarXpathPostprocessor.Process not found")
	} else {
		var guards []string
		ast.Inspect(xp, func(n ast.Node) bool {
			ifs, ok := n.(*ast.IfStmt)
			if !ok {
				return true
			}
			uses := false
			ast.Inspect(ifs.Body, func(m ast.Node) bool {
				if ie, ok := m.(*ast.IndexExpr); ok && oneLine(nodeString(p, ie)) == "values[0]" {
					uses = true
				}
				return true
			})
			if uses {
				guards = append(guards, oneLine(nodeString(p, ifs.Cond)))
			}
			return true
		})
		sort.Strings(guards)
		b.WriteString("/-- the conditions of the `if` statements whose body reads `values[0]` in `VarXpathPostprocessor.Process` -/\ndef xpathUnwrapGuards : List String := " + leanStrList(guards) + "\n\n")
	}

	// ---------------------------------------------------------------- 2. assert/response (http)
	ap := rgFindMethod(p, "AssertResponse", "Process")
	if ap == nil {
		t.errs = append(t.errs, "AssertResponse.Process (http) not found")
	} else {
		var steps []string
		var sizeSw *ast.SwitchStmt
		statusCond := ""
		// the condition under which the response body is read into `b` (the top-level `if` whose block calls
		// `io.ReadAll(body)`): regenerated as a boolean FUNCTION of its atoms (`httpBodyReadCond`), so that another
		// spelling / order of the same condition is harmless and a changed one is not; in the step list it appears as
		// BODYREAD-COND.
		var readCond ast.Expr
		readCount := 0
		ast.Inspect(ap.Body, func(n ast.Node) bool {
			if ce, ok := n.(*ast.CallExpr); ok && oneLine(nodeString(p, ce)) == "io.ReadAll(body)" {
				readCount++
			}
			return true
		})
		for _, s := range ap.Body.List {
			if x, ok := s.(*ast.IfStmt); ok && x.Init == nil && x.Else == nil && readCond == nil {
				reads := false
				ast.Inspect(x.Body, func(n ast.Node) bool {
					if as, ok := n.(*ast.AssignStmt); ok && strings.HasPrefix(oneLine(nodeString(p, as)), "b, err = io.ReadAll(body)") {
						reads = true
					}
					return true
				})
				if reads {
					readCond = x.Cond
				}
			}
		}
		readCondText := ""
		if readCond == nil || readCount != 1 {
			gsFail(t, p, ap, "assert/response: expected exactly one top-level `if … { b, err = io.ReadAll(body) … }`")
		} else {
			readCondText = oneLine(nodeString(p, readCond))
			var unknown []string
			lean := respguardBoolCond(p, readCond, map[string]string{
				`len(a.Body) > 0`:  "hasPatterns",
				`len(a.Body) != 0`: "hasPatterns",
				`a.Size != nil`:    "hasSize",
				`body != nil`:      "bodyPresent",
			}, &unknown)
			sort.Strings(unknown)
			b.WriteString("/-- regenerated from the condition of the `if` of `AssertResponse.Process` (http) whose block reads the response body\ninto `b` (`" + readCondText + "`): its value as a function of its atoms `len(a.Body) > 0`, `a.Size != nil`, `body != nil`.\nOutside that block `b` stays nil (`len(b) = 0`). -/\ndef httpBodyReadCond (hasPatterns hasSize bodyPresent : Bool) : Bool :=\n  " + lean + "\n\n")
			b.WriteString("/-- atoms of that condition the translator does not know (each is read as `false`) -/\ndef httpBodyReadUnknownAtoms : List String := " + leanStrList(unknown) + "\n\n")
		}
		for _, s := range ap.Body.List {
			switch x := s.(type) {
			case *ast.RangeStmt:
				steps = append(steps, "range "+oneLine(nodeString(p, x.X))+": "+rgFirstIfCond(p, x.Body))
			case *ast.IfStmt:
				c := oneLine(nodeString(p, x.Cond))
				if readCondText != "" && x.Cond == readCond {
					steps = append(steps, "if BODYREAD-COND { "+strings.Join(respguardCanonStmts(p, x.Body.List), " ")+" }")
					continue
				}
				steps = append(steps, "if "+c)
				if strings.Contains(c, "StatusCode") {
					statusCond = c
				}
				if c == "a.Size != nil" {
					for _, s2 := range x.Body.List {
						if sw, ok := s2.(*ast.SwitchStmt); ok {
							sizeSw = sw
						}
					}
				}
			case *ast.ReturnStmt:
				steps = append(steps, oneLine(nodeString(p, x)))
			case *ast.DeclStmt:
			default:
				steps = append(steps, fmt.Sprintf("%T", s))
			}
		}
		sort.Strings(steps)
		b.WriteString("/-- top-level statements of `AssertResponse.Process` (http), sorted (their order does not matter: each failing check is an error) -/\ndef httpAssertSteps : List String := " + leanStrList(steps) + "\n\n")
		b.WriteString(rgStatusRejects(t, p, ap, "httpStatusRejects", statusCond, "a.StatusCode", "resp.StatusCode"))
		if sizeSw == nil || oneLine(nodeString(p, sizeSw.Tag)) != "a.Size.Op" {
			gsFail(t, p, ap, "assert/response: `switch a.Size.Op` not found")
		} else {
			b.WriteString("/-- regenerated from `assert_response.go` (http) `switch a.Size.Op`: `some true` = the assertion fails,\n`none` = the default arm (\"unknown op\" error); `val` is `a.Size.Val`, `len` is `len(b)` -/\n")
			b.WriteString("def sizeRejects (op : String) (val len : Int) : Option Bool :=\n")
			hasDefault := false
			for _, cs := range sizeSw.Body.List {
				cc := cs.(*ast.CaseClause)
				if cc.List == nil {
					hasDefault = true
					if len(cc.Body) != 1 || !strings.HasPrefix(oneLine(nodeString(p, cc.Body[0])), "return nil, ") {
						gsFail(t, p, cc, "size switch: default arm must return an error")
					}
					continue
				}
				var conds []string
				for _, l := range cc.List {
					tv, ok := p.TypesInfo.Types[l]
					if !ok || tv.Value == nil {
						gsFail(t, p, l, "size switch: non-constant label")
						continue
					}
					conds = append(conds, "op = "+strconv.Quote(constant.StringVal(tv.Value)))
				}
				cond := ""
				if len(cc.Body) == 1 {
					if ifs, ok := cc.Body[0].(*ast.IfStmt); ok && ifs.Init == nil && ifs.Else == nil && len(ifs.Body.List) == 1 {
						if r, ok := ifs.Body.List[0].(*ast.ReturnStmt); ok && len(r.Results) == 2 && oneLine(nodeString(p, r.Results[0])) == "nil" {
							if be, ok := ifs.Cond.(*ast.BinaryExpr); ok && oneLine(nodeString(p, be.X)) == "a.Size.Val" && oneLine(nodeString(p, be.Y)) == "len(b)" {
								switch be.Op {
								case token.NEQ:
									cond = "val ≠ len"
								case token.LSS:
									cond = "val < len"
								case token.GTR:
									cond = "val > len"
								case token.LEQ:
									cond = "val ≤ len"
								case token.GEQ:
									cond = "val ≥ len"
								case token.EQL:
									cond = "val = len"
								}
							}
						}
					}
				}
				if cond == "" {
					gsFail(t, p, cc, "size switch: arm must be `if a.Size.Val OP len(b) { return nil, err }`")
					cond = "False"
				}
				b.WriteString("  if " + strings.Join(conds, " ∨ ") + " then some (decide (" + cond + ")) else\n")
			}
			if !hasDefault {
				gsFail(t, p, sizeSw, "size switch: no default arm")
			}
			b.WriteString("  none\n\n")
		}
	}

	// ---------------------------------------------------------------- 3. assert/response (grpc)
	gp := all[rgPostGRPC]
	if ga := rgFindMethod(gp, "AssertResponse", "Process"); ga == nil {
		t.errs = append(t.errs, "AssertResponse.Process (grpc) not found")
	} else {
		var steps []string
		statusCond := ""
		for _, s := range ga.Body.List {
			switch x := s.(type) {
			case *ast.IfStmt:
				c := oneLine(nodeString(gp, x.Cond))
				steps = append(steps, "if "+c+" -> "+rgBlockEnd(gp, x.Body))
				if strings.Contains(c, "StatusCode") {
					statusCond = c
				}
			case *ast.RangeStmt:
				steps = append(steps, "range "+oneLine(nodeString(gp, x.X))+": "+rgFirstIfCond(gp, x.Body))
			case *ast.ReturnStmt:
				steps = append(steps, oneLine(nodeString(gp, x)))
			case *ast.AssignStmt:
				steps = append(steps, oneLine(nodeString(gp, x)))
			default:
				steps = append(steps, fmt.Sprintf("%T", s))
			}
		}
		// what matters about the order: the nil check comes before the first use of `out`
		guard, use := -1, -1
		for i, st := range steps {
			if strings.HasPrefix(st, "if out == nil -> return") && guard < 0 {
				guard = i
			}
			if strings.Contains(st, "out.") && use < 0 {
				use = i
			}
		}
		sort.Strings(steps)
		b.WriteString("/-- top-level statements of `AssertResponse.Process` (grpc), sorted -/\ndef grpcAssertSteps : List String := " + leanStrList(steps) + "\n\n")
		b.WriteString(fmt.Sprintf("/-- `if out == nil { return … }` stands before the first statement that uses `out.` -/\ndef grpcNilGuardBeforeUse : Bool := %v\n\n", guard >= 0 && (use < 0 || guard < use)))
		b.WriteString(rgStatusRejects(t, gp, ga, "grpcStatusRejects", statusCond, "a.StatusCode", "code"))
	}

	// ---------------------------------------------------------------- 3b. ConvertGrpcStatus
	gg := all[rgGunGRPC]
	if cv := findFunc(gg, "ConvertGrpcStatus"); cv == nil {
		t.errs = append(t.errs, "ConvertGrpcStatus not found")
	} else {
		var sw *ast.SwitchStmt
		for _, s := range cv.Body.List {
			if x, ok := s.(*ast.SwitchStmt); ok {
				sw = x
			}
		}
		if sw == nil || len(cv.Body.List) != 2 || oneLine(nodeString(gg, cv.Body.List[0])) != "s := status.Convert(err)" || oneLine(nodeString(gg, sw.Tag)) != "s.Code()" {
			gsFail(t, gg, cv, "ConvertGrpcStatus: expected `s := status.Convert(err); switch s.Code() {...}`")
		} else {
			b.WriteString("/-- regenerated from `components/guns/grpc/core.go` func `ConvertGrpcStatus`: the code reported for gRPC status code `c`\n(case labels are the numeric values of the `codes.*` constants as go/types sees them) -/\ndef grpcToHttp (c : Nat) : Nat :=\n")
			def := ""
			for _, cs := range sw.Body.List {
				cc := cs.(*ast.CaseClause)
				v, ok := gsSingleReturnConst(gg, cc.Body)
				if !ok {
					gsFail(t, gg, cc, "ConvertGrpcStatus: arm must be `return <constant>`")
					continue
				}
				if cc.List == nil {
					def = v
					continue
				}
				var conds []string
				for _, l := range cc.List {
					k, ok := gsConstNat(gg, l)
					if !ok {
						gsFail(t, gg, l, "ConvertGrpcStatus: non-constant label")
						continue
					}
					conds = append(conds, "c = "+k)
				}
				b.WriteString("  if " + strings.Join(conds, " ∨ ") + " then " + v + " else\n")
			}
			if def == "" {
				gsFail(t, gg, sw, "ConvertGrpcStatus: no default arm")
				def = "0"
			}
			b.WriteString("  " + def + "\n\n")
		}
	}

	// ---------------------------------------------------------------- 4. panicOnHTTP1Client / checkHTTP2
	hp := all[rgGunHTTP]
	if v, ok := gsPkgConst(t, hp, "notHTTP2PanicMsg"); ok {
		b.WriteString("/-- `notHTTP2PanicMsg` of guns/http/client.go -/\ndef notHTTP2PanicMsg : String := " + strconv.Quote(constant.StringVal(v)) + "\n\n")
	}
	if ch := findFunc(hp, "checkHTTP2"); ch == nil {
		t.errs = append(t.errs, "checkHTTP2 not found")
	} else {
		var conds []string
		for _, s := range ch.Body.List {
			switch x := s.(type) {
			case *ast.IfStmt:
				c := oneLine(nodeString(hp, x.Cond))
				if x.Init != nil {
					c = oneLine(nodeString(hp, x.Init)) + "; " + c
				}
				conds = append(conds, "if "+c+" -> "+rgBlockEnd(hp, x.Body))
			case *ast.ReturnStmt:
				conds = append(conds, oneLine(nodeString(hp, x)))
			default:
				conds = append(conds, fmt.Sprintf("%T", s))
			}
		}
		for i, c := range conds {
			// error texts are not part of the decision
			if j := strings.Index(c, " -> return errors."); j >= 0 {
				conds[i] = c[:j] + " -> return error"
			}
		}
		b.WriteString("/-- the statements of `checkHTTP2` (error texts dropped) -/\ndef checkHTTP2Conds : List String := " + leanStrList(conds) + "\n\n")
	}
	nextProto := ""
	for _, imp := range hp.Types.Imports() {
		if imp.Path() == "golang.org/x/net/http2" {
			if c, ok := imp.Scope().Lookup("NextProtoTLS").(*types.Const); ok {
				nextProto = constant.StringVal(c.Val())
			}
		}
	}
	if nextProto == "" {
		t.errs = append(t.errs, "http2.NextProtoTLS not found among the imports of guns/http")
	}
	b.WriteString("/-- `http2.NextProtoTLS` -/\ndef nextProtoTLS : String := " + strconv.Quote(nextProto) + "\n\n")
	if do := rgFindMethod(hp, "panicOnHTTP1Client", "Do"); do == nil {
		t.errs = append(t.errs, "panicOnHTTP1Client.Do not found")
	} else {
		// the condition under which an ERROR of the wrapped Do is taken for "the target has no HTTP/2": the `if` inside the
		// `err != nil` block whose body panics. It is regenerated as a boolean FUNCTION of its atoms (so reordering the
		// conjuncts is harmless and `&&` -> `||` is not); in the skeleton it appears as DOERR-COND.
		var condExpr ast.Expr
		for _, s := range do.Body.List {
			if x, ok := s.(*ast.IfStmt); ok && oneLine(nodeString(hp, x.Cond)) == "err != nil" {
				for _, in := range x.Body.List {
					if y, ok := in.(*ast.IfStmt); ok && strings.Contains(rgIfSkeleton(hp, y.Body), "PANIC ") && condExpr == nil {
						condExpr = y.Cond
					}
				}
			}
		}
		condText := ""
		if condExpr == nil {
			gsFail(t, hp, do, "panicOnHTTP1Client.Do: no panicking `if` inside `if err != nil`")
		} else {
			condText = oneLine(nodeString(hp, condExpr))
			var unknown []string
			lean := respguardBoolCond(hp, condExpr, map[string]string{
				`errors.As(err, &opError)`:                                          "isOpError",
				`opError.Op == "remote error"`:                                      "opRemoteError",
				`strings.Contains(err.Error(), "no application protocol")`:          "textNoAppProto",
			}, &unknown)
			sort.Strings(unknown)
			b.WriteString("/-- regenerated from the condition of the panicking `if` inside `if err != nil` of `panicOnHTTP1Client.Do`\n(`" + condText + "`):\nits value as a function of its atoms `errors.As(err, &opError)`, `opError.Op == \"remote error\"`,\n`strings.Contains(err.Error(), \"no application protocol\")` -/\ndef doErrPanics (isOpError opRemoteError textNoAppProto : Bool) : Bool :=\n  " + lean + "\n\n")
			b.WriteString("/-- atoms of that condition the translator does not know (each is read as `false`) -/\ndef doErrUnknownAtoms : List String := " + leanStrList(unknown) + "\n\n")
		}
		var shape []string
		for _, s := range do.Body.List {
			switch x := s.(type) {
			case *ast.IfStmt:
				sk := "if " + oneLine(nodeString(hp, x.Cond)) + " {" + rgIfSkeleton(hp, x.Body) + "}"
				if condText != "" {
					sk = strings.Replace(sk, "if "+condText+" {", "if DOERR-COND {", 1)
				}
				shape = append(shape, sk)
			default:
				shape = append(shape, oneLine(nodeString(hp, s)))
			}
		}
		b.WriteString("/-- the statements of `panicOnHTTP1Client.Do` (nested ifs by condition, panics by their first argument; the condition\nof the error branch is `doErrPanics`) -/\ndef panicOnHTTP1Do : List String := " + leanStrList(shape) + "\n\n")
	}

	// ---------------------------------------------------------------- 5. instance.Run's recover
	ep := all[rgEngine]
	recFmt := ""
	if run := rgFindMethod(ep, "instance", "Run"); run == nil {
		t.errs = append(t.errs, "instance.Run not found")
	} else {
		named := ""
		if run.Type.Results != nil && len(run.Type.Results.List) == 1 && len(run.Type.Results.List[0].Names) == 1 {
			named = run.Type.Results.List[0].Names[0].Name
		}
		if len(run.Body.List) > 0 {
			if ds, ok := run.Body.List[0].(*ast.DeferStmt); ok {
				if fl, ok := ds.Call.Fun.(*ast.FuncLit); ok {
					hasRecover := false
					ast.Inspect(fl, func(n ast.Node) bool {
						switch x := n.(type) {
						case *ast.CallExpr:
							if id, ok := x.Fun.(*ast.Ident); ok && id.Name == "recover" {
								hasRecover = true
							}
						case *ast.AssignStmt:
							if len(x.Lhs) == 1 && len(x.Rhs) == 1 && oneLine(nodeString(ep, x.Lhs[0])) == named && named != "" {
								if call, ok := x.Rhs[0].(*ast.CallExpr); ok && len(call.Args) >= 1 {
									if tv, ok := ep.TypesInfo.Types[call.Args[0]]; ok && tv.Value != nil {
										recFmt = constant.StringVal(tv.Value)
									}
								}
							}
						}
						return true
					})
					if !hasRecover {
						recFmt = ""
					}
				}
			}
		}
		if recFmt == "" {
			gsFail(t, ep, run, "instance.Run: first statement must be a deferred func that calls recover() and assigns the named result")
		}
		// where Shoot is called: directly inside Run (so the deferred recover covers it)
		shootCalls := 0
		ast.Inspect(run, func(n ast.Node) bool {
			if call, ok := n.(*ast.CallExpr); ok {
				if sel, ok := call.Fun.(*ast.SelectorExpr); ok && sel.Sel.Name == "Shoot" {
					shootCalls++
				}
			}
			if _, ok := n.(*ast.GoStmt); ok {
				shootCalls += 1000 // a goroutine inside Run would escape the recover
			}
			return true
		})
		b.WriteString("/-- `instance.Run`: format of the error the deferred `recover()` turns a panic into -/\ndef recoverFormat : String := " + strconv.Quote(recFmt) + "\n\n")
		b.WriteString(fmt.Sprintf("/-- number of `.Shoot(` calls lexically inside `instance.Run` (+1000 per `go` statement) -/\ndef shootCallsInRun : Nat := %d\n\n", shootCalls))
	}

	// ---------------------------------------------------------------- 5b. the extractors' Process functions and the postprocessor loop
	// statement by statement, in a canonical spelling: every local variable (parameters included) is renamed to v<i> in
	// the order of first occurrence, the texts of error messages are dropped. Renaming locals or rewording a message is
	// harmless; a changed guard, a dropped error return, a different loop is not.
	for _, w := range []struct{ recv, fn, def, doc string }{
		{"VarHeaderPostprocessor", "Process", "varHeaderProcess", "`VarHeaderPostprocessor.Process` (model `varHeaderWith`)"},
		{"VarJsonpathPostprocessor", "Process", "varJsonpathProcess", "`VarJsonpathPostprocessor.Process` (model `varJsonpath`)"},
		{"VarXpathPostprocessor", "Process", "varXpathProcess", "`VarXpathPostprocessor.Process` (model `varXpath`)"},
		{"VarXpathPostprocessor", "getValuesFromDOM", "xpathValuesFromDOM", "`VarXpathPostprocessor.getValuesFromDOM` (model `varXpath`: invalid / scalar expression ⇒ error)"},
	} {
		fd := rgFindMethod(p, w.recv, w.fn)
		if fd == nil {
			t.errs = append(t.errs, w.recv+"."+w.fn+" not found")
			continue
		}
		b.WriteString("/-- the statements of " + w.doc + ", locals renamed canonically, error texts dropped -/\ndef " + w.def + " : List String := " +
			leanStrList(respguardCanonStmts(p, fd.Body.List)) + "\n\n")
	}
	if ss := rgFindMethod(all[rgGunScn], "ScenarioGun", "shootStep"); ss == nil {
		t.errs = append(t.errs, "ScenarioGun.shootStep not found")
	} else {
		sp := all[rgGunScn]
		var loop ast.Stmt
		for _, st := range ss.Body.List {
			if rs, ok := st.(*ast.RangeStmt); ok && strings.Contains(strings.ToLower(oneLine(nodeString(sp, rs.X))), "processors") {
				loop = rs
			}
		}
		if loop == nil {
			gsFail(t, sp, ss, "ScenarioGun.shootStep: no `range processors` loop")
		} else {
			b.WriteString("/-- the postprocessor loop of `ScenarioGun.shootStep` (model `runPPs`: the first error ends it; the body reader is\nrewound after every postprocessor), canonical spelling -/\ndef scenarioPostLoop : List String := " +
				leanStrList(respguardCanonStmts(sp, []ast.Stmt{loop})) + "\n\n")
		}
	}

	// ---------------------------------------------------------------- 6. inventory of run-time panic sites
	type scan struct {
		pkg   *packages.Package
		files []string // base names; nil = all non-test files
	}
	scans := []scan{
		{p, nil},
		{gp, []string{"assert_response.go"}},
		{hp, []string{"base.go", "client.go", "connect.go", "http.go"}},
		{all[rgGunScn], []string{"gun.go"}},
		{all[rgGunGRPC], []string{"core.go"}},
		{all[rgGunGScn], []string{"core.go"}},
		{ep, []string{"instance.go"}},
	}
	var panics, asserts, idx, mapw []string
	for _, sc := range scans {
		for _, f := range sc.pkg.Syntax {
			fn := sc.pkg.Fset.Position(f.Pos()).Filename
			base := filepath.Base(fn)
			if strings.HasSuffix(base, "_test.go") {
				continue
			}
			if sc.files != nil {
				found := false
				for _, w := range sc.files {
					found = found || w == base
				}
				if !found {
					continue
				}
			}
			rel, _ := filepath.Rel(repo, fn)
			rgScanFile(sc.pkg, f, rel, &panics, &asserts, &idx, &mapw)
		}
	}
	for _, l := range []*[]string{&panics, &asserts, &idx, &mapw} {
		sort.Strings(*l)
	}
	b.WriteString("/-- every explicit `panic(..)` / `.Panic(..)` call of the scanned files: `file|func|argument` -/\ndef explicitPanics : List String := " + leanStrList(panics) + "\n\n")
	b.WriteString("/-- every type assertion without comma-ok (type switches excluded): `file|func|expression` -/\ndef uncheckedAssertions : List String := " + leanStrList(asserts) + "\n\n")
	b.WriteString("/-- every index or slice expression on a string / slice / array / pointer to array: `file|func|expression` -/\ndef indexings : List String := " + leanStrList(idx) + "\n\n")
	b.WriteString("/-- every write `m[k] = v` to a map that is not created (make / literal / maps.Clone) in the same function: `file|func|expression` -/\ndef mapWritesWithoutMake : List String := " + leanStrList(mapw) + "\n\n")
	// round 3: the code that reads response-derived variables (area_respguard_vars.go)
	b.WriteString(respguardVarsExtra(t))
	// round 4: the code the guns depend on (area_respguard_r4.go)
	b.WriteString("\n" + respguardRound4Extra(t))
	return b.String()
}

func rgFirstIfCond(p *packages.Package, blk *ast.BlockStmt) string {
	for _, s := range blk.List {
		if ifs, ok := s.(*ast.IfStmt); ok {
			return "if " + oneLine(nodeString(p, ifs.Cond)) + " -> " + rgBlockEnd(p, ifs.Body)
		}
	}
	return ""
}

// rgBlockEnd: "return nil, nil" | "return error" | "…"
func rgBlockEnd(p *packages.Package, blk *ast.BlockStmt) string {
	if len(blk.List) == 0 {
		return "{}"
	}
	last := blk.List[len(blk.List)-1]
	if r, ok := last.(*ast.ReturnStmt); ok {
		if len(r.Results) == 2 && oneLine(nodeString(p, r.Results[0])) == "nil" {
			if oneLine(nodeString(p, r.Results[1])) == "nil" {
				return "return nil, nil"
			}
			return "return error"
		}
		s := oneLine(nodeString(p, r))
		if strings.HasPrefix(s, "return errors.") {
			return "return error"
		}
		return s
	}
	return "…"
}

// rgIfSkeleton prints the control skeleton of a block: nested ifs by condition, panics / returns by kind.
// respguardBoolCond translates a condition built from `&&`, `||`, `!`, parentheses and KNOWN atoms (by source text; an
// `==` between a string literal and an expression is read in either order) to a core-Lean Bool expression.
func respguardBoolCond(p *packages.Package, e ast.Expr, atoms map[string]string, unknown *[]string) string {
	switch x := e.(type) {
	case *ast.ParenExpr:
		return respguardBoolCond(p, x.X, atoms, unknown)
	case *ast.UnaryExpr:
		if x.Op == token.NOT {
			return "(!" + respguardBoolCond(p, x.X, atoms, unknown) + ")"
		}
	case *ast.BinaryExpr:
		switch x.Op {
		case token.LAND:
			return "(" + respguardBoolCond(p, x.X, atoms, unknown) + " && " + respguardBoolCond(p, x.Y, atoms, unknown) + ")"
		case token.LOR:
			return "(" + respguardBoolCond(p, x.X, atoms, unknown) + " || " + respguardBoolCond(p, x.Y, atoms, unknown) + ")"
		case token.EQL:
			if _, isLit := x.X.(*ast.BasicLit); isLit {
				if a, ok := atoms[oneLine(nodeString(p, x.Y))+" == "+oneLine(nodeString(p, x.X))]; ok {
					return a
				}
			}
		}
	}
	txt := oneLine(nodeString(p, e))
	if a, ok := atoms[txt]; ok {
		return a
	}
	*unknown = append(*unknown, txt)
	return "false"
}

// respguardCanonStmts prints statements with every LOCAL variable (declared inside the enclosing function: parameters,
// receivers, := / var / range variables) renamed to v<i> in the order of first occurrence within these statements, and
// with the format / message argument of fmt.Errorf / errors.New / errors.Errorf replaced by "…". The AST is restored.
func respguardCanonStmts(p *packages.Package, stmts []ast.Stmt) []string {
	names := map[types.Object]string{}
	type idEdit struct {
		id  *ast.Ident
		old string
	}
	type litEdit struct {
		lit *ast.BasicLit
		old string
	}
	var ids []idEdit
	var lits []litEdit
	for _, st := range stmts {
		ast.Inspect(st, func(n ast.Node) bool {
			switch x := n.(type) {
			case *ast.Ident:
				obj := p.TypesInfo.ObjectOf(x)
				v, ok := obj.(*types.Var)
				if !ok || v.IsField() || v.Parent() == nil || v.Parent() == v.Pkg().Scope() || v.Parent() == types.Universe {
					return true
				}
				nm, seen := names[obj]
				if !seen {
					nm = fmt.Sprintf("v%d", len(names))
					names[obj] = nm
				}
				ids = append(ids, idEdit{x, x.Name})
				x.Name = nm
			case *ast.CallExpr:
				fn := oneLine(nodeString(p, x.Fun))
				if (fn == "fmt.Errorf" || fn == "errors.New" || fn == "errors.Errorf") && len(x.Args) > 0 {
					if bl, ok := x.Args[0].(*ast.BasicLit); ok && bl.Kind == token.STRING {
						lits = append(lits, litEdit{bl, bl.Value})
						bl.Value = `"…"`
					}
				}
			}
			return true
		})
	}
	var out []string
	for _, st := range stmts {
		var sb strings.Builder
		if err := printer.Fprint(&sb, token.NewFileSet(), st); err != nil {
			out = append(out, "PRINT-ERROR "+err.Error())
			continue
		}
		out = append(out, oneLine(sb.String()))
	}
	for _, e := range ids {
		e.id.Name = e.old
	}
	for _, e := range lits {
		e.lit.Value = e.old
	}
	return out
}

func rgIfSkeleton(p *packages.Package, blk *ast.BlockStmt) string {
	var parts []string
	for _, s := range blk.List {
		switch x := s.(type) {
		case *ast.IfStmt:
			parts = append(parts, "if "+oneLine(nodeString(p, x.Cond))+" {"+rgIfSkeleton(p, x.Body)+"}")
		case *ast.ReturnStmt:
			parts = append(parts, oneLine(nodeString(p, x)))
		case *ast.ExprStmt:
			if call, ok := x.X.(*ast.CallExpr); ok {
				if sel, ok := call.Fun.(*ast.SelectorExpr); ok && sel.Sel.Name == "Panic" && len(call.Args) > 0 {
					parts = append(parts, "PANIC "+oneLine(nodeString(p, call.Args[0])))
					continue
				}
				if id, ok := call.Fun.(*ast.Ident); ok && id.Name == "panic" {
					parts = append(parts, "PANIC "+oneLine(nodeString(p, call.Args[0])))
					continue
				}
			}
			parts = append(parts, oneLine(nodeString(p, x)))
		case *ast.DeclStmt:
			parts = append(parts, oneLine(nodeString(p, x)))
		default:
			parts = append(parts, oneLine(nodeString(p, s)))
		}
	}
	return strings.Join(parts, "; ")
}

func rgStatusRejects(t *tr, p *packages.Package, fd *ast.FuncDecl, name, cond, cfg, got string) string {
	want := cfg + " != 0 && " + cfg + " != " + got
	body := "cfg ≠ 0 ∧ cfg ≠ got"
	if cond != want {
		gsFail(t, p, fd, "%s: status comparison is %q, expected %q", name, cond, want)
		body = "False"
	}
	return "/-- regenerated from the condition `" + cond + "`: the assertion fails -/\ndef " + name + " (cfg got : Int) : Bool := decide (" + body + ")\n\n"
}

func rgScanFile(p *packages.Package, f *ast.File, rel string, panics, asserts, idx, mapw *[]string) {
	rgScanFileWith(p, f, rel, func(n ast.Node) string { return nodeString(p, n) }, panics, asserts, idx, mapw)
}

// rgScanFileWith: `text` renders a node (source text, or the AST as it is now when identifiers were renamed).
func rgScanFileWith(p *packages.Package, f *ast.File, rel string, text func(ast.Node) string, panics, asserts, idx, mapw *[]string) {
	for _, d := range f.Decls {
		fd, ok := d.(*ast.FuncDecl)
		if !ok || fd.Body == nil {
			continue
		}
		fname := fd.Name.Name
		if fd.Recv != nil && len(fd.Recv.List) == 1 {
			fname = strings.TrimPrefix(oneLine(text(fd.Recv.List[0].Type)), "*") + "." + fname
		}
		key := func(s string) string { return rel + "|" + fname + "|" + s }
		// comma-ok assertions and type switches
		okAssert := map[*ast.TypeAssertExpr]bool{}
		made := map[string]bool{}
		ast.Inspect(fd.Body, func(n ast.Node) bool {
			switch x := n.(type) {
			case *ast.AssignStmt:
				if len(x.Lhs) == 2 && len(x.Rhs) == 1 {
					if ta, ok := x.Rhs[0].(*ast.TypeAssertExpr); ok {
						okAssert[ta] = true
					}
				}
				// maps created here
				for i, r := range x.Rhs {
					if i >= len(x.Lhs) {
						break
					}
					id, ok := x.Lhs[i].(*ast.Ident)
					if !ok {
						continue
					}
					switch rr := r.(type) {
					case *ast.CompositeLit:
						made[id.Name] = true
					case *ast.CallExpr:
						s := oneLine(text(rr.Fun))
						if s == "make" || s == "maps.Clone" || s == "mergeMaps" {
							made[id.Name] = true
						}
					}
				}
			case *ast.ValueSpec:
				if len(x.Names) == 2 && len(x.Values) == 1 {
					if ta, ok := x.Values[0].(*ast.TypeAssertExpr); ok {
						okAssert[ta] = true
					}
				}
			case *ast.TypeSwitchStmt:
				ast.Inspect(x.Assign, func(m ast.Node) bool {
					if ta, ok := m.(*ast.TypeAssertExpr); ok {
						okAssert[ta] = true
					}
					return true
				})
			}
			return true
		})
		ast.Inspect(fd.Body, func(n ast.Node) bool {
			switch x := n.(type) {
			case *ast.CallExpr:
				if id, ok := x.Fun.(*ast.Ident); ok && id.Name == "panic" && len(x.Args) == 1 {
					*panics = append(*panics, key("panic "+oneLine(text(x.Args[0]))))
				}
				if sel, ok := x.Fun.(*ast.SelectorExpr); ok && (sel.Sel.Name == "Panic" || sel.Sel.Name == "Panicf" || sel.Sel.Name == "Fatal" || sel.Sel.Name == "Fatalf" || sel.Sel.Name == "DPanic") && len(x.Args) > 0 {
					*panics = append(*panics, key(oneLine(text(x.Fun))+" "+oneLine(text(x.Args[0]))))
				}
			case *ast.TypeAssertExpr:
				if x.Type != nil && !okAssert[x] {
					*asserts = append(*asserts, key(oneLine(text(x))))
				}
			case *ast.IndexExpr:
				if tv, ok := p.TypesInfo.Types[x.X]; ok && tv.Type != nil {
					switch u := tv.Type.Underlying().(type) {
					case *types.Map:
					case *types.Signature:
					case *types.Pointer:
						if _, isArr := u.Elem().Underlying().(*types.Array); isArr {
							*idx = append(*idx, key(oneLine(text(x))))
						}
					case *types.Slice, *types.Array, *types.Basic:
						if tv.IsType() {
							break // generic instantiation
						}
						*idx = append(*idx, key(oneLine(text(x))))
					}
				}
			case *ast.SliceExpr:
				*idx = append(*idx, key(oneLine(text(x))))
			case *ast.AssignStmt:
				for _, l := range x.Lhs {
					ie, ok := l.(*ast.IndexExpr)
					if !ok {
						continue
					}
					tv, ok := p.TypesInfo.Types[ie.X]
					if !ok || tv.Type == nil {
						continue
					}
					if _, isMap := tv.Type.Underlying().(*types.Map); !isMap {
						continue
					}
					if id, ok := ie.X.(*ast.Ident); ok && made[id.Name] {
						continue
					}
					*mapw = append(*mapw, key(oneLine(text(l))))
				}
			}
			return true
		})
	}
}
