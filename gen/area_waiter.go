package main

// Area "waiter" (property C04): regenerates from the CURRENT source
//
//	core/coreutil/waiter.go        MaxOverdueDuration, (*Waiter).Wait, (*Waiter).IsSlowDown
//	core/aggregator/netsample      DiscardedShootCodeError, DiscardedShootTag, DiscardedShootSample
//	core/engine/instance.go        the fire/discard `if` of (*instance).Run and the whole loop of Run (`iteration`)
//	core/coreutil/waiter.go        (*Waiter).IsFinished
//	core/engine/engine.go          the struct tag of InstancePoolConfig.DiscardOverflow, the wiring into instanceSharedDeps,
//	                               buildNewInstanceSchedule: own schedule per instance (rps-per-instance) or one shared schedule
//	cli/cli.go                     readConfig: the default of `discard_overflow` for a pool that does not mention it
//	docs/eng/best_practices/discard-overflow.md   the documented option name, default, net code, tag and window (round 2)
//
// into lean/Pandora/Gen/Waiter.lean, as definitions over the vocabulary of Pandora/Model/C04.lean (records `Waiter`,
// `Env`, `DiscardSample`, `timeSub`). The file is core-only. Reading of Go used here (trusted, see notes/C04.md):
//
//	w.lastNow / w.overdueDuration            -> fields lastNow / overdue of the record `w`
//	select { case <-ctx.Done(): A; default: } B   -> if e.ctxDone then A else B
//	next, ok := w.sched.Next(); if !ok { A }; B    -> match e.tok with | none => A | some next => B
//	time.Now()                                -> e.now   (in Wait only AFTER w.sched.Next() in source order: ReadAfterPick)
//	a.Sub(b) on time.Time                     -> timeSub a b  (exact; Go saturates, sign preserved)
//	if w.timer == nil {NewTimer(d)} else {Reset(d)}  -> (arms the timer for d; no state the model reads)
//	select { case <-w.timer.C: A; case <-ctx.Done(): B }  -> if e.timerWins then A else B
//	w.sched.Left()                            -> left
//	instance.Run: `for !waiter.IsFinished(ctx) { err := func() error {BODY}(); if err != nil { return err } }`
//	    -> one pass = `if it.finished then loopEnd else BODY`; in BODY: Acquire -> it.ammoOk, waiter.Wait(ctx) -> Wait w it.env,
//	       waiter.IsSlowDown(ctx) -> IsSlowDown w it.ctxDoneSlow (also through a local `slow := waiter.IsSlowDown(ctx)`, read from
//	       the waiter state at the point of the statement), gun.Shoot -> Outcome.shoot,
//	       aggregator.Report(netsample.DiscardedShootSample()) -> Outcome.discard DiscardedShootSample;
//	       statements without an effect the property speaks about are skipped: i.log.*, i.metrics.*.Add, `if tag.Debug {log}`,
//	       `defer i.provider.Release(ammo)`, the deferred recover/metrics closure of Run
//
// Anything else in these functions makes gen fail (broken obligation).

import (
	"bytes"
	"fmt"
	"go/ast"
	"go/parser"
	"go/printer"
	"go/token"
	"go/types"
	"os"
	"path/filepath"
	"reflect"
	"regexp"
	"strconv"
	"strings"

	"golang.org/x/tools/go/packages"
)

func init() {
	areas["waiter"] = area{
		pkgPath:   "github.com/yandex/pandora/core/coreutil",
		module:    "Waiter",
		namespace: "Pandora.Gen.Waiter",
		imports:   []string{"Pandora.Model.C04", "Pandora.Model.C04Ext"},
		extra:     waiterExtra,
	}
}

type waiterTr struct {
	t   *tr
	pkg *packages.Package
	// name of the receiver variable and of the env record in the emitted Lean
	recv string
	// the `if w.timer == nil {NewTimer(d)} else {Reset(d)}` statement of Wait, once seen
	armStmt *ast.IfStmt
	// inside Wait: `w.sched.Next()` has been translated (statements are translated in source order)
	inWait, nextSeen bool
	// instance.Run: locals that hold an answer of <waiter>.IsSlowDown(ctx) (`slow := waiter.IsSlowDown(ctx)`)
	slowLocals map[string]bool
	// Wait is translated a second time with the state of w.timer threaded through (`WaitT`, round 3)
	withTimer bool
}

// ret renders the value a `return` of Wait yields
func (x *waiterTr) ret(ok string) string {
	if x.withTimer {
		return "(" + x.recv + ", tm, " + ok + ")"
	}
	return "(" + x.recv + ", " + ok + ")"
}

func (x *waiterTr) fail(n ast.Node, format string, a ...any) string {
	msg := fmt.Sprintf("%s: unsupported (waiter area): %s", x.pkg.Fset.Position(n.Pos()), fmt.Sprintf(format, a...))
	x.t.errs = append(x.t.errs, msg)
	return "(UNSUPPORTED)"
}

func (x *waiterTr) src(n ast.Node) string {
	var b bytes.Buffer
	_ = printer.Fprint(&b, x.pkg.Fset, n)
	return strings.Join(strings.Fields(b.String()), " ")
}

func waiterFindMethod(p *packages.Package, recvType, name string) *ast.FuncDecl {
	for _, f := range p.Syntax {
		for _, d := range f.Decls {
			fd, ok := d.(*ast.FuncDecl)
			if !ok || fd.Recv == nil || fd.Name.Name != name || len(fd.Recv.List) != 1 {
				continue
			}
			ty := fd.Recv.List[0].Type
			if st, ok := ty.(*ast.StarExpr); ok {
				ty = st.X
			}
			if id, ok := ty.(*ast.Ident); ok && id.Name == recvType {
				return fd
			}
		}
	}
	return nil
}

var waiterFields = map[string]string{"lastNow": "lastNow", "overdueDuration": "overdue"}

// isCtxDone: `<-ctx.Done()`
func (x *waiterTr) isCtxDone(e ast.Expr) bool {
	u, ok := e.(*ast.UnaryExpr)
	if !ok || u.Op != token.ARROW {
		return false
	}
	return x.src(u.X) == "ctx.Done()"
}

func (x *waiterTr) expr(e ast.Expr) string {
	info := x.pkg.TypesInfo
	if x.inWait && x.src(e) == "ctx.Err() != nil" {
		// the non-blocking check of the context, written without a select
		return "e.ctxDone"
	}
	switch v := e.(type) {
	case *ast.ParenExpr:
		return x.expr(v.X)
	case *ast.BasicLit:
		if v.Kind == token.INT {
			return "(" + v.Value + " : Int)"
		}
	case *ast.Ident:
		if c, ok := info.Uses[v].(*types.Const); ok && c.Pkg() == x.pkg.Types {
			return v.Name // package-level constant: emitted as a def of the same name
		}
		if v.Name == "true" || v.Name == "false" {
			return v.Name
		}
		return mangle(v.Name)
	case *ast.SelectorExpr:
		if id, ok := v.X.(*ast.Ident); ok && id.Name == x.recv {
			if f, ok := waiterFields[v.Sel.Name]; ok {
				return x.recv + "." + f
			}
		}
	case *ast.UnaryExpr:
		if v.Op == token.NOT {
			return "(!" + x.expr(v.X) + ")"
		}
		if v.Op == token.SUB {
			return "(-" + x.expr(v.X) + ")"
		}
	case *ast.BinaryExpr:
		l, r := x.expr(v.X), x.expr(v.Y)
		switch v.Op {
		case token.ADD:
			return "(" + l + " + " + r + ")"
		case token.SUB:
			return "(" + l + " - " + r + ")"
		case token.LEQ:
			return "(" + l + " ≤ " + r + ")"
		case token.LSS:
			return "(" + l + " < " + r + ")"
		case token.GEQ:
			return "(" + l + " ≥ " + r + ")"
		case token.GTR:
			return "(" + l + " > " + r + ")"
		case token.EQL:
			return "(" + l + " = " + r + ")"
		case token.NEQ:
			return "(" + l + " ≠ " + r + ")"
		case token.LOR:
			return "(" + l + " || " + r + ")"
		case token.LAND:
			return "(" + l + " && " + r + ")"
		}
	case *ast.CallExpr:
		if x.src(v) == "time.Now()" {
			if x.inWait && !x.nextSeen {
				// the theorems need the clock to be read AFTER the token has been picked up (ReadAfterPick)
				return x.fail(e, "time.Now() is read before w.sched.Next() has returned the token")
			}
			return "e.now"
		}
		if x.src(v) == x.recv+".sched.Left()" {
			return "left"
		}
		if sel, ok := v.Fun.(*ast.SelectorExpr); ok && sel.Sel.Name == "Sub" && len(v.Args) == 1 {
			if n, ok := info.TypeOf(sel.X).(*types.Named); ok && n.Obj().Pkg() != nil && n.Obj().Pkg().Path() == "time" && n.Obj().Name() == "Time" {
				return "(timeSub " + x.expr(sel.X) + " " + x.expr(v.Args[0]) + ")"
			}
		}
	}
	return x.fail(e, "expression %s", x.src(e))
}

// timerArm recognises `if w.timer == nil { w.timer = time.NewTimer(d) } else { w.timer.Reset(d) }` and returns d.
func (x *waiterTr) timerArm(s *ast.IfStmt) (string, bool) {
	if x.src(s.Cond) != x.recv+".timer == nil" || s.Else == nil || len(s.Body.List) != 1 {
		return "", false
	}
	eb, ok := s.Else.(*ast.BlockStmt)
	if !ok || len(eb.List) != 1 {
		return "", false
	}
	a := x.src(s.Body.List[0])
	b := x.src(eb.List[0])
	pa, pb := x.recv+".timer = time.NewTimer(", x.recv+".timer.Reset("
	if !strings.HasPrefix(a, pa) || !strings.HasPrefix(b, pb) || !strings.HasSuffix(a, ")") || !strings.HasSuffix(b, ")") {
		return "", false
	}
	da, db := a[len(pa):len(a)-1], b[len(pb):len(b)-1]
	if da != db {
		return "", false
	}
	return da, true
}

// block translates statements of Wait into a Lean term of type `Waiter × Bool`.
func (x *waiterTr) block(stmts []ast.Stmt, ind string) string {
	if len(stmts) == 0 {
		return ind + "(UNSUPPORTED-fallthrough)"
	}
	s, rest := stmts[0], stmts[1:]
	switch v := s.(type) {
	case *ast.ReturnStmt:
		if len(v.Results) == 1 {
			return ind + x.ret(x.expr(v.Results[0]))
		}
	case *ast.SelectStmt:
		var conds []string
		var bodies [][]ast.Stmt
		var def []ast.Stmt
		hasDef := false
		for _, c := range v.Body.List {
			cc := c.(*ast.CommClause)
			if cc.Comm == nil {
				hasDef = true
				def = cc.Body
				continue
			}
			es, ok := cc.Comm.(*ast.ExprStmt)
			if !ok {
				return ind + x.fail(cc, "select case %s", x.src(cc.Comm))
			}
			switch {
			case x.isCtxDone(es.X):
				conds = append(conds, "e.ctxDone")
			case x.src(es.X) == "<-"+x.recv+".timer.C":
				conds = append(conds, "e.timerWins")
			default:
				return ind + x.fail(cc, "select case %s", x.src(cc.Comm))
			}
			bodies = append(bodies, cc.Body)
		}
		switch {
		case hasDef && len(conds) == 1 && conds[0] == "e.ctxDone":
			// non-blocking check of the context
			return ind + "if e.ctxDone then\n" + x.block(bodies[0], ind+"  ") + "\n" + ind + "else\n" + x.block(append(append([]ast.Stmt{}, def...), rest...), ind+"  ")
		case !hasDef && len(conds) == 2 && conds[0] == "e.timerWins" && conds[1] == "e.ctxDone" && len(rest) == 0:
			recv := ""
			if x.withTimer {
				// `<-w.timer.C` was received
				recv = ind + "  let tm : TimerSt := TimerSt.recv tm\n"
			}
			return ind + "if e.timerWins then\n" + recv + x.block(bodies[0], ind+"  ") + "\n" + ind + "else\n" + x.block(bodies[1], ind+"  ")
		}
		return ind + x.fail(s, "select shape")
	case *ast.AssignStmt:
		// next, ok := w.sched.Next() ; if !ok { ... }
		if len(v.Lhs) == 2 && len(v.Rhs) == 1 && x.src(v.Rhs[0]) == x.recv+".sched.Next()" && len(rest) > 0 {
			a, b := x.src(v.Lhs[0]), x.src(v.Lhs[1])
			if ifs, ok := rest[0].(*ast.IfStmt); ok && ifs.Else == nil && ifs.Init == nil && x.src(ifs.Cond) == "!"+b {
				x.nextSeen = true
				return ind + "match e.tok with\n" + ind + "| none =>\n" + x.block(ifs.Body.List, ind+"  ") + "\n" + ind + "| some " + mangle(a) + " =>\n" + x.block(rest[1:], ind+"  ")
			}
			return ind + x.fail(s, "Next() must be followed by `if !%s {...}`", b)
		}
		if len(v.Lhs) == 1 && len(v.Rhs) == 1 && (v.Tok == token.DEFINE || v.Tok == token.ASSIGN) {
			rhs := x.expr(v.Rhs[0])
			switch l := v.Lhs[0].(type) {
			case *ast.Ident:
				return ind + "let " + mangle(l.Name) + " : Int := " + rhs + "\n" + x.block(rest, ind)
			case *ast.SelectorExpr:
				if id, ok := l.X.(*ast.Ident); ok && id.Name == x.recv {
					if f, ok := waiterFields[l.Sel.Name]; ok {
						return ind + "let " + x.recv + " : Waiter := { " + x.recv + " with " + f + " := " + rhs + " }\n" + x.block(rest, ind)
					}
				}
			}
		}
	case *ast.IfStmt:
		if v.Init != nil {
			break
		}
		if _, ok := x.timerArm(v); ok {
			x.armStmt = v
			if x.withTimer {
				return ind + "let tm : TimerSt := if tm.created then TimerSt.reset tm else TimerSt.newTimer\n" + x.block(rest, ind)
			}
			return ind + "-- " + x.src(v.Cond) + ": NewTimer / Reset: the timer is armed for `timerArmedFor waitFor`\n" + x.block(rest, ind)
		}
		if v.Else == nil && len(v.Body.List) > 0 {
			if _, ok := v.Body.List[len(v.Body.List)-1].(*ast.ReturnStmt); ok {
				return ind + "if " + x.expr(v.Cond) + " then\n" + x.block(v.Body.List, ind+"  ") + "\n" + ind + "else\n" + x.block(rest, ind+"  ")
			}
		}
	}
	return ind + x.fail(s, "statement %s", x.src(s))
}

func waiterConstDef(p *packages.Package, name string) (string, bool) {
	obj := p.Types.Scope().Lookup(name)
	c, ok := obj.(*types.Const)
	if !ok {
		return "", false
	}
	if isString(c.Type()) {
		return fmt.Sprintf("def %s : String := %s", name, strconv.Quote(strings.Trim(c.Val().ExactString(), "\""))), true
	}
	return fmt.Sprintf("def %s : Int := %s", name, c.Val().ExactString()), true
}

func waiterExtra(t *tr) string {
	var b strings.Builder
	b.WriteString("open Pandora.Go.C04 Pandora.Model.C04\n\n")
	x := &waiterTr{t: t, pkg: t.pkg, recv: "w"}

	// --- coreutil
	if d, ok := waiterConstDef(t.pkg, "MaxOverdueDuration"); ok {
		b.WriteString("/-- regenerated from `core/coreutil/waiter.go` const `MaxOverdueDuration` (ns) -/\n" + d + "\n\n")
	} else {
		t.errs = append(t.errs, "const MaxOverdueDuration not found")
	}
	if fd := waiterFindMethod(t.pkg, "Waiter", "Wait"); fd != nil && len(fd.Recv.List[0].Names) == 1 {
		x.recv = fd.Recv.List[0].Names[0].Name
		x.inWait = true
		b.WriteString("/-- regenerated from `core/coreutil/waiter.go` method `(*Waiter).Wait` -/\n")
		b.WriteString("def Wait (" + x.recv + " : Waiter) (e : Env) : Waiter × Bool :=\n" + x.block(fd.Body.List, "  ") + "\n\n")
		// the same statements once more, with the state of w.timer (created? / a tick not yet received?) threaded through
		x.withTimer, x.nextSeen = true, false
		nerr := len(t.errs)
		b.WriteString("/-- regenerated from `(*Waiter).Wait` with the timer: `if w.timer == nil {NewTimer} else {Reset}` arms it, `case <-w.timer.C` receives its tick -/\n")
		b.WriteString("def WaitT (" + x.recv + " : Waiter) (tm : TimerSt) (e : Env) : Waiter × TimerSt × Bool :=\n" + x.block(fd.Body.List, "  ") + "\n\n")
		t.errs = t.errs[:nerr] // the same complaints as for Wait
		x.withTimer = false
		x.inWait = false
		b.WriteString(x.timerOwnership(fd))
		if x.armStmt != nil {
			// the duration both NewTimer and Reset are called with, as a function of the local waitFor
			call := x.armStmt.Body.List[0].(*ast.AssignStmt).Rhs[0].(*ast.CallExpr)
			b.WriteString("/-- regenerated from `(*Waiter).Wait`: the duration the timer is armed for (NewTimer and Reset alike) -/\n")
			b.WriteString("def timerArmedFor (waitFor : Int) : Int := " + x.expr(call.Args[0]) + "\n\n")
		} else {
			t.errs = append(t.errs, "(*Waiter).Wait: timer arming statement not found")
		}
	} else {
		t.errs = append(t.errs, "method (*Waiter).Wait not found")
	}
	for _, m := range []struct{ name, sig, wrap string }{
		{"IsSlowDown", "(RECV : Waiter) (ctxDone : Bool) : Bool", "decide "},
		{"IsFinished", "(ctxDone : Bool) (left : Int) : Bool", "decide "},
	} {
		fd := waiterFindMethod(t.pkg, "Waiter", m.name)
		if fd == nil || len(fd.Recv.List[0].Names) != 1 {
			t.errs = append(t.errs, "method (*Waiter)."+m.name+" not found")
			continue
		}
		x.recv = fd.Recv.List[0].Names[0].Name
		// select { case <-ctx.Done(): return A; default: return B }
		ok := false
		if len(fd.Body.List) == 1 {
			if sel, isSel := fd.Body.List[0].(*ast.SelectStmt); isSel && len(sel.Body.List) == 2 {
				c0 := sel.Body.List[0].(*ast.CommClause)
				c1 := sel.Body.List[1].(*ast.CommClause)
				if c0.Comm != nil && c1.Comm == nil && len(c0.Body) == 1 && len(c1.Body) == 1 {
					es, isEs := c0.Comm.(*ast.ExprStmt)
					r0, isR0 := c0.Body[0].(*ast.ReturnStmt)
					r1, isR1 := c1.Body[0].(*ast.ReturnStmt)
					if isEs && isR0 && isR1 && x.isCtxDone(es.X) && len(r0.Results) == 1 && len(r1.Results) == 1 {
						ok = true
						b.WriteString("/-- regenerated from `core/coreutil/waiter.go` method `(*Waiter)." + m.name + "` -/\n")
						b.WriteString("def " + m.name + " " + strings.ReplaceAll(m.sig, "RECV", x.recv) + " :=\n  if ctxDone then " + x.expr(r0.Results[0]) + " else " + m.wrap + x.expr(r1.Results[0]) + "\n\n")
					}
				}
			}
		}
		if !ok && len(fd.Body.List) == 2 {
			// if ctx.Err() != nil { return A }; return B
			ifs, isIf := fd.Body.List[0].(*ast.IfStmt)
			r1, isR1 := fd.Body.List[1].(*ast.ReturnStmt)
			if isIf && isR1 && ifs.Init == nil && ifs.Else == nil && x.src(ifs.Cond) == "ctx.Err() != nil" && len(ifs.Body.List) == 1 && len(r1.Results) == 1 {
				if r0, isR0 := ifs.Body.List[0].(*ast.ReturnStmt); isR0 && len(r0.Results) == 1 {
					ok = true
					b.WriteString("/-- regenerated from `core/coreutil/waiter.go` method `(*Waiter)." + m.name + "` -/\n")
					b.WriteString("def " + m.name + " " + strings.ReplaceAll(m.sig, "RECV", x.recv) + " :=\n  if ctxDone then " + x.expr(r0.Results[0]) + " else " + m.wrap + x.expr(r1.Results[0]) + "\n\n")
				}
			}
		}
		if !ok {
			x.fail(fd, m.name+" shape")
		}
	}

	// --- netsample
	ns := load("github.com/yandex/pandora/core/aggregator/netsample")
	for _, c := range []string{"DiscardedShootCodeError", "DiscardedShootTag"} {
		if d, ok := waiterConstDef(ns, c); ok {
			b.WriteString("/-- regenerated from `core/aggregator/netsample/sample.go` const `" + c + "` -/\n" + d + "\n\n")
		} else {
			t.errs = append(t.errs, "const "+c+" not found")
		}
	}
	nx := &waiterTr{t: t, pkg: ns}
	if fd := findFunc(ns, "DiscardedShootSample"); fd != nil {
		// sample := &Sample{timeStamp: time.Now(), tags: T}; sample.SetUserNet(C); return sample
		tags, net := "", ""
		ok := len(fd.Body.List) == 3
		if ok {
			as, isAs := fd.Body.List[0].(*ast.AssignStmt)
			ok = isAs && len(as.Rhs) == 1
			if ok {
				u, isU := as.Rhs[0].(*ast.UnaryExpr)
				ok = isU
				if call, isCall := as.Rhs[0].(*ast.CallExpr); isCall && nx.src(call.Fun) == "Acquire" && len(call.Args) == 1 {
					// sample := Acquire(T): the pooled constructor; it must build Sample{timeStamp: …, tags: <its parameter>}
					if aq := findFunc(ns, "Acquire"); aq != nil && aq.Type.Params != nil && len(aq.Type.Params.List) == 1 && len(aq.Type.Params.List[0].Names) == 1 {
						param := aq.Type.Params.List[0].Names[0].Name
						ast.Inspect(aq.Body, func(n ast.Node) bool {
							if cl, isCl := n.(*ast.CompositeLit); isCl && nx.src(cl.Type) == "Sample" {
								for _, el := range cl.Elts {
									if kv, isKv := el.(*ast.KeyValueExpr); isKv && nx.src(kv.Key) == "tags" && nx.src(kv.Value) == param {
										tags = nx.src(call.Args[0])
										ok = true
									}
								}
							}
							return true
						})
					}
				} else if ok {
					cl, isCl := u.X.(*ast.CompositeLit)
					ok = isCl && nx.src(cl.Type) == "Sample"
					if ok {
						for _, el := range cl.Elts {
							kv, isKv := el.(*ast.KeyValueExpr)
							if !isKv {
								ok = false
								break
							}
							switch nx.src(kv.Key) {
							case "tags":
								tags = nx.src(kv.Value)
							case "timeStamp":
							default:
								ok = false
							}
						}
					}
				}
			}
			es, isEs := fd.Body.List[1].(*ast.ExprStmt)
			if ok && isEs {
				call, isCall := es.X.(*ast.CallExpr)
				if isCall && len(call.Args) == 1 && nx.src(call.Fun) == "sample.SetUserNet" {
					net = nx.src(call.Args[0])
				}
			}
			if _, isRet := fd.Body.List[2].(*ast.ReturnStmt); !isRet {
				ok = false
			}
		}
		// SetUserNet must store into the errno (net code) field
		if su := waiterFindMethod(ns, "Sample", "SetUserNet"); su == nil || len(su.Body.List) != 1 || nx.src(su.Body.List[0]) != "s.set(keyErrno, code)" {
			ok = false
		}
		if ok && tags == "DiscardedShootTag" && net == "DiscardedShootCodeError" {
			b.WriteString("/-- regenerated from `core/aggregator/netsample/sample.go` func `DiscardedShootSample` (tags; net code via SetUserNet → keyErrno) -/\n")
			b.WriteString("def DiscardedShootSample : DiscardSample := { tags := " + tags + ", net := " + net + " }\n\n")
		} else {
			nx.fail(fd, "DiscardedShootSample shape (tags=%q net=%q)", tags, net)
		}
	} else {
		t.errs = append(t.errs, "func DiscardedShootSample not found")
	}

	b.WriteString(waiterPhoutFacts(t, ns, nx))

	// --- engine: the fire/discard decision of (*instance).Run
	en := load("github.com/yandex/pandora/core/engine")
	ex := &waiterTr{t: t, pkg: en}
	found := false
	if fd := waiterFindMethod(en, "instance", "Run"); fd != nil {
		ast.Inspect(fd.Body, func(n ast.Node) bool {
			ifs, ok := n.(*ast.IfStmt)
			if !ok || ifs.Else == nil || found {
				return true
			}
			eb, ok := ifs.Else.(*ast.BlockStmt)
			if !ok || !strings.Contains(ex.src(eb), "DiscardedShootSample") {
				return true
			}
			found = true
			cond := ex.src(ifs.Cond)
			cond = strings.ReplaceAll(cond, "i.discardOverflow", "discardOverflow")
			cond = strings.ReplaceAll(cond, "waiter.IsSlowDown(ctx)", "slow")
			// what remains must be a boolean formula over the two atoms
			for _, tok := range strings.FieldsFunc(cond, func(r rune) bool { return strings.ContainsRune("!|&() ", r) }) {
				if tok != "discardOverflow" && tok != "slow" {
					ex.fail(ifs, "fire condition atom %q in %s", tok, ex.src(ifs.Cond))
				}
			}
			b.WriteString("/-- regenerated from `core/engine/instance.go` `(*instance).Run`: condition under which `gun.Shoot` is called -/\n")
			b.WriteString("def fires (discardOverflow slow : Bool) : Bool := (" + cond + ")\n\n")
			var fireCalls, elseStmts []string
			for _, s := range ifs.Body.List {
				if es, ok := s.(*ast.ExprStmt); ok {
					fireCalls = append(fireCalls, strconv.Quote(ex.src(es)))
				}
			}
			for _, s := range ex.normBranch(eb.List) {
				elseStmts = append(elseStmts, strconv.Quote(s))
			}
			b.WriteString("/-- calls made in the fire branch (expression statements, in order) -/\n")
			b.WriteString("def fireBranch : List String := [" + strings.Join(fireCalls, ", ") + "]\n\n")
			b.WriteString("/-- statements of the discard branch -/\n")
			b.WriteString("def discardBranch : List String := [" + strings.Join(elseStmts, ", ") + "]\n")
			return true
		})
	}
	if !found {
		t.errs = append(t.errs, "fire/discard if of (*instance).Run not found")
	}

	// --- engine: the whole loop of (*instance).Run as one function of a pass
	if fd := waiterFindMethod(en, "instance", "Run"); fd != nil {
		b.WriteString("\n" + ex.instanceLoop(fd))
	} else {
		t.errs = append(t.errs, "method (*instance).Run not found")
	}

	// --- engine: config key of the pool option and its way into the instances
	b.WriteString("\n" + ex.engineWiring())
	b.WriteString("\n" + ex.runFieldResolution())

	// --- coreutil: the wrapper of the shared schedule passes Next / Left through (round 4)
	b.WriteString("\n" + waiterCallbackSchedule(t))

	// --- cli: default of discard_overflow
	b.WriteString("\n" + waiterCliDiscardDefault(t))

	// --- docs: what the user documentation promises
	b.WriteString("\n" + waiterDocFacts(t))
	return b.String()
}

// ---------------------------------------------------------------------------------------------------------------
// (*instance).Run

// ignorable: a statement without an effect the property speaks about (logging, metrics, releasing the ammo).
func (x *waiterTr) ignorable(s ast.Stmt) bool {
	switch v := s.(type) {
	case *ast.ExprStmt:
		src := x.src(v)
		if strings.HasPrefix(src, "i.log.") {
			return true
		}
		if strings.HasPrefix(src, "i.metrics.") && strings.HasSuffix(src, ".Add(1)") {
			return true
		}
	case *ast.IfStmt:
		if v.Init == nil && v.Else == nil && x.src(v.Cond) == "tag.Debug" {
			for _, b := range v.Body.List {
				if !x.ignorable(b) {
					return false
				}
			}
			return true
		}
	case *ast.DeferStmt:
		if x.src(v.Call) == "i.provider.Release(ammo)" {
			return true
		}
	}
	return false
}

// loopCond translates the fire condition over the atoms i.discardOverflow and <waiter>.IsSlowDown(ctx).
func (x *waiterTr) loopCond(e ast.Expr, wv string) string {
	switch v := e.(type) {
	case *ast.ParenExpr:
		return x.loopCond(v.X, wv)
	case *ast.UnaryExpr:
		if v.Op == token.NOT {
			return "(!" + x.loopCond(v.X, wv) + ")"
		}
	case *ast.BinaryExpr:
		if v.Op == token.LOR {
			return "(" + x.loopCond(v.X, wv) + " || " + x.loopCond(v.Y, wv) + ")"
		}
		if v.Op == token.LAND {
			return "(" + x.loopCond(v.X, wv) + " && " + x.loopCond(v.Y, wv) + ")"
		}
	case *ast.SelectorExpr:
		if x.src(v) == "i.discardOverflow" {
			return "discardOverflow"
		}
	case *ast.CallExpr:
		if x.src(v) == wv+".IsSlowDown(ctx)" {
			return "(IsSlowDown w it.ctxDoneSlow)"
		}
	case *ast.Ident:
		if x.slowLocals[v.Name] {
			return mangle(v.Name)
		}
	}
	return x.fail(e, "fire condition %s", x.src(e))
}

// branchOutcome: the one effect of a branch of the fire/discard `if`.
func (x *waiterTr) branchOutcome(b *ast.BlockStmt) string {
	var eff []string
	for _, s := range b.List {
		if x.ignorable(s) {
			continue
		}
		if as, ok := s.(*ast.AssignStmt); ok && x.isSampleLocal(as) != "" {
			continue // inlined into the Report that follows (normBranch)
		}
		if sl := x.reportOfLocal(b.List, s); sl != "" {
			eff = append(eff, "(Outcome.discard DiscardedShootSample)")
			continue
		}
		switch x.src(s) {
		case "i.gun.Shoot(ammo)":
			eff = append(eff, "Outcome.shoot")
		case "i.aggregator.Report(netsample.DiscardedShootSample())":
			eff = append(eff, "(Outcome.discard DiscardedShootSample)")
		default:
			return x.fail(s, "statement %s in a branch of the fire/discard if", x.src(s))
		}
	}
	if len(eff) != 1 {
		return x.fail(b, "a branch of the fire/discard if has %d effects (want exactly one of Shoot / Report(DiscardedShootSample()))", len(eff))
	}
	return eff[0]
}

// isSampleLocal: `x := netsample.DiscardedShootSample()` -> "x"
func (x *waiterTr) isSampleLocal(as *ast.AssignStmt) string {
	if as.Tok == token.DEFINE && len(as.Lhs) == 1 && len(as.Rhs) == 1 && x.src(as.Rhs[0]) == "netsample.DiscardedShootSample()" {
		if id, ok := as.Lhs[0].(*ast.Ident); ok {
			return id.Name
		}
	}
	return ""
}

// reportOfLocal: s is `i.aggregator.Report(x)` and the statement just before it in stmts is `x := netsample.DiscardedShootSample()`
func (x *waiterTr) reportOfLocal(stmts []ast.Stmt, s ast.Stmt) string {
	for k := 1; k < len(stmts); k++ {
		if stmts[k] != s {
			continue
		}
		if as, ok := stmts[k-1].(*ast.AssignStmt); ok {
			if l := x.isSampleLocal(as); l != "" && x.src(s) == "i.aggregator.Report("+l+")" {
				return l
			}
		}
	}
	return ""
}

// normBranch renders the statements of a branch; `x := netsample.DiscardedShootSample(); i.aggregator.Report(x)` is rendered as
// the one statement `i.aggregator.Report(netsample.DiscardedShootSample())` (the local is used for nothing else: Go rejects an
// unused variable and a second use shows up as a further statement)
func (x *waiterTr) normBranch(stmts []ast.Stmt) []string {
	var out []string
	for k := 0; k < len(stmts); k++ {
		if as, ok := stmts[k].(*ast.AssignStmt); ok && k+1 < len(stmts) {
			if l := x.isSampleLocal(as); l != "" && x.src(stmts[k+1]) == "i.aggregator.Report("+l+")" {
				out = append(out, "i.aggregator.Report(netsample.DiscardedShootSample())")
				k++
				continue
			}
		}
		out = append(out, x.src(stmts[k]))
	}
	return out
}

// timerOwnership: who touches w.timer. The theorems about the timer (`C04_timer_channel_empty_at_arm`) are about a timer that
// belongs to ONE waiter, is created by the arming statement of Wait and received from only in Wait's final select.
func (x *waiterTr) timerOwnership(wait *ast.FuncDecl) string {
	var b strings.Builder
	// NewWaiter: &Waiter{sched: sched}
	fields := []string{"<NewWaiter not recognised>"}
	if fd := findFunc(x.pkg, "NewWaiter"); fd != nil && len(fd.Body.List) == 1 {
		if ret, ok := fd.Body.List[0].(*ast.ReturnStmt); ok && len(ret.Results) == 1 {
			if u, ok := ret.Results[0].(*ast.UnaryExpr); ok && u.Op == token.AND {
				if cl, ok := u.X.(*ast.CompositeLit); ok && x.src(cl.Type) == "Waiter" {
					fields = nil
					for _, el := range cl.Elts {
						if kv, ok := el.(*ast.KeyValueExpr); ok {
							fields = append(fields, x.src(kv.Key))
						} else {
							fields = append(fields, "<positional>")
						}
					}
				}
			}
		}
	}
	q := make([]string, len(fields))
	for i, f := range fields {
		q[i] = strconv.Quote(f)
	}
	b.WriteString("/-- regenerated from `coreutil.NewWaiter`: the fields of the `&Waiter{…}` it returns (everything else is zero: no timer, zero `lastNow`, zero overdue) -/\n")
	b.WriteString("def newWaiterFields : List String := [" + strings.Join(q, ", ") + "]\n\n")
	// uses of a field named `timer` in the package (tests excluded) outside the arming statement and the final select of Wait
	isTimerSel := func(n ast.Node) bool {
		sel, ok := n.(*ast.SelectorExpr)
		return ok && sel.Sel.Name == "timer"
	}
	total, inside := 0, 0
	for _, f := range x.pkg.Syntax {
		if strings.HasSuffix(x.pkg.Fset.Position(f.Pos()).Filename, "_test.go") {
			continue
		}
		ast.Inspect(f, func(n ast.Node) bool {
			if isTimerSel(n) {
				total++
			}
			return true
		})
	}
	count := func(n ast.Node) {
		ast.Inspect(n, func(m ast.Node) bool {
			if isTimerSel(m) {
				inside++
			}
			return true
		})
	}
	if x.armStmt != nil {
		count(x.armStmt)
	}
	for _, s := range wait.Body.List {
		if sel, ok := s.(*ast.SelectStmt); ok {
			for _, c := range sel.Body.List {
				if cc := c.(*ast.CommClause); cc.Comm != nil {
					count(cc.Comm)
				}
			}
		}
	}
	b.WriteString("/-- regenerated from `core/coreutil`: uses of a field `timer` outside the arming statement and the `case <-w.timer.C` of `Wait` -/\n")
	b.WriteString(fmt.Sprintf("def timerOtherUses : Nat := %d\n\n", total-inside))
	return b.String()
}

// closure translates the body of the `func() error {…}` of one pass into a term of type `Waiter × Outcome`.
func (x *waiterTr) closure(stmts []ast.Stmt, wv string, ind string) string {
	for len(stmts) > 0 && x.ignorable(stmts[0]) {
		stmts = stmts[1:]
	}
	if len(stmts) == 0 {
		return ind + "(UNSUPPORTED-fallthrough)"
	}
	s, rest := stmts[0], stmts[1:]
	switch v := s.(type) {
	case *ast.AssignStmt:
		// slow := waiter.IsSlowDown(ctx): the answer is taken from the waiter state AT THIS POINT of the pass (`w` is the state
		// before Wait if the statement precedes it, after Wait if it follows)
		if len(v.Lhs) == 1 && len(v.Rhs) == 1 && v.Tok == token.DEFINE && x.src(v.Rhs[0]) == wv+".IsSlowDown(ctx)" {
			if id, ok := v.Lhs[0].(*ast.Ident); ok {
				if x.slowLocals == nil {
					x.slowLocals = map[string]bool{}
				}
				x.slowLocals[id.Name] = true
				return ind + "let " + mangle(id.Name) + " : Bool := IsSlowDown w it.ctxDoneSlow\n" + x.closure(rest, wv, ind)
			}
		}
		// ammo, ok := i.provider.Acquire(); if !ok { …; return <non-nil> }
		if len(v.Lhs) == 2 && len(v.Rhs) == 1 && x.src(v.Rhs[0]) == "i.provider.Acquire()" && x.src(v.Lhs[0]) == "ammo" && len(rest) > 0 {
			okv := x.src(v.Lhs[1])
			if ifs, isIf := rest[0].(*ast.IfStmt); isIf && ifs.Init == nil && ifs.Else == nil && x.src(ifs.Cond) == "!"+okv && len(ifs.Body.List) > 0 {
				body := ifs.Body.List
				for len(body) > 1 && x.ignorable(body[0]) {
					body = body[1:]
				}
				if ret, isRet := body[0].(*ast.ReturnStmt); isRet && len(body) == 1 && len(ret.Results) == 1 && x.src(ret.Results[0]) != "nil" {
					return ind + "if !it.ammoOk then (w, Outcome.outOfAmmo) else\n" + x.closure(rest[1:], wv, ind)
				}
			}
		}
	case *ast.IfStmt:
		if v.Init != nil {
			break
		}
		// if !waiter.Wait(ctx) { return nil }
		if v.Else == nil && x.src(v.Cond) == "!"+wv+".Wait(ctx)" && len(v.Body.List) == 1 && x.src(v.Body.List[0]) == "return nil" {
			return ind + "let r := Wait w it.env\n" + ind + "let w : Waiter := r.1\n" + ind + "if !r.2 then (w, Outcome.skip) else\n" + x.closure(rest, wv, ind)
		}
		// the fire/discard if, followed by `return nil`
		if eb, isBlock := v.Else.(*ast.BlockStmt); v.Else != nil && isBlock {
			tail := rest
			for len(tail) > 0 && x.ignorable(tail[0]) {
				tail = tail[1:]
			}
			if len(tail) == 1 && x.src(tail[0]) == "return nil" {
				return ind + "if " + x.loopCond(v.Cond, wv) + " then (w, " + x.branchOutcome(v.Body) + ")\n" + ind + "else (w, " + x.branchOutcome(eb) + ")"
			}
		}
	}
	return ind + x.fail(s, "statement %s of the pass closure", x.src(s))
}

func (x *waiterTr) instanceLoop(fd *ast.FuncDecl) string {
	wv := ""
	var loop *ast.ForStmt
	var after []ast.Stmt
	for k, s := range fd.Body.List {
		if x.ignorable(s) {
			continue
		}
		switch v := s.(type) {
		case *ast.DeferStmt:
			// the deferred recover / metrics closure: no Shoot, no Report
			src := x.src(v)
			if strings.Contains(src, "Shoot(") || strings.Contains(src, "Report(") {
				return x.fail(s, "deferred call with an effect")
			}
			continue
		case *ast.AssignStmt:
			if loop == nil && len(v.Lhs) == 1 && len(v.Rhs) == 1 && v.Tok == token.DEFINE && x.src(v.Rhs[0]) == "coreutil.NewWaiter(i.schedule)" {
				wv = x.src(v.Lhs[0])
				continue
			}
		case *ast.ForStmt:
			if loop == nil {
				loop = v
				after = fd.Body.List[k+1:]
				continue
			}
		case *ast.ReturnStmt:
			if loop != nil && len(after) == 1 && after[0] == s && x.src(s) == "return ctx.Err()" {
				continue
			}
		}
		return x.fail(s, "statement %s of (*instance).Run", x.src(s))
	}
	if loop == nil || wv == "" {
		return x.fail(fd, "the waiter := coreutil.NewWaiter(i.schedule) / for loop of (*instance).Run not found")
	}
	if loop.Init != nil || loop.Post != nil || loop.Cond == nil || x.src(loop.Cond) != "!"+wv+".IsFinished(ctx)" {
		return x.fail(loop, "loop head (want `for !%s.IsFinished(ctx)`)", wv)
	}
	// err := func() error {…}(); if err != nil { return err }
	body := loop.Body.List
	var lit *ast.FuncLit
	if len(body) == 2 {
		if as, ok := body[0].(*ast.AssignStmt); ok && len(as.Lhs) == 1 && len(as.Rhs) == 1 && x.src(as.Lhs[0]) == "err" {
			if call, ok := as.Rhs[0].(*ast.CallExpr); ok && len(call.Args) == 0 {
				lit, _ = call.Fun.(*ast.FuncLit)
			}
		}
		if x.src(body[1]) != "if err != nil { return err }" {
			lit = nil
		}
	}
	if lit == nil {
		return x.fail(loop.Body, "loop body (want `err := func() error {…}(); if err != nil { return err }`)")
	}
	var b strings.Builder
	b.WriteString(x.runCtxFacts(fd, wv))
	b.WriteString("/-- regenerated from `core/engine/instance.go` `(*instance).Run`: ONE pass of `for !" + wv + ".IsFinished(ctx)` (`" + wv +
		" := coreutil.NewWaiter(i.schedule)` is created once, before the loop); `it.finished` is the answer of IsFinished -/\n")
	b.WriteString("def iteration (discardOverflow : Bool) (w : Waiter) (it : Iter) : Waiter × Outcome :=\n")
	b.WriteString("  if it.finished then (w, Outcome.loopEnd) else\n")
	b.WriteString(x.closure(lit.Body.List, wv, "  ") + "\n")
	return b.String()
}

// runCtxFacts: every call of the waiter in (*instance).Run gets the SAME context - the parameter of Run, never re-bound: a done
// context stays done from one call to the next (`CtxSticky`, `CtxMono` of the theorems).
func (x *waiterTr) runCtxFacts(fd *ast.FuncDecl, wv string) string {
	param := "<none>"
	if fd.Type.Params != nil && len(fd.Type.Params.List) == 1 && len(fd.Type.Params.List[0].Names) == 1 && x.src(fd.Type.Params.List[0].Type) == "context.Context" {
		param = fd.Type.Params.List[0].Names[0].Name
	}
	var args []string
	seen := map[string]bool{}
	rebound := 0
	ast.Inspect(fd.Body, func(n ast.Node) bool {
		switch v := n.(type) {
		case *ast.CallExpr:
			if sel, ok := v.Fun.(*ast.SelectorExpr); ok && x.src(sel.X) == wv {
				a := "<" + strconv.Itoa(len(v.Args)) + " arguments>"
				if len(v.Args) == 1 {
					a = x.src(v.Args[0])
				}
				if !seen[a] {
					seen[a] = true
					args = append(args, strconv.Quote(a))
				}
			}
		case *ast.AssignStmt:
			for _, l := range v.Lhs {
				if id, ok := l.(*ast.Ident); ok && id.Name == param {
					rebound++
				}
			}
		case *ast.FuncLit:
			if v.Type.Params != nil {
				for _, f := range v.Type.Params.List {
					for _, nm := range f.Names {
						if nm.Name == param {
							rebound++
						}
					}
				}
			}
		}
		return true
	})
	var b strings.Builder
	b.WriteString("/-- regenerated from `(*instance).Run`: the context parameter of `Run` -/\n")
	b.WriteString("def runCtxParam : String := " + strconv.Quote(param) + "\n\n")
	b.WriteString("/-- the distinct arguments the methods of the waiter are called with in `Run` -/\n")
	b.WriteString("def runWaiterCallArgs : List String := [" + strings.Join(args, ", ") + "]\n\n")
	b.WriteString("/-- assignments to / re-declarations of that parameter inside `Run` -/\n")
	b.WriteString(fmt.Sprintf("def runCtxRebound : Nat := %d\n\n", rebound))
	return b.String()
}

// engineWiring: `config:"…"` tag of InstancePoolConfig.DiscardOverflow and the field the instances' discardOverflow is copied from.
func (x *waiterTr) engineWiring() string {
	var b strings.Builder
	key := ""
	var field *types.Var
	if obj, ok := x.pkg.Types.Scope().Lookup("InstancePoolConfig").(*types.TypeName); ok {
		if st, ok := obj.Type().Underlying().(*types.Struct); ok {
			for k := 0; k < st.NumFields(); k++ {
				if st.Field(k).Name() == "DiscardOverflow" && isBool(st.Field(k).Type()) {
					field = st.Field(k)
					key = reflect.StructTag(st.Tag(k)).Get("config")
				}
			}
		}
	}
	if field == nil {
		x.t.errs = append(x.t.errs, "engine.InstancePoolConfig.DiscardOverflow (bool) not found")
	}
	b.WriteString("/-- regenerated from `core/engine/engine.go`: the `config:` tag of `InstancePoolConfig.DiscardOverflow` -/\n")
	b.WriteString("def poolConfigDiscardKey : String := " + strconv.Quote(key) + "\n\n")
	// instanceSharedDeps{… discardOverflow: <expr> …} — every literal of that type in the package
	var wired []string
	for _, f := range x.pkg.Syntax {
		ast.Inspect(f, func(n ast.Node) bool {
			cl, ok := n.(*ast.CompositeLit)
			if !ok || cl.Type == nil || x.src(cl.Type) != "instanceSharedDeps" {
				return true
			}
			src := "<unset>"
			for _, el := range cl.Elts {
				if kv, ok := el.(*ast.KeyValueExpr); ok && x.src(kv.Key) == "discardOverflow" {
					src = "<other>:" + x.src(kv.Value)
					if sel, ok := kv.Value.(*ast.SelectorExpr); ok {
						if s, ok := x.pkg.TypesInfo.Selections[sel]; ok && field != nil && s.Obj() == field {
							src = "InstancePoolConfig.DiscardOverflow"
						}
					}
				}
			}
			wired = append(wired, strconv.Quote(src))
			return true
		})
	}
	b.WriteString("/-- regenerated from `core/engine`: for every `instanceSharedDeps{…}` literal, what `discardOverflow` is set from -/\n")
	b.WriteString("def instanceDiscardFrom : List String := [" + strings.Join(wired, ", ") + "]\n\n")
	// assignments to the field anywhere else in the package would bypass the wiring
	assigns := 0
	for _, f := range x.pkg.Syntax {
		if strings.HasSuffix(x.pkg.Fset.Position(f.Pos()).Filename, "_test.go") {
			continue
		}
		ast.Inspect(f, func(n ast.Node) bool {
			as, ok := n.(*ast.AssignStmt)
			if !ok {
				return true
			}
			for _, l := range as.Lhs {
				if sel, ok := l.(*ast.SelectorExpr); ok && (sel.Sel.Name == "discardOverflow" || sel.Sel.Name == "DiscardOverflow") {
					assigns++
				}
			}
			return true
		})
	}
	b.WriteString("/-- regenerated from `core/engine`: number of assignment statements that write a `discardOverflow`/`DiscardOverflow` field -/\n")
	b.WriteString(fmt.Sprintf("def discardFieldAssignments : Nat := %d\n", assigns))
	b.WriteString("\n" + x.scheduleSharing())
	return b.String()
}

// scheduleSharing reads (*instancePool).buildNewInstanceSchedule:
//
//	if COND { return p.NewRPSSchedule, nil }            -> every instance calls the constructor: its OWN schedule
//	S, err := p.NewRPSSchedule() ... [S = wrapper(S, …)] ... return func() (core.Schedule, error) { return S, err }, nil
//	                                                    -> ONE schedule, created once, handed to every instance: SHARED
//
// COND is a formula over p.RPSPerInstance. Also: newInstance takes its schedule from deps.newSchedule() and startInstances
// passes the built function as newSchedule.
func (x *waiterTr) scheduleSharing() string {
	fd := waiterFindMethod(x.pkg, "instancePool", "buildNewInstanceSchedule")
	if fd == nil || len(fd.Body.List) < 3 {
		return x.fail(x.pkg.Syntax[0], "(*instancePool).buildNewInstanceSchedule not found")
	}
	var cond func(e ast.Expr) string
	cond = func(e ast.Expr) string {
		switch v := e.(type) {
		case *ast.ParenExpr:
			return cond(v.X)
		case *ast.UnaryExpr:
			if v.Op == token.NOT {
				return "(!" + cond(v.X) + ")"
			}
		case *ast.SelectorExpr:
			if x.src(v) == "p.RPSPerInstance" {
				return "perInstance"
			}
		}
		return x.fail(e, "condition %s of buildNewInstanceSchedule", x.src(e))
	}
	ifs, ok := fd.Body.List[0].(*ast.IfStmt)
	if !ok || ifs.Init != nil || ifs.Else != nil || len(ifs.Body.List) != 1 || x.src(ifs.Body.List[0]) != "return p.NewRPSSchedule, nil" {
		return x.fail(fd.Body.List[0], "first statement of buildNewInstanceSchedule (want `if … { return p.NewRPSSchedule, nil }`)")
	}
	// the rest: exactly one top-level creation, optional re-wrapping assignments, error check, return of a closure over it
	shared := ""
	var wrappers []string
	created := 0
	for _, st := range fd.Body.List[1 : len(fd.Body.List)-1] {
		switch v := st.(type) {
		case *ast.AssignStmt:
			if len(v.Rhs) == 1 && x.src(v.Rhs[0]) == "p.NewRPSSchedule()" && len(v.Lhs) == 2 && v.Tok == token.DEFINE {
				shared = x.src(v.Lhs[0])
				created++
				continue
			}
			if len(v.Lhs) == 1 && len(v.Rhs) == 1 && shared != "" && x.src(v.Lhs[0]) == shared {
				if call, ok := v.Rhs[0].(*ast.CallExpr); ok && len(call.Args) >= 1 && x.src(call.Args[0]) == shared {
					wrappers = append(wrappers, strconv.Quote(x.src(call.Fun)))
					continue
				}
			}
		case *ast.IfStmt:
			if x.src(v.Cond) == "err != nil" {
				continue
			}
		}
		return x.fail(st, "statement %s of buildNewInstanceSchedule", x.src(st))
	}
	last := fd.Body.List[len(fd.Body.List)-1]
	okRet := false
	if ret, isRet := last.(*ast.ReturnStmt); isRet && len(ret.Results) == 2 {
		if lit, isLit := ret.Results[0].(*ast.FuncLit); isLit && len(lit.Body.List) == 1 && shared != "" && created == 1 {
			okRet = x.src(lit.Body.List[0]) == "return "+shared+", err"
		}
	}
	if !okRet {
		return x.fail(last, "buildNewInstanceSchedule must end with `return func() (core.Schedule, error) { return <the one schedule>, err }, nil`")
	}
	// newInstance: sched, err := deps.newSchedule(); instance{… schedule: sched …}; startInstances: newSchedule: <parameter>
	from := "<not found>"
	for _, f := range x.pkg.Syntax {
		for _, d := range f.Decls {
			if nf, ok := d.(*ast.FuncDecl); ok && nf.Recv == nil && nf.Name.Name == "newInstance" {
				v := ""
				ast.Inspect(nf.Body, func(n ast.Node) bool {
					switch t := n.(type) {
					case *ast.AssignStmt:
						if len(t.Rhs) == 1 && x.src(t.Rhs[0]) == "deps.newSchedule()" && len(t.Lhs) == 2 {
							v = x.src(t.Lhs[0])
						}
					case *ast.KeyValueExpr:
						if x.src(t.Key) == "schedule" && v != "" && x.src(t.Value) == v {
							from = "deps.newSchedule()"
						}
					}
					return true
				})
			}
		}
	}
	var b strings.Builder
	b.WriteString("/-- regenerated from `core/engine/engine.go` `(*instancePool).buildNewInstanceSchedule`: the schedule an instance's Waiter runs\n")
	b.WriteString("over — its own (the pool's constructor is called per instance) or the one shared schedule (created once, closed over) -/\n")
	b.WriteString("def scheduleKind (perInstance : Bool) : SchedKind := if " + cond(ifs.Cond) + " then SchedKind.own else SchedKind.shared\n\n")
	b.WriteString("/-- what the shared schedule is wrapped in before it is handed out (wrappers pass `Next`/`Left` through) -/\n")
	b.WriteString("def sharedScheduleWrappers : List String := [" + strings.Join(wrappers, ", ") + "]\n\n")
	b.WriteString("/-- `newInstance`: where `instance.schedule` (the argument of `coreutil.NewWaiter` in `Run`) comes from -/\n")
	b.WriteString("def instanceScheduleFrom : String := " + strconv.Quote(from) + "\n")
	return b.String()
}

// waiterCliDiscardDefault reads cli/cli.go (syntax only) for
//
//	if pools, ok := v.Get(K).([]any); ok { for i, pool := range pools { …
//	    if _, ok := poolMap[KEY]; !ok { poolMap[KEY2] = VALUE } … pools[i] = poolMap } v.Set(K2, pools) }
func waiterCliDiscardDefault(t *tr) string {
	var b strings.Builder
	fset := token.NewFileSet()
	path := filepath.Join(repo, "cli", "cli.go")
	f, err := parser.ParseFile(fset, path, nil, 0)
	if err != nil {
		t.errs = append(t.errs, "cli/cli.go: "+err.Error())
		return ""
	}
	src := func(n ast.Node) string {
		var bb bytes.Buffer
		_ = printer.Fprint(&bb, fset, n)
		return strings.Join(strings.Fields(bb.String()), " ")
	}
	var rc *ast.FuncDecl
	for _, d := range f.Decls {
		if fd, ok := d.(*ast.FuncDecl); ok && fd.Recv == nil && fd.Name.Name == "readConfig" {
			rc = fd
		}
	}
	if rc == nil {
		t.errs = append(t.errs, "cli.readConfig not found")
		return ""
	}
	type hit struct {
		getKey, setKey, lookKey, putKey, val, decodeAfter, guard string
		readBefore                                                   bool
	}
	// string constants declared in the file or inside readConfig: a key may be spelled through one of them
	consts := map[string]string{}
	ast.Inspect(f, func(n ast.Node) bool {
		gd, ok := n.(*ast.GenDecl)
		if !ok || gd.Tok != token.CONST {
			return true
		}
		for _, sp := range gd.Specs {
			vs, ok := sp.(*ast.ValueSpec)
			if !ok || len(vs.Names) != len(vs.Values) {
				continue
			}
			for i, nm := range vs.Names {
				if bl, ok := vs.Values[i].(*ast.BasicLit); ok && bl.Kind == token.STRING {
					if _, dup := consts[nm.Name]; dup {
						consts[nm.Name] = "<ambiguous constant>:" + nm.Name
					} else {
						consts[nm.Name] = bl.Value
					}
				}
			}
		}
		return true
	})
	var hits []hit
	for k, s := range rc.Body.List {
		outer, ok := s.(*ast.IfStmt)
		if !ok || outer.Init == nil || !strings.Contains(src(outer.Init), "v.Get(") {
			continue
		}
		h := hit{guard: "<other>:" + src(outer.Cond)}
		// pools, ok := v.Get("pools").([]any)
		if as, ok := outer.Init.(*ast.AssignStmt); ok && len(as.Rhs) == 1 {
			if len(as.Lhs) == 2 && src(outer.Cond) == src(as.Lhs[1]) {
				// the block runs whenever the section list has the expected type: no further condition
				h.guard = "type-assertion-only"
			}
			if ta, ok := as.Rhs[0].(*ast.TypeAssertExpr); ok {
				if call, ok := ta.X.(*ast.CallExpr); ok && src(call.Fun) == "v.Get" && len(call.Args) == 1 {
					h.getKey = src(call.Args[0])
				}
			}
		}
		ast.Inspect(outer.Body, func(n ast.Node) bool {
			switch v := n.(type) {
			case *ast.IfStmt:
				as, ok := v.Init.(*ast.AssignStmt)
				if !ok || len(as.Lhs) != 2 || len(as.Rhs) != 1 || src(as.Lhs[0]) != "_" || v.Else != nil || len(v.Body.List) != 1 {
					return true
				}
				ix, ok := as.Rhs[0].(*ast.IndexExpr)
				if !ok || src(v.Cond) != "!"+src(as.Lhs[1]) {
					return true
				}
				put, ok := v.Body.List[0].(*ast.AssignStmt)
				if !ok || len(put.Lhs) != 1 || len(put.Rhs) != 1 {
					return true
				}
				pix, ok := put.Lhs[0].(*ast.IndexExpr)
				if !ok || src(pix.X) != src(ix.X) {
					return true
				}
				h.lookKey, h.putKey, h.val = src(ix.Index), src(pix.Index), src(put.Rhs[0])
			case *ast.ExprStmt:
				if call, ok := v.X.(*ast.CallExpr); ok && src(call.Fun) == "v.Set" && len(call.Args) == 2 {
					h.setKey = src(call.Args[0])
				}
			}
			return true
		})
		// the decode that follows must read the (updated) viper settings
		for _, later := range rc.Body.List[k+1:] {
			if strings.Contains(src(later), "config.DecodeAndValidate(v.AllSettings(), conf)") {
				h.decodeAfter = "config.DecodeAndValidate(v.AllSettings(), conf)"
			}
		}
		// ... and the config must have been read before: every call that reads it (file or standard input) stands in an earlier
		// statement, none in a later one
		readsBefore, readsAfter := 0, 0
		for j, st := range rc.Body.List {
			n := strings.Count(src(st), "v.ReadInConfig(") + strings.Count(src(st), "v.ReadConfig(")
			if j < k {
				readsBefore += n
			} else {
				readsAfter += n
			}
		}
		h.readBefore = readsBefore >= 1 && readsAfter == 0
		hits = append(hits, h)
	}
	if len(hits) != 1 || (hits[0].val != "true" && hits[0].val != "false") {
		t.errs = append(t.errs, fmt.Sprintf("cli.readConfig: the `discard_overflow` default block was not recognised (%d candidates)", len(hits)))
		return ""
	}
	h := hits[0]
	unq := func(s string) string {
		if c, ok := consts[s]; ok {
			s = c
		}
		if u, err := strconv.Unquote(s); err == nil {
			return u
		}
		return "<not a literal>:" + s
	}
	b.WriteString("/-- regenerated from `cli/cli.go` `readConfig`: for every pool section (a map) of `v.Get(cliPoolsGetKey)`: if the key\n")
	b.WriteString("`cliDefaultLookupKey` is absent, `cliDefaultPutKey` is set to the value below; the list is written back with `v.Set(cliPoolsSetKey, …)`\n")
	b.WriteString("before the settings are decoded. `given` = the value the section has for the key, if any. -/\n")
	b.WriteString("def cliPoolDiscardOverflow (given : Option Bool) : Bool :=\n  match given with\n  | some b => b\n  | none => " + h.val + "\n\n")
	b.WriteString("def cliDefaultLookupKey : String := " + strconv.Quote(unq(h.lookKey)) + "\n")
	b.WriteString("def cliDefaultPutKey : String := " + strconv.Quote(unq(h.putKey)) + "\n")
	b.WriteString("def cliPoolsGetKey : String := " + strconv.Quote(unq(h.getKey)) + "\n")
	b.WriteString("def cliPoolsSetKey : String := " + strconv.Quote(unq(h.setKey)) + "\n")
	b.WriteString("def cliDecodesAfterDefault : Bool := " + map[bool]string{true: "true", false: "false"}[h.decodeAfter != ""] + "\n")
	b.WriteString("/-- every `v.ReadInConfig()` / `v.ReadConfig(…)` of `readConfig` stands before the default block (round 4) -/\n")
	b.WriteString("def cliReadsConfigBeforeDefault : Bool := " + map[bool]string{true: "true", false: "false"}[h.readBefore] + "\n")
	b.WriteString("/-- the condition under which the default block runs at all (besides the type assertion of the section list) -/\n")
	b.WriteString("def cliDefaultGuard : String := " + strconv.Quote(h.guard) + "\n")
	// the per-section `if _, ok := poolMap[KEY]; !ok` must be the only condition inside the loop: an enclosing `if` other than the
	// type assertion of the section would make the default depend on something else
	b.WriteString("/-- conditions (other than the map type assertion `continue`) that enclose the per-section default inside the loop -/\n")
	b.WriteString("def cliDefaultInnerGuards : List String := [" + strings.Join(waiterCliInnerGuards(rc, src), ", ") + "]\n")
	return b.String()
}

// waiterDocFacts reads docs/eng/best_practices/discard-overflow.md (plain text, no Go): the option name, the documented
// default, the net code and tag of a discarded request and every "<n> second(s)" the text mentions for the window. The phrases
// are matched loosely (any wording around the literal values survives); a value that cannot be found is a broken obligation.
func waiterDocFacts(t *tr) string {
	path := filepath.Join(repo, "docs", "eng", "best_practices", "discard-overflow.md")
	raw, err := os.ReadFile(path)
	if err != nil {
		t.errs = append(t.errs, "docs/eng/best_practices/discard-overflow.md: "+err.Error())
		return ""
	}
	text := strings.Join(strings.Fields(string(raw)), " ")
	low := strings.ToLower(text)
	var b strings.Builder
	miss := func(what string) {
		t.errs = append(t.errs, "docs/eng/best_practices/discard-overflow.md: "+what+" not found")
	}
	// the option: every back-quoted `name: true|false` / `name` that contains "overflow"
	keys := map[string]bool{}
	for _, m := range regexp.MustCompile("`([a-z_\\-]*overflow[a-z_\\-]*)(?::\\s*(?:true|false))?`").FindAllStringSubmatch(low, -1) {
		keys[m[1]] = true
	}
	var keyList []string
	for k := range keys {
		keyList = append(keyList, k)
	}
	waiterSortStrings(keyList)
	if len(keyList) == 0 {
		miss("the option name")
	}
	// the default: a sentence with "default" that quotes `<option>: true|false`
	def := ""
	for _, sent := range regexp.MustCompile(`[^.]*\bdefault\b[^.]*(?:\.[0-9][^.]*)*`).FindAllString(low, -1) {
		if m := regexp.MustCompile("`[a-z_\\-]*overflow[a-z_\\-]*:\\s*(true|false)`").FindStringSubmatch(sent); m != nil {
			if def != "" && def != m[1] {
				def = "conflict"
			} else {
				def = m[1]
			}
		}
	}
	if def != "true" && def != "false" {
		miss("the documented default (`discard_overflow: true|false` in a sentence with 'default')")
		def = "false"
	}
	// net code: a number next to "net error" / "net code"
	var codes []string
	for _, m := range regexp.MustCompile("net (?:error|code)[^0-9.]{0,12}([0-9]+)").FindAllStringSubmatch(low, -1) {
		codes = append(codes, m[1])
	}
	if len(codes) == 0 {
		miss("the net code of a discarded request")
	}
	// tag: "tagged as <word>" / "tag <word>"
	var tags []string
	for _, m := range regexp.MustCompile("tag(?:ged)?(?: as| with)? [`'\"]?([a-z_]+)[`'\"]?").FindAllStringSubmatch(low, -1) {
		tags = append(tags, m[1])
	}
	if len(tags) == 0 {
		miss("the tag of a discarded request")
	}
	// the window: every "<n> second(s)"
	var secs []string
	for _, m := range regexp.MustCompile("([0-9]+(?:\\.[0-9]+)?)[ -]seconds?\\b").FindAllStringSubmatch(low, -1) {
		if strings.Contains(m[1], ".") {
			t.errs = append(t.errs, "docs/eng/best_practices/discard-overflow.md: fractional window "+m[1]+" s")
			continue
		}
		secs = append(secs, m[1])
	}
	if len(secs) == 0 {
		miss("the length of the window in seconds")
	}
	q := func(l []string) string {
		o := make([]string, len(l))
		for i, x := range l {
			o[i] = strconv.Quote(x)
		}
		return "[" + strings.Join(o, ", ") + "]"
	}
	b.WriteString("/-- regenerated from `docs/eng/best_practices/discard-overflow.md`: every back-quoted option name that contains \"overflow\" -/\n")
	b.WriteString("def docOptionKeys : List String := " + q(keyList) + "\n\n")
	b.WriteString("/-- the documented default of the option (the sentence with \"default\") -/\n")
	b.WriteString("def docDefault : Bool := " + def + "\n\n")
	b.WriteString("/-- every number the text gives next to \"net error\" / \"net code\" -/\n")
	b.WriteString("def docNetCodes : List Int := [" + strings.Join(codes, ", ") + "]\n\n")
	b.WriteString("/-- every word the text gives after \"tagged as\" -/\n")
	b.WriteString("def docTags : List String := " + q(tags) + "\n\n")
	b.WriteString("/-- every \"<n> second(s)\" of the text: the window -/\n")
	b.WriteString("def docWindowSeconds : List Int := [" + strings.Join(secs, ", ") + "]\n")
	return b.String()
}

func waiterSortStrings(l []string) {
	for i := 1; i < len(l); i++ {
		for j := i; j > 0 && l[j] < l[j-1]; j-- {
			l[j], l[j-1] = l[j-1], l[j]
		}
	}
}

// waiterCliInnerGuards lists the conditions of if statements that enclose the `poolMap[KEY] = VALUE` assignment inside the range
// loop of the default block, except the lookup `if _, ok := poolMap[KEY]; !ok` itself.
func waiterCliInnerGuards(rc *ast.FuncDecl, src func(ast.Node) string) []string {
	var out []string
	var walk func(n ast.Node, guards []string, inLoop bool)
	walk = func(n ast.Node, guards []string, inLoop bool) {
		switch v := n.(type) {
		case *ast.RangeStmt:
			for _, s := range v.Body.List {
				walk(s, nil, true)
			}
			return
		case *ast.IfStmt:
			if inLoop {
				g := append(append([]string{}, guards...), src(v.Cond))
				for _, s := range v.Body.List {
					if as, ok := s.(*ast.AssignStmt); ok && len(as.Lhs) == 1 {
						if _, isIx := as.Lhs[0].(*ast.IndexExpr); isIx && (src(as.Rhs[0]) == "true" || src(as.Rhs[0]) == "false") {
							// the put: every enclosing condition but the innermost (the lookup) is a guard; the lookup may be
							// strengthened too (`!ok && …`)
							for _, c := range guards {
								out = append(out, strconv.Quote(c))
							}
							if init, ok := v.Init.(*ast.AssignStmt); !ok || len(init.Lhs) != 2 || src(v.Cond) != "!"+src(init.Lhs[1]) {
								out = append(out, strconv.Quote(src(v.Cond)))
							}
						}
					}
					walk(s, g, true)
				}
				if v.Else != nil {
					walk(v.Else, g, true)
				}
				return
			}
			for _, s := range v.Body.List {
				walk(s, guards, inLoop)
			}
			return
		case *ast.BlockStmt:
			for _, s := range v.List {
				walk(s, guards, inLoop)
			}
			return
		}
	}
	walk(rc.Body, nil, false)
	return out
}

// waiterPhoutFacts: where the phout aggregator prints the net code of a sample (round 3): the indices of the `key…` constants,
// the key SetUserNet stores under, the body of (*Sample).set and the order in which appendPhout prints the parts of a line.
func waiterPhoutFacts(t *tr, ns *packages.Package, nx *waiterTr) string {
	var b strings.Builder
	for _, c := range []struct{ goName, leanName string }{{"keyErrno", "phKeyErrno"}, {"keyProtoCode", "phKeyProtoCode"}, {"fieldsNum", "phFieldsNum"}} {
		obj, ok := ns.Types.Scope().Lookup(c.goName).(*types.Const)
		if !ok {
			t.errs = append(t.errs, "netsample: const "+c.goName+" not found")
			continue
		}
		b.WriteString("/-- regenerated from `core/aggregator/netsample/sample.go` const `" + c.goName + "` -/\n")
		b.WriteString("def " + c.leanName + " : Nat := " + obj.Val().ExactString() + "\n\n")
	}
	key := "<not recognised>"
	if su := waiterFindMethod(ns, "Sample", "SetUserNet"); su != nil && len(su.Body.List) == 1 {
		if es, ok := su.Body.List[0].(*ast.ExprStmt); ok {
			if call, ok := es.X.(*ast.CallExpr); ok && nx.src(call.Fun) == "s.set" && len(call.Args) == 2 && nx.src(call.Args[1]) == "code" {
				key = nx.src(call.Args[0])
			}
		}
	}
	b.WriteString("/-- `(*Sample).SetUserNet(code)` stores `code` under this key -/\n")
	b.WriteString("def phSetUserNetKey : String := " + strconv.Quote(key) + "\n\n")
	body := "<not recognised>"
	if st := waiterFindMethod(ns, "Sample", "set"); st != nil && st.Type.Params != nil && len(st.Type.Params.List) == 1 && len(st.Type.Params.List[0].Names) == 2 &&
		st.Type.Params.List[0].Names[0].Name == "k" && st.Type.Params.List[0].Names[1].Name == "v" && nx.src(st.Type.Params.List[0].Type) == "int" {
		var parts []string
		for _, s := range st.Body.List {
			parts = append(parts, nx.src(s))
		}
		body = strings.Join(parts, "; ")
	}
	b.WriteString("/-- the body of `(*Sample).set(k, v int)` -/\n")
	b.WriteString("def phSetBody : String := " + strconv.Quote(body) + "\n\n")
	// appendPhout: time stamp, TAB, tags, [#id], then TAB + field for every field in index order
	var layout []string
	if fd := findFunc(ns, "appendPhout"); fd != nil {
		stmts := fd.Body.List
		for k := 0; k < len(stmts); k++ {
			src := nx.src(stmts[k])
			switch {
			case src == "dst = appendTimestamp(s.timeStamp, dst)":
				layout = append(layout, "timestamp")
			case src == "dst = append(dst, phoutDelimiter)":
				layout = append(layout, "TAB")
			case src == "dst = append(dst, s.tags...)":
				layout = append(layout, "tags")
			case src == "if id { dst = append(dst, '#') dst = strconv.AppendInt(dst, int64(s.ID()), 10) }":
				layout = append(layout, "#id")
			case src == "for _, v := range s.fields { dst = append(dst, phoutDelimiter) dst = strconv.AppendInt(dst, int64(v), 10) }":
				layout = append(layout, "TAB+field*")
			case src == "return dst" && k == len(stmts)-1:
			default:
				layout = append(layout, "<other>:"+src)
			}
		}
		if d, ok := ns.Types.Scope().Lookup("phoutDelimiter").(*types.Const); !ok || d.Val().ExactString() != "9" {
			layout = append(layout, "<delimiter is not TAB>")
		}
		if idm := waiterFindMethod(ns, "Sample", "ID"); idm == nil || len(idm.Body.List) != 1 || nx.src(idm.Body.List[0]) != "return s.id" {
			layout = append(layout, "<ID() is not s.id>")
		}
	} else {
		t.errs = append(t.errs, "netsample: func appendPhout not found")
	}
	q := make([]string, len(layout))
	for i, l := range layout {
		q[i] = strconv.Quote(l)
	}
	b.WriteString("/-- the parts `appendPhout` prints, in order (`TAB` = the delimiter, `TAB+field*` = every field of `s.fields`, each after a delimiter) -/\n")
	b.WriteString("def phoutLayout : List String := [" + strings.Join(q, ", ") + "]\n\n")
	return b.String()
}

// runFieldResolution (round 4): which struct field every `….discardOverflow` read in (*instance).Run resolves to. The wiring
// (`instanceDiscardFrom`) sets `instanceSharedDeps.discardOverflow`; a field of the same name declared closer (in `instance` itself)
// would shadow it and stay false.
func (x *waiterTr) runFieldResolution() string {
	var want *types.Var
	if obj, ok := x.pkg.Types.Scope().Lookup("instanceSharedDeps").(*types.TypeName); ok {
		if st, ok := obj.Type().Underlying().(*types.Struct); ok {
			for k := 0; k < st.NumFields(); k++ {
				if st.Field(k).Name() == "discardOverflow" {
					want = st.Field(k)
				}
			}
		}
	}
	seen := map[string]bool{}
	var reads []string
	if fd := waiterFindMethod(x.pkg, "instance", "Run"); fd != nil {
		ast.Inspect(fd.Body, func(n ast.Node) bool {
			sel, ok := n.(*ast.SelectorExpr)
			if !ok || sel.Sel.Name != "discardOverflow" {
				return true
			}
			r := "<other>:" + x.src(sel)
			if s, ok := x.pkg.TypesInfo.Selections[sel]; ok && want != nil && s.Obj() == want {
				r = "instanceSharedDeps.discardOverflow"
			}
			if !seen[r] {
				seen[r] = true
				reads = append(reads, strconv.Quote(r))
			}
			return true
		})
	}
	var b strings.Builder
	b.WriteString("/-- regenerated from `(*instance).Run` (go/types): the struct field(s) the reads of `discardOverflow` resolve to -/\n")
	b.WriteString("def runReadsDiscardField : List String := [" + strings.Join(reads, ", ") + "]\n")
	return b.String()
}

// waiterCallbackSchedule (round 4): core/coreutil/schedule.go `callbackOnFinishSchedule`, the only wrapper of the shared schedule
// (`sharedScheduleWrappers`). `Next` must return what the wrapped schedule's `Next` returned and `Left` what its `Left` returned:
//
//	ts, ok = s.Schedule.Next(); [if … { callback }]; return            (named results, or `return ts, ok`)
//	left := s.Schedule.Left(); [if … { callback }]; return left
//
// The names are free; any other assignment to the returned variables, a second call of the wrapped method, or a result that is
// not exactly the variable(s) bound to the wrapped call is reported as "not transparent".
func waiterCallbackSchedule(t *tr) string {
	x := &waiterTr{t: t, pkg: t.pkg}
	check := func(method string, nres int) (bool, string) {
		fd := waiterFindMethod(t.pkg, "callbackOnFinishSchedule", method)
		if fd == nil || len(fd.Recv.List[0].Names) != 1 {
			return false, "method not found"
		}
		recv := fd.Recv.List[0].Names[0].Name
		inner := recv + ".Schedule." + method + "()"
		var bound []string
		calls, writes := 0, 0
		var named []string
		if fd.Type.Results != nil {
			for _, f := range fd.Type.Results.List {
				for _, n := range f.Names {
					named = append(named, n.Name)
				}
			}
		}
		ast.Inspect(fd.Body, func(n ast.Node) bool {
			if c, ok := n.(*ast.CallExpr); ok && x.src(c) == inner {
				calls++
			}
			return true
		})
		ok := true
		why := ""
		for k, st := range fd.Body.List {
			switch v := st.(type) {
			case *ast.AssignStmt:
				if len(v.Rhs) == 1 && x.src(v.Rhs[0]) == inner && len(v.Lhs) == nres && bound == nil {
					for _, l := range v.Lhs {
						bound = append(bound, x.src(l))
					}
					continue
				}
				ok, why = false, "assignment "+x.src(v)
			case *ast.IfStmt:
				// the callback: its body may not write the bound variables nor return
				ast.Inspect(v, func(n ast.Node) bool {
					switch w := n.(type) {
					case *ast.AssignStmt:
						for _, l := range w.Lhs {
							for _, bv := range bound {
								if x.src(l) == bv {
									writes++
								}
							}
						}
					case *ast.IncDecStmt:
						writes++
					case *ast.ReturnStmt:
						writes++
					}
					return true
				})
			case *ast.ReturnStmt:
				if k != len(fd.Body.List)-1 {
					ok, why = false, "early return"
					continue
				}
				var got []string
				for _, r := range v.Results {
					got = append(got, x.src(r))
				}
				if len(got) == 0 {
					got = named
				}
				if strings.Join(got, ",") != strings.Join(bound, ",") {
					ok, why = false, "returns "+strings.Join(got, ",")+" instead of "+strings.Join(bound, ",")
				}
			default:
				ok, why = false, "statement "+x.src(st)
			}
		}
		if calls != 1 {
			ok, why = false, fmt.Sprintf("%d calls of the wrapped method", calls)
		}
		if writes != 0 {
			ok, why = false, "the callback branch writes a result or returns"
		}
		if bound == nil {
			ok, why = false, "the wrapped call is not bound to the results"
		}
		return ok, why
	}
	var b strings.Builder
	nOK, nWhy := check("Next", 2)
	lOK, lWhy := check("Left", 1)
	bs := map[bool]string{true: "true", false: "false"}
	b.WriteString("/-- regenerated from `core/coreutil/schedule.go` `(*callbackOnFinishSchedule).Next`: it returns exactly what the wrapped schedule's `Next` returned" + map[bool]string{true: "", false: " — NOT: " + nWhy}[nOK] + " -/\n")
	b.WriteString("def cbNextTransparent : Bool := " + bs[nOK] + "\n\n")
	b.WriteString("/-- `(*callbackOnFinishSchedule).Left`: it returns exactly what the wrapped schedule's `Left` returned" + map[bool]string{true: "", false: " — NOT: " + lWhy}[lOK] + " -/\n")
	b.WriteString("def cbLeftTransparent : Bool := " + bs[lOK] + "\n\n")
	// the struct embeds the wrapped schedule: every other method of core.Schedule (Start) is the wrapped one
	embeds := false
	if obj, ok := t.pkg.Types.Scope().Lookup("callbackOnFinishSchedule").(*types.TypeName); ok {
		if st, ok := obj.Type().Underlying().(*types.Struct); ok {
			for k := 0; k < st.NumFields(); k++ {
				if st.Field(k).Embedded() && st.Field(k).Name() == "Schedule" {
					embeds = true
				}
			}
		}
	}
	b.WriteString("/-- `callbackOnFinishSchedule` embeds the wrapped `core.Schedule` (the methods it does not define are the wrapped ones) -/\n")
	b.WriteString("def cbEmbedsSchedule : Bool := " + bs[embeds] + "\n")
	return b.String()
}
