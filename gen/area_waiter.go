package main

// Area "waiter" (property C04): regenerates from the CURRENT source
//
//	core/coreutil/waiter.go        MaxOverdueDuration, (*Waiter).Wait, (*Waiter).IsSlowDown
//	core/aggregator/netsample      DiscardedShootCodeError, DiscardedShootTag, DiscardedShootSample
//	core/engine/instance.go        the fire/discard `if` of (*instance).Run
//
// into lean/Pandora/Gen/Waiter.lean, as definitions over the vocabulary of Pandora/Model/C04.lean (records `Waiter`,
// `Env`, `DiscardSample`, `timeSub`). The file is core-only. Reading of Go used here (trusted, see notes/C04.md):
//
//	w.lastNow / w.overdueDuration            -> fields lastNow / overdue of the record `w`
//	select { case <-ctx.Done(): A; default: } B   -> if e.ctxDone then A else B
//	next, ok := w.sched.Next(); if !ok { A }; B    -> match e.tok with | none => A | some next => B
//	time.Now()                                -> e.now
//	a.Sub(b) on time.Time                     -> timeSub a b  (exact; Go saturates, sign preserved)
//	if w.timer == nil {NewTimer(d)} else {Reset(d)}  -> (arms the timer for d; no state the model reads)
//	select { case <-w.timer.C: A; case <-ctx.Done(): B }  -> if e.timerWins then A else B
//
// Anything else in these functions makes gen fail (broken obligation).

import (
	"bytes"
	"fmt"
	"go/ast"
	"go/printer"
	"go/token"
	"go/types"
	"strconv"
	"strings"

	"golang.org/x/tools/go/packages"
)

func init() {
	areas["waiter"] = area{
		pkgPath:   "github.com/yandex/pandora/core/coreutil",
		module:    "Waiter",
		namespace: "Pandora.Gen.Waiter",
		imports:   []string{"Pandora.Model.C04"},
		extra:     waiterExtra,
	}
}

type wtr struct {
	t   *tr
	pkg *packages.Package
	// name of the receiver variable and of the env record in the emitted Lean
	recv string
	// the `if w.timer == nil {NewTimer(d)} else {Reset(d)}` statement of Wait, once seen
	armStmt *ast.IfStmt
}

func (x *wtr) fail(n ast.Node, format string, a ...any) string {
	msg := fmt.Sprintf("%s: unsupported (waiter area): %s", x.pkg.Fset.Position(n.Pos()), fmt.Sprintf(format, a...))
	x.t.errs = append(x.t.errs, msg)
	return "(UNSUPPORTED)"
}

func (x *wtr) src(n ast.Node) string {
	var b bytes.Buffer
	_ = printer.Fprint(&b, x.pkg.Fset, n)
	return strings.Join(strings.Fields(b.String()), " ")
}

func waiterFindMethod(p *packages.Package, recvType, name string) *ast.FuncDecl {
	for _, f := range p.Syntax {
		for _, d := range f.Decls {
			fd, ok := d.(*ast.FuncDecl)
			if !ok || fd.Recv == nil || fd.Name.Name != name || len(fd.Recv.List) != 1 {
				continue
			}
			ty := fd.Recv.List[0].Type
			if st, ok := ty.(*ast.StarExpr); ok {
				ty = st.X
			}
			if id, ok := ty.(*ast.Ident); ok && id.Name == recvType {
				return fd
			}
		}
	}
	return nil
}

var waiterFields = map[string]string{"lastNow": "lastNow", "overdueDuration": "overdue"}

// isCtxDone: `<-ctx.Done()`
func (x *wtr) isCtxDone(e ast.Expr) bool {
	u, ok := e.(*ast.UnaryExpr)
	if !ok || u.Op != token.ARROW {
		return false
	}
	return x.src(u.X) == "ctx.Done()"
}

func (x *wtr) expr(e ast.Expr) string {
	info := x.pkg.TypesInfo
	switch v := e.(type) {
	case *ast.ParenExpr:
		return x.expr(v.X)
	case *ast.BasicLit:
		if v.Kind == token.INT {
			return "(" + v.Value + " : Int)"
		}
	case *ast.Ident:
		if c, ok := info.Uses[v].(*types.Const); ok && c.Pkg() == x.pkg.Types {
			return v.Name // package-level constant: emitted as a def of the same name
		}
		if v.Name == "true" || v.Name == "false" {
			return v.Name
		}
		return mangle(v.Name)
	case *ast.SelectorExpr:
		if id, ok := v.X.(*ast.Ident); ok && id.Name == x.recv {
			if f, ok := waiterFields[v.Sel.Name]; ok {
				return x.recv + "." + f
			}
		}
	case *ast.UnaryExpr:
		if v.Op == token.NOT {
			return "(!" + x.expr(v.X) + ")"
		}
		if v.Op == token.SUB {
			return "(-" + x.expr(v.X) + ")"
		}
	case *ast.BinaryExpr:
		l, r := x.expr(v.X), x.expr(v.Y)
		switch v.Op {
		case token.ADD:
			return "(" + l + " + " + r + ")"
		case token.SUB:
			return "(" + l + " - " + r + ")"
		case token.LEQ:
			return "(" + l + " ≤ " + r + ")"
		case token.LSS:
			return "(" + l + " < " + r + ")"
		case token.GEQ:
			return "(" + l + " ≥ " + r + ")"
		case token.GTR:
			return "(" + l + " > " + r + ")"
		case token.EQL:
			return "(" + l + " = " + r + ")"
		case token.NEQ:
			return "(" + l + " ≠ " + r + ")"
		case token.LOR:
			return "(" + l + " || " + r + ")"
		case token.LAND:
			return "(" + l + " && " + r + ")"
		}
	case *ast.CallExpr:
		if x.src(v) == "time.Now()" {
			return "e.now"
		}
		if sel, ok := v.Fun.(*ast.SelectorExpr); ok && sel.Sel.Name == "Sub" && len(v.Args) == 1 {
			if n, ok := info.TypeOf(sel.X).(*types.Named); ok && n.Obj().Pkg() != nil && n.Obj().Pkg().Path() == "time" && n.Obj().Name() == "Time" {
				return "(timeSub " + x.expr(sel.X) + " " + x.expr(v.Args[0]) + ")"
			}
		}
	}
	return x.fail(e, "expression %s", x.src(e))
}

// timerArm recognises `if w.timer == nil { w.timer = time.NewTimer(d) } else { w.timer.Reset(d) }` and returns d.
func (x *wtr) timerArm(s *ast.IfStmt) (string, bool) {
	if x.src(s.Cond) != x.recv+".timer == nil" || s.Else == nil || len(s.Body.List) != 1 {
		return "", false
	}
	eb, ok := s.Else.(*ast.BlockStmt)
	if !ok || len(eb.List) != 1 {
		return "", false
	}
	a := x.src(s.Body.List[0])
	b := x.src(eb.List[0])
	pa, pb := x.recv+".timer = time.NewTimer(", x.recv+".timer.Reset("
	if !strings.HasPrefix(a, pa) || !strings.HasPrefix(b, pb) || !strings.HasSuffix(a, ")") || !strings.HasSuffix(b, ")") {
		return "", false
	}
	da, db := a[len(pa):len(a)-1], b[len(pb):len(b)-1]
	if da != db {
		return "", false
	}
	return da, true
}

// block translates statements of Wait into a Lean term of type `Waiter × Bool`.
func (x *wtr) block(stmts []ast.Stmt, ind string) string {
	if len(stmts) == 0 {
		return ind + "(UNSUPPORTED-fallthrough)"
	}
	s, rest := stmts[0], stmts[1:]
	switch v := s.(type) {
	case *ast.ReturnStmt:
		if len(v.Results) == 1 {
			return ind + "(" + x.recv + ", " + x.expr(v.Results[0]) + ")"
		}
	case *ast.SelectStmt:
		var conds []string
		var bodies [][]ast.Stmt
		var def []ast.Stmt
		hasDef := false
		for _, c := range v.Body.List {
			cc := c.(*ast.CommClause)
			if cc.Comm == nil {
				hasDef = true
				def = cc.Body
				continue
			}
			es, ok := cc.Comm.(*ast.ExprStmt)
			if !ok {
				return ind + x.fail(cc, "select case %s", x.src(cc.Comm))
			}
			switch {
			case x.isCtxDone(es.X):
				conds = append(conds, "e.ctxDone")
			case x.src(es.X) == "<-"+x.recv+".timer.C":
				conds = append(conds, "e.timerWins")
			default:
				return ind + x.fail(cc, "select case %s", x.src(cc.Comm))
			}
			bodies = append(bodies, cc.Body)
		}
		switch {
		case hasDef && len(conds) == 1 && conds[0] == "e.ctxDone":
			// non-blocking check of the context
			return ind + "if e.ctxDone then\n" + x.block(bodies[0], ind+"  ") + "\n" + ind + "else\n" + x.block(append(append([]ast.Stmt{}, def...), rest...), ind+"  ")
		case !hasDef && len(conds) == 2 && conds[0] == "e.timerWins" && conds[1] == "e.ctxDone" && len(rest) == 0:
			return ind + "if e.timerWins then\n" + x.block(bodies[0], ind+"  ") + "\n" + ind + "else\n" + x.block(bodies[1], ind+"  ")
		}
		return ind + x.fail(s, "select shape")
	case *ast.AssignStmt:
		// next, ok := w.sched.Next() ; if !ok { ... }
		if len(v.Lhs) == 2 && len(v.Rhs) == 1 && x.src(v.Rhs[0]) == x.recv+".sched.Next()" && len(rest) > 0 {
			a, b := x.src(v.Lhs[0]), x.src(v.Lhs[1])
			if ifs, ok := rest[0].(*ast.IfStmt); ok && ifs.Else == nil && ifs.Init == nil && x.src(ifs.Cond) == "!"+b {
				return ind + "match e.tok with\n" + ind + "| none =>\n" + x.block(ifs.Body.List, ind+"  ") + "\n" + ind + "| some " + mangle(a) + " =>\n" + x.block(rest[1:], ind+"  ")
			}
			return ind + x.fail(s, "Next() must be followed by `if !%s {...}`", b)
		}
		if len(v.Lhs) == 1 && len(v.Rhs) == 1 && (v.Tok == token.DEFINE || v.Tok == token.ASSIGN) {
			rhs := x.expr(v.Rhs[0])
			switch l := v.Lhs[0].(type) {
			case *ast.Ident:
				return ind + "let " + mangle(l.Name) + " : Int := " + rhs + "\n" + x.block(rest, ind)
			case *ast.SelectorExpr:
				if id, ok := l.X.(*ast.Ident); ok && id.Name == x.recv {
					if f, ok := waiterFields[l.Sel.Name]; ok {
						return ind + "let " + x.recv + " : Waiter := { " + x.recv + " with " + f + " := " + rhs + " }\n" + x.block(rest, ind)
					}
				}
			}
		}
	case *ast.IfStmt:
		if v.Init != nil {
			break
		}
		if _, ok := x.timerArm(v); ok {
			x.armStmt = v
			return ind + "-- " + x.src(v.Cond) + ": NewTimer / Reset: the timer is armed for `timerArmedFor waitFor`\n" + x.block(rest, ind)
		}
		if v.Else == nil && len(v.Body.List) > 0 {
			if _, ok := v.Body.List[len(v.Body.List)-1].(*ast.ReturnStmt); ok {
				return ind + "if " + x.expr(v.Cond) + " then\n" + x.block(v.Body.List, ind+"  ") + "\n" + ind + "else\n" + x.block(rest, ind+"  ")
			}
		}
	}
	return ind + x.fail(s, "statement %s", x.src(s))
}

func waiterConstDef(p *packages.Package, name string) (string, bool) {
	obj := p.Types.Scope().Lookup(name)
	c, ok := obj.(*types.Const)
	if !ok {
		return "", false
	}
	if isString(c.Type()) {
		return fmt.Sprintf("def %s : String := %s", name, strconv.Quote(strings.Trim(c.Val().ExactString(), "\""))), true
	}
	return fmt.Sprintf("def %s : Int := %s", name, c.Val().ExactString()), true
}

func waiterExtra(t *tr) string {
	var b strings.Builder
	b.WriteString("open Pandora.Go.C04 Pandora.Model.C04\n\n")
	x := &wtr{t: t, pkg: t.pkg, recv: "w"}

	// --- coreutil
	if d, ok := waiterConstDef(t.pkg, "MaxOverdueDuration"); ok {
		b.WriteString("/-- regenerated from `core/coreutil/waiter.go` const `MaxOverdueDuration` (ns) -/\n" + d + "\n\n")
	} else {
		t.errs = append(t.errs, "const MaxOverdueDuration not found")
	}
	if fd := waiterFindMethod(t.pkg, "Waiter", "Wait"); fd != nil && len(fd.Recv.List[0].Names) == 1 {
		x.recv = fd.Recv.List[0].Names[0].Name
		b.WriteString("/-- regenerated from `core/coreutil/waiter.go` method `(*Waiter).Wait` -/\n")
		b.WriteString("def Wait (" + x.recv + " : Waiter) (e : Env) : Waiter × Bool :=\n" + x.block(fd.Body.List, "  ") + "\n\n")
		if x.armStmt != nil {
			// the duration both NewTimer and Reset are called with, as a function of the local waitFor
			call := x.armStmt.Body.List[0].(*ast.AssignStmt).Rhs[0].(*ast.CallExpr)
			b.WriteString("/-- regenerated from `(*Waiter).Wait`: the duration the timer is armed for (NewTimer and Reset alike) -/\n")
			b.WriteString("def timerArmedFor (waitFor : Int) : Int := " + x.expr(call.Args[0]) + "\n\n")
		} else {
			t.errs = append(t.errs, "(*Waiter).Wait: timer arming statement not found")
		}
	} else {
		t.errs = append(t.errs, "method (*Waiter).Wait not found")
	}
	if fd := waiterFindMethod(t.pkg, "Waiter", "IsSlowDown"); fd != nil && len(fd.Recv.List[0].Names) == 1 {
		x.recv = fd.Recv.List[0].Names[0].Name
		// select { case <-ctx.Done(): return A; default: return B }
		ok := false
		if len(fd.Body.List) == 1 {
			if sel, isSel := fd.Body.List[0].(*ast.SelectStmt); isSel && len(sel.Body.List) == 2 {
				c0 := sel.Body.List[0].(*ast.CommClause)
				c1 := sel.Body.List[1].(*ast.CommClause)
				if c0.Comm != nil && c1.Comm == nil && len(c0.Body) == 1 && len(c1.Body) == 1 {
					es, isEs := c0.Comm.(*ast.ExprStmt)
					r0, isR0 := c0.Body[0].(*ast.ReturnStmt)
					r1, isR1 := c1.Body[0].(*ast.ReturnStmt)
					if isEs && isR0 && isR1 && x.isCtxDone(es.X) && len(r0.Results) == 1 && len(r1.Results) == 1 {
						ok = true
						b.WriteString("/-- regenerated from `core/coreutil/waiter.go` method `(*Waiter).IsSlowDown` -/\n")
						b.WriteString("def IsSlowDown (" + x.recv + " : Waiter) (ctxDone : Bool) : Bool :=\n  if ctxDone then " + x.expr(r0.Results[0]) + " else decide " + x.expr(r1.Results[0]) + "\n\n")
					}
				}
			}
		}
		if !ok {
			x.fail(fd, "IsSlowDown shape")
		}
	} else {
		t.errs = append(t.errs, "method (*Waiter).IsSlowDown not found")
	}

	// --- netsample
	ns := load("github.com/yandex/pandora/core/aggregator/netsample")
	for _, c := range []string{"DiscardedShootCodeError", "DiscardedShootTag"} {
		if d, ok := waiterConstDef(ns, c); ok {
			b.WriteString("/-- regenerated from `core/aggregator/netsample/sample.go` const `" + c + "` -/\n" + d + "\n\n")
		} else {
			t.errs = append(t.errs, "const "+c+" not found")
		}
	}
	nx := &wtr{t: t, pkg: ns}
	if fd := findFunc(ns, "DiscardedShootSample"); fd != nil {
		// sample := &Sample{timeStamp: time.Now(), tags: T}; sample.SetUserNet(C); return sample
		tags, net := "", ""
		ok := len(fd.Body.List) == 3
		if ok {
			as, isAs := fd.Body.List[0].(*ast.AssignStmt)
			ok = isAs && len(as.Rhs) == 1
			if ok {
				u, isU := as.Rhs[0].(*ast.UnaryExpr)
				ok = isU
				if ok {
					cl, isCl := u.X.(*ast.CompositeLit)
					ok = isCl && nx.src(cl.Type) == "Sample"
					if ok {
						for _, el := range cl.Elts {
							kv, isKv := el.(*ast.KeyValueExpr)
							if !isKv {
								ok = false
								break
							}
							switch nx.src(kv.Key) {
							case "tags":
								tags = nx.src(kv.Value)
							case "timeStamp":
							default:
								ok = false
							}
						}
					}
				}
			}
			es, isEs := fd.Body.List[1].(*ast.ExprStmt)
			if ok && isEs {
				call, isCall := es.X.(*ast.CallExpr)
				if isCall && len(call.Args) == 1 && nx.src(call.Fun) == "sample.SetUserNet" {
					net = nx.src(call.Args[0])
				}
			}
			if _, isRet := fd.Body.List[2].(*ast.ReturnStmt); !isRet {
				ok = false
			}
		}
		// SetUserNet must store into the errno (net code) field
		if su := waiterFindMethod(ns, "Sample", "SetUserNet"); su == nil || len(su.Body.List) != 1 || nx.src(su.Body.List[0]) != "s.set(keyErrno, code)" {
			ok = false
		}
		if ok && tags == "DiscardedShootTag" && net == "DiscardedShootCodeError" {
			b.WriteString("/-- regenerated from `core/aggregator/netsample/sample.go` func `DiscardedShootSample` (tags; net code via SetUserNet → keyErrno) -/\n")
			b.WriteString("def DiscardedShootSample : DiscardSample := { tags := " + tags + ", net := " + net + " }\n\n")
		} else {
			nx.fail(fd, "DiscardedShootSample shape (tags=%q net=%q)", tags, net)
		}
	} else {
		t.errs = append(t.errs, "func DiscardedShootSample not found")
	}

	// --- engine: the fire/discard decision of (*instance).Run
	en := load("github.com/yandex/pandora/core/engine")
	ex := &wtr{t: t, pkg: en}
	found := false
	if fd := waiterFindMethod(en, "instance", "Run"); fd != nil {
		ast.Inspect(fd.Body, func(n ast.Node) bool {
			ifs, ok := n.(*ast.IfStmt)
			if !ok || ifs.Else == nil || found {
				return true
			}
			eb, ok := ifs.Else.(*ast.BlockStmt)
			if !ok || !strings.Contains(ex.src(eb), "DiscardedShootSample") {
				return true
			}
			found = true
			cond := ex.src(ifs.Cond)
			cond = strings.ReplaceAll(cond, "i.discardOverflow", "discardOverflow")
			cond = strings.ReplaceAll(cond, "waiter.IsSlowDown(ctx)", "slow")
			// what remains must be a boolean formula over the two atoms
			for _, tok := range strings.FieldsFunc(cond, func(r rune) bool { return strings.ContainsRune("!|&() ", r) }) {
				if tok != "discardOverflow" && tok != "slow" {
					ex.fail(ifs, "fire condition atom %q in %s", tok, ex.src(ifs.Cond))
				}
			}
			b.WriteString("/-- regenerated from `core/engine/instance.go` `(*instance).Run`: condition under which `gun.Shoot` is called -/\n")
			b.WriteString("def fires (discardOverflow slow : Bool) : Bool := (" + cond + ")\n\n")
			var fireCalls, elseStmts []string
			for _, s := range ifs.Body.List {
				if es, ok := s.(*ast.ExprStmt); ok {
					fireCalls = append(fireCalls, strconv.Quote(ex.src(es)))
				}
			}
			for _, s := range eb.List {
				elseStmts = append(elseStmts, strconv.Quote(ex.src(s)))
			}
			b.WriteString("/-- calls made in the fire branch (expression statements, in order) -/\n")
			b.WriteString("def fireBranch : List String := [" + strings.Join(fireCalls, ", ") + "]\n\n")
			b.WriteString("/-- statements of the discard branch -/\n")
			b.WriteString("def discardBranch : List String := [" + strings.Join(elseStmts, ", ") + "]\n")
			return true
		})
	}
	if !found {
		t.errs = append(t.errs, "fire/discard if of (*instance).Run not found")
	}
	return b.String()
}
