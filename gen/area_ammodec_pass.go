package main

// Area "ammodec" (property C07), second file: what the line decoders do to their header accumulator when the ammo file
// wraps around (every identifier carries the prefix `ammodec`).
//
// The accumulator is identified by USE, not by name: it is the struct field whose value `Scan` passes to
// `readLine` / `readBlock` in the parameter of type net/http.Header.  Every statement of `Scan` (and of the functions
// of the same package it calls) that re-initialises that field is classified:
//
//	fresh     <recv>.<field> = http.Header{} | make(http.Header[, n]) | a call returning a new http.Header literal
//	cleared   clear(<recv>.<field>)  |  for k := range <recv>.<field> { delete(<recv>.<field>, k) }
//
// PassReset.fresh / PassReset.cleared when all such statements are of one kind, PassReset.kept when there is none,
// PassReset.other otherwise (e.g. the field is assigned some other map).  Order of statements, names of the receiver,
// of the field and of locals do not matter.  Whether the statement sits on the end-of-file path is the differential
// run's business (a reset at the wrong place changes what is delivered).

import (
	"fmt"
	"go/ast"
	"go/token"
	"go/types"
	"sort"
	"strings"

	"golang.org/x/tools/go/packages"
)

// ammodecAccField: the field object passed by scan to the method `lineFn` in its http.Header parameter.
func ammodecAccField(p *packages.Package, scan *ast.FuncDecl, lineFn string) *types.Var {
	var out *types.Var
	if scan == nil {
		return nil
	}
	ast.Inspect(scan.Body, func(n ast.Node) bool {
		call, ok := n.(*ast.CallExpr)
		if !ok {
			return true
		}
		sel, ok := call.Fun.(*ast.SelectorExpr)
		if !ok || sel.Sel.Name != lineFn {
			return true
		}
		for _, a := range call.Args {
			if !ammodecIsHTTPHeader(p.TypesInfo.TypeOf(a)) {
				continue
			}
			if fs, ok := ast.Unparen(a).(*ast.SelectorExpr); ok {
				if v, ok := p.TypesInfo.ObjectOf(fs.Sel).(*types.Var); ok && v.IsField() {
					out = v
				}
			}
		}
		return true
	})
	return out
}

func ammodecIsField(p *packages.Package, e ast.Expr, f *types.Var) bool {
	fs, ok := ast.Unparen(e).(*ast.SelectorExpr)
	return ok && p.TypesInfo.ObjectOf(fs.Sel) == f
}

// ammodecFreshHeader: e evaluates to a new, empty http.Header.
func ammodecFreshHeader(p *packages.Package, e ast.Expr) bool {
	e = ast.Unparen(e)
	switch v := e.(type) {
	case *ast.CompositeLit:
		return len(v.Elts) == 0 && ammodecIsHTTPHeader(p.TypesInfo.TypeOf(e))
	case *ast.CallExpr:
		if id, ok := v.Fun.(*ast.Ident); ok && id.Name == "make" && len(v.Args) >= 1 {
			if _, isBuiltin := p.TypesInfo.ObjectOf(id).(*types.Builtin); isBuiltin {
				return ammodecIsHTTPHeader(p.TypesInfo.TypeOf(v.Args[0]))
			}
		}
		// a conversion http.Header(map[string][]string{})
		if len(v.Args) == 1 && ammodecIsHTTPHeader(p.TypesInfo.TypeOf(e)) {
			if cl, ok := ast.Unparen(v.Args[0]).(*ast.CompositeLit); ok && len(cl.Elts) == 0 {
				if tv, ok := p.TypesInfo.Types[v.Fun]; ok && tv.IsType() {
					return true
				}
			}
		}
	}
	return false
}

// ammodecPassReset classifies how `scan` resets the accumulator field (see the file comment).
func (x *ammodecX) passReset(p *packages.Package, what string, scan *ast.FuncDecl, lineFn string) string {
	f := ammodecAccField(p, scan, lineFn)
	if f == nil {
		x.fail(p, scan, "%s: the header accumulator passed to %s is not a struct field", what, lineFn)
		return `PassReset.other "?"`
	}
	kinds := map[string]bool{}
	for _, fd := range ammodecClosure(p, []*ast.FuncDecl{scan}) {
		if fd.Name.Name == lineFn {
			continue // the per-line function works on its parameter
		}
		ast.Inspect(fd.Body, func(n ast.Node) bool {
			switch st := n.(type) {
			case *ast.AssignStmt:
				if st.Tok != token.ASSIGN {
					return true
				}
				for i, l := range st.Lhs {
					if !ammodecIsField(p, l, f) {
						continue
					}
					switch {
					case len(st.Rhs) != len(st.Lhs):
						kinds["other:multi-value"] = true
					case ammodecFreshHeader(p, st.Rhs[i]):
						kinds["fresh"] = true
					default:
						kinds["other:"+ammodecShape(p, st.Rhs[i])] = true
					}
				}
			case *ast.CallExpr:
				if id, ok := st.Fun.(*ast.Ident); ok && id.Name == "clear" && len(st.Args) == 1 && ammodecIsField(p, st.Args[0], f) {
					if _, isBuiltin := p.TypesInfo.ObjectOf(id).(*types.Builtin); isBuiltin {
						kinds["cleared"] = true
					}
				}
			case *ast.RangeStmt:
				// for k := range <field> { delete(<field>, k) }
				if !ammodecIsField(p, st.X, f) || st.Key == nil || len(st.Body.List) != 1 {
					return true
				}
				es, ok := st.Body.List[0].(*ast.ExprStmt)
				if !ok {
					return true
				}
				call, ok := es.X.(*ast.CallExpr)
				if !ok || len(call.Args) != 2 || !ammodecIsField(p, call.Args[0], f) {
					return true
				}
				id, ok := call.Fun.(*ast.Ident)
				kid, ok2 := st.Key.(*ast.Ident)
				aid, ok3 := ast.Unparen(call.Args[1]).(*ast.Ident)
				if ok && ok2 && ok3 && id.Name == "delete" && p.TypesInfo.ObjectOf(kid) == p.TypesInfo.ObjectOf(aid) {
					kinds["cleared"] = true
				}
			}
			return true
		})
	}
	var ks []string
	for k := range kinds {
		ks = append(ks, k)
	}
	sort.Strings(ks)
	switch {
	case len(ks) == 0:
		return "PassReset.kept"
	case len(ks) == 1 && ks[0] == "fresh":
		return "PassReset.fresh"
	case len(ks) == 1 && ks[0] == "cleared":
		return "PassReset.cleared"
	}
	return fmt.Sprintf("PassReset.other %q", strings.Join(ks, ","))
}
