package main

// Area "httpwire", round 3 (property C09): more of the code between the ammo and the wire, regenerated.
//
//	guns/http/base.go        GetBody (answer log)                         -> getBody        (SEMANTIC: BodyRd → Option Str × BodyRd)
//	                         BaseGun.Shoot: the option-guarded blocks before Client.Do that mention `req` -> shootGuarded
//	                         prepareClientPool, Bind: the shared-client pool -> sharedClient
//	core/clientpool          Pool.Next                                    -> sharedClient (last row)
//	providers/http/decoders  the end-of-file branch of every Scan loop (what is reset for the next pass, which header map the line
//	                         reader is given)                             -> scanWrap
//	providers/http           uriReadSeekCloser (`uris` option)            -> urisSource
//	providers/http/provider  Provider.Acquire / Release                   -> providerAcquire, providerRelease
//
// All descriptors are name-independent (httpwireBlock: parameters `paramN`, receiver `recv`, locals by their definitions, loop
// variables `key`/`val`/`i`).

import (
	"fmt"
	"go/ast"
	"go/token"
	"go/types"
	"sort"
	"strings"

	"golang.org/x/tools/go/packages"
)

// httpwireBlock: a statement list by origin descriptors, including loops
func (d *hwDesc) httpwireBlock(list []ast.Stmt) []string {
	var out []string
	for _, s := range list {
		out = append(out, d.httpwireStmt(s))
	}
	return out
}

func (d *hwDesc) httpwireLabel(e ast.Expr, label string) {
	if id, ok := e.(*ast.Ident); ok && id.Name != "_" {
		if o := d.p.TypesInfo.Defs[id]; o != nil {
			d.labels[o] = label
		}
	}
}

func (d *hwDesc) httpwireStmt(s ast.Stmt) string {
	switch v := s.(type) {
	case nil:
		return ""
	case *ast.ReturnStmt:
		var r []string
		for _, e := range v.Results {
			r = append(r, d.desc(e))
		}
		return "return " + strings.Join(r, ",")
	case *ast.BlockStmt:
		return "{" + strings.Join(d.httpwireBlock(v.List), ";") + "}"
	case *ast.IfStmt:
		row := "if("
		if v.Init != nil {
			row += d.httpwireStmt(v.Init) + ";"
		}
		row += d.desc(v.Cond) + "){" + strings.Join(d.httpwireBlock(v.Body.List), ";") + "}"
		switch e := v.Else.(type) {
		case nil:
		case *ast.BlockStmt:
			row += "else{" + strings.Join(d.httpwireBlock(e.List), ";") + "}"
		default:
			row += "else " + d.httpwireStmt(e)
		}
		return row
	case *ast.ForStmt:
		if as, ok := v.Init.(*ast.AssignStmt); ok && as.Tok == token.DEFINE && len(as.Lhs) == 1 {
			d.httpwireLabel(as.Lhs[0], "i")
		}
		cond := ""
		if v.Cond != nil {
			cond = d.desc(v.Cond)
		}
		return "for(" + d.httpwireStmt(v.Init) + ";" + cond + ";" + d.httpwireStmt(v.Post) + "){" + strings.Join(d.httpwireBlock(v.Body.List), ";") + "}"
	case *ast.RangeStmt:
		if v.Tok == token.DEFINE {
			if v.Key != nil {
				d.httpwireLabel(v.Key, "key")
			}
			if v.Value != nil {
				d.httpwireLabel(v.Value, "val")
			}
		}
		return "range(" + d.desc(v.X) + "){" + strings.Join(d.httpwireBlock(v.Body.List), ";") + "}"
	case *ast.IncDecStmt:
		return d.desc(v.X) + v.Tok.String()
	case *ast.DeferStmt:
		return "defer " + d.desc(v.Call)
	case *ast.BranchStmt:
		return v.Tok.String()
	case *ast.AssignStmt:
		if v.Tok == token.DEFINE {
			// the names defined do not matter: the uses are described by the definitions
			var r []string
			for _, e := range v.Rhs {
				r = append(r, d.desc(e))
			}
			return "def:=" + strings.Join(r, ",")
		}
		return d.descStmt(s)
	case *ast.ExprStmt:
		return d.descStmt(s)
	case *ast.DeclStmt:
		if gd, ok := v.Decl.(*ast.GenDecl); ok && gd.Tok == token.VAR {
			var parts []string
			for _, sp := range gd.Specs {
				vs := sp.(*ast.ValueSpec)
				for i := range vs.Names {
					if len(vs.Values) > i {
						parts = append(parts, "var="+d.desc(vs.Values[i]))
					} else {
						parts = append(parts, "var")
					}
				}
			}
			return strings.Join(parts, ",")
		}
	}
	return "stmt:" + hwSrc(d.p, s)
}

// ---------------------------------------------------------------- GetBody, semantically

// httpwireGetBody translates guns/http/base.go GetBody into a Lean function over the body-reader model:
//
//	if req.Body != nil && req.Body != http.NoBody { A }; B   -> if st.present then A else B
//	v, _ := ioutil.ReadAll(req.Body) | io.ReadAll(req.Body)   -> let rd := st.readAll; let v := rd.1; let st := rd.2
//	req.Body = ioutil.NopCloser(bytes.NewBuffer(v)) | io.NopCloser(bytes.NewReader(v))   -> let st := BodyRd.ofBytes v
//	return v | return nil                                     -> (some v, st) | (none, st)
func (x *hw) httpwireGetBody(out *strings.Builder) {
	p := x.pkgs["components/guns/http"]
	fd := hwFunc(p, "", "GetBody")
	if fd == nil || len(fd.Type.Params.List) != 1 || len(fd.Type.Params.List[0].Names) != 1 {
		x.failf(p, nil, "GetBody(req) not found")
		return
	}
	req := p.TypesInfo.Defs[fd.Type.Params.List[0].Names[0]]
	isReqBody := func(e ast.Expr) bool {
		root, path := hwSelPath(e)
		return root != nil && p.TypesInfo.Uses[root] == req && path == "Body"
	}
	vars := map[types.Object]string{}
	var block func(list []ast.Stmt, ind string) string
	block = func(list []ast.Stmt, ind string) string {
		if len(list) == 0 {
			return ind + x.failf(p, fd, "GetBody: a path without return")
		}
		s, rest := list[0], list[1:]
		switch v := s.(type) {
		case *ast.IfStmt:
			// the body-present test
			be, ok := v.Cond.(*ast.BinaryExpr)
			okCond := ok && be.Op == token.LAND && v.Init == nil && v.Else == nil
			if okCond {
				l, lok := be.X.(*ast.BinaryExpr)
				r, rok := be.Y.(*ast.BinaryExpr)
				okCond = lok && rok && l.Op == token.NEQ && r.Op == token.NEQ && isReqBody(l.X) && isReqBody(r.X) &&
					hwSrc(p, l.Y) == "nil" && hwSrc(p, r.Y) == "http.NoBody"
			}
			if !okCond {
				return ind + x.failf(p, s, "GetBody: condition %s", hwSrc(p, v.Cond))
			}
			return ind + "if st.present then\n" + block(append(append([]ast.Stmt{}, v.Body.List...), rest...), ind+"  ") + "\n" + ind + "else\n" + block(rest, ind+"  ")
		case *ast.AssignStmt:
			if len(v.Rhs) == 1 {
				if call, ok := v.Rhs[0].(*ast.CallExpr); ok {
					name := hwCallee(p, call)
					// v, _ := ReadAll(req.Body)
					if (name == "ioutil.ReadAll" || name == "io.ReadAll") && len(call.Args) == 1 && isReqBody(call.Args[0]) && len(v.Lhs) == 2 && v.Tok == token.DEFINE {
						id, ok := v.Lhs[0].(*ast.Ident)
						if ok {
							ln := fmt.Sprintf("read%d", len(vars))
							vars[p.TypesInfo.Defs[id]] = ln
							return ind + "let rd := st.readAll\n" + ind + "let " + ln + " := rd.1\n" + ind + "let st := rd.2\n" + block(rest, ind)
						}
					}
					// req.Body = NopCloser(NewBuffer(v))
					if (name == "ioutil.NopCloser" || name == "io.NopCloser") && len(v.Lhs) == 1 && isReqBody(v.Lhs[0]) && v.Tok == token.ASSIGN && len(call.Args) == 1 {
						if inner, ok := call.Args[0].(*ast.CallExpr); ok && len(inner.Args) == 1 {
							in := hwCallee(p, inner)
							if id, ok := inner.Args[0].(*ast.Ident); ok && (in == "bytes.NewBuffer" || in == "bytes.NewReader") {
								if ln, ok := vars[p.TypesInfo.Uses[id]]; ok {
									return ind + "let st := BodyRd.ofBytes " + ln + "\n" + block(rest, ind)
								}
							}
						}
					}
				}
			}
		case *ast.ReturnStmt:
			if len(v.Results) == 1 {
				if id, ok := v.Results[0].(*ast.Ident); ok {
					if id.Name == "nil" {
						return ind + "(none, st)"
					}
					if ln, ok := vars[p.TypesInfo.Uses[id]]; ok {
						return ind + "(some " + ln + ", st)"
					}
				}
			}
		}
		return ind + x.failf(p, s, "GetBody: statement %s", hwSrc(p, s))
	}
	out.WriteString("/-- regenerated from `components/guns/http/base.go` func `GetBody` (the answer log reads the request body before the shot):\nthe bytes it returns and the body reader it leaves in `req.Body` -/\n")
	out.WriteString("def getBody (st : BodyRd) : Option Str × BodyRd :=\n" + block(fd.Body.List, "  ") + "\n\n")
}

// ---------------------------------------------------------------- the option-guarded blocks of Shoot before Client.Do

func (x *hw) httpwireShootGuarded(out *strings.Builder) {
	p := x.pkgs["components/guns/http"]
	fd := hwFunc(p, "BaseGun", "Shoot")
	if fd == nil {
		return
	}
	recv := p.TypesInfo.Defs[fd.Recv.List[0].Names[0]]
	var reqObj types.Object
	var rows []string
	for _, s := range fd.Body.List {
		if reqObj == nil {
			if as, ok := s.(*ast.AssignStmt); ok && as.Tok == token.DEFINE && len(as.Rhs) == 1 {
				if call, ok := as.Rhs[0].(*ast.CallExpr); ok && hwCallee(p, call) == ".Request" {
					reqObj = p.TypesInfo.Defs[as.Lhs[0].(*ast.Ident)]
				}
			}
			continue
		}
		isDo := false
		ast.Inspect(s, func(n ast.Node) bool {
			if c, ok := n.(*ast.CallExpr); ok && hwCallee(p, c) == ".Do" {
				isDo = true
			}
			return true
		})
		if isDo {
			break
		}
		ifs, ok := s.(*ast.IfStmt)
		if !ok || ifs.Init != nil || !hwMentions(p, s, reqObj) {
			continue
		}
		c := ifs.Cond
		for {
			if be, ok := c.(*ast.BinaryExpr); ok && be.Op == token.LAND {
				c = be.X
				continue
			}
			break
		}
		root, path := hwSelPath(c)
		if root == nil || p.TypesInfo.Uses[root] != recv {
			continue
		}
		guarded := false
		for _, o := range hwShootOptional {
			if path == o || strings.HasPrefix(path, o+".") {
				guarded = true
			}
		}
		if !guarded {
			continue
		}
		d := &hwDesc{x: x, p: p, fn: fd, labels: map[types.Object]string{reqObj: "req"}, shallow: true}
		var inner []string
		for _, st := range ifs.Body.List {
			if hwMentions(p, st, reqObj) {
				inner = append(inner, d.httpwireStmt(st))
			}
		}
		rows = append(rows, path+": "+strings.Join(inner, " ; "))
	}
	if reqObj == nil {
		x.failf(p, fd, "BaseGun.Shoot: `req, sample := ammo.Request()` not found")
		return
	}
	sort.Strings(rows) // the blocks are independent of each other's order, except answlog-before-dump, which `bodyAtDo` fixes and both leave the body alone
	fmt.Fprintf(out, "/-- regenerated from `(*BaseGun).Shoot`: the option-guarded blocks before `Client.Do` (those of `shootSkipped`), each with its\nstatements that mention the request, by origin (`req` = the request, `local` = another local variable), sorted -/\ndef shootGuarded : List String := %s\n\n", hwStrList(rows))
}

// ---------------------------------------------------------------- shared-client

func (x *hw) httpwireSharedClient(out *strings.Builder) {
	p := x.pkgs["components/guns/http"]
	var rows []string
	if fd := hwFunc(p, "BaseGun", "prepareClientPool"); fd != nil {
		// round 4: translated SEMANTICALLY (sharedPool / sharedPoolFill, area_httpwire_r4.go); no statement shape is pinned any more,
		// so that equivalent guard orders, renamed or added locals pass and a change of the decision does not
		rows = append(rows, "prepareClientPool: see sharedPool, sharedPoolFill")
	} else {
		x.failf(p, nil, "BaseGun.prepareClientPool not found")
	}
	if fd := hwFunc(p, "BaseGun", "createSharedDeps"); fd != nil {
		d := &hwDesc{x: x, p: p, fn: fd, labels: map[types.Object]string{}}
		rows = append(rows, "createSharedDeps: "+strings.Join(d.httpwireBlock(fd.Body.List), " ; "))
	} else {
		x.failf(p, nil, "BaseGun.createSharedDeps not found")
	}
	if fd := hwFunc(p, "BaseGun", "WarmUp"); fd != nil {
		d := &hwDesc{x: x, p: p, fn: fd, labels: map[types.Object]string{}, shallow: true}
		rows = append(rows, "WarmUp: "+strings.Join(d.httpwireBlock(fd.Body.List), " ; "))
	} else {
		x.failf(p, nil, "BaseGun.WarmUp not found")
	}
	// Bind: the statements that mention the Client field or the shared deps
	if fd := hwFunc(p, "BaseGun", "Bind"); fd != nil && len(fd.Type.Params.List) == 2 {
		d := &hwDesc{x: x, p: p, fn: fd, labels: map[types.Object]string{}}
		var picked []string
		for _, s := range fd.Body.List {
			src := hwSrc(p, s)
			if strings.Contains(src, ".Client") || strings.Contains(src, "Shared") {
				picked = append(picked, d.httpwireStmt(s))
			}
		}
		rows = append(rows, "Bind: "+strings.Join(picked, " ; "))
	} else {
		x.failf(p, nil, "BaseGun.Bind not found")
	}
	// NewBaseGun: what the ClientConstructor of the pool builds
	if fd := hwFunc(p, "", "NewBaseGun"); fd != nil {
		d := &hwDesc{x: x, p: p, fn: fd, labels: map[types.Object]string{}, shallow: true}
		ast.Inspect(fd.Body, func(n ast.Node) bool {
			kv, ok := n.(*ast.KeyValueExpr)
			if !ok || hwSrc(p, kv.Key) != "ClientConstructor" {
				return true
			}
			if fl, ok := kv.Value.(*ast.FuncLit); ok {
				rows = append(rows, "NewBaseGun ClientConstructor: "+strings.Join(d.httpwireBlock(fl.Body.List), " ; "))
			} else {
				rows = append(rows, "NewBaseGun ClientConstructor: "+d.desc(kv.Value))
			}
			return false
		})
	}
	cp := x.pkgs["core/clientpool"]
	if cp == nil {
		x.failf(nil, nil, "package core/clientpool not loaded")
	} else {
		for _, fn := range []string{"Add", "Next"} {
			if fd := httpwireMethod(cp, "Pool", fn); fd != nil {
				d := &hwDesc{x: x, p: cp, fn: fd, labels: map[types.Object]string{}}
				rows = append(rows, "clientpool."+fn+": "+strings.Join(d.httpwireBlock(fd.Body.List), " ; "))
			} else {
				x.failf(cp, nil, "clientpool.Pool.%s not found", fn)
			}
		}
	}
	fmt.Fprintf(out, "/-- regenerated from `components/guns/http/base.go` and `core/clientpool`: the `shared-client` option — WarmUp builds\n`client-number` clients (at least one) with the gun's own constructor and configuration, Bind gives the gun the pool's NEXT\nclient (the counter is advanced first: the k-th gun gets `pool[(k+1) %% len]`) -/\ndef sharedClient : List String := %s\n\n", hwStrList(rows))
}

// ---------------------------------------------------------------- end of a pass in the Scan loops

// httpwireScanWrap: for each decoder, the statements of Scan that run when the file is exhausted (between the end-of-file test and
// the re-created reader), and the header map handed to the line reader
func (x *hw) httpwireScanWrap(out *strings.Builder) {
	p := x.pkgs["components/providers/http/decoders"]
	var rows []string
	for _, dec := range []struct{ typ, reader string }{{"uriDecoder", "readLine"}, {"uripostDecoder", "readBlock"}, {"rawDecoder", ""}, {"jsonlineDecoder", ""}} {
		fd := hwFunc(p, dec.typ, "Scan")
		if fd == nil {
			x.failf(p, nil, "%s.Scan not found", dec.typ)
			continue
		}
		d := &hwDesc{x: x, p: p, fn: fd, labels: map[types.Object]string{}, shallow: true}
		// the innermost statement list that contains the Seek call
		var wrap []ast.Stmt
		var find func(list []ast.Stmt)
		find = func(list []ast.Stmt) {
			direct := false
			for _, s := range list {
				switch v := s.(type) {
				case *ast.AssignStmt:
					for _, r := range v.Rhs {
						if c, ok := r.(*ast.CallExpr); ok && hwCallee(p, c) == ".Seek" {
							direct = true
						}
					}
				}
			}
			if direct {
				wrap = list
				return
			}
			for _, s := range list {
				ast.Inspect(s, func(n ast.Node) bool {
					if b, ok := n.(*ast.BlockStmt); ok && wrap == nil {
						find(b.List)
						return wrap == nil
					}
					return wrap == nil
				})
			}
		}
		find(fd.Body.List)
		if wrap == nil {
			x.failf(p, fd, "%s.Scan: no Seek back to the start of the file", dec.typ)
			continue
		}
		var ws []string
		for _, s := range wrap {
			// the reader call that found the end of the file, and whatever follows the re-created reader, stay out
			src := hwSrc(p, s)
			if strings.Contains(src, "readBlock(") || strings.Contains(src, "Decode(") || strings.Contains(src, "scanner.Text()") ||
				strings.Contains(src, "readLine(") || strings.Contains(src, ".Setup(") {
				continue // reading and building an entry is described elsewhere (merge sites, Setup arguments)
			}
			if _, isFor := s.(*ast.ForStmt); isFor {
				continue
			}
			if _, isDecl := s.(*ast.DeclStmt); isDecl {
				continue
			}
			row := d.httpwireStmt(s)
			// the reader over the file is made anew: which constructor makes it (bufio.NewScanner, a helper that also sizes the
			// scanner's buffer, json.NewDecoder) does not matter here, only that it reads `recv.file`
			if as, ok := s.(*ast.AssignStmt); ok && len(as.Lhs) == 1 && len(as.Rhs) == 1 {
				if call, ok := as.Rhs[0].(*ast.CallExpr); ok && len(call.Args) == 1 && d.desc(call.Args[0]) == "recv.file" {
					row = d.desc(as.Lhs[0]) + "=new-reader(recv.file)"
				}
			}
			ws = append(ws, row)
		}
		// sorted: the statements are independent of each other's order as far as the wire goes (the header reset, the seek and the
		// new reader may stand in any order; whether the pass is counted before or after its check is a matter of ammo counts)
		sort.Strings(ws)
		rows = append(rows, dec.typ+" wrap: "+strings.Join(ws, " ; "))
		if dec.reader != "" {
			ast.Inspect(fd.Body, func(n ast.Node) bool {
				if c, ok := n.(*ast.CallExpr); ok && hwCallee(p, c) == "."+dec.reader {
					var args []string
					for _, a := range c.Args {
						args = append(args, d.desc(a))
					}
					rows = append(rows, dec.typ+" reads: "+dec.reader+"("+strings.Join(args, ",")+")")
				}
				return true
			})
		}
	}
	fmt.Fprintf(out, "/-- regenerated from the `Scan` methods of the four decoders: what happens when the file is exhausted (pass counted, limit of\npasses, the common header of uri/uripost RESET to an empty map, the file read again from its start) and which header map the line\nreader of uri/uripost works on (the decoder's own, persistent across the lines of a pass) -/\ndef scanWrap : List String := %s\n\n", hwStrList(rows))
}

// ---------------------------------------------------------------- the provider around the decoder

func (x *hw) httpwireProvider(out *strings.Builder) {
	p := x.pkgs["components/providers/http"]
	if p == nil {
		x.failf(nil, nil, "package components/providers/http not loaded")
		return
	}
	if fd := hwFunc(p, "", "uriReadSeekCloser"); fd != nil {
		d := &hwDesc{x: x, p: p, fn: fd, labels: map[types.Object]string{}}
		var rows []string
		for _, s := range fd.Body.List {
			if _, isIf := s.(*ast.IfStmt); isIf {
				continue // refusals of option combinations
			}
			rows = append(rows, d.httpwireStmt(s))
		}
		fmt.Fprintf(out, "/-- regenerated from `components/providers/http/provider.go` func `uriReadSeekCloser`: the `uris` option is read as a file whose\nlines are the list's elements -/\ndef urisSource : List String := %s\n\n", hwStrList(rows))
	} else {
		x.failf(p, nil, "uriReadSeekCloser not found")
	}
	pp := x.pkgs["components/providers/http/provider"]
	if pp == nil {
		x.failf(nil, nil, "package components/providers/http/provider not loaded")
		return
	}
	for _, fn := range []string{"Acquire", "Release"} {
		fd := hwFunc(pp, "Provider", fn)
		if fd == nil {
			x.failf(pp, nil, "Provider.%s not found", fn)
			continue
		}
		d := &hwDesc{x: x, p: pp, fn: fd, labels: map[types.Object]string{}}
		// log calls are left out: they are not part of what reaches the gun
		var rows []string
		var strip func(list []ast.Stmt) []ast.Stmt
		strip = func(list []ast.Stmt) []ast.Stmt {
			var o []ast.Stmt
			for _, s := range list {
				if es, ok := s.(*ast.ExprStmt); ok {
					if c, ok := es.X.(*ast.CallExpr); ok && strings.Contains(hwSrc(pp, c.Fun), ".Log.") {
						continue
					}
				}
				o = append(o, s)
			}
			return o
		}
		for _, s := range strip(fd.Body.List) {
			switch v := s.(type) {
			case *ast.IfStmt:
				c := *v
				b := *v.Body
				b.List = strip(v.Body.List)
				c.Body = &b
				rows = append(rows, d.httpwireStmt(&c))
			case *ast.RangeStmt:
				c := *v
				b := *v.Body
				var inner []ast.Stmt
				for _, t := range strip(v.Body.List) {
					if ifs, ok := t.(*ast.IfStmt); ok {
						ci := *ifs
						bi := *ifs.Body
						bi.List = strip(ifs.Body.List)
						ci.Body = &bi
						inner = append(inner, &ci)
					} else {
						inner = append(inner, t)
					}
				}
				b.List = inner
				c.Body = &b
				rows = append(rows, d.httpwireStmt(&c))
			default:
				rows = append(rows, d.httpwireStmt(s))
			}
		}
		fmt.Fprintf(out, "/-- regenerated from `components/providers/http/provider/provider.go` method `Provider.%s` (log calls left out) -/\ndef provider%s : List String := %s\n\n", fn, fn, hwStrList(rows))
	}
}

// httpwireMethod finds a method, also of a generic receiver type (`func (p *Pool[T]) Next()`)
func httpwireMethod(p *packages.Package, recv, name string) *ast.FuncDecl {
	for _, f := range p.Syntax {
		for _, d := range f.Decls {
			fd, ok := d.(*ast.FuncDecl)
			if !ok || fd.Name.Name != name || fd.Recv == nil || len(fd.Recv.List) != 1 {
				continue
			}
			ty := fd.Recv.List[0].Type
			if st, ok := ty.(*ast.StarExpr); ok {
				ty = st.X
			}
			if ix, ok := ty.(*ast.IndexExpr); ok {
				ty = ix.X
			}
			if id, ok := ty.(*ast.Ident); ok && id.Name == recv {
				return fd
			}
		}
	}
	return nil
}

// httpwireLoadMore: the packages of round 3
func httpwireLoadMore(pkgs map[string]*packages.Package) {
	paths := []string{hwBase + "core/clientpool", hwBase + "components/providers/http", hwBase + "components/providers/http/provider"}
	cfg := &packages.Config{Mode: packages.NeedName | packages.NeedSyntax | packages.NeedTypes | packages.NeedTypesInfo |
		packages.NeedFiles | packages.NeedImports, Dir: repo, BuildFlags: []string{"-tags=verif"}}
	more, err := packages.Load(cfg, paths...)
	if err != nil {
		return // reported by the users of the packages
	}
	for _, p := range more {
		if len(p.Errors) == 0 {
			pkgs[strings.TrimPrefix(p.PkgPath, hwBase)] = p
		}
	}
}

func (x *hw) httpwireRound3(out *strings.Builder) {
	httpwireLoadMore(x.pkgs)
	x.httpwireGetBody(out)
	x.httpwireShootGuarded(out)
	x.httpwireSharedClient(out)
	x.httpwireScanWrap(out)
	x.httpwireProvider(out)
}
