package main

// Area "schedconc" (property C01): the START PROTOCOL of a leaf schedule as a list of shared-state accesses in program
// order, re-extracted from the CURRENT source of core/schedule/do_at.go and start_sync.go:
//
//	(*doAtSchedule).Next  -> nextProg  : List Stmt
//	(*doAtSchedule).Start -> startProg : List Stmt
//
// (Stmt: lean/Pandora/Model/C01Conc.lean.)  Reading of Go, statement by statement:
//
//	s.MarkStarted()                          swapStarted   — after checking that MarkStarted IS `if s.started.Swap(true) { panic(…) }`
//	s.start = time.Now()                     writeStartNow
//	s.start = <parameter>                    writeStartArg
//	s.startOnce.Do(func() { B })             onceEnter (|B|+1), B…, onceExit
//	if !s.IsStarted() { B }                  skipIfStarted |B|, B…   — IsStarted IS `return s.started.Load()`; B has no return
//	if s.IsStarted() { B }                   skipIfNotStarted |B|, B…
//	i := s.i.Inc() - 1   (or s.i.Add(1) - 1) incI
//	everything after that                    readStartRet  — must read s.start, must not write a field, call an atomic, the
//	                                                        Once, MarkStarted or IsStarted
//
// Locals may be renamed and the two statements of the Once's body may come in either order; anything that does not have
// one of these shapes is a translation error (gen exits non-zero: a broken obligation).

import (
	"fmt"
	"go/ast"
	"go/token"
	"go/types"
	"strings"

	"golang.org/x/tools/go/packages"
)

func init() {
	areas["schedconc"] = area{
		pkgPath:   "github.com/yandex/pandora/core/schedule",
		module:    "SchedConc",
		namespace: "Pandora.Gen.SchedConc",
		imports:   []string{"Pandora.Model.C01Conc"},
		extra:     schedconcExtra,
	}
}

type schedconcTr struct {
	t    *tr
	p    *packages.Package
	recv types.Object
}

func (x *schedconcTr) fail(n ast.Node, format string, a ...any) {
	x.t.errs = append(x.t.errs, fmt.Sprintf("%s: unsupported (schedconc area): %s", x.p.Fset.Position(n.Pos()), fmt.Sprintf(format, a...)))
}

func schedconcMethod(p *packages.Package, recvType, name string) *ast.FuncDecl {
	for _, f := range p.Syntax {
		for _, d := range f.Decls {
			fd, ok := d.(*ast.FuncDecl)
			if !ok || fd.Recv == nil || fd.Name.Name != name || len(fd.Recv.List) != 1 {
				continue
			}
			t := fd.Recv.List[0].Type
			if st, ok := t.(*ast.StarExpr); ok {
				t = st.X
			}
			if id, ok := t.(*ast.Ident); ok && id.Name == recvType {
				return fd
			}
		}
	}
	return nil
}

func (x *schedconcTr) isRecv(e ast.Expr) bool {
	id, ok := e.(*ast.Ident)
	return ok && x.recv != nil && x.p.TypesInfo.Uses[id] == x.recv
}

// recvField: e is `s.<field>` -> field name
func (x *schedconcTr) recvField(e ast.Expr) string {
	sel, ok := e.(*ast.SelectorExpr)
	if !ok || !x.isRecv(sel.X) {
		return ""
	}
	return sel.Sel.Name
}

// fieldCall: e is `s.<field>.<method>(args)` -> field, method, args
func (x *schedconcTr) fieldCall(e ast.Expr) (string, string, []ast.Expr) {
	call, ok := e.(*ast.CallExpr)
	if !ok {
		return "", "", nil
	}
	sel, ok := call.Fun.(*ast.SelectorExpr)
	if !ok {
		return "", "", nil
	}
	f := x.recvField(sel.X)
	if f == "" {
		return "", "", nil
	}
	return f, sel.Sel.Name, call.Args
}

// recvCall: e is `s.<method>(args)` -> method
func (x *schedconcTr) recvCall(e ast.Expr) string {
	call, ok := e.(*ast.CallExpr)
	if !ok || len(call.Args) != 0 {
		return ""
	}
	sel, ok := call.Fun.(*ast.SelectorExpr)
	if !ok || !x.isRecv(sel.X) {
		return ""
	}
	return sel.Sel.Name
}

func (x *schedconcTr) setRecv(fd *ast.FuncDecl) {
	x.recv = nil
	if len(fd.Recv.List[0].Names) == 1 {
		x.recv = x.p.TypesInfo.Defs[fd.Recv.List[0].Names[0]]
	}
}

func schedconcIsTrue(e ast.Expr) bool  { id, ok := e.(*ast.Ident); return ok && id.Name == "true" }
func schedconcIsFalse(e ast.Expr) bool { id, ok := e.(*ast.Ident); return ok && id.Name == "false" }

// MarkStarted must be: if s.started.Swap(true) { panic(…) }   (or: if !s.started.CAS(false, true) { panic(…) })
func (x *schedconcTr) checkMarkStarted() {
	fd := schedconcMethod(x.p, "StartSync", "MarkStarted")
	if fd == nil {
		x.t.errs = append(x.t.errs, "schedconc: (*StartSync).MarkStarted not found")
		return
	}
	x.setRecv(fd)
	ok := false
	if len(fd.Body.List) == 1 {
		if is, isIf := fd.Body.List[0].(*ast.IfStmt); isIf && is.Init == nil && is.Else == nil && len(is.Body.List) == 1 {
			cond := is.Cond
			neg := false
			if u, isU := cond.(*ast.UnaryExpr); isU && u.Op == token.NOT {
				neg = true
				cond = u.X
			}
			f, m, args := x.fieldCall(cond)
			swap := !neg && f == "started" && m == "Swap" && len(args) == 1 && schedconcIsTrue(args[0])
			cas := neg && f == "started" && (m == "CAS" || m == "CompareAndSwap") && len(args) == 2 && schedconcIsFalse(args[0]) && schedconcIsTrue(args[1])
			if swap || cas {
				if es, isE := is.Body.List[0].(*ast.ExprStmt); isE {
					if call, isC := es.X.(*ast.CallExpr); isC {
						if id, isI := call.Fun.(*ast.Ident); isI && id.Name == "panic" {
							ok = true
						}
					}
				}
			}
		}
	}
	if !ok {
		x.fail(fd, "MarkStarted is not `if s.started.Swap(true) { panic(…) }`")
	}
}

// IsStarted must be: return s.started.Load()
func (x *schedconcTr) checkIsStarted() bool {
	fd := schedconcMethod(x.p, "StartSync", "IsStarted")
	if fd == nil {
		return false
	}
	x.setRecv(fd)
	if len(fd.Body.List) == 1 {
		if rs, ok := fd.Body.List[0].(*ast.ReturnStmt); ok && len(rs.Results) == 1 {
			f, m, args := x.fieldCall(rs.Results[0])
			return f == "started" && m == "Load" && len(args) == 0
		}
	}
	return false
}

// tail: the statements after the index was drawn
func (x *schedconcTr) tail(list []ast.Stmt) []string {
	readsStart := false
	bad := false
	for _, st := range list {
		ast.Inspect(st, func(n ast.Node) bool {
			switch v := n.(type) {
			case *ast.AssignStmt:
				for _, l := range v.Lhs {
					if x.recvField(l) != "" {
						x.fail(v, "a field is written after the index was drawn")
						bad = true
					}
				}
			case *ast.IncDecStmt:
				if x.recvField(v.X) != "" {
					x.fail(v, "a field is written after the index was drawn")
					bad = true
				}
			case *ast.CallExpr:
				if f, m, _ := x.fieldCall(v); f != "" {
					ty := types.TypeString(x.p.TypesInfo.TypeOf(v.Fun.(*ast.SelectorExpr).X), nil)
					if strings.Contains(ty, "atomic.") || ty == "sync.Once" || strings.HasPrefix(ty, "sync.") {
						x.fail(v, "%s.%s after the index was drawn", f, m)
						bad = true
					}
				}
				if m := x.recvCall(v); m == "MarkStarted" || m == "IsStarted" || m == "Start" || m == "Next" || m == "Left" {
					x.fail(v, "call of %s after the index was drawn", m)
					bad = true
				}
			case *ast.SelectorExpr:
				if x.recvField(v) == "start" {
					readsStart = true
				}
			case *ast.GoStmt, *ast.DeferStmt, *ast.FuncLit:
				x.fail(n, "go/defer/function literal after the index was drawn")
				bad = true
			}
			return true
		})
	}
	if bad {
		return []string{"UNSUPPORTED"}
	}
	if !readsStart {
		if len(list) > 0 {
			x.fail(list[0], "the rest of the method does not read s.start")
		}
		return []string{"UNSUPPORTED"}
	}
	return []string{".readStartRet"}
}

func (x *schedconcTr) stmts(list []ast.Stmt, params map[types.Object]bool, top bool) []string {
	var out []string
	for k, st := range list {
		switch v := st.(type) {
		case *ast.ExprStmt:
			if x.recvCall(v.X) == "MarkStarted" {
				out = append(out, ".swapStarted")
				continue
			}
			if f, m, args := x.fieldCall(v.X); m == "Do" && len(args) == 1 {
				ty := types.TypeString(x.p.TypesInfo.TypeOf(v.X.(*ast.CallExpr).Fun.(*ast.SelectorExpr).X), nil)
				fl, isLit := args[0].(*ast.FuncLit)
				if ty == "sync.Once" && f != "" && isLit && len(fl.Type.Params.List) == 0 {
					body := x.stmts(fl.Body.List, params, false)
					out = append(out, fmt.Sprintf(".onceEnter %d", len(body)+1))
					out = append(out, body...)
					out = append(out, ".onceExit")
					continue
				}
			}
			x.fail(st, "statement %s", nodeString(x.p, st))
			out = append(out, "UNSUPPORTED")
		case *ast.AssignStmt:
			if len(v.Lhs) == 1 && len(v.Rhs) == 1 {
				if x.recvField(v.Lhs[0]) == "start" && v.Tok == token.ASSIGN {
					if call, ok := v.Rhs[0].(*ast.CallExpr); ok && len(call.Args) == 0 {
						if sel, ok := call.Fun.(*ast.SelectorExpr); ok && sel.Sel.Name == "Now" {
							if id, ok := sel.X.(*ast.Ident); ok {
								if pn, ok := x.p.TypesInfo.Uses[id].(*types.PkgName); ok && pn.Imported().Path() == "time" {
									out = append(out, ".writeStartNow")
									continue
								}
							}
						}
					}
					if id, ok := v.Rhs[0].(*ast.Ident); ok && params[x.p.TypesInfo.Uses[id]] {
						out = append(out, ".writeStartArg")
						continue
					}
				}
				// i := s.i.Inc() - 1   |   i := s.i.Add(1) - 1
				if _, isId := v.Lhs[0].(*ast.Ident); isId && v.Tok == token.DEFINE && top {
					if be, ok := v.Rhs[0].(*ast.BinaryExpr); ok && be.Op == token.SUB {
						one := func(e ast.Expr) bool {
							tv, ok := x.p.TypesInfo.Types[e]
							return ok && tv.Value != nil && tv.Value.ExactString() == "1"
						}
						f, m, args := x.fieldCall(be.X)
						ty := ""
						if f != "" {
							ty = types.TypeString(x.p.TypesInfo.TypeOf(be.X.(*ast.CallExpr).Fun.(*ast.SelectorExpr).X), nil)
						}
						if f == "i" && strings.HasSuffix(ty, "atomic.Int64") && one(be.Y) &&
							((m == "Inc" && len(args) == 0) || (m == "Add" && len(args) == 1 && one(args[0]))) {
							out = append(out, ".incI")
							out = append(out, x.tail(list[k+1:])...)
							return out
						}
					}
				}
			}
			x.fail(st, "statement %s", nodeString(x.p, st))
			out = append(out, "UNSUPPORTED")
		case *ast.IfStmt:
			if v.Init == nil && v.Else == nil {
				cond := v.Cond
				neg := false
				if u, ok := cond.(*ast.UnaryExpr); ok && u.Op == token.NOT {
					neg = true
					cond = u.X
				}
				isLoad := false
				if x.recvCall(cond) == "IsStarted" {
					saved := x.recv
					isLoad = x.checkIsStarted()
					x.recv = saved
				} else if f, m, args := x.fieldCall(cond); f == "started" && m == "Load" && len(args) == 0 {
					isLoad = true
				}
				hasReturn := false
				ast.Inspect(v.Body, func(n ast.Node) bool {
					switch n.(type) {
					case *ast.ReturnStmt, *ast.BranchStmt:
						hasReturn = true
					case *ast.FuncLit:
						return false
					}
					return true
				})
				if isLoad && !hasReturn {
					body := x.stmts(v.Body.List, params, false)
					if neg {
						out = append(out, fmt.Sprintf(".skipIfStarted %d", len(body)))
					} else {
						out = append(out, fmt.Sprintf(".skipIfNotStarted %d", len(body)))
					}
					out = append(out, body...)
					continue
				}
			}
			x.fail(st, "if statement %s", nodeString(x.p, v.Cond))
			out = append(out, "UNSUPPORTED")
		default:
			x.fail(st, "%T", st)
			out = append(out, "UNSUPPORTED")
		}
	}
	return out
}

func (x *schedconcTr) prog(method, leanName, what string) string {
	fd := schedconcMethod(x.p, "doAtSchedule", method)
	if fd == nil {
		x.t.errs = append(x.t.errs, "schedconc: (*doAtSchedule)."+method+" not found")
		return ""
	}
	x.setRecv(fd)
	params := map[types.Object]bool{}
	for _, f := range fd.Type.Params.List {
		for _, n := range f.Names {
			params[x.p.TypesInfo.Defs[n]] = true
		}
	}
	st := x.stmts(fd.Body.List, params, true)
	file := x.p.Fset.Position(fd.Pos()).Filename
	if i := strings.Index(file, "core/schedule/"); i >= 0 {
		file = file[i:]
	}
	return fmt.Sprintf("/-- regenerated from `%s` method `(*doAtSchedule).%s`: %s -/\ndef %s : List Stmt :=\n  [%s]\n\n",
		file, method, what, leanName, strings.Join(st, ", "))
}

func schedconcExtra(t *tr) string {
	x := &schedconcTr{t: t, p: t.pkg}
	var b strings.Builder
	b.WriteString("open Pandora.Model.C01Conc\n\n")
	x.checkMarkStarted()
	b.WriteString(x.prog("Next", "nextProg", "its accesses to the shared state, in program order"))
	b.WriteString(x.prog("Start", "startProg", "its accesses to the shared state, in program order"))
	return b.String()
}
