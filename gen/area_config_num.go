package main

// Area "config" (property C17), round 3: `NumberRangeHook` of core/config/hooks.go — a number the numeric target
// cannot hold is refused.  Re-read from the source as a table
//
//	(target kinds, source kinds, the expression assigned to the verdict variable)
//
// one row per inner case of `switch <target kind> { case …: switch <source kind> { case …: fits = <expr> } }`, plus the
// condition under which the hook returns an error and the table of `kindBits`.  Locals are printed by number
// (configCanonLocals), so renaming them does not disturb the pin; the order of the cases does not matter (rows sorted).

import (
	"fmt"
	"go/ast"
	"sort"
	"strings"

	"golang.org/x/tools/go/packages"
)

func configKindList(p *packages.Package, cc *ast.CaseClause) string {
	var ks []string
	for _, k := range cc.List {
		ks = append(ks, strings.TrimPrefix(cfSrc(p, k), "reflect."))
	}
	return strings.Join(ks, ",")
}

func configNumberRange(t *tr, p *packages.Package) string {
	var b strings.Builder
	var rows [][3]string
	refuses := ""
	var bitsRows [][2]string
	bitsDefault := ""
	if fd := findFunc(p, "NumberRangeHook"); fd != nil {
		restore := configCanonLocals(p, fd)
		for _, st := range fd.Body.List {
			switch x := st.(type) {
			case *ast.SwitchStmt:
				for _, oc := range x.Body.List {
					occ := oc.(*ast.CaseClause)
					target := configKindList(p, occ)
					for _, ist := range occ.Body {
						isw, ok := ist.(*ast.SwitchStmt)
						if !ok {
							continue
						}
						for _, ic := range isw.Body.List {
							icc := ic.(*ast.CaseClause)
							expr := ""
							if len(icc.Body) == 1 {
								if as, ok := icc.Body[0].(*ast.AssignStmt); ok && len(as.Lhs) == 1 && len(as.Rhs) == 1 {
									expr = cfSrc(p, as.Lhs[0]) + " = " + cfSrc(p, as.Rhs[0])
								}
							}
							if expr == "" {
								gsFail(t, p, icc, "NumberRangeHook: an inner case must be a single assignment of the verdict")
							}
							rows = append(rows, [3]string{target, configKindList(p, icc), expr})
						}
					}
				}
			case *ast.IfStmt:
				if strings.HasPrefix(cfSrc(p, x.Body), "{ return nil,") {
					refuses = cfSrc(p, x.Cond)
				}
			}
		}
		restore()
	}
	sort.Slice(rows, func(i, j int) bool {
		if rows[i][0] != rows[j][0] {
			return rows[i][0] < rows[j][0]
		}
		return rows[i][1] < rows[j][1]
	})
	if kb := findFunc(p, "kindBits"); kb != nil {
		for _, st := range kb.Body.List {
			switch x := st.(type) {
			case *ast.SwitchStmt:
				for _, c := range x.Body.List {
					cc := c.(*ast.CaseClause)
					ret := ""
					if len(cc.Body) == 1 {
						if r, ok := cc.Body[0].(*ast.ReturnStmt); ok && len(r.Results) == 1 {
							ret = cfSrc(p, r.Results[0])
						}
					}
					bitsRows = append(bitsRows, [2]string{configKindList(p, cc), ret})
				}
			case *ast.ReturnStmt:
				if len(x.Results) == 1 {
					bitsDefault = cfSrc(p, x.Results[0])
				}
			}
		}
	}
	sort.Slice(bitsRows, func(i, j int) bool { return bitsRows[i][0] < bitsRows[j][0] })
	var q []string
	for _, r := range rows {
		q = append(q, fmt.Sprintf("(%q, %q, %q)", r[0], r[1], r[2]))
	}
	b.WriteString("/-- `NumberRangeHook` (if present): (target kinds, source kinds, the verdict assigned) per inner case, sorted; x0 the source\n")
	b.WriteString("kind, x1 the target kind, x2 the data, x3 its reflect.Value, x4 the verdict, x5 the width of the target -/\n")
	b.WriteString("def numberRangeTable : List (String × String × String) := [" + strings.Join(q, ",\n  ") + "]\n")
	b.WriteString(fmt.Sprintf("/-- `NumberRangeHook` returns an error exactly under this condition -/\ndef numberRangeRefuses : String := %q\n", refuses))
	b.WriteString("/-- `kindBits`: kinds ↦ width; any other kind (Int, Uint) -/\ndef kindBitsTable : List (String × String) := " + cfPairs(bitsRows) + "\n")
	b.WriteString(fmt.Sprintf("def kindBitsDefault : String := %q\n\n", bitsDefault))
	return b.String()
}
