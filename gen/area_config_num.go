package main

// Area "config" (property C17), round 3: `NumberRangeHook` of core/config/hooks.go — a number the numeric target
// cannot hold is refused.  Re-read from the source as a table
//
//	(target kinds, source kinds, the expression assigned to the verdict variable)
//
// one row per inner case of `switch <target kind> { case …: switch <source kind> { case …: fits = <expr> } }`, plus the
// condition under which the hook returns an error and the table of `kindBits`.  Locals are replaced by the expressions
// they are bound to (only the parameters remain, numbered by position), so renaming or reordering the declarations does
// not disturb the pin; the order of the cases does not matter (rows sorted).

import (
	"fmt"
	"go/ast"
	"go/token"
	"regexp"
	"sort"
	"strings"

	"golang.org/x/tools/go/packages"
)

func configKindList(p *packages.Package, cc *ast.CaseClause) string {
	var ks []string
	for _, k := range cc.List {
		ks = append(ks, strings.TrimPrefix(cfSrc(p, k), "reflect."))
	}
	return strings.Join(ks, ",")
}

func configNumberRange(t *tr, p *packages.Package) string {
	var b strings.Builder
	var rows [][3]string
	refuses := ""
	verdict := ""
	defs := map[string]string{}
	inline := func(e string) string {
		for round := 0; round < 6; round++ {
			changed := false
			for name, def := range defs {
				if def == "" || def == "true" || def == "false" {
					continue
				}
				re := regexp.MustCompile(`\b` + regexp.QuoteMeta(name) + `\b`)
				if re.MatchString(e) {
					e = re.ReplaceAllLiteralString(e, def)
					changed = true
				}
			}
			if !changed {
				break
			}
		}
		return e
	}
	var bitsRows [][2]string
	bitsDefault := ""
	if fd := findFunc(p, "NumberRangeHook"); fd != nil {
		restore := configCanonLocals(p, fd)
		// single definitions `x := e` (anywhere in the body): a row shows the expression with such locals replaced by what
		// they are bound to, so that only the parameters (x0 source kind, x1 target kind, x2 the data) remain — the order
		// in which the locals are declared does not matter
		ast.Inspect(fd.Body, func(n ast.Node) bool {
			if as, ok := n.(*ast.AssignStmt); ok && as.Tok == token.DEFINE && len(as.Lhs) == 1 && len(as.Rhs) == 1 {
				if id, ok := as.Lhs[0].(*ast.Ident); ok {
					if _, dup := defs[id.Name]; dup {
						defs[id.Name] = "" // defined twice under one canonical name: not inlined
					} else {
						defs[id.Name] = cfSrc(p, as.Rhs[0])
					}
				}
			}
			return true
		})
		for _, st := range fd.Body.List {
			switch x := st.(type) {
			case *ast.SwitchStmt:
				for _, oc := range x.Body.List {
					occ := oc.(*ast.CaseClause)
					target := configKindList(p, occ)
					for _, ist := range occ.Body {
						isw, ok := ist.(*ast.SwitchStmt)
						if !ok {
							continue
						}
						for _, ic := range isw.Body.List {
							icc := ic.(*ast.CaseClause)
							expr := ""
							if len(icc.Body) == 1 {
								if as, ok := icc.Body[0].(*ast.AssignStmt); ok && len(as.Lhs) == 1 && len(as.Rhs) == 1 {
									if verdict == "" {
										verdict = cfSrc(p, as.Lhs[0])
									}
									if cfSrc(p, as.Lhs[0]) == verdict {
										expr = inline(cfSrc(p, as.Rhs[0]))
									}
								}
							}
							if expr == "" {
								gsFail(t, p, icc, "NumberRangeHook: an inner case must be a single assignment of the verdict")
							}
							rows = append(rows, [3]string{target, configKindList(p, icc), expr})
						}
					}
				}
			case *ast.IfStmt:
				if strings.HasPrefix(cfSrc(p, x.Body), "{ return nil,") {
					refuses = cfSrc(p, x.Cond)
					if verdict != "" {
						refuses = regexp.MustCompile(`\b`+regexp.QuoteMeta(verdict)+`\b`).ReplaceAllLiteralString(refuses, "VERDICT")
					}
				}
			}
		}
		restore()
	}
	sort.Slice(rows, func(i, j int) bool {
		if rows[i][0] != rows[j][0] {
			return rows[i][0] < rows[j][0]
		}
		return rows[i][1] < rows[j][1]
	})
	if kb := findFunc(p, "kindBits"); kb != nil {
		for _, st := range kb.Body.List {
			switch x := st.(type) {
			case *ast.SwitchStmt:
				for _, c := range x.Body.List {
					cc := c.(*ast.CaseClause)
					ret := ""
					if len(cc.Body) == 1 {
						if r, ok := cc.Body[0].(*ast.ReturnStmt); ok && len(r.Results) == 1 {
							ret = cfSrc(p, r.Results[0])
						}
					}
					bitsRows = append(bitsRows, [2]string{configKindList(p, cc), ret})
				}
			case *ast.ReturnStmt:
				if len(x.Results) == 1 {
					bitsDefault = cfSrc(p, x.Results[0])
				}
			}
		}
	}
	sort.Slice(bitsRows, func(i, j int) bool { return bitsRows[i][0] < bitsRows[j][0] })
	var q []string
	for _, r := range rows {
		q = append(q, fmt.Sprintf("(%q, %q, %q)", r[0], r[1], r[2]))
	}
	b.WriteString("/-- `NumberRangeHook` (if present): (target kinds, source kinds, the verdict assigned) per inner case, sorted; locals are\n")
	b.WriteString("replaced by what they are bound to: x0 the source kind, x1 the target kind, x2 the data -/\n")
	b.WriteString("def numberRangeTable : List (String × String × String) := [" + strings.Join(q, ",\n  ") + "]\n")
	b.WriteString(fmt.Sprintf("/-- `NumberRangeHook` returns an error exactly under this condition -/\ndef numberRangeRefuses : String := %q\n", refuses))
	b.WriteString("/-- `kindBits`: kinds ↦ width; any other kind (Int, Uint) -/\ndef kindBitsTable : List (String × String) := " + cfPairs(bitsRows) + "\n")
	b.WriteString(fmt.Sprintf("def kindBitsDefault : String := %q\n\n", bitsDefault))
	return b.String()
}
