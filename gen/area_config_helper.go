package main

// Area "config", sixth part (round 4): the two helpers of validations.go (getTimeForValidation / getSizeForValidation)
// by what they RETURN instead of statement by statement.
//
// The body is executed symbolically over its named results: `a, b := call(…)` / `a, b = call(…)` binds to `callee#i`, a
// method call on a result (`check.UnmarshalText(…)`) makes that result `callee!recv`, `x, ok = v.(T)` binds to
// `V.(T)#0` / `V.(T)#1`, `r = <bool expression>` assigns, `if c { … }` forks, a bare `return` returns the current values
// (unassigned results are zero: `false` for the bool).  Emitted: the bool result as a function of sorted atoms, and for
// every other result the ONE value it has on the paths where the bool result can be true.  A restructured body (the type
// assertion first and `ok = false` on a parse error; an else branch instead of an early return; renamed locals) gives
// the same function and the same values; a helper that reports ok without having parsed the bound, or that hands back
// another value, does not.

import (
	"fmt"
	"go/ast"
	"go/token"
	"go/types"
	"sort"
	"strings"

	"golang.org/x/tools/go/packages"
)

type configHelperState struct {
	vals  map[string]string          // non-bool variables: canonical value
	bools map[string]*configBoolExpr // bool variables
}

func (s *configHelperState) clone() *configHelperState {
	n := &configHelperState{vals: map[string]string{}, bools: map[string]*configBoolExpr{}}
	for k, v := range s.vals {
		n.vals[k] = v
	}
	for k, v := range s.bools {
		n.bools[k] = v
	}
	return n
}

type configHelperTree struct {
	cond     *configBoolExpr // nil: leaf
	th, el   *configHelperTree
	boolRes  *configBoolExpr
	otherRes []string
}

type configHelperTr struct {
	c       *configBoolTr
	results []string // names of the named results, in order
	boolIdx int
	info    *types.Info
}

func (h *configHelperTr) isBool(id *ast.Ident) bool {
	if obj := h.info.ObjectOf(id); obj != nil {
		if b, ok := obj.Type().Underlying().(*types.Basic); ok {
			return b.Kind() == types.Bool
		}
	}
	return false
}

// sync makes the canonical names of the bool translator follow the state (so that conditions print canonically)
func (h *configHelperTr) sync(st *configHelperState) {
	for k, v := range st.vals {
		h.c.names[k] = v
	}
}

func (h *configHelperTr) assign(st *configHelperState, as *ast.AssignStmt) bool {
	h.sync(st)
	if len(as.Rhs) == 1 {
		switch r := as.Rhs[0].(type) {
		case *ast.CallExpr:
			callee := h.c.canon(r)
			// a method call on a variable of the state: the receiver is what the call made of it
			if sel, ok := r.Fun.(*ast.SelectorExpr); ok {
				if id, ok := sel.X.(*ast.Ident); ok {
					if _, isVar := st.vals[id.Name]; isVar {
						var as2 []string
						for _, a := range r.Args {
							as2 = append(as2, h.c.canon(a))
						}
						callee = "(" + strings.Join(as2, ", ") + ")." + sel.Sel.Name
						st.vals[id.Name] = callee + "!recv"
					}
				}
			}
			for i, l := range as.Lhs {
				id, ok := l.(*ast.Ident)
				if !ok {
					return false
				}
				if id.Name == "_" {
					continue
				}
				name := fmt.Sprintf("%s#%d", callee, i)
				if h.isBool(id) {
					st.bools[id.Name] = h.c.atomOf("var:" + name)
				} else {
					st.vals[id.Name] = name
				}
			}
			return true
		case *ast.TypeAssertExpr:
			base := h.c.canon(r)
			for i, l := range as.Lhs {
				id, ok := l.(*ast.Ident)
				if !ok {
					return false
				}
				if id.Name == "_" {
					continue
				}
				name := fmt.Sprintf("%s#%d", base, i)
				if i == 1 || h.isBool(id) {
					st.bools[id.Name] = h.c.atomOf("var:" + name)
				} else {
					st.vals[id.Name] = name
				}
			}
			return true
		}
	}
	if len(as.Lhs) != len(as.Rhs) {
		return false
	}
	for i, l := range as.Lhs {
		id, ok := l.(*ast.Ident)
		if !ok {
			return false
		}
		if id.Name == "_" {
			continue
		}
		if h.isBool(id) {
			st.bools[id.Name] = h.boolExpr(st, as.Rhs[i])
		} else {
			st.vals[id.Name] = h.c.canon(as.Rhs[i])
		}
	}
	return true
}

// boolExpr: a boolean expression with the bool variables of the state replaced by their values
func (h *configHelperTr) boolExpr(st *configHelperState, e ast.Expr) *configBoolExpr {
	h.sync(st)
	switch x := e.(type) {
	case *ast.ParenExpr:
		return h.boolExpr(st, x.X)
	case *ast.Ident:
		if v, ok := st.bools[x.Name]; ok {
			return v
		}
	case *ast.UnaryExpr:
		if x.Op == token.NOT {
			return configNot(h.boolExpr(st, x.X))
		}
	case *ast.BinaryExpr:
		switch x.Op {
		case token.LAND:
			return &configBoolExpr{op: "and", args: []*configBoolExpr{h.boolExpr(st, x.X), h.boolExpr(st, x.Y)}}
		case token.LOR:
			return &configBoolExpr{op: "or", args: []*configBoolExpr{h.boolExpr(st, x.X), h.boolExpr(st, x.Y)}}
		}
	}
	return h.c.expr(e)
}

func (h *configHelperTr) leaf(st *configHelperState, ret *ast.ReturnStmt) *configHelperTree {
	t := &configHelperTree{}
	for i, r := range h.results {
		if ret != nil && len(ret.Results) == len(h.results) {
			if i == h.boolIdx {
				t.boolRes = h.boolExpr(st, ret.Results[i])
			} else {
				h.sync(st)
				t.otherRes = append(t.otherRes, h.c.canon(ret.Results[i]))
			}
			continue
		}
		if i == h.boolIdx {
			t.boolRes = st.bools[r]
		} else {
			t.otherRes = append(t.otherRes, st.vals[r])
		}
	}
	return t
}

func (h *configHelperTr) exec(list []ast.Stmt, st *configHelperState) *configHelperTree {
	if len(list) == 0 {
		h.c.errs = append(h.c.errs, "body falls off its end without a return")
		return h.leaf(st, nil)
	}
	switch x := list[0].(type) {
	case *ast.AssignStmt:
		if !h.assign(st, x) {
			h.c.failf(x, "assignment not translated")
		}
		return h.exec(list[1:], st)
	case *ast.DeclStmt:
		return h.exec(list[1:], st) // `var x T`: zero, like an unassigned result
	case *ast.ReturnStmt:
		return h.leaf(st, x)
	case *ast.BlockStmt:
		return h.exec(append(append([]ast.Stmt{}, x.List...), list[1:]...), st)
	case *ast.IfStmt:
		if x.Init != nil {
			as, ok := x.Init.(*ast.AssignStmt)
			if !ok || !h.assign(st, as) {
				h.c.failf(x.Init, "if-initialiser not translated")
			}
		}
		cond := h.boolExpr(st, x.Cond)
		var elseList []ast.Stmt
		switch el := x.Else.(type) {
		case nil:
			elseList = list[1:]
		case *ast.BlockStmt:
			elseList = append(append([]ast.Stmt{}, el.List...), list[1:]...)
		default:
			elseList = append([]ast.Stmt{el}, list[1:]...)
		}
		thenList := append(append([]ast.Stmt{}, x.Body.List...), list[1:]...)
		return &configHelperTree{cond: cond, th: h.exec(thenList, st.clone()), el: h.exec(elseList, st.clone())}
	}
	h.c.failf(list[0], "statement kind not translated")
	return h.leaf(st, nil)
}

func (t *configHelperTree) boolOf() *configBoolExpr {
	if t.cond == nil {
		if t.boolRes == nil {
			return &configBoolExpr{op: "const", val: false}
		}
		return t.boolRes
	}
	return &configBoolExpr{op: "ite", args: []*configBoolExpr{t.cond, t.th.boolOf(), t.el.boolOf()}}
}

func (e *configBoolExpr) constFalse() bool { return e == nil || (e.op == "const" && !e.val) }

// whenOk collects the values of the other results on the leaves where the bool result is not plainly false
func (t *configHelperTree) whenOk(out *[][]string) {
	if t.cond == nil {
		if !t.boolRes.constFalse() {
			*out = append(*out, t.otherRes)
		}
		return
	}
	t.th.whenOk(out)
	t.el.whenOk(out)
}

func configHelperFunc(t *tr, p *packages.Package, goName, leanName string) string {
	fd := findFunc(p, goName)
	if fd == nil || fd.Body == nil {
		t.errs = append(t.errs, "core/config: func "+goName+" not found")
		return ""
	}
	c := &configBoolTr{p: p, names: map[string]string{}, atoms: map[string]bool{}}
	h := &configHelperTr{c: c, boolIdx: -1, info: p.TypesInfo}
	i := 0
	var paramTypes []string
	for _, f := range fd.Type.Params.List {
		for _, n := range f.Names {
			c.names[n.Name] = fmt.Sprintf("arg%d", i)
			paramTypes = append(paramTypes, cfSrc(p, f.Type))
			i++
		}
	}
	st := &configHelperState{vals: map[string]string{}, bools: map[string]*configBoolExpr{}}
	var resTypes []string
	if fd.Type.Results != nil {
		for _, f := range fd.Type.Results.List {
			for _, n := range f.Names {
				if cfSrc(p, f.Type) == "bool" {
					h.boolIdx = len(h.results)
					st.bools[n.Name] = &configBoolExpr{op: "const", val: false}
				} else {
					st.vals[n.Name] = "zero"
				}
				h.results = append(h.results, n.Name)
				resTypes = append(resTypes, cfSrc(p, f.Type))
			}
		}
	}
	if h.boolIdx < 0 || len(h.results) == 0 {
		t.errs = append(t.errs, goName+": named results with one bool expected")
		return ""
	}
	tree := h.exec(fd.Body.List, st)
	for _, m := range c.errs {
		t.errs = append(t.errs, goName+": "+m)
	}
	e := tree.boolOf()
	var atoms []string
	for a := range c.atoms {
		atoms = append(atoms, a)
	}
	sort.Strings(atoms)
	idx := map[string]int{}
	var params []string
	for i, a := range atoms {
		idx[a] = i
		params = append(params, fmt.Sprintf("a%d", i))
	}
	var oks [][]string
	tree.whenOk(&oks)
	var whenOk []string
	for i, o := range oks {
		if i == 0 {
			whenOk = o
			continue
		}
		if strings.Join(o, "\x00") != strings.Join(whenOk, "\x00") {
			whenOk = append(append([]string{}, whenOk...), "AMBIGUOUS:"+strings.Join(o, "|"))
		}
	}
	var b strings.Builder
	b.WriteString(fmt.Sprintf("/-- `%s`: parameter types / result types, in order (the bool result is #%d) -/\n", goName, h.boolIdx))
	b.WriteString("def " + leanName + "Params : List String := " + cfQ(paramTypes) + "\n")
	b.WriteString("def " + leanName + "Results : List String := " + cfQ(resTypes) + "\n")
	b.WriteString(fmt.Sprintf("/-- `%s`: the atomic conditions of its bool result, sorted -/\n", goName))
	b.WriteString("def " + leanName + "OkAtoms : List String := " + cfQ(atoms) + "\n")
	b.WriteString(fmt.Sprintf("/-- `%s`: its bool result as a function of those atoms -/\n", goName))
	b.WriteString("def " + leanName + "Ok (" + strings.Join(params, " ") + " : Bool) : Bool := " + e.lean(idx) + "\n")
	b.WriteString(fmt.Sprintf("/-- `%s`: what the other results are whenever the bool result can be true -/\n", goName))
	b.WriteString("def " + leanName + "WhenOk : List String := " + cfQ(whenOk) + "\n\n")
	return b.String()
}
