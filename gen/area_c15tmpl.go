package main

// Area "c15tmpl" (property C15, round 4): regenerates from the CURRENT source, into lean/Pandora/Gen/C15Tmpl.lean (core Lean,
// vocabulary of Pandora/Model/C15Tmpl.lean):
//
//	scenario/http/templater/template_key.go   type templateKey, const partURL / partHeader / partBody -> `keyFields`, the `part` constants of the sites
//	scenario/http/templater/templater_text.go (*TextTemplater).Apply / getTemplate -> `applyCodeText : ApplyCode`, `getCodeText : GetCode`
//	scenario/http/templater/templater_html.go (*HTMLTemplater).Apply / getTemplate -> `applyCodeHTML`, `getCodeHTML`
//	guns/http_scenario/ammo.go                (*Request).GetHeaders / GetBody     -> `partsFresh` (the parts handed to Apply are copies)
//	scenario/http/postprocessor/var_jsonpath.go (*VarJsonpathPostprocessor).Process -> `jsonpathCode : JCode`
//
// `Apply` is read as three regions — the statements on `parts.URL`, the body of `for k, v := range parts.Headers`, the body of
// `if parts.Body != nil` — each a list of the instructions get / chk / exec / assign / reset; local names never appear in the
// output (the builder, the template variable, the range variables are recognised by their role). Every statement must match a
// handled shape, otherwise gen fails (broken obligation): e.g. a builder that is not created by the call (a pool), a cache
// keyed by anything but the `templateKey` value passed in, a template executed into something else than the builder.

import (
	"fmt"
	"go/ast"
	"go/token"
	"go/types"
	"strings"

	"golang.org/x/tools/go/packages"
)

func init() {
	areas["c15tmpl"] = area{
		pkgPath:   "github.com/yandex/pandora/components/providers/scenario/http/templater",
		module:    "C15Tmpl",
		namespace: "Pandora.Gen.C15Tmpl",
		imports:   []string{"Pandora.Model.C15Tmpl", "Pandora.Model.C15Jpath"},
		extra:     c15tmplExtra,
	}
}

type c15tmplX struct {
	*c15scenX
}

func (x *c15tmplX) strConst(e ast.Expr) (string, bool) { return (&c15walkX{x.c15scenX}).strLit(e) }

func c15tmplBool(b bool) string {
	if b {
		return "true"
	}
	return "false"
}

// c15tmplNames: the identifiers of `Apply` by role
type c15tmplNames struct {
	recv, parts, vs, scn, stp string
	builder, tmpl             string
}

// isErrCheck: `if err != nil { return <non-nil> }`
func (x *c15tmplX) isErrCheck(s ast.Stmt) bool {
	is, ok := s.(*ast.IfStmt)
	if !ok || is.Init != nil || is.Else != nil || x.src(is.Cond) != "err != nil" || len(is.Body.List) != 1 {
		return false
	}
	r, ok := is.Body.List[0].(*ast.ReturnStmt)
	if !ok || len(r.Results) == 0 {
		return false
	}
	return x.src(r.Results[len(r.Results)-1]) != "nil"
}

// region translates the statements that render one part. textSrc: the Go source of the part's text; dst: the Go source of the
// assignment target; wrap: the conversion around builder.String() on assignment ("" or "[]byte"); rangeKey: the range key
// variable ("" outside the header loop)
func (x *c15tmplX) region(stmts []ast.Stmt, nm *c15tmplNames, textSrc, dst, wrap, rangeKey string) string {
	var ops []string
	site := ""
	for _, s := range stmts {
		switch st := s.(type) {
		case *ast.DeclStmt:
			// const op = "…"
			if gd, ok := st.Decl.(*ast.GenDecl); ok && gd.Tok == token.CONST {
				continue
			}
			return x.fail(s, "declaration")
		case *ast.AssignStmt:
			// strBuilder := &strings.Builder{}
			if len(st.Lhs) == 1 && len(st.Rhs) == 1 && st.Tok == token.DEFINE && x.src(st.Rhs[0]) == "&strings.Builder{}" {
				if nm.builder != "" || strings.Contains(strings.Join(ops, " "), ".exec") {
					return x.fail(s, "the builder must be created once by the call, before the first template is executed")
				}
				nm.builder = x.src(st.Lhs[0])
				continue
			}
			// tmpl, err := t.getTemplate(<text>, templateKey{…})
			if len(st.Lhs) == 2 && len(st.Rhs) == 1 && x.src(st.Lhs[1]) == "err" {
				if c, ok := st.Rhs[0].(*ast.CallExpr); ok && x.src(c.Fun) == nm.recv+".getTemplate" && len(c.Args) == 2 {
					if x.src(c.Args[0]) != textSrc {
						return x.fail(s, "template text %s, expected %s", x.src(c.Args[0]), textSrc)
					}
					if nm.tmpl == "" {
						nm.tmpl = x.src(st.Lhs[0])
					} else if nm.tmpl != x.src(st.Lhs[0]) {
						return x.fail(s, "second template variable")
					}
					sv, ok := x.site(c.Args[1], nm, rangeKey)
					if !ok {
						return x.fail(s, "cache key")
					}
					if site != "" && site != sv {
						return x.fail(s, "two different cache keys in one region")
					}
					site = sv
					ops = append(ops, ".get")
					continue
				}
			}
			// err = tmpl.Execute(strBuilder, vs)
			if len(st.Lhs) == 1 && len(st.Rhs) == 1 && x.src(st.Lhs[0]) == "err" && st.Tok == token.ASSIGN {
				if c, ok := st.Rhs[0].(*ast.CallExpr); ok && nm.tmpl != "" && x.src(c.Fun) == nm.tmpl+".Execute" && len(c.Args) == 2 &&
					x.src(c.Args[0]) == nm.builder && x.src(c.Args[1]) == nm.vs {
					ops = append(ops, ".exec")
					continue
				}
			}
			// <part> = strBuilder.String()  /  []byte(strBuilder.String())
			if len(st.Lhs) == 1 && len(st.Rhs) == 1 && st.Tok == token.ASSIGN && x.src(st.Lhs[0]) == dst {
				want := nm.builder + ".String()"
				if wrap != "" {
					want = wrap + "(" + want + ")"
				}
				if x.src(st.Rhs[0]) == want {
					ops = append(ops, ".assign")
					continue
				}
			}
			return x.fail(s, "assignment %s", x.src(s))
		case *ast.IfStmt:
			if x.isErrCheck(s) {
				ops = append(ops, ".chk")
				continue
			}
			return x.fail(s, "if statement")
		case *ast.ExprStmt:
			if x.src(st.X) == nm.builder+".Reset()" {
				ops = append(ops, ".reset")
				continue
			}
			return x.fail(s, "expression statement %s", x.src(s))
		default:
			return x.fail(s, "statement %T", s)
		}
	}
	if site == "" {
		return x.fail(stmts[0], "region without getTemplate")
	}
	return "{ site := " + site + ", ops := [" + strings.Join(ops, ", ") + "] }"
}

// site: templateKey{scenario: scenarioName, step: stepName, part: <const>, key: <range key>}
func (x *c15tmplX) site(e ast.Expr, nm *c15tmplNames, rangeKey string) (string, bool) {
	cl, ok := e.(*ast.CompositeLit)
	if !ok || x.src(cl.Type) != "templateKey" {
		return "", false
	}
	part, scen, step, keyed := "", false, false, false
	for _, el := range cl.Elts {
		kv, ok := el.(*ast.KeyValueExpr)
		if !ok {
			return "", false
		}
		switch x.src(kv.Key) {
		case "scenario":
			if x.src(kv.Value) != nm.scn {
				return "", false
			}
			scen = true
		case "step":
			if x.src(kv.Value) != nm.stp {
				return "", false
			}
			step = true
		case "part":
			v, ok := x.strConst(kv.Value)
			if !ok {
				return "", false
			}
			part = v
		case "key":
			if rangeKey == "" || x.src(kv.Value) != rangeKey {
				return "", false
			}
			keyed = true
		default:
			return "", false
		}
	}
	return fmt.Sprintf("{ part := %q, scen := %s, step := %s, keyed := %s }", part, c15tmplBool(scen), c15tmplBool(step), c15tmplBool(keyed)), true
}

func (x *c15tmplX) applyCode(fd *ast.FuncDecl, leanName, what string) string {
	x.ctx = what + ".Apply"
	nm := &c15tmplNames{}
	if fd.Recv == nil || len(fd.Recv.List) != 1 || len(fd.Recv.List[0].Names) != 1 {
		return x.fail(fd, "receiver")
	}
	nm.recv = fd.Recv.List[0].Names[0].Name
	var params []string
	for _, f := range fd.Type.Params.List {
		for _, n := range f.Names {
			params = append(params, n.Name)
		}
	}
	if len(params) != 4 {
		return x.fail(fd, "parameters")
	}
	nm.parts, nm.vs, nm.scn, nm.stp = params[0], params[1], params[2], params[3]
	body := fd.Body.List
	// split into: statements before the header loop (URL region), the loop, the guarded body region, `return nil`
	var urlStmts []ast.Stmt
	var regions []string
	url, hdr, bod := "", "", ""
	guard := false
	i := 0
	for ; i < len(body); i++ {
		if _, ok := body[i].(*ast.RangeStmt); ok {
			break
		}
		if is, ok := body[i].(*ast.IfStmt); ok && !x.isErrCheck(is) {
			break
		}
		if _, ok := body[i].(*ast.ReturnStmt); ok {
			break
		}
		urlStmts = append(urlStmts, body[i])
	}
	if len(urlStmts) > 0 {
		url = x.region(urlStmts, nm, nm.parts+".URL", nm.parts+".URL", "", "")
		regions = append(regions, `"url"`)
	}
	for ; i < len(body); i++ {
		switch st := body[i].(type) {
		case *ast.RangeStmt:
			if x.src(st.X) != nm.parts+".Headers" || st.Key == nil || st.Value == nil || hdr != "" {
				return x.fail(st, "range statement")
			}
			k, v := x.src(st.Key), x.src(st.Value)
			hdr = x.region(st.Body.List, nm, v, nm.parts+".Headers["+k+"]", "", k)
			regions = append(regions, `"header"`)
		case *ast.IfStmt:
			if x.src(st.Cond) != nm.parts+".Body != nil" || st.Else != nil || st.Init != nil || bod != "" {
				return x.fail(st, "if statement")
			}
			guard = true
			bod = x.region(st.Body.List, nm, "string("+nm.parts+".Body)", nm.parts+".Body", "[]byte", "")
			regions = append(regions, `"body"`)
		case *ast.ReturnStmt:
			if len(st.Results) != 1 || x.src(st.Results[0]) != "nil" || i != len(body)-1 {
				return x.fail(st, "return")
			}
		default:
			return x.fail(st, "statement %T", st)
		}
	}
	if url == "" || hdr == "" || bod == "" {
		return x.fail(fd, "a region is missing (url %v, header %v, body %v)", url != "", hdr != "", bod != "")
	}
	var b strings.Builder
	fmt.Fprintf(&b, "/-- regenerated from `%s`: the statements that render the URL, one header (the body of the `range` loop) and the body (inside `if parts.Body != nil`) -/\n", what+".Apply")
	fmt.Fprintf(&b, "def %s : ApplyCode where\n  builderFresh := %s\n  regions := [%s]\n  url := %s\n  header := %s\n  body := %s\n  bodyGuard := %s\n",
		leanName, c15tmplBool(nm.builder != ""), strings.Join(regions, ", "), url, hdr, bod, c15tmplBool(guard))
	return b.String()
}

func (x *c15tmplX) getCode(fd *ast.FuncDecl, leanName, what string) string {
	x.ctx = what + ".getTemplate"
	if fd.Recv == nil || len(fd.Recv.List) != 1 || len(fd.Recv.List[0].Names) != 1 {
		return x.fail(fd, "receiver")
	}
	recv := fd.Recv.List[0].Names[0].Name
	var params []string
	for _, f := range fd.Type.Params.List {
		for _, n := range f.Names {
			params = append(params, n.Name)
		}
	}
	if len(params) != 2 {
		return x.fail(fd, "parameters")
	}
	text, key := params[0], params[1]
	cacheField := ""
	tmpl, okVar := "", ""
	var ops func(stmts []ast.Stmt, inMiss bool) ([]string, []string, []string, bool)
	ops = func(stmts []ast.Stmt, inMiss bool) (head, miss, tail []string, ok bool) {
		cur := &head
		for _, s := range stmts {
			switch st := s.(type) {
			case *ast.DeclStmt:
				// var err error
				if gd, ok := st.Decl.(*ast.GenDecl); ok && gd.Tok == token.VAR {
					continue
				}
				x.fail(s, "declaration")
				return nil, nil, nil, false
			case *ast.AssignStmt:
				if len(st.Lhs) == 2 && len(st.Rhs) == 1 {
					c, isCall := st.Rhs[0].(*ast.CallExpr)
					// tmpl, ok := t.templatesCache.Load(key)
					if isCall && strings.HasPrefix(x.src(c.Fun), recv+".") && strings.HasSuffix(x.src(c.Fun), ".Load") && len(c.Args) == 1 && x.src(c.Args[0]) == key && !inMiss {
						cacheField = strings.TrimSuffix(x.src(c.Fun), ".Load")
						tmpl, okVar = x.src(st.Lhs[0]), x.src(st.Lhs[1])
						*cur = append(*cur, ".load")
						continue
					}
					// tmpl, err = template.New(…).Funcs(…).Parse(tmplBody)
					if isCall && inMiss && x.src(st.Lhs[0]) == tmpl && x.src(st.Lhs[1]) == "err" && strings.HasSuffix(x.src(c.Fun), ".Parse") &&
						strings.HasPrefix(x.src(c.Fun), "template.New(") && len(c.Args) == 1 && x.src(c.Args[0]) == text {
						*cur = append(*cur, ".parse")
						continue
					}
				}
				x.fail(s, "assignment %s", x.src(s))
				return nil, nil, nil, false
			case *ast.IfStmt:
				if x.isErrCheck(s) {
					*cur = append(*cur, ".chk")
					continue
				}
				if !inMiss && okVar != "" && x.src(st.Cond) == "!"+okVar && st.Else == nil && st.Init == nil && len(miss) == 0 {
					m, _, _, ok := ops(st.Body.List, true)
					if !ok {
						return nil, nil, nil, false
					}
					miss = m
					cur = &tail
					continue
				}
				x.fail(s, "if statement")
				return nil, nil, nil, false
			case *ast.ExprStmt:
				// t.templatesCache.Store(key, tmpl)
				if c, ok := st.X.(*ast.CallExpr); ok && cacheField != "" && x.src(c.Fun) == cacheField+".Store" && len(c.Args) == 2 &&
					x.src(c.Args[0]) == key && x.src(c.Args[1]) == tmpl {
					*cur = append(*cur, ".store")
					continue
				}
				x.fail(s, "expression statement %s", x.src(s))
				return nil, nil, nil, false
			case *ast.ReturnStmt:
				// return tmpl.(*template.Template), nil
				if len(st.Results) == 2 && x.src(st.Results[1]) == "nil" && strings.HasPrefix(x.src(st.Results[0]), tmpl+".(") {
					*cur = append(*cur, ".ret")
					continue
				}
				x.fail(s, "return")
				return nil, nil, nil, false
			default:
				x.fail(s, "statement %T", s)
				return nil, nil, nil, false
			}
		}
		return head, miss, tail, true
	}
	head, miss, tail, ok := ops(fd.Body.List, false)
	if !ok {
		return "(UNSUPPORTED)"
	}
	// the cache is a sync.Map (keys compared with ==) and the key a comparable struct
	return fmt.Sprintf("/-- regenerated from `%s.getTemplate`: the statements before, inside and after `if !ok { … }`; the cache is looked up and filled under the SAME key value -/\ndef %s : GetCode := { head := [%s], miss := [%s], tail := [%s] }\n",
		what, leanName, strings.Join(head, ", "), strings.Join(miss, ", "), strings.Join(tail, ", "))
}

// keyFields: the fields of `templateKey` in order; all must be strings (the struct is then comparable field by field)
func (x *c15tmplX) keyFields(p *packages.Package) string {
	obj := p.Types.Scope().Lookup("templateKey")
	if obj == nil {
		x.t.errs = append(x.t.errs, "c15tmpl: type templateKey not found")
		return ""
	}
	st, ok := obj.Type().Underlying().(*types.Struct)
	if !ok {
		x.t.errs = append(x.t.errs, "c15tmpl: templateKey is not a struct")
		return ""
	}
	var fs []string
	for i := 0; i < st.NumFields(); i++ {
		f := st.Field(i)
		if b, ok := f.Type().Underlying().(*types.Basic); !ok || b.Kind() != types.String {
			x.t.errs = append(x.t.errs, "c15tmpl: templateKey."+f.Name()+" is not a string")
		}
		fs = append(fs, fmt.Sprintf("%q", f.Name()))
	}
	return "/-- regenerated from `template_key.go`: the fields of `templateKey` (all strings: two keys are equal iff all fields are) -/\ndef keyFields : List String := [" + strings.Join(fs, ", ") + "]\n"
}

// partsFresh: `GetHeaders` returns a new map filled by a copy loop, `GetBody` a new byte slice (a conversion of the string)
func (x *c15tmplX) partsFresh(gh, gb *ast.FuncDecl) string {
	x.ctx = "Request.GetHeaders/GetBody"
	recv := gh.Recv.List[0].Names[0].Name
	hdrOK := false
	if l := gh.Body.List; len(l) == 3 {
		as, ok1 := l[0].(*ast.AssignStmt)
		rs, ok2 := l[1].(*ast.RangeStmt)
		rt, ok3 := l[2].(*ast.ReturnStmt)
		if ok1 && ok2 && ok3 && len(as.Lhs) == 1 && len(as.Rhs) == 1 && strings.HasPrefix(x.src(as.Rhs[0]), "make(map[string]string") &&
			x.src(rs.X) == recv+".Headers" && rs.Key != nil && rs.Value != nil && len(rs.Body.List) == 1 &&
			x.src(rs.Body.List[0]) == x.src(as.Lhs[0])+"["+x.src(rs.Key)+"] = "+x.src(rs.Value) &&
			len(rt.Results) == 1 && x.src(rt.Results[0]) == x.src(as.Lhs[0]) {
			hdrOK = true
		}
	}
	if !hdrOK {
		x.fail(gh, "GetHeaders is not `make` + copy loop + return")
	}
	recvB := gb.Recv.List[0].Names[0].Name
	bodyOK := false
	if l := gb.Body.List; len(l) == 2 {
		is, ok1 := l[0].(*ast.IfStmt)
		rt, ok2 := l[1].(*ast.ReturnStmt)
		if ok1 && ok2 && x.src(is.Cond) == recvB+".Body == nil" && len(is.Body.List) == 1 && x.src(is.Body.List[0]) == "return nil" &&
			len(rt.Results) == 1 && x.src(rt.Results[0]) == "[]byte(*"+recvB+".Body)" {
			bodyOK = true
		}
	}
	if !bodyOK {
		x.fail(gb, "GetBody is not `nil` for an absent body, else a conversion of the string")
	}
	return fmt.Sprintf("/-- regenerated from `ammo.go`: the parts handed to `Apply` are copies (`GetHeaders`: make + copy loop; `GetBody`: nil for an absent body, else a fresh `[]byte` conversion) — what `Apply` writes never reaches the ammo shared by all instances -/\ndef partsFresh : List (String × Bool) := [(\"headers-copied\", %s), (\"body-absent-is-nil\", %s), (\"body-converted\", %s)]\n",
		c15tmplBool(hdrOK), c15tmplBool(bodyOK), c15tmplBool(bodyOK))
}

// jsonpathCode: the statements of `VarJsonpathPostprocessor.Process` (guard for an empty mapping, decode, check, the loop
// get / on error collect-and-continue / store, return result, err)
func (x *c15tmplX) jsonpathCode(fd *ast.FuncDecl) string {
	x.ctx = "VarJsonpathPostprocessor.Process"
	recv := fd.Recv.List[0].Names[0].Name
	var params []string
	for _, f := range fd.Type.Params.List {
		for _, n := range f.Names {
			params = append(params, n.Name)
		}
	}
	if len(params) != 2 {
		return x.fail(fd, "parameters")
	}
	body := params[1]
	mapping := recv + ".Mapping"
	var ops, loop []string
	data, dec, result := "", "", ""
	for _, s := range fd.Body.List {
		switch st := s.(type) {
		case *ast.DeclStmt:
			// var data any
			if gd, ok := st.Decl.(*ast.GenDecl); ok && gd.Tok == token.VAR && len(gd.Specs) == 1 {
				if vs, ok := gd.Specs[0].(*ast.ValueSpec); ok && len(vs.Names) == 1 && len(vs.Values) == 0 {
					data = vs.Names[0].Name
					continue
				}
			}
			return x.fail(s, "declaration")
		case *ast.IfStmt:
			if st.Init == nil && st.Else == nil && x.src(st.Cond) == "len("+mapping+") == 0" && len(st.Body.List) == 1 && x.src(st.Body.List[0]) == "return nil, nil" {
				ops = append(ops, ".guardEmpty")
				continue
			}
			if x.isErrCheck(s) {
				ops = append(ops, ".chk")
				continue
			}
			return x.fail(s, "if statement")
		case *ast.AssignStmt:
			if len(st.Lhs) == 1 && len(st.Rhs) == 1 && st.Tok == token.DEFINE {
				l, r := x.src(st.Lhs[0]), x.src(st.Rhs[0])
				switch {
				case r == "json.NewDecoder("+body+")":
					dec = l
					continue
				case l == "err" && dec != "" && data != "" && r == dec+".Decode(&"+data+")":
					ops = append(ops, ".decode")
					continue
				case r == "map[string]any{}" || strings.HasPrefix(r, "make(map[string]any"):
					result = l
					continue
				}
			}
			return x.fail(s, "assignment %s", x.src(s))
		case *ast.RangeStmt:
			if x.src(st.X) != mapping || st.Key == nil || st.Value == nil || result == "" || len(loop) > 0 {
				return x.fail(s, "range statement")
			}
			k, path := x.src(st.Key), x.src(st.Value)
			val, e := "", ""
			for _, b := range st.Body.List {
				switch bt := b.(type) {
				case *ast.AssignStmt:
					if len(bt.Lhs) == 2 && len(bt.Rhs) == 1 && bt.Tok == token.DEFINE && x.src(bt.Rhs[0]) == "jsonpath.Get("+path+", "+data+")" {
						val, e = x.src(bt.Lhs[0]), x.src(bt.Lhs[1])
						loop = append(loop, ".get")
						continue
					}
					if len(bt.Lhs) == 1 && len(bt.Rhs) == 1 && bt.Tok == token.ASSIGN && val != "" && x.src(bt.Lhs[0]) == result+"["+k+"]" && x.src(bt.Rhs[0]) == val {
						loop = append(loop, ".store")
						continue
					}
					return x.fail(b, "assignment %s", x.src(b))
				case *ast.IfStmt:
					// if e != nil { err = multierr.Append(err, …); continue }
					if e != "" && bt.Init == nil && bt.Else == nil && x.src(bt.Cond) == e+" != nil" && len(bt.Body.List) == 2 {
						as, ok1 := bt.Body.List[0].(*ast.AssignStmt)
						br, ok2 := bt.Body.List[1].(*ast.BranchStmt)
						if ok1 && ok2 && br.Tok == token.CONTINUE && len(as.Lhs) == 1 && x.src(as.Lhs[0]) == "err" && as.Tok == token.ASSIGN &&
							strings.HasPrefix(x.src(as.Rhs[0]), "multierr.Append(err, ") {
							loop = append(loop, ".onErr")
							continue
						}
					}
					return x.fail(b, "if statement in the loop")
				default:
					return x.fail(b, "statement %T in the loop", b)
				}
			}
			ops = append(ops, ".loop")
		case *ast.ReturnStmt:
			if len(st.Results) == 2 && x.src(st.Results[0]) == result && x.src(st.Results[1]) == "err" {
				ops = append(ops, ".ret")
				continue
			}
			return x.fail(s, "return")
		default:
			return x.fail(s, "statement %T", s)
		}
	}
	return fmt.Sprintf("/-- regenerated from `var_jsonpath.go` `VarJsonpathPostprocessor.Process`: the statements outside and inside the loop over the mapping -/\ndef jsonpathCode : JCode := { body := [%s], loop := [%s] }\n",
		strings.Join(ops, ", "), strings.Join(loop, ", "))
}

func c15tmplExtra(t *tr) string {
	const (
		pTpl  = "github.com/yandex/pandora/components/providers/scenario/http/templater"
		pGun  = "github.com/yandex/pandora/components/guns/http_scenario"
		pPost = "github.com/yandex/pandora/components/providers/scenario/http/postprocessor"
	)
	pk := c15scenLoad(pTpl, pGun, pPost)
	var b strings.Builder
	b.WriteString("open Pandora.Model.C15\n\n")
	mk := func(p *packages.Package) *c15tmplX {
		return &c15tmplX{&c15scenX{t: t, pkg: p, calls: map[string]string{}}}
	}
	need := func(p *packages.Package, recv, name string) *ast.FuncDecl {
		fd := c15scenFunc(p, recv, name)
		if fd == nil {
			t.errs = append(t.errs, fmt.Sprintf("c15tmpl: %s.%s not found in %s", recv, name, p.PkgPath))
		}
		return fd
	}
	xt := mk(pk[pTpl])
	b.WriteString(xt.keyFields(pk[pTpl]) + "\n")
	for _, w := range [][2]string{{"TextTemplater", "Text"}, {"HTMLTemplater", "HTML"}} {
		if fd := need(pk[pTpl], w[0], "Apply"); fd != nil {
			b.WriteString(xt.applyCode(fd, "applyCode"+w[1], w[0]) + "\n")
		}
		if fd := need(pk[pTpl], w[0], "getTemplate"); fd != nil {
			b.WriteString(xt.getCode(fd, "getCode"+w[1], w[0]) + "\n")
		}
	}
	xg := mk(pk[pGun])
	gh, gb := need(pk[pGun], "Request", "GetHeaders"), need(pk[pGun], "Request", "GetBody")
	if gh != nil && gb != nil {
		b.WriteString(xg.partsFresh(gh, gb) + "\n")
	}
	if fd := need(pk[pPost], "VarJsonpathPostprocessor", "Process"); fd != nil {
		b.WriteString(mk(pk[pPost]).jsonpathCode(fd) + "\n")
	}
	return b.String()
}
