package main

// Area "aggq" (property C06): control skeletons of the code the C06 transition systems were written from.
//
// A skeleton is a canonical one-line rendering of a function body that keeps
//   - the control structure: defer{…} go{…} for{…} L:for{…} select{case <comm>:{…} default:{…}} switch(…){…}
//     if(<cond>){…}else{…} return(<results>) break L / continue / goto
//   - every call made by a statement, in evaluation order, by its callee text (a.handle, encoder.Flush, sink.Close …)
//   - channel sends `send(ch)`
// and drops what does not matter for what is written and when the sink is closed: declarations and plain
// assignments without calls, ++/--, logging (…Log.…, log.Info/Debug/Warn/Error, zap.…), error decoration
// (errors.WithMessage, errutil.Join, fmt.Sprintf at statement level), ticker `.Stop()` calls.
// `log.Fatal` / `log.Panic` are kept as `exit` / `panic` (they end the process / goroutine).
//
// Emitted (Pandora.Gen.AggQ):
//   core/aggregator : Reporter.Report, dropSample, DroppedErr, SomeSamplesDropped.Error, NewReporter,
//                     dataSinkAggregator.Run, handleSample, jsonEncoder.Encode, jsonEncoder.Flush
//   core/datasink   : fileSink.OpenSink skeleton, the open flags and permission as numbers, and os.O_* for comparison
//   core/engine     : runAwaitHandle.checkAllInstancesAreFinished, isStartFinished, awaitRun, instancePool.awaitRunAsync,
//                     Engine.Wait, the constant resultsToWait
//   core/aggregator/netsample : phoutAggregator.Run, Report
//   cli             : awaitPandoraTermination
// The Bridge (lean/Pandora/Bridge/C06AggQ.lean) compares each with the skeleton the model was written from.

import (
	"fmt"
	"go/ast"
	"go/constant"
	"go/token"
	"go/types"
	"strings"

	"golang.org/x/tools/go/packages"
)

func init() {
	areas["aggq"] = area{
		pkgPath:   "github.com/yandex/pandora/core/aggregator",
		module:    "AggQ",
		namespace: "Pandora.Gen.AggQ",
		imports:   []string{"Pandora.Model.C06Phout"},
		extra:     aggqExtra,
	}
}

type skel struct {
	t *tr
}

func (s *skel) src(n ast.Node) string { return phoutSrc(s.t, n) }

func skelIgnoredCallee(name string) bool {
	switch {
	case strings.Contains(name, ".Log."), strings.Contains(name, ".log."), strings.HasPrefix(name, "zap."):
		return !strings.HasSuffix(name, ".Panic") && !strings.HasSuffix(name, ".Fatal")
	case strings.HasPrefix(name, "log."):
		return name != "log.Fatal" && name != "log.Panic"
	case name == "errors.WithMessage", name == "errutil.Join", name == "fmt.Sprintf", name == "errors.Wrap":
		return true
	case strings.HasSuffix(name, ".Stop"), strings.HasSuffix(name, "ent.Write"):
		return true
	}
	return false
}

// calls made by an expression, in evaluation order (arguments before the call), function literals skipped
// unless they are called in place.
func (s *skel) calls(e ast.Node) []string {
	var out []string
	var walk func(n ast.Node)
	walk = func(n ast.Node) {
		switch x := n.(type) {
		case nil:
			return
		case *ast.FuncLit:
			return // a callback passed somewhere: not executed here
		case *ast.CallExpr:
			for _, a := range x.Args {
				walk(a)
			}
			if fl, ok := x.Fun.(*ast.FuncLit); ok {
				out = append(out, s.stmts(fl.Body.List)...)
				return
			}
			// receiver expression may contain calls (a.b().c())
			if sel, ok := x.Fun.(*ast.SelectorExpr); ok {
				walk(sel.X)
			}
			tv, ok := s.t.pkg.TypesInfo.Types[x.Fun]
			if ok && tv.IsBuiltin() && s.src(x.Fun) == "close" && len(x.Args) == 1 {
				out = append(out, "close("+s.src(x.Args[0])+")")
				return
			}
			if ok && (tv.IsType() || tv.IsBuiltin()) {
				return
			}
			name := s.src(x.Fun)
			switch {
			case name == "log.Fatal" || strings.HasSuffix(name, ".Fatal"):
				out = append(out, "exit")
			case strings.HasSuffix(name, ".Panic"):
				out = append(out, "panic")
			case skelIgnoredCallee(name):
			default:
				out = append(out, name)
			}
			return
		}
		// generic traversal of children, in source order
		ast.Inspect(n, func(c ast.Node) bool {
			if c == n {
				return true
			}
			if c == nil {
				return false
			}
			switch c.(type) {
			case *ast.CallExpr, *ast.FuncLit:
				walk(c)
				return false
			}
			return true
		})
	}
	walk(e)
	return out
}

func (s *skel) block(list []ast.Stmt) string { return "{" + strings.Join(s.stmts(list), " ") + "}" }

func (s *skel) stmts(list []ast.Stmt) []string {
	var out []string
	for _, st := range list {
		out = append(out, s.stmt(st)...)
	}
	return out
}

func (s *skel) stmt(st ast.Stmt) []string {
	switch x := st.(type) {
	case nil:
		return nil
	case *ast.DeferStmt:
		var inner []string
		if fl, ok := x.Call.Fun.(*ast.FuncLit); ok {
			inner = s.stmts(fl.Body.List)
		} else {
			inner = s.calls(x.Call)
		}
		if len(inner) == 0 {
			return nil
		}
		return []string{"defer{" + strings.Join(inner, " ") + "}"}
	case *ast.GoStmt:
		var inner []string
		if fl, ok := x.Call.Fun.(*ast.FuncLit); ok {
			inner = s.stmts(fl.Body.List)
		} else {
			inner = s.calls(x.Call)
		}
		return []string{"go{" + strings.Join(inner, " ") + "}"}
	case *ast.LabeledStmt:
		inner := s.stmt(x.Stmt)
		if len(inner) == 0 {
			return []string{x.Label.Name + ":"}
		}
		inner[0] = x.Label.Name + ":" + inner[0]
		return inner
	case *ast.ForStmt:
		var pre []string
		pre = append(pre, s.stmt(x.Init)...)
		head := "for"
		if x.Cond != nil {
			head += "(" + s.src(x.Cond) + ")"
		}
		return append(pre, head+s.block(x.Body.List))
	case *ast.RangeStmt:
		return []string{"range(" + s.src(x.X) + ")" + s.block(x.Body.List)}
	case *ast.SelectStmt:
		var cs []string
		for _, c := range x.Body.List {
			cc := c.(*ast.CommClause)
			head := "default"
			if cc.Comm != nil {
				head = "case " + s.src(cc.Comm)
			}
			cs = append(cs, head+":"+s.block(cc.Body))
		}
		return []string{"select{" + strings.Join(cs, " ") + "}"}
	case *ast.SwitchStmt:
		var pre []string
		pre = append(pre, s.stmt(x.Init)...)
		tag := ""
		if x.Tag != nil {
			tag = s.src(x.Tag)
		}
		var cs []string
		for _, c := range x.Body.List {
			cc := c.(*ast.CaseClause)
			head := "default"
			if cc.List != nil {
				var es []string
				for _, e := range cc.List {
					es = append(es, s.src(e))
				}
				head = "case " + strings.Join(es, ",")
			}
			cs = append(cs, head+":"+s.block(cc.Body))
		}
		return append(pre, "switch("+tag+"){"+strings.Join(cs, " ")+"}")
	case *ast.TypeSwitchStmt:
		return []string{"typeswitch(" + s.src(x.Assign) + ")" + s.block(x.Body.List)}
	case *ast.IfStmt:
		var pre []string
		pre = append(pre, s.stmt(x.Init)...)
		pre = append(pre, s.calls(x.Cond)...)
		body := s.block(x.Body.List)
		els := ""
		if x.Else != nil {
			switch e := x.Else.(type) {
			case *ast.BlockStmt:
				els = "else" + s.block(e.List)
			default:
				els = "else{" + strings.Join(s.stmt(e), " ") + "}"
			}
		}
		if body == "{}" && (els == "" || els == "else{}") {
			return pre
		}
		return append(pre, "if("+s.src(x.Cond)+")"+body+els)
	case *ast.ReturnStmt:
		var rs []string
		for _, r := range x.Results {
			rs = append(rs, s.src(r))
		}
		return []string{"return(" + strings.Join(rs, ", ") + ")"}
	case *ast.BranchStmt:
		if x.Label != nil {
			return []string{x.Tok.String() + " " + x.Label.Name}
		}
		return []string{x.Tok.String()}
	case *ast.ExprStmt:
		return s.calls(x.X)
	case *ast.SendStmt:
		out := s.calls(x.Value)
		return append(out, "send("+s.src(x.Chan)+")")
	case *ast.AssignStmt:
		var out []string
		for _, r := range x.Rhs {
			out = append(out, s.calls(r)...)
			if u, ok := r.(*ast.UnaryExpr); ok && u.Op == token.ARROW {
				out = append(out, "recv("+s.src(u.X)+")")
			}
		}
		if len(x.Lhs) == 1 && len(x.Rhs) == 1 {
			// a boolean that is defined here (it usually guards what follows): keep its defining expression
			if x.Tok == token.DEFINE {
				if tv, ok := s.t.pkg.TypesInfo.Types[x.Rhs[0]]; ok && tv.Type != nil && isBool(tv.Type) {
					if _, isCall := x.Rhs[0].(*ast.CallExpr); !isCall {
						out = append(out, "let "+s.src(x.Lhs[0])+"=("+s.src(x.Rhs[0])+")")
					}
				}
			}
			// a field written without any call: keep it (nil-ing a channel disables a select case …)
			if _, isSel := x.Lhs[0].(*ast.SelectorExpr); isSel && len(out) == 0 {
				out = append(out, "set("+s.src(x.Lhs[0])+x.Tok.String()+s.src(x.Rhs[0])+")")
			}
		}
		return out
	case *ast.DeclStmt:
		return s.calls(x)
	case *ast.IncDecStmt:
		if _, isSel := x.X.(*ast.SelectorExpr); isSel {
			return []string{s.src(x.X) + x.Tok.String()}
		}
		return nil
	case *ast.EmptyStmt:
		return nil
	case *ast.BlockStmt:
		return s.stmts(x.List)
	}
	return []string{s.t.fail(st, "skeleton: statement %T", st)}
}

func aggqFindMethod(p *packages.Package, recv, name string) *ast.FuncDecl {
	for _, f := range p.Syntax {
		for _, d := range f.Decls {
			fd, ok := d.(*ast.FuncDecl)
			if !ok || fd.Name.Name != name {
				continue
			}
			if recv == "" {
				if fd.Recv == nil {
					return fd
				}
				continue
			}
			if fd.Recv == nil || len(fd.Recv.List) != 1 {
				continue
			}
			ty := fd.Recv.List[0].Type
			if st, ok := ty.(*ast.StarExpr); ok {
				ty = st.X
			}
			if id, ok := ty.(*ast.Ident); ok && id.Name == recv {
				return fd
			}
		}
	}
	return nil
}

func aggqLeanStr(s string) string {
	s = strings.ReplaceAll(s, "\\", "\\\\")
	s = strings.ReplaceAll(s, "\"", "\\\"")
	return "\"" + s + "\""
}

func aggqEmit(b *strings.Builder, t *tr, leanName, recv, fn, file string) {
	fd := aggqFindMethod(t.pkg, recv, fn)
	if fd == nil || fd.Body == nil {
		t.errs = append(t.errs, fmt.Sprintf("%s: func (%s).%s not found", file, recv, fn))
		fmt.Fprintf(b, "def %s : String := \"<missing>\"\n\n", leanName)
		return
	}
	s := &skel{t: t}
	sig := phoutSrc(t, fd.Type)
	fmt.Fprintf(b, "/-- regenerated control skeleton of `%s` `(%s).%s` -/\ndef %s : String :=\n  %s\n\n", file, recv, fn, leanName,
		aggqLeanStr(sig+" "+s.block(fd.Body.List)))
}

func aggqConst(t *tr, p *packages.Package, e ast.Expr) (int64, bool) {
	tv, ok := p.TypesInfo.Types[e]
	if !ok || tv.Value == nil {
		return 0, false
	}
	v := constant.ToInt(tv.Value)
	if v.Kind() != constant.Int {
		return 0, false
	}
	return constant.Int64Val(v)
}

func aggqExtra(t *tr) string {
	var b strings.Builder
	// ---- core/aggregator
	aggqEmit(&b, t, "reporterReport", "Reporter", "Report", "core/aggregator/reporter.go")
	aggqEmit(&b, t, "reporterDropSample", "Reporter", "dropSample", "core/aggregator/reporter.go")
	aggqEmit(&b, t, "reporterDroppedErr", "Reporter", "DroppedErr", "core/aggregator/reporter.go")
	aggqEmit(&b, t, "droppedErrorText", "SomeSamplesDropped", "Error", "core/aggregator/reporter.go")
	aggqEmit(&b, t, "newReporter", "", "NewReporter", "core/aggregator/reporter.go")
	aggqEmit(&b, t, "encoderRun", "dataSinkAggregator", "Run", "core/aggregator/encoder.go")
	aggqEmit(&b, t, "encoderHandleSample", "dataSinkAggregator", "handleSample", "core/aggregator/encoder.go")
	aggqEmit(&b, t, "jsonEncode", "jsonEncoder", "Encode", "core/aggregator/jsonlines.go")
	aggqEmit(&b, t, "jsonFlush", "jsonEncoder", "Flush", "core/aggregator/jsonlines.go")
	aggqEmit(&b, t, "newJSONLinesAggregator", "", "NewJSONLinesAggregator", "core/aggregator/jsonlines.go")
	aggqEmit(&b, t, "newJSONEncoder", "", "NewJSONEncoder", "core/aggregator/jsonlines.go")

	// ---- core/datasink
	{
		p := load("github.com/yandex/pandora/core/datasink")
		t2 := &tr{pkg: p, known: map[string]string{}}
		aggqEmit(&b, t2, "fileOpenSink", "fileSink", "OpenSink", "core/datasink/file.go")
		var flags, perm int64 = -1, -1
		if fd := aggqFindMethod(p, "fileSink", "OpenSink"); fd != nil {
			ast.Inspect(fd.Body, func(n ast.Node) bool {
				c, ok := n.(*ast.CallExpr)
				if ok && strings.HasSuffix(phoutSrc(t2, c.Fun), ".OpenFile") && len(c.Args) == 3 {
					flags, _ = aggqConst(t2, p, c.Args[1])
					perm, _ = aggqConst(t2, p, c.Args[2])
				}
				return true
			})
		}
		if flags < 0 || perm < 0 {
			t.errs = append(t.errs, "core/datasink/file.go: OpenSink does not call OpenFile(path, <const flags>, <const perm>)")
			flags, perm = 0, 0
		}
		fmt.Fprintf(&b, "/-- regenerated: the constant flag and permission arguments of `OpenFile` in `(*fileSink).OpenSink` -/\n")
		fmt.Fprintf(&b, "def fileOpenFlags : Nat := %d\ndef fileOpenPerm : Nat := %d\n", flags, perm)
		// the os.O_* values of this platform, from the type checker
		for _, imp := range p.Types.Imports() {
			if imp.Path() != "os" {
				continue
			}
			for _, name := range []string{"O_WRONLY", "O_RDWR", "O_CREATE", "O_TRUNC", "O_APPEND", "O_EXCL"} {
				if c, ok := imp.Scope().Lookup(name).(*types.Const); ok {
					v, _ := constant.Int64Val(constant.ToInt(c.Val()))
					fmt.Fprintf(&b, "def os%s : Nat := %d\n", strings.TrimPrefix(name, "O_"), v)
				}
			}
		}
		b.WriteString("\n")
		t.errs = append(t.errs, t2.errs...)
	}

	// ---- core/engine
	{
		p := load("github.com/yandex/pandora/core/engine")
		t2 := &tr{pkg: p, known: map[string]string{}}
		aggqEmit(&b, t2, "engineCheckAllFinished", "runAwaitHandle", "checkAllInstancesAreFinished", "core/engine/engine.go")
		aggqEmit(&b, t2, "engineIsStartFinished", "runAwaitHandle", "isStartFinished", "core/engine/engine.go")
		aggqEmit(&b, t2, "engineAwaitRun", "runAwaitHandle", "awaitRun", "core/engine/engine.go")
		aggqEmit(&b, t2, "engineAwaitRunAsync", "instancePool", "awaitRunAsync", "core/engine/engine.go")
		aggqEmit(&b, t2, "engineWait", "Engine", "Wait", "core/engine/engine.go")
		var toWait int64 = -1
		if fd := aggqFindMethod(p, "instancePool", "newAwaitRunHandle"); fd != nil {
			ast.Inspect(fd.Body, func(n ast.Node) bool {
				vs, ok := n.(*ast.ValueSpec)
				if ok && len(vs.Names) == 1 && vs.Names[0].Name == "resultsToWait" && len(vs.Values) == 1 {
					toWait, _ = aggqConst(t2, p, vs.Values[0])
				}
				return true
			})
		}
		if toWait < 0 {
			t.errs = append(t.errs, "core/engine/engine.go: constant resultsToWait not found in newAwaitRunHandle")
			toWait = 0
		}
		fmt.Fprintf(&b, "/-- regenerated: `const resultsToWait` of `newAwaitRunHandle` -/\ndef engineResultsToWait : Nat := %d\n\n", toWait)
		t.errs = append(t.errs, t2.errs...)
	}

	// ---- core/aggregator/netsample
	{
		p := load("github.com/yandex/pandora/core/aggregator/netsample")
		t2 := &tr{pkg: p, known: map[string]string{}}
		aggqEmit(&b, t2, "phoutRun", "phoutAggregator", "Run", "core/aggregator/netsample/phout.go")
		aggqEmit(&b, t2, "phoutReport", "phoutAggregator", "Report", "core/aggregator/netsample/phout.go")
		aggqEmit(&b, t2, "newPhout", "", "NewPhout", "core/aggregator/netsample/phout.go")
		t.errs = append(t.errs, t2.errs...)
	}

	// ---- cli
	{
		p := load("github.com/yandex/pandora/cli")
		t2 := &tr{pkg: p, known: map[string]string{}}
		aggqEmit(&b, t2, "cliAwaitTermination", "", "awaitPandoraTermination", "cli/cli.go")
		aggqEmit(&b, t2, "cliRunEngine", "", "runEngine", "cli/cli.go")
		t.errs = append(t.errs, t2.errs...)
	}
	return b.String()
}
