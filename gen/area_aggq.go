package main

// Area "aggq" (property C06): control skeletons of the code the C06 transition systems were written from.
//
// A skeleton is a canonical one-line rendering of a function body (function-local names — parameters, receiver,
// locals, local constants, labels — are replaced by $0, $1 … in order of first appearance in the skeleton, so
// renaming them, or adding locals that the skeleton does not show, changes nothing) that keeps
//   - the control structure: defer{…} go{…} for{…} L:for{…} select{case <comm>:{…} default:{…}} switch(…){…}
//     if(<cond>){…}else{…} return(<results>) break L / continue / goto
//   - every call made by a statement, in evaluation order, by its callee text (a.handle, encoder.Flush, sink.Close …)
//   - channel sends `send(ch)`, `x++`/`x--`, the post statement of a for loop
//   - `child, cancel := context.WithCancel(parent)` as `ctx(child, cancel <- parent)`, and the context / cancel-function
//     arguments of every call (who runs under which context)
// and drops what does not matter for what is written and when the sink is closed: declarations and plain
// assignments without calls, logging (…Log.…, log.Info/Debug/Warn/Error, zap.…), error decoration
// (errors.WithMessage, errutil.Join, fmt.Sprintf at statement level), ticker `.Stop()` calls.
// `log.Fatal` / `log.Panic` are kept as `exit` / `panic` (they end the process / goroutine).
//
// Emitted (Pandora.Gen.AggQ):
//   core/aggregator : Reporter.Report, dropSample, DroppedErr, SomeSamplesDropped.Error, NewReporter,
//                     dataSinkAggregator.Run, handleSample, jsonEncoder.Encode, jsonEncoder.Flush
//   core/datasink   : fileSink.OpenSink skeleton, the open flags and permission as numbers, and os.O_* for comparison
//   core/engine     : runAwaitHandle.checkAllInstancesAreFinished, isStartFinished, awaitRun, instancePool.awaitRunAsync,
//                     Engine.Wait, the constant resultsToWait; Engine.Run, instancePool.Run, runAsync, startInstances,
//                     onErrAwaited, runNewInstance, instance.Run and the context tree of runAsync (area_aggq_engine.go)
//   core/aggregator/netsample : phoutAggregator.Run, Report
//   cli             : awaitPandoraTermination, runEngine, ReadConfigAndRunEngine
// The Bridge (lean/Pandora/Bridge/C06AggQ.lean) compares each with the skeleton the model was written from.

import (
	"fmt"
	"go/ast"
	"go/constant"
	"go/token"
	"go/types"
	"regexp"
	"sort"
	"strings"

	"golang.org/x/tools/go/packages"
)

func init() {
	areas["aggq"] = area{
		pkgPath:   "github.com/yandex/pandora/core/aggregator",
		module:    "AggQ",
		namespace: "Pandora.Gen.AggQ",
		imports:   []string{"Pandora.Model.C06Phout"},
		extra:     aggqExtra,
	}
}

type aggqSkel struct {
	t *tr
	// placeholder of every function-local object (parameter, receiver, local variable or constant, label)
	// met so far; aggqRenumber turns the placeholders into $0, $1 … in order of first appearance in the
	// finished text, so that a skeleton does not depend on how the locals are called nor on locals that do
	// not appear in it
	canon map[types.Object]string
}

// src: the source text as written (used to classify callees: log.Fatal, a.Log.Debug …)
func (s *aggqSkel) src(n ast.Node) string { return phoutSrc(s.t, n) }

func aggqIsLocal(obj types.Object) bool {
	switch o := obj.(type) {
	case *types.Label:
		return true
	case *types.Var:
		return !o.IsField() && o.Pkg() != nil && o.Parent() != o.Pkg().Scope()
	case *types.Const:
		return o.Pkg() != nil && o.Parent() != o.Pkg().Scope() && o.Parent() != types.Universe
	}
	return false
}

// csrc: the source text with every function-local identifier replaced by its placeholder
func (s *aggqSkel) csrc(n ast.Node) string {
	if s.canon == nil {
		s.canon = map[types.Object]string{}
	}
	type saved struct {
		id   *ast.Ident
		name string
	}
	var undo []saved
	info := s.t.pkg.TypesInfo
	// a struct literal with field names: the order in which the fields are written is immaterial when no value
	// contains a call (nothing is evaluated in that order); print the fields sorted by name
	type savedElts struct {
		lit  *ast.CompositeLit
		elts []ast.Expr
	}
	var undoElts []savedElts
	ast.Inspect(n, func(c ast.Node) bool {
		cl, ok := c.(*ast.CompositeLit)
		if !ok || len(cl.Elts) < 2 {
			return true
		}
		for _, e := range cl.Elts {
			kv, isKV := e.(*ast.KeyValueExpr)
			if !isKV {
				return true
			}
			if _, isID := kv.Key.(*ast.Ident); !isID || aggqHasCall(kv.Value) {
				return true
			}
			if tv, okT := info.Types[cl]; !okT || tv.Type == nil {
				return true
			} else if _, isStruct := tv.Type.Underlying().(*types.Struct); !isStruct {
				return true
			}
		}
		sorted := append([]ast.Expr(nil), cl.Elts...)
		sort.SliceStable(sorted, func(i, j int) bool {
			return sorted[i].(*ast.KeyValueExpr).Key.(*ast.Ident).Name < sorted[j].(*ast.KeyValueExpr).Key.(*ast.Ident).Name
		})
		undoElts = append(undoElts, savedElts{cl, cl.Elts})
		cl.Elts = sorted
		return true
	})
	defer func() {
		for _, u := range undoElts {
			u.lit.Elts = u.elts
		}
	}()
	ast.Inspect(n, func(c ast.Node) bool {
		id, ok := c.(*ast.Ident)
		if !ok {
			return true
		}
		obj := info.Defs[id]
		if obj == nil {
			obj = info.Uses[id]
		}
		if obj == nil || !aggqIsLocal(obj) {
			return true
		}
		ph, ok := s.canon[obj]
		if !ok {
			ph = fmt.Sprintf("@@%d@@", len(s.canon))
			s.canon[obj] = ph
		}
		undo = append(undo, saved{id, id.Name})
		id.Name = ph
		return true
	})
	out := phoutSrc(s.t, n)
	for _, u := range undo {
		u.id.Name = u.name
	}
	return out
}

// aggqRenumber: placeholders → $0, $1 … in order of first appearance
func aggqRenumber(text string) string {
	seen := map[string]string{}
	var b strings.Builder
	for i := 0; i < len(text); {
		if strings.HasPrefix(text[i:], "@@") {
			if j := strings.Index(text[i+2:], "@@"); j >= 0 {
				ph := text[i : i+2+j+2]
				nm, ok := seen[ph]
				if !ok {
					nm = fmt.Sprintf("$%d", len(seen))
					seen[ph] = nm
				}
				b.WriteString(nm)
				i += len(ph)
				continue
			}
		}
		b.WriteByte(text[i])
		i++
	}
	return b.String()
}

func aggqSkelIgnoredCallee(name string) bool {
	switch {
	case strings.Contains(name, ".Log."), strings.Contains(name, ".log."), strings.HasPrefix(name, "zap."):
		return !strings.HasSuffix(name, ".Panic") && !strings.HasSuffix(name, ".Fatal")
	case strings.HasPrefix(name, "log."):
		return name != "log.Fatal" && name != "log.Panic"
	case name == "errors.WithMessage", name == "errutil.Join", name == "fmt.Sprintf", name == "errors.Wrap":
		return true
	case strings.HasSuffix(name, ".Stop"), strings.HasSuffix(name, "ent.Write"):
		return true
	}
	return false
}

// calls made by an expression, in evaluation order (arguments before the call), function literals skipped
// unless they are called in place.
func (s *aggqSkel) calls(e ast.Node) []string {
	var out []string
	var walk func(n ast.Node)
	walk = func(n ast.Node) {
		switch x := n.(type) {
		case nil:
			return
		case *ast.FuncLit:
			return // a callback passed somewhere: not executed here
		case *ast.CallExpr:
			for _, a := range x.Args {
				walk(a)
			}
			if fl, ok := x.Fun.(*ast.FuncLit); ok {
				out = append(out, s.stmts(fl.Body.List)...)
				return
			}
			// receiver expression may contain calls (a.b().c())
			if sel, ok := x.Fun.(*ast.SelectorExpr); ok {
				walk(sel.X)
			}
			tv, ok := s.t.pkg.TypesInfo.Types[x.Fun]
			if ok && tv.IsBuiltin() && s.src(x.Fun) == "close" && len(x.Args) == 1 {
				out = append(out, "close("+s.csrc(x.Args[0])+")")
				return
			}
			if ok && (tv.IsType() || tv.IsBuiltin()) {
				return
			}
			// logging through go.uber.org/zap, whatever the logger variable is called
			if sel, isSel := x.Fun.(*ast.SelectorExpr); isSel {
				if sn, found := s.t.pkg.TypesInfo.Selections[sel]; found {
					if f, isFunc := sn.Obj().(*types.Func); isFunc && strings.Contains(f.FullName(), "go.uber.org/zap") {
						switch f.Name() {
						case "Fatal":
							out = append(out, "exit")
						case "Panic":
							out = append(out, "panic")
						}
						return
					}
				}
			}
			name := s.src(x.Fun)
			switch {
			case name == "log.Fatal" || strings.HasSuffix(name, ".Fatal"):
				out = append(out, "exit")
			case strings.HasSuffix(name, ".Panic"):
				out = append(out, "panic")
			case aggqSkelIgnoredCallee(name):
			default:
				// (round 4) opening a file through an afero.Fs: `Create(p)` and `OpenFile(p, flags, perm)` are the same
				// operation; the flags are a regenerated fact of their own (phoutOpenFlags)
				if recv, isOpen := s.aggqFsOpenCall(x); isOpen {
					out = append(out, recv+".open")
					return
				}
				out = append(out, s.csrc(x.Fun)+s.ctxArgs(x))
			}
			return
		}
		// generic traversal of children, in source order
		ast.Inspect(n, func(c ast.Node) bool {
			if c == n {
				return true
			}
			if c == nil {
				return false
			}
			switch c.(type) {
			case *ast.CallExpr, *ast.FuncLit:
				walk(c)
				return false
			}
			return true
		})
	}
	walk(e)
	return out
}

// ctxArgs: the arguments of a call that are contexts or cancel functions (who runs under which context is
// part of the control structure): "(arg, …)", or "" when there are none
func (s *aggqSkel) ctxArgs(c *ast.CallExpr) string {
	var as []string
	for _, a := range c.Args {
		ty := s.t.pkg.TypesInfo.TypeOf(a)
		if aggqIsContext(ty) || aggqIsCancelFunc(ty) {
			as = append(as, s.csrc(a))
		}
	}
	if len(as) == 0 {
		return ""
	}
	return "(" + strings.Join(as, ", ") + ")"
}

func aggqHasCall(e ast.Expr) bool {
	found := false
	ast.Inspect(e, func(n ast.Node) bool {
		if c, ok := n.(*ast.CallExpr); ok {
			if id, isIdent := c.Fun.(*ast.Ident); !isIdent || (id.Name != "append" && id.Name != "len" && id.Name != "cap") {
				found = true
			}
		}
		return !found
	})
	return found
}

func aggqIsCancelFunc(ty types.Type) bool {
	n, ok := ty.(*types.Named)
	return ok && n.Obj().Pkg() != nil && n.Obj().Pkg().Path() == "context" && n.Obj().Name() == "CancelFunc"
}

func (s *aggqSkel) block(list []ast.Stmt) string { return "{" + strings.Join(s.stmts(list), " ") + "}" }

func (s *aggqSkel) stmts(list []ast.Stmt) []string {
	var out []string
	for i := 0; i < len(list); i++ {
		// a run of adjacent `go` statements: which goroutine is started first is not observable (none of them has
		// run when the next one is started); canonical order
		if _, isGo := list[i].(*ast.GoStmt); isGo {
			var run []string
			for ; i < len(list); i++ {
				if _, ok := list[i].(*ast.GoStmt); !ok {
					break
				}
				run = append(run, s.stmt(list[i])...)
			}
			i--
			aggqSortCanon(run)
			out = append(out, run...)
			continue
		}
		// a run of adjacent simple statements without calls: those that do not touch each other's variables commute
		// (area_aggq_r4.go); canonical order
		if n, efs := s.aggqPureRun(list, i); n >= 2 {
			out = append(out, s.aggqEmitRun(list[i:i+n], efs)...)
			i += n - 1
			continue
		}
		out = append(out, s.stmt(list[i])...)
	}
	return out
}

var aggqPlaceholderRe = regexp.MustCompile(`@@\d+@@`)

// aggqSortCanon: stable sort by the text with the placeholders of function-local names masked (their numbers
// depend on the order of traversal, i.e. on the source order that is to be forgotten)
func aggqSortCanon(items []string) {
	sort.SliceStable(items, func(i, j int) bool {
		return aggqPlaceholderRe.ReplaceAllString(items[i], "@") < aggqPlaceholderRe.ReplaceAllString(items[j], "@")
	})
}

func (s *aggqSkel) stmt(st ast.Stmt) []string {
	switch x := st.(type) {
	case nil:
		return nil
	case *ast.DeferStmt:
		var inner []string
		if fl, ok := x.Call.Fun.(*ast.FuncLit); ok {
			inner = s.stmts(fl.Body.List)
		} else {
			inner = s.calls(x.Call)
		}
		if len(inner) == 0 {
			return nil
		}
		return []string{"defer{" + strings.Join(inner, " ") + "}"}
	case *ast.GoStmt:
		var inner []string
		if fl, ok := x.Call.Fun.(*ast.FuncLit); ok {
			inner = s.stmts(fl.Body.List)
		} else {
			inner = s.calls(x.Call)
		}
		return []string{"go{" + strings.Join(inner, " ") + "}"}
	case *ast.LabeledStmt:
		inner := s.stmt(x.Stmt)
		if len(inner) == 0 {
			return []string{s.csrc(x.Label) + ":"}
		}
		inner[0] = s.csrc(x.Label) + ":" + inner[0]
		return inner
	case *ast.ForStmt:
		var pre []string
		pre = append(pre, s.stmt(x.Init)...)
		head := "for"
		if x.Cond != nil || x.Post != nil {
			head += "("
			if x.Cond != nil {
				head += s.csrc(x.Cond)
			}
			if post := s.stmt(x.Post); len(post) > 0 {
				head += "; " + strings.Join(post, " ")
			}
			head += ")"
		}
		return append(pre, head+s.block(x.Body.List))
	case *ast.RangeStmt:
		return []string{"range(" + s.csrc(x.X) + ")" + s.block(x.Body.List)}
	case *ast.SelectStmt:
		var cs []string
		for _, c := range x.Body.List {
			cc := c.(*ast.CommClause)
			head := "default"
			if cc.Comm != nil {
				head = "case " + s.csrc(cc.Comm)
			}
			cs = append(cs, head+":"+s.block(cc.Body))
		}
		// the cases of a select have no order (Go picks among the ready ones at random; `default` wherever it is
		// written): present them in a canonical order, so that reordering them in the source changes nothing
		aggqSortCanon(cs)
		return []string{"select{" + strings.Join(cs, " ") + "}"}
	case *ast.SwitchStmt:
		var pre []string
		pre = append(pre, s.stmt(x.Init)...)
		tag := ""
		if x.Tag != nil {
			tag = s.csrc(x.Tag)
		}
		var cs []string
		for _, c := range x.Body.List {
			cc := c.(*ast.CaseClause)
			head := "default"
			if cc.List != nil {
				var es []string
				for _, e := range cc.List {
					es = append(es, s.csrc(e))
				}
				head = "case " + strings.Join(es, ",")
			}
			cs = append(cs, head+":"+s.block(cc.Body))
		}
		// constant case values, no fallthrough: at most one case matches, whichever is written first
		if s.aggqSwitchUnordered(x) {
			aggqSortCanon(cs)
		}
		return append(pre, "switch("+tag+"){"+strings.Join(cs, " ")+"}")
	case *ast.TypeSwitchStmt:
		return []string{"typeswitch(" + s.csrc(x.Assign) + ")" + s.block(x.Body.List)}
	case *ast.IfStmt:
		var pre []string
		pre = append(pre, s.stmt(x.Init)...)
		pre = append(pre, s.calls(x.Cond)...)
		body := s.block(x.Body.List)
		els := ""
		if x.Else != nil {
			switch e := x.Else.(type) {
			case *ast.BlockStmt:
				els = "else" + s.block(e.List)
			default:
				els = "else{" + strings.Join(s.stmt(e), " ") + "}"
			}
		}
		if body == "{}" && (els == "" || els == "else{}") {
			return pre
		}
		return append(pre, "if("+s.csrc(x.Cond)+")"+body+els)
	case *ast.ReturnStmt:
		var rs []string
		for _, r := range x.Results {
			// the message an error is decorated with is not control structure
			type saved struct {
				lit *ast.BasicLit
				val string
			}
			var undo []saved
			ast.Inspect(r, func(n ast.Node) bool {
				c, ok := n.(*ast.CallExpr)
				if !ok {
					return true
				}
				switch s.src(c.Fun) {
				case "errors.WithMessage", "errors.WithMessagef", "errors.Wrap", "errors.Wrapf":
					ast.Inspect(c, func(m ast.Node) bool {
						if l, ok := m.(*ast.BasicLit); ok && l.Kind == token.STRING {
							undo = append(undo, saved{l, l.Value})
							l.Value = "\"…\""
						}
						return true
					})
					return false
				}
				return true
			})
			if c, isCall := r.(*ast.CallExpr); isCall {
				// (round 4) a file opened through an afero.Fs: flags and permission are regenerated facts, not text
				if recv, isOpen := s.aggqFsOpenCall(c); isOpen {
					rs = append(rs, recv+".open")
					continue
				}
			}
			rs = append(rs, s.csrc(r))
			for _, u := range undo {
				u.lit.Value = u.val
			}
		}
		return []string{"return(" + strings.Join(rs, ", ") + ")"}
	case *ast.BranchStmt:
		if x.Label != nil {
			return []string{x.Tok.String() + " " + s.csrc(x.Label)}
		}
		return []string{x.Tok.String()}
	case *ast.ExprStmt:
		return s.calls(x.X)
	case *ast.SendStmt:
		out := s.calls(x.Value)
		return append(out, "send("+s.csrc(x.Chan)+")")
	case *ast.AssignStmt:
		var out []string
		if len(x.Lhs) == 2 && len(x.Rhs) == 1 {
			if c, ok := x.Rhs[0].(*ast.CallExpr); ok && strings.HasPrefix(s.src(c.Fun), "context.With") && len(c.Args) >= 1 {
				// child, cancel := context.WithCancel(parent)
				return []string{"ctx(" + s.csrc(x.Lhs[0]) + ", " + s.csrc(x.Lhs[1]) + " <- " + s.csrc(c.Args[0]) + ")"}
			}
		}
		for _, r := range x.Rhs {
			out = append(out, s.calls(r)...)
			if u, ok := r.(*ast.UnaryExpr); ok && u.Op == token.ARROW {
				out = append(out, "recv("+s.csrc(u.X)+")")
			}
		}
		if len(x.Lhs) == 1 && len(x.Rhs) == 1 {
			// a boolean that is defined here (it usually guards what follows): keep its defining expression
			if x.Tok == token.DEFINE {
				if tv, ok := s.t.pkg.TypesInfo.Types[x.Rhs[0]]; ok && tv.Type != nil && isBool(tv.Type) {
					if _, isCall := x.Rhs[0].(*ast.CallExpr); !isCall {
						out = append(out, "let "+s.csrc(x.Lhs[0])+"=("+s.csrc(x.Rhs[0])+")")
					}
				}
			}
			// a field written without any call: keep it (nil-ing a channel disables a select case …)
			if _, isSel := x.Lhs[0].(*ast.SelectorExpr); isSel && len(out) == 0 {
				rhs := s.csrc(x.Rhs[0])
				if aggqHasCall(x.Rhs[0]) {
					rhs = "…" // a value made by a dropped callee (formatting): which field is written matters, not the text
				}
				out = append(out, "set("+s.csrc(x.Lhs[0])+x.Tok.String()+rhs+")")
			}
			// a whole value overwritten through a pointer (`*s = Sample{…}`: the reset of a pooled object): keep it
			if _, isStar := x.Lhs[0].(*ast.StarExpr); isStar {
				out = append(out, "set("+s.csrc(x.Lhs[0])+x.Tok.String()+s.csrc(x.Rhs[0])+")")
			}
		}
		return out
	case *ast.DeclStmt:
		return s.calls(x)
	case *ast.IncDecStmt:
		return []string{s.csrc(x.X) + x.Tok.String()}
	case *ast.EmptyStmt:
		return nil
	case *ast.BlockStmt:
		return s.stmts(x.List)
	}
	return []string{s.t.fail(st, "skeleton: statement %T", st)}
}

func aggqFindMethod(p *packages.Package, recv, name string) *ast.FuncDecl {
	for _, f := range p.Syntax {
		for _, d := range f.Decls {
			fd, ok := d.(*ast.FuncDecl)
			if !ok || fd.Name.Name != name {
				continue
			}
			if recv == "" {
				if fd.Recv == nil {
					return fd
				}
				continue
			}
			if fd.Recv == nil || len(fd.Recv.List) != 1 {
				continue
			}
			ty := fd.Recv.List[0].Type
			if st, ok := ty.(*ast.StarExpr); ok {
				ty = st.X
			}
			if id, ok := ty.(*ast.Ident); ok && id.Name == recv {
				return fd
			}
		}
	}
	return nil
}

func aggqLeanStr(s string) string {
	s = strings.ReplaceAll(s, "\\", "\\\\")
	s = strings.ReplaceAll(s, "\"", "\\\"")
	return "\"" + s + "\""
}

func aggqEmit(b *strings.Builder, t *tr, leanName, recv, fn, file string) {
	fd := aggqFindMethod(t.pkg, recv, fn)
	if fd == nil || fd.Body == nil {
		t.errs = append(t.errs, fmt.Sprintf("%s: func (%s).%s not found", file, recv, fn))
		fmt.Fprintf(b, "def %s : String := \"<missing>\"\n\n", leanName)
		return
	}
	s := &aggqSkel{t: t}
	sig := s.csrc(fd.Type)
	fmt.Fprintf(b, "/-- regenerated control skeleton of `%s` `(%s).%s` (function-local names are $0, $1 … in order of appearance) -/\ndef %s : String :=\n  %s\n\n", file, recv, fn, leanName,
		aggqLeanStr(aggqRenumber(sig+" "+s.block(fd.Body.List))))
}

func aggqConst(t *tr, p *packages.Package, e ast.Expr) (int64, bool) {
	tv, ok := p.TypesInfo.Types[e]
	if !ok || tv.Value == nil {
		return 0, false
	}
	v := constant.ToInt(tv.Value)
	if v.Kind() != constant.Int {
		return 0, false
	}
	return constant.Int64Val(v)
}

func aggqExtra(t *tr) string {
	var b strings.Builder
	// ---- core/aggregator
	aggqEmit(&b, t, "reporterReport", "Reporter", "Report", "core/aggregator/reporter.go")
	aggqEmit(&b, t, "reporterDropSample", "Reporter", "dropSample", "core/aggregator/reporter.go")
	aggqEmit(&b, t, "reporterDroppedErr", "Reporter", "DroppedErr", "core/aggregator/reporter.go")
	aggqEmit(&b, t, "droppedErrorText", "SomeSamplesDropped", "Error", "core/aggregator/reporter.go")
	aggqEmit(&b, t, "newReporter", "", "NewReporter", "core/aggregator/reporter.go")
	aggqEmit(&b, t, "encoderRun", "dataSinkAggregator", "Run", "core/aggregator/encoder.go")
	aggqEmit(&b, t, "encoderHandleSample", "dataSinkAggregator", "handleSample", "core/aggregator/encoder.go")
	aggqEmit(&b, t, "jsonEncode", "jsonEncoder", "Encode", "core/aggregator/jsonlines.go")
	aggqEmit(&b, t, "jsonFlush", "jsonEncoder", "Flush", "core/aggregator/jsonlines.go")
	aggqEmit(&b, t, "newJSONLinesAggregator", "", "NewJSONLinesAggregator", "core/aggregator/jsonlines.go")
	aggqEmit(&b, t, "newJSONEncoder", "", "NewJSONEncoder", "core/aggregator/jsonlines.go")
	aggqErrFacts(&b, t)
	aggqRound4Facts(&b, t)

	// ---- core/datasink
	{
		p := load("github.com/yandex/pandora/core/datasink")
		t2 := &tr{pkg: p, known: map[string]string{}}
		aggqEmit(&b, t2, "fileOpenSink", "fileSink", "OpenSink", "core/datasink/file.go")
		flags, perm, nOpen := aggqOpenFlagsOf(t2, p, aggqFindMethod(p, "fileSink", "OpenSink"))
		if nOpen != 1 {
			flags = -1
		}
		if flags < 0 || perm < 0 {
			t.errs = append(t.errs, "core/datasink/file.go: OpenSink does not open its file exactly once through the afero file system with constant flags and permission")
			flags, perm = 0, 0
		}
		fmt.Fprintf(&b, "/-- regenerated: the constant flag and permission arguments of `OpenFile` in `(*fileSink).OpenSink` -/\n")
		fmt.Fprintf(&b, "def fileOpenFlags : Nat := %d\ndef fileOpenPerm : Nat := %d\n", flags, perm)
		// the os.O_* values of this platform, from the type checker
		for _, imp := range p.Types.Imports() {
			if imp.Path() != "os" {
				continue
			}
			for _, name := range []string{"O_WRONLY", "O_RDWR", "O_CREATE", "O_TRUNC", "O_APPEND", "O_EXCL"} {
				if c, ok := imp.Scope().Lookup(name).(*types.Const); ok {
					v, _ := constant.Int64Val(constant.ToInt(c.Val()))
					fmt.Fprintf(&b, "def os%s : Nat := %d\n", strings.TrimPrefix(name, "O_"), v)
				}
			}
		}
		b.WriteString("\n")
		t.errs = append(t.errs, t2.errs...)
	}

	// ---- core/engine
	{
		p := load("github.com/yandex/pandora/core/engine")
		t2 := &tr{pkg: p, known: map[string]string{}}
		aggqEmit(&b, t2, "engineCheckAllFinished", "runAwaitHandle", "checkAllInstancesAreFinished", "core/engine/engine.go")
		aggqEmit(&b, t2, "engineIsStartFinished", "runAwaitHandle", "isStartFinished", "core/engine/engine.go")
		aggqEmit(&b, t2, "engineAwaitRun", "runAwaitHandle", "awaitRun", "core/engine/engine.go")
		aggqEmit(&b, t2, "engineAwaitRunAsync", "instancePool", "awaitRunAsync", "core/engine/engine.go")
		aggqEmit(&b, t2, "engineWait", "Engine", "Wait", "core/engine/engine.go")
		var toWait int64 = -1
		if fd := aggqFindMethod(p, "instancePool", "newAwaitRunHandle"); fd != nil {
			ast.Inspect(fd.Body, func(n ast.Node) bool {
				vs, ok := n.(*ast.ValueSpec)
				if ok && len(vs.Names) == 1 && vs.Names[0].Name == "resultsToWait" && len(vs.Values) == 1 {
					toWait, _ = aggqConst(t2, p, vs.Values[0])
				}
				return true
			})
		}
		if toWait < 0 {
			t.errs = append(t.errs, "core/engine/engine.go: constant resultsToWait not found in newAwaitRunHandle")
			toWait = 0
		}
		fmt.Fprintf(&b, "/-- regenerated: `const resultsToWait` of `newAwaitRunHandle` -/\ndef engineResultsToWait : Nat := %d\n\n", toWait)
		aggqEngineFacts(&b, t2, p)
		t.errs = append(t.errs, t2.errs...)
	}

	// ---- core/aggregator/netsample
	{
		p := load("github.com/yandex/pandora/core/aggregator/netsample")
		t2 := &tr{pkg: p, known: map[string]string{}}
		aggqEmit(&b, t2, "phoutRun", "phoutAggregator", "Run", "core/aggregator/netsample/phout.go")
		aggqEmit(&b, t2, "phoutReport", "phoutAggregator", "Report", "core/aggregator/netsample/phout.go")
		aggqEmit(&b, t2, "newPhout", "", "NewPhout", "core/aggregator/netsample/phout.go")
		aggqPhoutOpenFlags(&b, t2, p)
		aggqEmit(&b, t2, "phoutHandle", "phoutAggregator", "handle", "core/aggregator/netsample/phout.go")
		aggqEmit(&b, t2, "sampleAcquire", "", "Acquire", "core/aggregator/netsample/sample.go")
		aggqEmit(&b, t2, "sampleRelease", "", "releaseSample", "core/aggregator/netsample/sample.go")
		aggqEmit(&b, t2, "sampleDiscarded", "", "DiscardedShootSample", "core/aggregator/netsample/sample.go")
		t.errs = append(t.errs, t2.errs...)
	}

	// ---- cli
	{
		p := load("github.com/yandex/pandora/cli")
		t2 := &tr{pkg: p, known: map[string]string{}}
		aggqEmit(&b, t2, "cliAwaitTermination", "", "awaitPandoraTermination", "cli/cli.go")
		aggqEmit(&b, t2, "cliRunEngine", "", "runEngine", "cli/cli.go")
		aggqEmit(&b, t2, "cliReadConfigAndRunEngine", "", "ReadConfigAndRunEngine", "cli/cli.go")
		t.errs = append(t.errs, t2.errs...)
	}
	aggqRound6Facts(&b, t)
	return b.String()
}
