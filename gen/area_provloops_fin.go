package main

// Area "provloops", round 3: how `Run` ENDS — the deferred cleanup of the four `Run` methods, executed path by path.
//
//	components/providers/http/provider/provider.go Run   the deferred func literal: for each of the six paths
//	    (loop result nil / an error) x (p.Close is nil / returns nil / returns an error)
//	    does it close p.Sink, does it call p.Close, what becomes of `err`            -> httpRunFinish : Bool -> CloseOut -> Fin
//	    and: nothing that can leave Run precedes the defer statement                  -> httpRunDeferFirst
//	components/providers/scenario/provider.go Run        the defer precedes every way out                      -> scenarioRunDeferFirst
//	components/providers/grpc/provider.go Run            `defer close(p.Sink)` precedes every way out; the result
//	    of file.Close() is dropped (a bare `defer file.Close()`)                      -> grpcRunDeferFirst, grpcRunDropsClose
//	core/provider/decoder.go DecodeProvider.Run          the same for `defer close(p.OutQueue)`; the deferred literal
//	    around source.Close() does not assign the named result                        -> decodeRunDeferFirst, decodeRunDropsClose
//	grpcjson start: scanner.Err() / a failing Seek are returned (wrapped)             -> grpcReadErr, grpcSeekErr
//	DecodeProvider.Run: a Decode error other than io.EOF is returned (wrapped)        -> decodeOnErr
//
// Reading of Go used here (trusted): `close(ch)` closes; a second close on one path panics (reported as unsupported);
// calling a nil func panics (unsupported); `if x := f(); cond` binds then tests; conditions over `err`, `closeErr`
// (whatever the local is called: the variable bound to the result of p.Close()) and `p.Close == nil` are decided by
// the path; `err = <call mentioning both err and the close error>` merges, `err = <close error>` replaces,
// `err = errors.Join(err, <close error or p.Close()>)` drops nil operands but wraps a non-nil err in a new value also when
// the close error is nil (FinKind.wrapped: not what the code does now).
// The ORDER of closing the sink and closing the file does not show in the table (harmless); a path that returns
// before close(p.Sink) does.

import (
	"fmt"
	"go/ast"
	"go/token"
	"strings"

	"golang.org/x/tools/go/packages"
)

type provloopsFinEnv struct {
	errNil     bool   // the named result `err` is nil
	cl         string // absent | ok | fails
	closeVar   string // local bound to the result of p.Close() ("" = none yet)
	closeNil   bool
	closes     int  // number of close(sink) executed
	calls      int  // number of p.Close() executed
	res        string
	returned   bool
	unsupp     string
	nilCall    bool // p.Close() called although it is nil
	sinkExpr   string
	closeField string
}

type provloopsFin struct {
	t *tr
	p *packages.Package
}

func (x *provloopsFin) src(n ast.Node) string { return provloopsSrcText(x.p, n) }

// cond decides a condition on the current path; ok=false = not decidable here
func (x *provloopsFin) cond(e ast.Expr, env *provloopsFinEnv) (bool, bool) {
	switch v := e.(type) {
	case *ast.ParenExpr:
		return x.cond(v.X, env)
	case *ast.UnaryExpr:
		if v.Op == token.NOT {
			b, ok := x.cond(v.X, env)
			return !b, ok
		}
	case *ast.BinaryExpr:
		switch v.Op {
		case token.LAND, token.LOR:
			l, ok1 := x.cond(v.X, env)
			r, ok2 := x.cond(v.Y, env)
			if !ok1 || !ok2 {
				return false, false
			}
			if v.Op == token.LAND {
				return l && r, true
			}
			return l || r, true
		case token.EQL, token.NEQ:
			l, r := x.src(v.X), x.src(v.Y)
			if l == "nil" {
				l, r = r, l
			}
			if r != "nil" {
				return false, false
			}
			var isNil bool
			switch {
			case l == "err":
				isNil = env.errNil
			case l == env.closeField:
				isNil = env.cl == "absent"
			case env.closeVar != "" && l == env.closeVar:
				isNil = env.closeNil
			default:
				return false, false
			}
			if v.Op == token.NEQ {
				return !isNil, true
			}
			return isNil, true
		}
	}
	return false, false
}

func (x *provloopsFin) isCloseCall(e ast.Expr, env *provloopsFinEnv) bool {
	c, ok := e.(*ast.CallExpr)
	return ok && len(c.Args) == 0 && x.src(c.Fun) == env.closeField
}

func (x *provloopsFin) callClose(env *provloopsFinEnv) {
	env.calls++
	if env.cl == "absent" {
		env.nilCall = true
	}
}

func (x *provloopsFin) exec(stmts []ast.Stmt, env *provloopsFinEnv) {
	for _, s := range stmts {
		if env.returned || env.unsupp != "" {
			return
		}
		switch v := s.(type) {
		case *ast.ReturnStmt:
			if len(v.Results) != 0 {
				env.unsupp = "return with results in the deferred function"
			}
			env.returned = true
		case *ast.ExprStmt:
			if c, ok := v.X.(*ast.CallExpr); ok {
				if id, ok := c.Fun.(*ast.Ident); ok && id.Name == "close" && len(c.Args) == 1 && x.src(c.Args[0]) == env.sinkExpr {
					env.closes++
					continue
				}
				if x.isCloseCall(c, env) {
					x.callClose(env)
					continue
				}
			}
			env.unsupp = "statement " + x.src(s)
		case *ast.AssignStmt:
			if len(v.Lhs) == 1 && len(v.Rhs) == 1 {
				lhs := x.src(v.Lhs[0])
				// <local> := p.Close()
				if x.isCloseCall(v.Rhs[0], env) && lhs != "err" {
					x.callClose(env)
					if lhs != "_" {
						env.closeVar, env.closeNil = lhs, env.cl != "fails"
					}
					continue
				}
				if lhs == "err" && v.Tok == token.ASSIGN {
					rhs := x.src(v.Rhs[0])
					// err = errors.Join(err, p.Close()) / errors.Join(err, <close error>): nil operands are dropped
					if c, ok := v.Rhs[0].(*ast.CallExpr); ok && x.src(c.Fun) == "errors.Join" && len(c.Args) == 2 && x.src(c.Args[0]) == "err" {
						closeNil, okArg := env.closeNil, env.closeVar != "" && x.src(c.Args[1]) == env.closeVar
						if x.isCloseCall(c.Args[1], env) {
							x.callClose(env)
							closeNil, okArg = env.cl != "fails", true
						}
						if okArg {
							switch {
							case closeNil && env.errNil: // errors.Join(nil, nil) = nil
							case closeNil: // a new error value around err: not the same error for errutil.IsCtxError
								env.res = "wrapped"
							case env.errNil:
								env.res, env.errNil = "closeErr", false
							default:
								env.res = "both"
							}
							continue
						}
					}
					switch {
					case env.closeVar != "" && rhs == env.closeVar:
						if env.closeNil {
							env.res, env.errNil = "nilled", true
						} else {
							env.res, env.errNil = "closeErr", false
						}
						continue
					case env.closeVar != "" && provloopsFinMentions(v.Rhs[0], "err") && provloopsFinMentions(v.Rhs[0], env.closeVar):
						if _, isCall := v.Rhs[0].(*ast.CallExpr); isCall {
							if env.errNil || env.closeNil {
								env.unsupp = "merge of errors on a path where one of them is nil: " + rhs
							} else {
								env.res = "both"
							}
							continue
						}
					case rhs == "nil":
						env.res, env.errNil = "nilled", true
						continue
					}
				}
			}
			env.unsupp = "statement " + x.src(s)
		case *ast.IfStmt:
			if v.Init != nil {
				x.exec([]ast.Stmt{v.Init}, env)
				if env.unsupp != "" {
					return
				}
			}
			b, ok := x.cond(v.Cond, env)
			if !ok {
				env.unsupp = "condition " + x.src(v.Cond)
				return
			}
			if b {
				x.exec(v.Body.List, env)
			} else if v.Else != nil {
				switch e := v.Else.(type) {
				case *ast.BlockStmt:
					x.exec(e.List, env)
				case *ast.IfStmt:
					x.exec([]ast.Stmt{e}, env)
				}
			}
		case *ast.DeferStmt:
			// a defer inside the deferred function: runs when that function is left, on every path that reached it
			if id, ok := v.Call.Fun.(*ast.Ident); ok && id.Name == "close" && len(v.Call.Args) == 1 && x.src(v.Call.Args[0]) == env.sinkExpr {
				env.closes++
				continue
			}
			env.unsupp = "statement " + x.src(s)
		case *ast.BlockStmt:
			x.exec(v.List, env)
		case *ast.EmptyStmt:
		default:
			env.unsupp = "statement " + x.src(s)
		}
	}
}

func provloopsFinMentions(e ast.Expr, name string) bool {
	found := false
	ast.Inspect(e, func(n ast.Node) bool {
		if id, ok := n.(*ast.Ident); ok && id.Name == name {
			found = true
		}
		return true
	})
	return found
}

// provloopsDeferIndex: index of the first top-level defer statement that closes `sink` (directly or in a literal)
func (x *provloopsFin) deferOf(fd *ast.FuncDecl, sink string) (int, *ast.FuncLit) {
	for i, s := range fd.Body.List {
		d, ok := s.(*ast.DeferStmt)
		if !ok {
			continue
		}
		if id, ok := d.Call.Fun.(*ast.Ident); ok && id.Name == "close" && len(d.Call.Args) == 1 && x.src(d.Call.Args[0]) == sink {
			return i, nil
		}
		if fl, ok := d.Call.Fun.(*ast.FuncLit); ok {
			has := false
			ast.Inspect(fl, func(n ast.Node) bool {
				if c, ok := n.(*ast.CallExpr); ok {
					if id, ok := c.Fun.(*ast.Ident); ok && id.Name == "close" && len(c.Args) == 1 && x.src(c.Args[0]) == sink {
						has = true
					}
				}
				return true
			})
			if has {
				return i, fl
			}
		}
	}
	return -1, nil
}

// deferFirst: no statement before index i can leave the function (return, panic, a call whose failure returns):
// only plain assignments of fields / other defer statements are allowed there
func (x *provloopsFin) deferFirst(fd *ast.FuncDecl, i int) bool {
	if i < 0 {
		return false
	}
	for _, s := range fd.Body.List[:i] {
		switch v := s.(type) {
		case *ast.DeferStmt:
		case *ast.DeclStmt: // const op = "…"
		case *ast.AssignStmt:
			if provloopsHasJump(v) {
				return false
			}
			for _, r := range v.Rhs {
				if _, isCall := r.(*ast.CallExpr); isCall {
					return false
				}
			}
		default:
			return false
		}
	}
	return true
}

func provloopsFinish(t *tr, load func(string) *packages.Package) string {
	var b strings.Builder
	// ------------------------------------------------------------ http Provider.Run
	{
		x := &provloopsFin{t: t, p: t.pkg}
		fd := provloopsMethod(t.pkg, "Provider", "Run")
		if fd == nil {
			t.errs = append(t.errs, "provloops: (*Provider).Run not found")
		} else {
			idx, fl := x.deferOf(fd, "p.Sink")
			fmt.Fprintf(&b, "/-- regenerated from `components/providers/http/provider/provider.go` Run: the deferred cleanup is registered before anything can leave Run -/\ndef httpRunDeferFirst : Bool := %v\n\n", x.deferFirst(fd, idx))
			b.WriteString("/-- regenerated from Run by executing the deferred function on each of its paths (`errNil` = the loop's result is nil; `cl` = what\np.Close is / returns): does it close p.Sink, does it call p.Close, what becomes of the result -/\n")
			b.WriteString("def httpRunFinish (errNil : Bool) (cl : CloseOut) : Fin :=\n  match errNil, cl with\n")
			for _, errNil := range []bool{true, false} {
				for _, cl := range []string{"absent", "ok", "fails"} {
					line := ""
					if fl == nil {
						line = provloopsFinFail(t, x.p, fd, "Run does not defer a function literal that closes p.Sink")
					} else {
						env := &provloopsFinEnv{errNil: errNil, cl: cl, res: "keep", sinkExpr: "p.Sink", closeField: "p.Close"}
						x.exec(fl.Body.List, env)
						switch {
						case env.unsupp != "":
							line = provloopsFinFail(t, x.p, fl, "deferred function of Run (err nil: %v, Close %s): %s", errNil, cl, env.unsupp)
						case env.nilCall:
							line = provloopsFinFail(t, x.p, fl, "deferred function of Run calls p.Close although it is nil (panic)")
						case env.closes > 1:
							line = provloopsFinFail(t, x.p, fl, "deferred function of Run closes p.Sink twice on one path (panic)")
						case env.calls > 1:
							line = provloopsFinFail(t, x.p, fl, "deferred function of Run calls p.Close twice on one path")
						case env.res == "nilled":
							line = provloopsFinFail(t, x.p, fl, "deferred function of Run drops the loop's error (err nil: %v, Close %s)", errNil, cl)
						default:
							line = fmt.Sprintf("⟨%v, %v, FinKind.%s⟩", env.closes == 1, env.calls == 1, env.res)
						}
					}
					fmt.Fprintf(&b, "  | %v, CloseOut.%s => %s\n", errNil, cl, line)
				}
			}
			b.WriteString("\n")
		}
	}
	// ------------------------------------------------------------ scenario Run
	{
		p := load("github.com/yandex/pandora/components/providers/scenario")
		x := &provloopsFin{t: t, p: p}
		if fd := provloopsMethod(p, "Provider", "Run"); fd != nil {
			idx, _ := x.deferOf(fd, "p.sink")
			fmt.Fprintf(&b, "/-- regenerated from `components/providers/scenario/provider.go` Run: the deferred cleanup is registered before anything can leave Run -/\ndef scenarioRunDeferFirst : Bool := %v\n\n", x.deferFirst(fd, idx))
		}
	}
	// ------------------------------------------------------------ grpc Provider.Run + grpcjson start
	{
		p := load("github.com/yandex/pandora/components/providers/grpc")
		x := &provloopsFin{t: t, p: p}
		if fd := provloopsMethod(p, "Provider", "Run"); fd != nil {
			idx, _ := x.deferOf(fd, "p.Sink")
			drops := false
			for _, s := range fd.Body.List {
				if d, ok := s.(*ast.DeferStmt); ok && x.src(d.Call) == "file.Close()" {
					drops = true
				}
			}
			fmt.Fprintf(&b, "/-- regenerated from `components/providers/grpc/provider.go` Run: `defer close(p.Sink)` precedes every way out (also a failing open);\nthe result of `file.Close()` is dropped (a bare `defer file.Close()`) -/\ndef grpcRunDeferFirst : Bool := %v\ndef grpcRunDropsClose : Bool := %v\n\n", x.deferFirst(fd, idx), drops)
		}
		gp := load("github.com/yandex/pandora/components/providers/grpc/grpcjson")
		gx := &provloopsFin{t: t, p: gp}
		readErr, seekErr := "RunRes.nil", "RunRes.nil"
		if fd := provloopsMethod(gp, "Provider", "start"); fd != nil {
			// err := scanner.Err(); if err != nil { return <non-nil> }   /   _, err = ammoFile.Seek(0, 0); if err != nil { return <non-nil> }
			ast.Inspect(fd, func(n ast.Node) bool {
				blk, ok := n.(*ast.BlockStmt)
				if !ok {
					return true
				}
				for i := 0; i+1 < len(blk.List); i++ {
					as, ok := blk.List[i].(*ast.AssignStmt)
					if !ok || len(as.Rhs) != 1 {
						continue
					}
					rhs := gx.src(as.Rhs[0])
					is, ok := blk.List[i+1].(*ast.IfStmt)
					if !ok || gx.src(is.Cond) != "err != nil" || len(is.Body.List) != 1 {
						continue
					}
					r, ok := is.Body.List[0].(*ast.ReturnStmt)
					if !ok || len(r.Results) != 1 || gx.src(r.Results[0]) == "nil" {
						continue
					}
					if rhs == "scanner.Err()" {
						readErr = "RunRes.errOther"
					}
					if strings.HasPrefix(rhs, "ammoFile.Seek(") {
						seekErr = "RunRes.errOther"
					}
				}
				return true
			})
		}
		fmt.Fprintf(&b, "/-- regenerated from `components/providers/grpc/grpcjson/provider.go` start: what a read error of the scanner / a failing Seek ends `start` with -/\ndef grpcReadErr : RunRes := %s\ndef grpcSeekErr : RunRes := %s\n\n", readErr, seekErr)
	}
	// ------------------------------------------------------------ DecodeProvider.Run
	{
		p := load("github.com/yandex/pandora/core/provider")
		x := &provloopsFin{t: t, p: p}
		if fd := provloopsMethod(p, "DecodeProvider", "Run"); fd != nil {
			idx, _ := x.deferOf(fd, "p.OutQueue")
			// the deferred literal around source.Close() must not assign the named result
			drops := false
			for _, s := range fd.Body.List {
				d, ok := s.(*ast.DeferStmt)
				if !ok {
					continue
				}
				fl, ok := d.Call.Fun.(*ast.FuncLit)
				if !ok || !strings.Contains(x.src(fl), "source.Close()") {
					continue
				}
				assigns := false
				ast.Inspect(fl, func(n ast.Node) bool {
					if as, ok := n.(*ast.AssignStmt); ok {
						for _, l := range as.Lhs {
							if x.src(l) == "err" {
								assigns = true
							}
						}
					}
					return true
				})
				drops = !assigns
			}
			onErr := "RunRes.nil"
			if loop := provloopsForBody(fd); loop != nil {
				for _, s := range loop.Body.List {
					is, ok := s.(*ast.IfStmt)
					if !ok || x.src(is.Cond) != "err != nil" || len(is.Body.List) != 1 {
						continue
					}
					if r, ok := is.Body.List[0].(*ast.ReturnStmt); ok && len(r.Results) == 1 && x.src(r.Results[0]) != "nil" {
						onErr = "RunRes.errOther"
					}
				}
			}
			fmt.Fprintf(&b, "/-- regenerated from `core/provider/decoder.go` DecodeProvider.Run: `defer close(p.OutQueue)` precedes every way out (also a failing\nOpenSource); the deferred function around source.Close() does not touch the result; a Decode error that is not io.EOF ends Run with … -/\n"+
				"def decodeRunDeferFirst : Bool := %v\ndef decodeRunDropsClose : Bool := %v\ndef decodeOnErr : RunRes := %s\n\n", x.deferFirst(fd, idx), drops, onErr)
		}
	}
	return b.String()
}

// provloopsFinClosesAll: the deferred function of http Run closes p.Sink exactly once on each of its six paths
// (wherever the close statement stands: at the top level of the literal, in a branch, in a nested defer)
func provloopsFinClosesAll(p *packages.Package, fd *ast.FuncDecl) bool {
	x := &provloopsFin{p: p}
	_, fl := x.deferOf(fd, "p.Sink")
	if fl == nil {
		return false
	}
	for _, errNil := range []bool{true, false} {
		for _, cl := range []string{"absent", "ok", "fails"} {
			env := &provloopsFinEnv{errNil: errNil, cl: cl, res: "keep", sinkExpr: "p.Sink", closeField: "p.Close"}
			x.exec(fl.Body.List, env)
			if env.unsupp != "" || env.nilCall || env.closes != 1 {
				return false
			}
		}
	}
	return true
}

func provloopsFinFail(t *tr, p *packages.Package, n ast.Node, format string, a ...any) string {
	msg := fmt.Sprintf("%s: unsupported (provloops finish): %s", p.Fset.Position(n.Pos()), fmt.Sprintf(format, a...))
	t.errs = append(t.errs, msg)
	return "(UNSUPPORTED)"
}
