package main

// Area "instloop" (property C03), third part: the COMPOSITE profile (core/schedule/composite.go) as the engine's
// instances use it — counted in tokens, at the granularity of its lock sections.
//
//	(*compositeSchedule).Next    -> compNextPrologue (what it does before RLock), compNextReader, compNextWriter:
//	                                the reader section (RLock … return | the point before Lock) and the writer section
//	                                (Lock … return | `return s.Next()`) as Lean functions over the list of parts
//	                                (`List Nat`: tokens left per part), in continuation style, control and data flow as
//	                                they are in the source.  Vocabulary (lean/Pandora/Model/C03Comp.lean):
//	                                   _, ok = s.scheds[0].Next()      cHeadNext s fun s ok =>
//	                                   len(s.scheds)                   cLen s
//	                                   s.startNext(_)                  cStartNext s fun s =>
//	                                   return [tx, ok]                 (s, .ret ok)
//	                                   return s.Next()                 (s, .retry)
//	                                   s.rwMu.Lock()  (reader part)    (s, .wait (Int.toNat <the one int carried over>))
//	                                The lock state is tracked along every path: a child call or a read of `scheds`
//	                                without the lock, `startNext` without the write lock, a return / the hook / `Lock`
//	                                while a lock is held are NOT translated (`cUnsupported`, which the bridge rejects).
//	(*compositeSchedule).Left    -> compLeftReads (what its reader section reads, under RLock), compLeftDecide: the
//	                                decision after the reader section as a function of those three integers and
//	                                `started.Load()`; the block that takes the write lock is `.toWriter`.
//	(*compositeSchedule).startNext -> compStartNext: its statements (a set: sorted)
//	NewComposite                 -> compBuildLoop (the loop header), compBuildStep: the loop body as a function
//	                                (accumulator, unknown, Left() of part i) -> (leftAfter[i], unknown', accumulator')
//
// Locals are identified by their objects (renaming does not matter), logging / hook calls are dropped.

import (
	"fmt"
	"go/ast"
	"go/token"
	"go/types"
	"sort"
	"strconv"
	"strings"

	"golang.org/x/tools/go/packages"
)

type instloopCompX struct {
	*instloopW
	info    *types.Info
	recvObj types.Object
	names   map[types.Object]string
	isB     map[types.Object]bool
	resOk   types.Object
	resTx   types.Object
	readerI []types.Object // int locals defined in the reader part
	rest    []ast.Stmt     // the statements after `Lock()`
	seen    types.Object
	tmp     int
	method  string
}

func (x *instloopCompX) obj(id *ast.Ident) types.Object {
	if o := x.info.Uses[id]; o != nil {
		return o
	}
	return x.info.Defs[id]
}

func (x *instloopCompX) unsupported(n ast.Node, what string) string {
	return "cUnsupported s " + instloopStr(what+": "+x.src(n))
}

func (x *instloopCompX) fresh(base string) string {
	x.tmp++
	return fmt.Sprintf("%s_%d", mangle(base), x.tmp)
}

// isRecvSel: `<recv>.<field>`
func (x *instloopCompX) isRecvSel(e ast.Expr, field string) bool {
	se, ok := e.(*ast.SelectorExpr)
	if !ok || se.Sel.Name != field {
		return false
	}
	id, ok := se.X.(*ast.Ident)
	return ok && x.recvObj != nil && x.obj(id) == x.recvObj
}

// isHead: `<recv>.scheds[0]`
func (x *instloopCompX) isIndex0(e ast.Expr, field string) bool {
	ix, ok := e.(*ast.IndexExpr)
	if !ok || !x.isRecvSel(ix.X, field) {
		return false
	}
	tv, ok := x.info.Types[ix.Index]
	return ok && tv.Value != nil && tv.Value.ExactString() == "0"
}

// isHeadCall: `<recv>.scheds[0].<m>()`
func (x *instloopCompX) isHeadCall(e ast.Expr, m string) bool {
	c, ok := e.(*ast.CallExpr)
	if !ok || len(c.Args) != 0 {
		return false
	}
	se, ok := c.Fun.(*ast.SelectorExpr)
	return ok && se.Sel.Name == m && x.isIndex0(se.X, "scheds")
}

// isLenScheds: `len(<recv>.scheds)`
func (x *instloopCompX) isLenScheds(e ast.Expr) bool {
	c, ok := e.(*ast.CallExpr)
	if !ok || len(c.Args) != 1 {
		return false
	}
	id, ok := c.Fun.(*ast.Ident)
	return ok && id.Name == "len" && x.isRecvSel(c.Args[0], "scheds")
}

// lockCall: "RLock" | "RUnlock" | "Lock" | "Unlock" on <recv>.rwMu, or ""
func (x *instloopCompX) lockCall(s ast.Stmt) string {
	es, ok := s.(*ast.ExprStmt)
	if !ok {
		return ""
	}
	c, ok := es.X.(*ast.CallExpr)
	if !ok || len(c.Args) != 0 {
		return ""
	}
	se, ok := c.Fun.(*ast.SelectorExpr)
	if !ok || !x.isRecvSel(se.X, "rwMu") {
		return ""
	}
	switch se.Sel.Name {
	case "RLock", "RUnlock", "Lock", "Unlock":
		return se.Sel.Name
	}
	return ""
}

func (x *instloopCompX) isHook(s ast.Stmt) bool {
	es, ok := s.(*ast.ExprStmt)
	return ok && strings.HasPrefix(x.src(es), "verifhook.At(")
}

func (x *instloopCompX) intLit(e ast.Expr) (string, bool) {
	tv, ok := x.info.Types[e]
	if ok && tv.Value != nil && isInt(tv.Type) {
		v := tv.Value.ExactString()
		if strings.HasPrefix(v, "-") {
			return "(" + v + " : Int)", true
		}
		return "(" + v + " : Int)", true
	}
	return "", false
}

// ival: an integer expression over the known locals; reads of `len(scheds)` need a lock
func (x *instloopCompX) ival(e ast.Expr, held string) (string, bool) {
	if s, ok := x.intLit(e); ok {
		return s, true
	}
	switch v := e.(type) {
	case *ast.ParenExpr:
		return x.ival(v.X, held)
	case *ast.Ident:
		if nm, ok := x.names[x.obj(v)]; ok && !x.isB[x.obj(v)] {
			return nm, true
		}
	case *ast.CallExpr:
		if x.isLenScheds(v) && held != "" {
			return "cLen s", true
		}
	case *ast.BinaryExpr:
		op := map[token.Token]string{token.ADD: "+", token.SUB: "-"}[v.Op]
		if op != "" {
			a, ok1 := x.ival(v.X, held)
			b, ok2 := x.ival(v.Y, held)
			if ok1 && ok2 {
				return "(" + a + " " + op + " " + b + ")", true
			}
		}
	}
	return "", false
}

func (x *instloopCompX) cond(e ast.Expr, held string) (string, bool) {
	switch v := e.(type) {
	case *ast.ParenExpr:
		return x.cond(v.X, held)
	case *ast.Ident:
		if nm, ok := x.names[x.obj(v)]; ok && x.isB[x.obj(v)] {
			return nm, true
		}
		if v.Name == "true" || v.Name == "false" {
			return v.Name, true
		}
	case *ast.UnaryExpr:
		if v.Op == token.NOT {
			if c, ok := x.cond(v.X, held); ok {
				return "(!" + c + ")", true
			}
		}
	case *ast.CallExpr:
		// `<recv>.started.Load()` (Left only)
		if se, ok := v.Fun.(*ast.SelectorExpr); ok && se.Sel.Name == "Load" && len(v.Args) == 0 && x.isRecvSel(se.X, "started") {
			return "started", true
		}
	case *ast.BinaryExpr:
		switch v.Op {
		case token.LOR, token.LAND:
			a, ok1 := x.cond(v.X, held)
			b, ok2 := x.cond(v.Y, held)
			if ok1 && ok2 {
				return "(" + a + map[token.Token]string{token.LOR: " || ", token.LAND: " && "}[v.Op] + b + ")", true
			}
			return "", false
		}
		op := map[token.Token]string{token.LSS: "<", token.LEQ: "≤", token.GTR: ">", token.GEQ: "≥", token.EQL: "=", token.NEQ: "≠"}[v.Op]
		if op != "" && isInt(x.info.TypeOf(v.X)) {
			a, ok1 := x.ival(v.X, held)
			b, ok2 := x.ival(v.Y, held)
			if ok1 && ok2 {
				return "decide (" + a + " " + op + " " + b + ")", true
			}
		}
	}
	return "", false
}

func instloopTerminal(body []ast.Stmt) bool {
	if len(body) == 0 {
		return false
	}
	switch last := body[len(body)-1].(type) {
	case *ast.ReturnStmt:
		return true
	case *ast.ExprStmt:
		if c, ok := last.X.(*ast.CallExpr); ok {
			if id, ok := c.Fun.(*ast.Ident); ok && id.Name == "panic" {
				return true
			}
		}
	}
	return false
}

func (x *instloopCompX) uses(list []ast.Stmt, o types.Object) bool {
	found := false
	for _, st := range list {
		ast.Inspect(st, func(n ast.Node) bool {
			if id, ok := n.(*ast.Ident); ok && x.info.Uses[id] == o {
				found = true
			}
			return !found
		})
	}
	return found
}

// assign: `a, b [:]= child.Next()` / `v := <int>` / `v := <cond>`
func (x *instloopCompX) assign(as *ast.AssignStmt, ind string, writer bool, held string) (string, bool) {
	if len(as.Lhs) == 2 && len(as.Rhs) == 1 && x.isHeadCall(as.Rhs[0], "Next") {
		if held == "" {
			return "", false
		}
		id, ok := as.Lhs[1].(*ast.Ident)
		if !ok {
			return "", false
		}
		if _, ok := as.Lhs[0].(*ast.Ident); !ok {
			return "", false
		}
		var nm string
		if as.Tok == token.DEFINE && x.info.Defs[id] != nil {
			o := x.info.Defs[id]
			nm = x.fresh(id.Name)
			x.names[o] = nm
			x.isB[o] = true
		} else {
			o := x.obj(id)
			n, ok := x.names[o]
			if !ok || !x.isB[o] {
				return "", false
			}
			nm = n
		}
		return ind + "cHeadNext s fun s " + nm + " =>\n", true
	}
	if len(as.Lhs) == 1 && len(as.Rhs) == 1 && as.Tok == token.DEFINE {
		id, ok := as.Lhs[0].(*ast.Ident)
		if !ok || x.info.Defs[id] == nil {
			return "", false
		}
		o := x.info.Defs[id]
		switch {
		case isInt(o.Type()):
			rhs, ok := x.ival(as.Rhs[0], held)
			if !ok {
				return "", false
			}
			nm := x.fresh(id.Name)
			x.names[o] = nm
			if !writer {
				x.readerI = append(x.readerI, o)
			}
			return ind + "let " + nm + " : Int := " + rhs + "\n", true
		case isBool(o.Type()):
			rhs, ok := x.cond(as.Rhs[0], held)
			if !ok {
				return "", false
			}
			nm := x.fresh(id.Name)
			x.names[o] = nm
			x.isB[o] = true
			return ind + "let " + nm + " : Bool := " + rhs + "\n", true
		}
	}
	return "", false
}

// stmts: the rest of a path of Next, with the lock held on it ("" | "R" | "W")
func (x *instloopCompX) stmts(list []ast.Stmt, ind string, writer bool, held string) string {
	if len(list) == 0 {
		return ind + "cUnsupported s " + instloopStr("control reaches the end of "+x.method)
	}
	s0, rest := list[0], list[1:]
	if x.isHook(s0) {
		if held != "" {
			return ind + x.unsupported(s0, "scheduling point with a lock held")
		}
		return x.stmts(rest, ind, writer, held)
	}
	switch x.lockCall(s0) {
	case "RUnlock":
		if held != "R" {
			return ind + x.unsupported(s0, "RUnlock without RLock")
		}
		return x.stmts(rest, ind, writer, "")
	case "Unlock":
		if held != "W" {
			return ind + x.unsupported(s0, "Unlock without Lock")
		}
		return x.stmts(rest, ind, writer, "")
	case "RLock":
		return ind + x.unsupported(s0, "a second reader section")
	case "Lock":
		if writer || held != "" {
			return ind + x.unsupported(s0, "Lock inside a section")
		}
		var live []types.Object
		for _, o := range x.readerI {
			if x.uses(rest, o) {
				live = append(live, o)
			}
		}
		if len(live) != 1 || x.rest != nil {
			return ind + x.unsupported(s0, fmt.Sprintf("expected one path to Lock carrying exactly one integer, got %d", len(live)))
		}
		x.seen = live[0]
		x.rest = rest
		return ind + "(s, .wait (Int.toNat " + x.names[live[0]] + "))"
	}
	switch v := s0.(type) {
	case *ast.ExprStmt:
		if c, ok := v.X.(*ast.CallExpr); ok {
			if se, ok := c.Fun.(*ast.SelectorExpr); ok && se.Sel.Name == "startNext" && len(c.Args) == 1 {
				if id, ok := se.X.(*ast.Ident); ok && x.obj(id) == x.recvObj {
					if held != "W" {
						return ind + x.unsupported(s0, "startNext without the write lock")
					}
					return ind + "cStartNext s fun s =>\n" + x.stmts(rest, ind, writer, held)
				}
			}
		}
		return ind + x.unsupported(s0, "statement")
	case *ast.AssignStmt:
		if l, ok := x.assign(v, ind, writer, held); ok {
			return l + x.stmts(rest, ind, writer, held)
		}
		return ind + x.unsupported(s0, "assignment")
	case *ast.IfStmt:
		if v.Else != nil || v.Init != nil {
			return ind + x.unsupported(s0, "if with else / initialiser")
		}
		c, ok := x.cond(v.Cond, held)
		if !ok {
			return ind + x.unsupported(v.Cond, "condition")
		}
		body := v.Body.List
		if !instloopTerminal(body) {
			body = append(append([]ast.Stmt{}, body...), rest...)
		}
		return ind + "if " + c + " then\n" + x.stmts(body, ind+"  ", writer, held) + "\n" + ind + "else\n" + x.stmts(rest, ind+"  ", writer, held)
	case *ast.ReturnStmt:
		if held != "" {
			return ind + x.unsupported(s0, "return with a lock held")
		}
		switch len(v.Results) {
		case 0:
			return ind + "(s, .ret " + x.names[x.resOk] + ")"
		case 1:
			if c, ok := v.Results[0].(*ast.CallExpr); ok && len(c.Args) == 0 {
				if se, ok := c.Fun.(*ast.SelectorExpr); ok && se.Sel.Name == x.method {
					if id, ok := se.X.(*ast.Ident); ok && x.obj(id) == x.recvObj {
						return ind + "(s, .retry)"
					}
				}
			}
		case 2:
			if c, ok := x.cond(v.Results[1], held); ok {
				return ind + "(s, .ret " + c + ")"
			}
		}
		return ind + x.unsupported(s0, "return")
	}
	return ind + x.unsupported(s0, fmt.Sprintf("%T", s0))
}

func instloopCompNext(t *tr, sp *packages.Package) string {
	var b strings.Builder
	w := &instloopW{t: t, pkg: sp}
	x := &instloopCompX{instloopW: w, info: sp.TypesInfo, names: map[types.Object]string{}, isB: map[types.Object]bool{}, method: "Next"}
	bad := func(why string) string {
		return "/-- regenerated from `core/schedule/composite.go` `(*compositeSchedule).Next`: NOT READ (" + why + ") -/\n" +
			"def compNextPrologue : List String := [" + instloopStr(why) + "]\n" +
			"def compNextReader (s : List Nat) : List Nat × SecOut := cUnsupported s " + instloopStr(why) + "\n" +
			"def compNextWriter (s : List Nat) (seen : Nat) : List Nat × SecOut := cUnsupported s " + instloopStr(why) + "\n\n"
	}
	fd := instloopFindMethod(sp, "compositeSchedule", "Next")
	if fd == nil || len(fd.Recv.List[0].Names) != 1 {
		return bad("method not found")
	}
	x.recvObj = x.info.Defs[fd.Recv.List[0].Names[0]]
	var res []types.Object
	if fd.Type.Results != nil {
		for _, f := range fd.Type.Results.List {
			for _, nm := range f.Names {
				res = append(res, x.info.Defs[nm])
			}
		}
	}
	if len(res) != 2 || !isBool(res[1].Type()) {
		return bad("named results (time, bool) expected")
	}
	x.resTx, x.resOk = res[0], res[1]
	x.names[res[1]] = "ok"
	x.isB[res[1]] = true
	var pro []string
	i := 0
	for ; i < len(fd.Body.List); i++ {
		if x.lockCall(fd.Body.List[i]) == "RLock" {
			i++
			break
		}
		if x.isHook(fd.Body.List[i]) {
			continue
		}
		pro = append(pro, instloopStr(strings.Replace(x.src(fd.Body.List[i]), x.recvObj.Name()+".", "$.", 1)))
	}
	fmt.Fprintf(&b, "/-- regenerated from `core/schedule/composite.go` `(*compositeSchedule).Next`: what it does before `RLock` -/\ndef compNextPrologue : List String := [%s]\n\n", strings.Join(pro, ", "))
	reader := x.stmts(fd.Body.List[i:], "  ", false, "R")
	b.WriteString("/-- … its READER section on the list of parts: from `RLock` to the return, or to the point before `Lock` with the\n`len(s.scheds)` it has seen (`.wait`) -/\n")
	b.WriteString("def compNextReader (s : List Nat) : List Nat × SecOut :=\n  let ok : Bool := false\n" + reader + "\n\n")
	b.WriteString("/-- … and its WRITER section: from `Lock` to the return or to `return s.Next()` (`.retry`) -/\n")
	if x.rest == nil {
		b.WriteString("def compNextWriter (s : List Nat) (seen : Nat) : List Nat × SecOut := cUnsupported s \"no path reaches Lock\"\n\n")
		return b.String()
	}
	b.WriteString("def compNextWriter (s : List Nat) (seen : Nat) : List Nat × SecOut :=\n  let ok : Bool := false\n")
	b.WriteString("  let " + x.names[x.seen] + " : Int := (seen : Int)\n")
	b.WriteString(x.stmts(x.rest, "  ", true, "W") + "\n\n")
	return b.String()
}

// ---------------------------------------------------------------- Left: the decision after the reader section

func (x *instloopCompX) leftStmts(list []ast.Stmt, ind string) string {
	if len(list) == 0 {
		return ind + ".unsupported " + instloopStr("control reaches the end")
	}
	s0, rest := list[0], list[1:]
	if x.isHook(s0) {
		return x.leftStmts(rest, ind)
	}
	if x.lockCall(s0) == "Lock" {
		return ind + ".toWriter"
	}
	switch v := s0.(type) {
	case *ast.IfStmt:
		if v.Else != nil || v.Init != nil {
			return ind + ".unsupported " + instloopStr("if with else / initialiser: "+x.src(v.Cond))
		}
		c, ok := x.cond(v.Cond, "")
		if !ok {
			return ind + ".unsupported " + instloopStr("condition: "+x.src(v.Cond))
		}
		body := v.Body.List
		// a block that goes on to the write lock never falls through (`return s.Left()` ends it)
		if !instloopTerminal(body) {
			body = append(append([]ast.Stmt{}, body...), rest...)
		}
		return ind + "if " + c + " then\n" + x.leftStmts(body, ind+"  ") + "\n" + ind + "else\n" + x.leftStmts(rest, ind+"  ")
	case *ast.ReturnStmt:
		if len(v.Results) == 1 {
			if iv, ok := x.ival(v.Results[0], ""); ok {
				return ind + ".ret " + iv
			}
		}
		return ind + ".unsupported " + instloopStr("return: "+x.src(s0))
	}
	return ind + ".unsupported " + instloopStr(x.src(s0))
}

func instloopCompLeft(t *tr, sp *packages.Package) string {
	var b strings.Builder
	w := &instloopW{t: t, pkg: sp}
	x := &instloopCompX{instloopW: w, info: sp.TypesInfo, names: map[types.Object]string{}, isB: map[types.Object]bool{}, method: "Left"}
	bad := func(why string) string {
		return "/-- regenerated from `(*compositeSchedule).Left`: NOT READ (" + why + ") -/\n" +
			"def compLeftReads : List String := [" + instloopStr(why) + "]\n" +
			"def compLeftDecide (schedsLeft leftAfter left : Int) (started : Bool) : LeftOut := .unsupported " + instloopStr(why) + "\n\n"
	}
	fd := instloopFindMethod(sp, "compositeSchedule", "Left")
	if fd == nil || len(fd.Recv.List[0].Names) != 1 {
		return bad("method not found")
	}
	x.recvObj = x.info.Defs[fd.Recv.List[0].Names[0]]
	list := fd.Body.List
	if len(list) == 0 || x.lockCall(list[0]) != "RLock" {
		return bad("the method does not begin with RLock")
	}
	var reads []string
	k := 1
	for ; k < len(list); k++ {
		if x.lockCall(list[k]) == "RUnlock" {
			k++
			break
		}
		as, ok := list[k].(*ast.AssignStmt)
		if !ok || as.Tok != token.DEFINE || len(as.Lhs) != 1 || len(as.Rhs) != 1 {
			return bad("reader section: " + x.src(list[k]))
		}
		id, ok := as.Lhs[0].(*ast.Ident)
		if !ok || x.info.Defs[id] == nil || !isInt(x.info.Defs[id].Type()) {
			return bad("reader section: " + x.src(list[k]))
		}
		rhs := as.Rhs[0]
		// a conversion `int(…)` of an integer is the identity on the values that occur (C02 has the machine-integer reading)
		if c, ok := rhs.(*ast.CallExpr); ok && len(c.Args) == 1 {
			if tv, ok := x.info.Types[c.Fun]; ok && tv.IsType() && isInt(tv.Type) {
				rhs = c.Args[0]
			}
		}
		var param string
		switch {
		case x.isLenScheds(rhs):
			param = "schedsLeft"
		case x.isIndex0(rhs, "leftAfter"):
			param = "leftAfter"
		case x.isHeadCall(rhs, "Left"):
			param = "left"
		default:
			return bad("reader section reads " + x.src(rhs))
		}
		x.names[x.info.Defs[id]] = param
		reads = append(reads, instloopStr(param))
	}
	sort.Strings(reads)
	b.WriteString("/-- regenerated from `core/schedule/composite.go` `(*compositeSchedule).Left`: what its reader section (`RLock` …\n`RUnlock`, the first statements of the method) reads: `schedsLeft` = `len(s.scheds)`, `leftAfter` = `s.leftAfter[0]`,\n`left` = `s.scheds[0].Left()`; sorted -/\n")
	b.WriteString("def compLeftReads : List String := [" + strings.Join(reads, ", ") + "]\n\n")
	b.WriteString("/-- … and what it decides from them afterwards (no lock held; `started` = `s.started.Load()`); the block that takes the\nwrite lock (tokens after the current part unknown) is `.toWriter` -/\n")
	b.WriteString("def compLeftDecide (schedsLeft leftAfter left : Int) (started : Bool) : LeftOut :=\n" + x.leftStmts(list[k:], "  ") + "\n\n")
	return b.String()
}

// ---------------------------------------------------------------- startNext, NewComposite

// instloopSym: symbolic execution of straight-line assignments with `if` (no else) over integer / boolean locals:
// env maps a local to the Lean expression of its current value.
type instloopSym struct {
	x   *instloopCompX
	env map[types.Object]string
	isB map[types.Object]bool
	ok  bool
	why string
}

func (y *instloopSym) fail(n ast.Node) {
	if y.ok {
		y.ok = false
		y.why = y.x.src(n)
	}
}

func (y *instloopSym) ival(e ast.Expr) string {
	if s, ok := y.x.intLit(e); ok {
		return s
	}
	switch v := e.(type) {
	case *ast.ParenExpr:
		return y.ival(v.X)
	case *ast.Ident:
		if s, ok := y.env[y.x.obj(v)]; ok && !y.isB[y.x.obj(v)] {
			return s
		}
	case *ast.BinaryExpr:
		if op := map[token.Token]string{token.ADD: "+", token.SUB: "-"}[v.Op]; op != "" {
			return "(" + y.ival(v.X) + " " + op + " " + y.ival(v.Y) + ")"
		}
	}
	y.fail(e)
	return "0"
}

func (y *instloopSym) cond(e ast.Expr) string {
	switch v := e.(type) {
	case *ast.ParenExpr:
		return y.cond(v.X)
	case *ast.Ident:
		if s, ok := y.env[y.x.obj(v)]; ok && y.isB[y.x.obj(v)] {
			return s
		}
		if v.Name == "true" || v.Name == "false" {
			return v.Name
		}
	case *ast.UnaryExpr:
		if v.Op == token.NOT {
			return "(!" + y.cond(v.X) + ")"
		}
	case *ast.BinaryExpr:
		switch v.Op {
		case token.LOR:
			return "(" + y.cond(v.X) + " || " + y.cond(v.Y) + ")"
		case token.LAND:
			return "(" + y.cond(v.X) + " && " + y.cond(v.Y) + ")"
		}
		if op := map[token.Token]string{token.LSS: "<", token.LEQ: "≤", token.GTR: ">", token.GEQ: "≥", token.EQL: "=", token.NEQ: "≠"}[v.Op]; op != "" {
			return "decide (" + y.ival(v.X) + " " + op + " " + y.ival(v.Y) + ")"
		}
	}
	y.fail(e)
	return "false"
}

// run executes the statements; `stored` receives the value of an assignment to an element of the slice `sliceObj`.
func (y *instloopSym) run(list []ast.Stmt, sliceObj types.Object, stored *string, guard string) {
	set := func(o types.Object, val string) {
		if guard != "" {
			old := y.env[o]
			val = "(if " + guard + " then " + val + " else " + old + ")"
		}
		y.env[o] = val
	}
	for _, st := range list {
		switch v := st.(type) {
		case *ast.AssignStmt:
			if len(v.Lhs) != 1 || len(v.Rhs) != 1 {
				y.fail(st)
				return
			}
			if ix, ok := v.Lhs[0].(*ast.IndexExpr); ok {
				id, ok := ix.X.(*ast.Ident)
				if !ok || y.x.obj(id) != sliceObj || guard != "" || v.Tok != token.ASSIGN || *stored != "" {
					y.fail(st)
					return
				}
				*stored = y.ival(v.Rhs[0])
				continue
			}
			id, ok := v.Lhs[0].(*ast.Ident)
			if !ok {
				y.fail(st)
				return
			}
			o := y.x.obj(id)
			if o == nil {
				y.fail(st)
				return
			}
			if v.Tok == token.DEFINE {
				if guard != "" {
					y.fail(st)
					return
				}
				// `schedLeft := scheds[i].Left()` is the parameter
				if c, ok := v.Rhs[0].(*ast.CallExpr); ok {
					if se, ok := c.Fun.(*ast.SelectorExpr); ok && se.Sel.Name == "Left" && len(c.Args) == 0 {
						if _, ok := se.X.(*ast.IndexExpr); ok {
							y.env[o] = "partLeft"
							continue
						}
					}
				}
			}
			if _, known := y.env[o]; !known && v.Tok != token.DEFINE {
				y.fail(st)
				return
			}
			switch {
			case isBool(o.Type()):
				y.isB[o] = true
				val := y.cond(v.Rhs[0])
				if v.Tok == token.DEFINE {
					y.env[o] = val
				} else {
					set(o, val)
				}
			case isInt(o.Type()):
				var val string
				switch v.Tok {
				case token.ASSIGN, token.DEFINE:
					val = y.ival(v.Rhs[0])
				case token.ADD_ASSIGN:
					val = "(" + y.env[o] + " + " + y.ival(v.Rhs[0]) + ")"
				case token.SUB_ASSIGN:
					val = "(" + y.env[o] + " - " + y.ival(v.Rhs[0]) + ")"
				default:
					y.fail(st)
					return
				}
				if v.Tok == token.DEFINE {
					y.env[o] = val
				} else {
					set(o, val)
				}
			default:
				y.fail(st)
				return
			}
		case *ast.IfStmt:
			if v.Else != nil || v.Init != nil {
				y.fail(st)
				return
			}
			c := y.cond(v.Cond)
			g := c
			if guard != "" {
				g = "(" + guard + " && " + c + ")"
			}
			y.run(v.Body.List, sliceObj, stored, g)
		default:
			y.fail(st)
			return
		}
	}
}

func instloopCompBuild(t *tr, sp *packages.Package) string {
	var b strings.Builder
	w := &instloopW{t: t, pkg: sp}
	x := &instloopCompX{instloopW: w, info: sp.TypesInfo, names: map[types.Object]string{}, isB: map[types.Object]bool{}}
	// ---- startNext: a set of statements
	var sn []string
	if fd := instloopFindMethod(sp, "compositeSchedule", "startNext"); fd != nil && len(fd.Recv.List[0].Names) == 1 {
		recv := fd.Recv.List[0].Names[0].Name
		arg := ""
		if len(fd.Type.Params.List) == 1 && len(fd.Type.Params.List[0].Names) == 1 {
			arg = fd.Type.Params.List[0].Names[0].Name
		}
		for _, s := range fd.Body.List {
			src := strings.ReplaceAll(x.src(s), recv+".", "$.")
			if arg != "" {
				src = strings.ReplaceAll(src, "("+arg+")", "($t)")
			}
			sn = append(sn, instloopStr(src))
		}
		sort.Strings(sn)
	} else {
		sn = []string{instloopStr("startNext not found")}
	}
	b.WriteString("/-- regenerated from `core/schedule/composite.go` `(*compositeSchedule).startNext`: its statements (receiver `$`, argument\n`$t`; sorted): both slices lose their first element together, the new first part is started -/\n")
	b.WriteString("def compStartNext : List String := [" + strings.Join(sn, ", ") + "]\n\n")

	// ---- NewComposite: the loop that fills leftAfter
	header, step := "loop not found", "(0, false, 0)"
	var fd *ast.FuncDecl
	for _, f := range sp.Syntax {
		for _, d := range f.Decls {
			if g, ok := d.(*ast.FuncDecl); ok && g.Recv == nil && g.Name.Name == "NewComposite" {
				fd = g
			}
		}
	}
	if fd != nil {
		var loop *ast.ForStmt
		n := 0
		for _, s := range fd.Body.List {
			if f, ok := s.(*ast.ForStmt); ok {
				loop = f
				n++
			}
		}
		// the compositeSchedule literal: which locals become scheds / leftAfter
		var leftObj types.Object
		ast.Inspect(fd.Body, func(nd ast.Node) bool {
			if kv, ok := nd.(*ast.KeyValueExpr); ok {
				if k, ok := kv.Key.(*ast.Ident); ok && k.Name == "leftAfter" {
					if id, ok := kv.Value.(*ast.Ident); ok {
						leftObj = x.obj(id)
					}
				}
			}
			return true
		})
		if n == 1 && loop != nil && leftObj != nil {
			hdr := "for"
			if loop.Init != nil {
				hdr += " " + x.src(loop.Init)
			}
			hdr += ";"
			if loop.Cond != nil {
				hdr += " " + x.src(loop.Cond)
			}
			hdr += ";"
			if loop.Post != nil {
				hdr += " " + x.src(loop.Post)
			}
			// the loop variable and the slice of parts by their roles
			if as, ok := loop.Init.(*ast.AssignStmt); ok && len(as.Lhs) == 1 {
				if id, ok := as.Lhs[0].(*ast.Ident); ok {
					hdr = strings.ReplaceAll(" "+hdr+" ", " "+id.Name+" ", " $i ")
					hdr = strings.ReplaceAll(hdr, " "+id.Name+"-", " $i-")
					hdr = strings.TrimSpace(hdr)
				}
			}
			if len(fd.Type.Params.List) == 1 && len(fd.Type.Params.List[0].Names) == 1 {
				hdr = strings.ReplaceAll(hdr, "len("+fd.Type.Params.List[0].Names[0].Name+")", "len($parts)")
			}
			header = hdr
			// the locals the body updates: the int accumulator and the bool latch, found by type among the variables
			// declared before the loop (other than the slice)
			y := &instloopSym{x: x, env: map[types.Object]string{}, isB: map[types.Object]bool{}, ok: true}
			var accs, latches []types.Object
			ast.Inspect(fd.Body, func(nd ast.Node) bool {
				if nd == loop {
					return false
				}
				if vs, ok := nd.(*ast.ValueSpec); ok {
					for _, nm := range vs.Names {
						o := x.info.Defs[nm]
						if o == nil || o == leftObj {
							continue
						}
						switch {
						case isBool(o.Type()):
							latches = append(latches, o)
						case isInt(o.Type()):
							accs = append(accs, o)
						}
					}
				}
				return true
			})
			if len(accs) == 1 && len(latches) == 1 {
				y.env[accs[0]] = "acc"
				y.env[latches[0]] = "unknown"
				y.isB[latches[0]] = true
				stored := ""
				y.run(loop.Body.List, leftObj, &stored, "")
				if y.ok && stored != "" {
					step = "(" + stored + ", " + y.env[latches[0]] + ", " + y.env[accs[0]] + ")"
				} else {
					header += " /* body not read: " + y.why + " */"
				}
			} else {
				header += " /* locals not recognised */"
			}
		}
	}
	b.WriteString("/-- regenerated from `core/schedule/composite.go` `NewComposite`: the header of the loop that fills `leftAfter` (`$i` the\nloop variable, `$parts` the nested schedules) -/\n")
	b.WriteString("def compBuildLoop : String := " + instloopStr(header) + "\n\n")
	b.WriteString("/-- … and its body as a function: (the accumulator, the `unknown` latch, `Left()` of part `$i`) ↦ (what is stored in\n`leftAfter[$i]`, the latch and the accumulator afterwards) -/\n")
	b.WriteString("def compBuildStep (acc : Int) (unknown : Bool) (partLeft : Int) : Int × Bool × Int :=\n  " + step + "\n\n")
	_ = strconv.Itoa
	return b.String()
}

func instloopComp(t *tr, sp *packages.Package) string {
	var b strings.Builder
	b.WriteString("open Pandora.Model.C03Comp (cHeadNext cLen cStartNext cUnsupported SecOut LeftOut)\n\n")
	b.WriteString(instloopCompNext(t, sp))
	b.WriteString(instloopCompLeft(t, sp))
	b.WriteString(instloopCompBuild(t, sp))
	return b.String()
}
