package main

// Area "cli" (property C06): a syntactic reading of cli/cli.go `awaitPandoraTermination`.
//
// Emitted facts about the branch taken after SIGINT/SIGTERM (the select nested in `case sig := <-sigs:`):
//   signalBranchCancels     gracefulShutdown() is called for SIGINT and for SIGTERM before the nested select
//   signalErrsBranchWaits   in `case err := <-errs:` of the nested select a call of (*engine.Engine).Wait
//                           occurs (anywhere, including a goroutine literal) before the first log.Fatal
//                           statement of that clause
//   signalSelectCases       the communication clauses of the nested select, by what they receive: sigs / errs / timeout / done
//   errsFirstBranchWaits    in the outer `case err := <-errs:` (engine failed first) pandora.Wait() precedes log.Fatal
// The reading is purely structural (statement order inside the clause); what the process really does is
// observed by the harness (kind=proc).

import (
	"fmt"
	"go/ast"
	"go/types"
	"strings"
)

func init() {
	areas["cli"] = area{
		pkgPath:   "github.com/yandex/pandora/cli",
		module:    "Cli",
		namespace: "Pandora.Gen.Cli",
		imports:   []string{"Pandora.Model.C06Phout", "Pandora.Model.C06CliShutdown"},
		extra:     cliExtra,
	}
}

// cliIsEngineWait: call of method Wait on *engine.Engine
func cliIsEngineWait(t *tr, c *ast.CallExpr) bool {
	sel, ok := c.Fun.(*ast.SelectorExpr)
	if !ok || sel.Sel.Name != "Wait" {
		return false
	}
	s, ok := t.pkg.TypesInfo.Selections[sel]
	if !ok {
		return false
	}
	f, ok := s.Obj().(*types.Func)
	if !ok {
		return false
	}
	return strings.HasSuffix(f.FullName(), "core/engine.Engine).Wait")
}

// cliIsLogFatal: a statement that is a call of (*zap.Logger).Fatal (whatever the logger variable is called)
func cliIsLogFatal(t *tr, st ast.Stmt) bool {
	es, ok := st.(*ast.ExprStmt)
	if !ok {
		return false
	}
	c, ok := es.X.(*ast.CallExpr)
	if !ok {
		return false
	}
	sel, ok := c.Fun.(*ast.SelectorExpr)
	if !ok || sel.Sel.Name != "Fatal" {
		return false
	}
	if s, ok := t.pkg.TypesInfo.Selections[sel]; ok {
		if f, ok := s.Obj().(*types.Func); ok {
			return strings.HasSuffix(f.FullName(), "zap.Logger).Fatal")
		}
	}
	return false
}

// cliIsShutdownCall: a statement that calls the function's `func()` parameter (gracefulShutdown)
func cliIsShutdownCall(t *tr, fd *ast.FuncDecl, st ast.Stmt) bool {
	es, ok := st.(*ast.ExprStmt)
	if !ok {
		return false
	}
	c, ok := es.X.(*ast.CallExpr)
	if !ok || len(c.Args) != 0 {
		return false
	}
	id, ok := c.Fun.(*ast.Ident)
	if !ok {
		return false
	}
	obj := t.pkg.TypesInfo.Uses[id]
	for _, f := range fd.Type.Params.List {
		if _, isFunc := f.Type.(*ast.FuncType); !isFunc {
			continue
		}
		for _, n := range f.Names {
			if t.pkg.TypesInfo.Defs[n] == obj && obj != nil {
				return true
			}
		}
	}
	return false
}

// cliCommKind: what a communication clause receives from, by the channel's element type:
// "sigs" (os.Signal), "errs" (error), "timeout" (time.Time), "done" (anything else), "default"
func cliCommKind(t *tr, cc *ast.CommClause) string {
	if cc.Comm == nil {
		return "default"
	}
	var recv ast.Expr
	switch x := cc.Comm.(type) {
	case *ast.ExprStmt:
		recv = x.X
	case *ast.AssignStmt:
		if len(x.Rhs) == 1 {
			recv = x.Rhs[0]
		}
	}
	u, ok := recv.(*ast.UnaryExpr)
	if !ok {
		return "other"
	}
	ch, ok := t.pkg.TypesInfo.TypeOf(u.X).Underlying().(*types.Chan)
	if !ok {
		return "other"
	}
	switch ch.Elem().String() {
	case "os.Signal":
		return "sigs"
	case "error":
		return "errs"
	case "time.Time":
		return "timeout"
	}
	return "done"
}

// cliWaitsBeforeFatal: scanning the clause body in order, is Engine.Wait called before the first
// top-level log.Fatal statement?
func cliWaitsBeforeFatal(t *tr, body []ast.Stmt) bool {
	for _, st := range body {
		if cliIsLogFatal(t, st) {
			return false
		}
		found := false
		ast.Inspect(st, func(n ast.Node) bool {
			if c, ok := n.(*ast.CallExpr); ok && cliIsEngineWait(t, c) {
				found = true
			}
			return !found
		})
		if found {
			return true
		}
	}
	return false
}

func cliCommText(t *tr, cc *ast.CommClause) string {
	if cc.Comm == nil {
		return "default"
	}
	return phoutSrc(t, cc.Comm)
}

func cliExtra(t *tr) string {
	var b strings.Builder
	fd := findFunc(t.pkg, "awaitPandoraTermination")
	if fd == nil {
		t.errs = append(t.errs, "func awaitPandoraTermination not found")
		return ""
	}
	// the outer select is the last statement
	var outer *ast.SelectStmt
	for _, st := range fd.Body.List {
		if s, ok := st.(*ast.SelectStmt); ok {
			outer = s
		}
	}
	if outer == nil {
		t.fail(fd, "no select in awaitPandoraTermination")
		return ""
	}
	var sigClause, errClause *ast.CommClause
	for _, c := range outer.Body.List {
		cc := c.(*ast.CommClause)
		switch cliCommKind(t, cc) {
		case "sigs":
			sigClause = cc
		case "errs":
			errClause = cc
		default:
			t.fail(cc, "unexpected case %q of the outer select", cliCommText(t, cc))
		}
	}
	if sigClause == nil || errClause == nil {
		t.fail(outer, "outer select does not have the sigs and errs cases")
		return ""
	}
	// signal clause: a switch on sig whose SIGINT / SIGTERM cases call gracefulShutdown(), then a select
	cancels := true
	var inner *ast.SelectStmt
	seenSwitch := false
	for _, st := range sigClause.Body {
		switch s := st.(type) {
		case *ast.SwitchStmt:
			seenSwitch = true
			n := 0
			for _, c := range s.Body.List {
				cc := c.(*ast.CaseClause)
				if cc.List == nil {
					continue // default: log.Fatal
				}
				n++
				has := false
				for _, bs := range cc.Body {
					if cliIsShutdownCall(t, fd, bs) {
						has = true
					}
				}
				if !has {
					cancels = false
				}
			}
			if n != 2 {
				cancels = false
			}
		case *ast.SelectStmt:
			inner = s
		}
	}
	if !seenSwitch {
		cancels = false
	}
	if inner == nil {
		t.fail(sigClause, "no select after the signal switch")
		return ""
	}
	var cases []string
	waits := false
	for _, c := range inner.Body.List {
		cc := c.(*ast.CommClause)
		txt := cliCommKind(t, cc)
		cases = append(cases, txt)
		if txt == "errs" {
			waits = cliWaitsBeforeFatal(t, cc.Body)
		}
	}
	// outer errs clause: switch err { case nil: … case err: … pandora.Wait() … log.Fatal }
	errWaits := false
	ast.Inspect(errClause, func(n ast.Node) bool {
		if cc, ok := n.(*ast.CaseClause); ok && len(cc.List) == 1 && phoutSrc(t, cc.List[0]) != "nil" {
			// Wait() as a top-level statement before the final log.Fatal
			for _, st := range cc.Body {
				if cliIsLogFatal(t, st) {
					break
				}
				if es, ok := st.(*ast.ExprStmt); ok {
					if c, ok := es.X.(*ast.CallExpr); ok && cliIsEngineWait(t, c) {
						errWaits = true
					}
				}
			}
		}
		return true
	})
	b.WriteString("/-- regenerated from `cli/cli.go` func `awaitPandoraTermination` (structural reading, see gen/area_cli.go) -/\n")
	fmt.Fprintf(&b, "def signalBranchCancels : Bool := %v\n", cancels)
	fmt.Fprintf(&b, "def signalErrsBranchWaits : Bool := %v\n", waits)
	fmt.Fprintf(&b, "def errsFirstBranchWaits : Bool := %v\n", errWaits)
	b.WriteString("def signalSelectCases : List String :=\n  [")
	for i, c := range cases {
		if i > 0 {
			b.WriteString(", ")
		}
		fmt.Fprintf(&b, "%q", c)
	}
	b.WriteString("]\n")
	cliSignals(t, &b, fd, sigClause)
	return b.String()
}

// cliSignalNumber: the signal number of an argument of signal.Notify / of a case of the signal switch:
// a typed constant (syscall.SIGINT), or one of the two variables of package os; 0 = not understood
func cliSignalNumber(t *tr, e ast.Expr) int64 {
	if v, ok := phoutConstInt(t, e); ok {
		return v
	}
	switch phoutSrc(t, e) {
	case "os.Interrupt":
		return 2
	case "os.Kill":
		return 9
	}
	return 0
}

// cliSignals emits
//
//	notifiedSignals : List Nat           the signals passed to signal.Notify (numbers; every other signal keeps its
//	                                     default action: SIGINT/SIGTERM kill the process at once, nothing is flushed)
//	signalCases : List (Nat × Bool × Nat)  per case of the `switch sig`: signal number, does the case call
//	                                     gracefulShutdown(), the interrupt timeout in ms that holds after the case
func cliSignals(t *tr, b *strings.Builder, fd *ast.FuncDecl, sigClause *ast.CommClause) {
	var notified []int64
	found := false
	ast.Inspect(fd.Body, func(n ast.Node) bool {
		c, ok := n.(*ast.CallExpr)
		if !ok || phoutSrc(t, c.Fun) != "signal.Notify" {
			return true
		}
		found = true
		for _, a := range c.Args[1:] {
			notified = append(notified, cliSignalNumber(t, a))
		}
		if len(c.Args) == 1 {
			notified = append(notified, 2, 15) // Notify(c) without signals relays all of them
		}
		return true
	})
	if !found {
		t.fail(fd, "no signal.Notify call in awaitPandoraTermination")
	}
	b.WriteString("/-- regenerated: the signal numbers passed to `signal.Notify` (0 = an argument that was not understood) -/\n")
	b.WriteString("def notifiedSignals : List Nat := [")
	for i, n := range notified {
		if i > 0 {
			b.WriteString(", ")
		}
		fmt.Fprintf(b, "%d", n)
	}
	b.WriteString("]\n")
	// the interrupt timeout: `var interruptTimeout = <const>` before the switch, `interruptTimeout = <const>` in a case
	ms := func(e ast.Expr) int64 {
		if v, ok := phoutConstInt(t, e); ok {
			return v / 1_000_000
		}
		return -1
	}
	var def int64 = -1
	var toName string
	type sc struct {
		sig     int64
		cancels bool
		tmo     int64
	}
	var cs []sc
	for _, st := range sigClause.Body {
		switch x := st.(type) {
		case *ast.DeclStmt:
			ast.Inspect(x, func(n ast.Node) bool {
				if vs, ok := n.(*ast.ValueSpec); ok && len(vs.Names) == 1 && len(vs.Values) == 1 && def < 0 {
					if v := ms(vs.Values[0]); v >= 0 {
						def, toName = v, vs.Names[0].Name
					}
				}
				return true
			})
		case *ast.AssignStmt:
			if len(x.Lhs) == 1 && len(x.Rhs) == 1 && def < 0 {
				if v := ms(x.Rhs[0]); v >= 0 {
					def, toName = v, phoutSrc(t, x.Lhs[0])
				}
			}
		case *ast.SwitchStmt:
			for _, c := range x.Body.List {
				cc := c.(*ast.CaseClause)
				tmo, cancels := def, false
				for _, bs := range cc.Body {
					if cliIsShutdownCall(t, fd, bs) {
						cancels = true
					}
					if as, ok := bs.(*ast.AssignStmt); ok && len(as.Lhs) == 1 && len(as.Rhs) == 1 && phoutSrc(t, as.Lhs[0]) == toName {
						tmo = ms(as.Rhs[0])
					}
				}
				for _, e := range cc.List {
					cs = append(cs, sc{cliSignalNumber(t, e), cancels, tmo})
				}
			}
		}
	}
	b.WriteString("/-- regenerated: per case of the `switch sig`: (signal number, calls gracefulShutdown(), interrupt timeout in ms) -/\n")
	b.WriteString("def signalCases : List (Nat × Bool × Nat) := [")
	for i, c := range cs {
		if i > 0 {
			b.WriteString(", ")
		}
		tmo := c.tmo
		if tmo < 0 {
			tmo = 0
		}
		fmt.Fprintf(b, "(%d, %v, %d)", c.sig, c.cancels, tmo)
	}
	b.WriteString("]\n")
}
