package main

// C10, fourth round — regenerated facts about the dialers of the http guns and the grpc/json line decoder.
//
//	dialWraps<F>   : for a function F that dials, every call that BUILDS an error from an earlier error
//	                 (github.com/pkg/errors Wrap / Wrapf / WithStack / WithMessage(f), fmt.Errorf, errors.Join …) as
//	                 the pair (builder, origin) where origin is the callee whose result the wrapped error variable was
//	                 last assigned from (in source order). `NewDNSCachingDialer` must not have a pair with origin
//	                 `DialContext` (it hands a dial error back as it is); `newConnectDialFunc` has
//	                 ("WithStack", "DialContext") — the model's `connectDial`.
//	decodeAmmoTarget : what the line of a grpc/json file is unmarshalled into: "local" (a variable declared in
//	                 `decodeAmmo`) or "param" (the pooled object it was handed).
//	decodeAmmoResets : the argument lists of the `Reset` calls on the pooled object, locals numbered.
//
// Nothing of the statement ORDER or of local names survives in these facts.

import (
	"fmt"
	"go/ast"
	"go/token"
	"go/types"
	"sort"
	"strings"

	"golang.org/x/tools/go/packages"
)

var grpcstatusR4Builders = map[string]bool{"Wrap": true, "Wrapf": true, "WithStack": true, "WithMessage": true,
	"WithMessagef": true, "Errorf": true, "Join": true, "New": false}

// grpcstatusR4Wraps lists (builder, origin) pairs of fd, sorted.
func grpcstatusR4Wraps(p *packages.Package, fd *ast.FuncDecl) []string {
	type asg struct {
		pos    token.Pos
		origin string
	}
	last := map[types.Object][]asg{}
	calleeName := func(e ast.Expr) string {
		c, ok := e.(*ast.CallExpr)
		if !ok {
			return ""
		}
		switch f := c.Fun.(type) {
		case *ast.SelectorExpr:
			return f.Sel.Name
		case *ast.Ident:
			return f.Name
		}
		return ""
	}
	ast.Inspect(fd.Body, func(n ast.Node) bool {
		as, ok := n.(*ast.AssignStmt)
		if !ok {
			return true
		}
		origin := ""
		if len(as.Rhs) == 1 {
			origin = calleeName(as.Rhs[0])
		}
		for i, l := range as.Lhs {
			id, ok := l.(*ast.Ident)
			if !ok {
				continue
			}
			o := p.TypesInfo.ObjectOf(id)
			if o == nil || o.Type() == nil || o.Type().String() != "error" {
				continue
			}
			og := origin
			if len(as.Rhs) == len(as.Lhs) {
				og = calleeName(as.Rhs[i])
			}
			last[o] = append(last[o], asg{as.Pos(), og})
		}
		return true
	})
	set := map[string]bool{}
	ast.Inspect(fd.Body, func(n ast.Node) bool {
		c, ok := n.(*ast.CallExpr)
		if !ok {
			return true
		}
		name := calleeName(c)
		if !grpcstatusR4Builders[name] {
			return true
		}
		for _, a := range c.Args {
			ast.Inspect(a, func(m ast.Node) bool {
				id, ok := m.(*ast.Ident)
				if !ok {
					return true
				}
				o := p.TypesInfo.ObjectOf(id)
				if o == nil || o.Type() == nil || o.Type().String() != "error" {
					return true
				}
				origin := "?"
				for _, x := range last[o] {
					// the assignment `err = errors.WithStack(err)` that contains this call is not its own origin
					if x.pos < c.Pos() && grpcstatusR4Enclosing(fd, x.pos, c.Pos()) {
						continue
					}
					if x.pos < c.Pos() {
						origin = x.origin
					}
				}
				set["("+gsLeanStr(name)+", "+gsLeanStr(origin)+")"] = true
				return true
			})
		}
		return true
	})
	var out []string
	for k := range set {
		out = append(out, k)
	}
	sort.Strings(out)
	return out
}

// grpcstatusR4Enclosing: is the assignment at `asPos` the statement that contains the call at `callPos`?
func grpcstatusR4Enclosing(fd *ast.FuncDecl, asPos, callPos token.Pos) bool {
	found := false
	ast.Inspect(fd.Body, func(n ast.Node) bool {
		if as, ok := n.(*ast.AssignStmt); ok && as.Pos() == asPos {
			if as.Pos() <= callPos && callPos < as.End() {
				found = true
			}
		}
		return !found
	})
	return found
}

func grpcstatusR4(t *tr, b *strings.Builder) {
	dialers := []struct{ pkg, fn, lean string }{
		{"github.com/yandex/pandora/lib/netutil", "NewDNSCachingDialer", "dialWrapsDNSCachingDialer"},
		{"github.com/yandex/pandora/components/guns/http", "newConnectDialFunc", "dialWrapsConnectDialFunc"},
	}
	for _, d := range dialers {
		p := grpcstatusLoad(d.pkg)
		fd := findFunc(p, d.fn)
		if fd == nil || fd.Body == nil {
			t.errs = append(t.errs, "function "+d.fn+" not found in "+d.pkg)
			fmt.Fprintf(b, "def %s : List (String × String) := []\n\n", d.lean)
			continue
		}
		rows := grpcstatusR4Wraps(p, fd)
		fmt.Fprintf(b, "/-- `%s` (%s): every call that builds an error from an earlier error, as (builder, callee the wrapped\nerror came from) -/\ndef %s : List (String × String) := [%s]\n\n", d.fn, d.pkg[len("github.com/yandex/pandora/"):], d.lean, strings.Join(rows, ", "))
	}
	// decodeAmmo
	p := grpcstatusLoad("github.com/yandex/pandora/components/providers/grpc/grpcjson")
	fd := findFunc(p, "decodeAmmo")
	if fd == nil || fd.Body == nil {
		t.errs = append(t.errs, "function decodeAmmo not found in grpcjson")
		b.WriteString("def decodeAmmoTarget : String := \"\"\n\ndef decodeAmmoResets : List String := []\n\n")
		return
	}
	params := map[types.Object]bool{}
	for _, fl := range fd.Type.Params.List {
		for _, nm := range fl.Names {
			if o := p.TypesInfo.Defs[nm]; o != nil {
				params[o] = true
			}
		}
	}
	// objects that alias a parameter (x := param)
	ast.Inspect(fd.Body, func(n ast.Node) bool {
		if as, ok := n.(*ast.AssignStmt); ok && len(as.Lhs) == len(as.Rhs) {
			for i := range as.Lhs {
				l, ok1 := as.Lhs[i].(*ast.Ident)
				r, ok2 := as.Rhs[i].(*ast.Ident)
				if ok1 && ok2 && params[p.TypesInfo.ObjectOf(r)] {
					if o := p.TypesInfo.ObjectOf(l); o != nil {
						params[o] = true
					}
				}
			}
		}
		return true
	})
	rootObj := func(e ast.Expr) types.Object {
		for {
			switch x := e.(type) {
			case *ast.UnaryExpr:
				e = x.X
			case *ast.StarExpr:
				e = x.X
			case *ast.ParenExpr:
				e = x.X
			case *ast.Ident:
				return p.TypesInfo.ObjectOf(x)
			default:
				return nil
			}
		}
	}
	var targets []string
	resets := map[string]bool{}
	names := map[types.Object]string{}
	canon := func(e ast.Expr) string {
		s := nodeString(p, e)
		ast.Inspect(e, func(n ast.Node) bool {
			if id, ok := n.(*ast.Ident); ok {
				if o := p.TypesInfo.ObjectOf(id); o != nil && o.Pkg() == p.Types && o.Parent() != p.Types.Scope() {
					if _, isVar := o.(*types.Var); isVar && !o.(*types.Var).IsField() {
						if names[o] == "" {
							if params[o] {
								names[o] = "pooled"
							} else {
								names[o] = "fresh"
							}
						}
						s = strings.ReplaceAll(s, id.Name+".", names[o]+".")
					}
				}
			}
			return true
		})
		return s
	}
	ast.Inspect(fd.Body, func(n ast.Node) bool {
		c, ok := n.(*ast.CallExpr)
		if !ok {
			return true
		}
		sel, ok := c.Fun.(*ast.SelectorExpr)
		if !ok {
			return true
		}
		switch sel.Sel.Name {
		case "Unmarshal", "UnmarshalFromString", "Decode":
			if len(c.Args) >= 1 {
				o := rootObj(c.Args[len(c.Args)-1])
				switch {
				case o == nil:
					targets = append(targets, "?")
				case params[o]:
					targets = append(targets, "param")
				default:
					targets = append(targets, "local")
				}
			}
		case "Reset":
			if o := rootObj(sel.X); o != nil && params[o] {
				var args []string
				for _, a := range c.Args {
					args = append(args, canon(a))
				}
				resets[strings.Join(args, ", ")] = true
			}
		}
		return true
	})
	sort.Strings(targets)
	var rs []string
	for k := range resets {
		rs = append(rs, k)
	}
	sort.Strings(rs)
	fmt.Fprintf(b, "/-- `decodeAmmo` (components/providers/grpc/grpcjson): what the line is unmarshalled into — a variable of its own\n(\"local\") or the pooled object it was handed (\"param\") -/\ndef decodeAmmoTarget : String := %s\n\n", gsLeanStr(strings.Join(targets, ",")))
	fmt.Fprintf(b, "/-- the argument lists of the `Reset` calls `decodeAmmo` makes on the pooled object -/\ndef decodeAmmoResets : List String := %s\n\n", gsLeanStrList(rs, "  "))
}
