package main

// Area "c15scen" (property C15): regenerates from the CURRENT source, into lean/Pandora/Gen/C15Scen.lean (core Lean,
// vocabulary of Pandora/Model/C15Lock.lean):
//
//	lib/mp/iterator.go      (*NextIterator).Next  -> `nextCode : NextCode`, the instruction list of the function split at
//	                                                its `if !ok` branch (lock / unlock / mapGet / putFresh / add k / ret0 / retAdd)
//	lib/mp/map.go           calcIndex             -> `nextIndex index length` (what is done with the value `iter.Next` returns)
//	lib/math/gcd_lcm.go     GCD, GCDM             -> `GCD_loop`, `GCD`, `GCDM_rec`, `GCDM` (Option-valued: `none` = index out
//	                                                of range / fuel exhausted)
//	scenario/config/decode.go SpreadNames         -> `spreadEmpty`, `spreadSingle`, `spreadEffWeight`, `spreadCnt`, `spreadTotalStep`
//	                                                (the arithmetic of the function; the loops themselves are fixed shapes)
//	scenario/http/decode.go decodeAmmo            -> `weightRefused w` (the condition under which a scenario weight is an error)
//	guns/http_scenario/gun.go                     -> `emptyTag` (const EmptyTag), `stepTagSep` (tag := ammo.Name + sep + req.Name in shoot),
//	                                                `failCode` (reportErr: SetProtoCode(k)), `failTagged` (reportErr adds EmptyTag, sets the error, reports)
//	core/aggregator/netsample/sample.go AddTag    -> `tagSep` (s.tags += sep + tag)
//
// Reading of Go used here (trusted, see notes/C15.md):
//
//	int, int64                                   -> Int (no wrap-around: the driver skips descriptions with huge numbers)
//	x / y, x % y on integers                     -> Int.tdiv, Int.tmod
//	`for cond { … }` over integer variables      -> a recursive function with fuel Σ toNat(vars) + 1 (`none` when exhausted)
//	a function recursing on a sub-slice          -> recursion with fuel len + 1
//	xs[i], xs[:k]                                -> `idx?`, `slice?` (`none` = the Go code panics)
//	`defer mx.Unlock()`                          -> an `unlock` before every later return
//	one statement of `Next`                      -> one atomic instruction (sync.Mutex gives mutual exclusion, atomic.Uint64.Add is atomic)
//
// Every statement of the translated bodies must match one of the shapes handled below; anything else makes gen fail
// (broken obligation), never a silent default.

import (
	"bytes"
	"fmt"
	"go/ast"
	"go/constant"
	"go/printer"
	"go/token"
	"go/types"
	"os"
	"strings"

	"golang.org/x/tools/go/packages"
)

func init() {
	areas["c15scen"] = area{
		pkgPath:   "github.com/yandex/pandora/lib/math",
		module:    "C15Scen",
		namespace: "Pandora.Gen.C15Scen",
		imports:   []string{"Pandora.Model.C15Lock"},
		extra:     c15scenExtra,
	}
}

type c15scenX struct {
	t    *tr
	pkg  *packages.Package
	ctx  string
	vars map[string]string // Go source of an expression -> Lean term
	n    int               // fresh names
	// functions whose calls are Option-valued Lean calls
	calls map[string]string
}

func (x *c15scenX) src(n ast.Node) string {
	var b bytes.Buffer
	_ = printer.Fprint(&b, x.pkg.Fset, n)
	return strings.Join(strings.Fields(b.String()), " ")
}

func (x *c15scenX) fail(n ast.Node, format string, a ...any) string {
	msg := fmt.Sprintf("%s: unsupported (c15scen %s): %s", x.pkg.Fset.Position(n.Pos()), x.ctx, fmt.Sprintf(format, a...))
	x.t.errs = append(x.t.errs, msg)
	return "(UNSUPPORTED)"
}

func c15scenLoad(paths ...string) map[string]*packages.Package {
	cfg := &packages.Config{Mode: packages.NeedName | packages.NeedSyntax | packages.NeedTypes | packages.NeedTypesInfo |
		packages.NeedFiles | packages.NeedImports, Dir: repo, BuildFlags: []string{"-tags=verif"}}
	pkgs, err := packages.Load(cfg, paths...)
	if err != nil {
		fmt.Fprintln(os.Stderr, "load:", err)
		os.Exit(1)
	}
	m := map[string]*packages.Package{}
	for _, p := range pkgs {
		if len(p.Errors) > 0 {
			fmt.Fprintln(os.Stderr, "load errors:", p.PkgPath, p.Errors)
			os.Exit(1)
		}
		m[p.PkgPath] = p
	}
	for _, want := range paths {
		if m[want] == nil {
			fmt.Fprintln(os.Stderr, "load: package not found:", want)
			os.Exit(1)
		}
	}
	return m
}

func c15scenFunc(p *packages.Package, recvType, name string) *ast.FuncDecl {
	for _, f := range p.Syntax {
		for _, d := range f.Decls {
			fd, ok := d.(*ast.FuncDecl)
			if !ok || fd.Name.Name != name {
				continue
			}
			if recvType == "" {
				if fd.Recv == nil {
					return fd
				}
				continue
			}
			if fd.Recv == nil || len(fd.Recv.List) != 1 {
				continue
			}
			ty := fd.Recv.List[0].Type
			if st, ok := ty.(*ast.StarExpr); ok {
				ty = st.X
			}
			if id, ok := ty.(*ast.Ident); ok && id.Name == recvType {
				return fd
			}
		}
	}
	return nil
}

// ---------------------------------------------------------------- integer expressions

func c15scenIsInt(t types.Type) bool {
	if t == nil {
		return false
	}
	b, ok := t.Underlying().(*types.Basic)
	return ok && b.Info()&types.IsInteger != 0
}

// expr translates an integer / boolean expression. Effects (calls to translated functions, indexing, slicing) are
// hoisted: they are appended to *binds as `(<opt>).bind fun v =>` prefixes and the expression refers to `v`.
func (x *c15scenX) expr(e ast.Expr, binds *[]string) string {
	info := x.pkg.TypesInfo
	if v, ok := x.vars[x.src(e)]; ok {
		return v
	}
	if tv, ok := info.Types[e]; ok && tv.Value != nil {
		switch tv.Value.Kind() {
		case constant.Int:
			s := tv.Value.ExactString()
			if strings.HasPrefix(s, "-") {
				return "(" + s + ")"
			}
			return s
		case constant.Bool:
			if constant.BoolVal(tv.Value) {
				return "True"
			}
			return "False"
		}
	}
	fresh := func(opt string) string {
		x.n++
		v := fmt.Sprintf("v%d", x.n)
		if binds == nil {
			return x.fail(e, "effect not allowed here: %s", x.src(e))
		}
		*binds = append(*binds, "("+opt+").bind fun "+v+" =>")
		return v
	}
	switch v := e.(type) {
	case *ast.ParenExpr:
		return x.expr(v.X, binds)
	case *ast.Ident:
		if c15scenIsInt(info.TypeOf(v)) {
			return mangle(v.Name)
		}
		if _, ok := info.TypeOf(v).Underlying().(*types.Slice); ok {
			return mangle(v.Name)
		}
		return x.fail(e, "identifier %s of type %s", v.Name, info.TypeOf(v))
	case *ast.UnaryExpr:
		switch v.Op {
		case token.SUB:
			return "(-" + x.expr(v.X, binds) + ")"
		case token.NOT:
			return "(¬ " + x.expr(v.X, binds) + ")"
		}
	case *ast.BinaryExpr:
		l, r := x.expr(v.X, binds), x.expr(v.Y, binds)
		isI := c15scenIsInt(info.TypeOf(v.X))
		switch v.Op {
		case token.ADD:
			return "(" + l + " + " + r + ")"
		case token.SUB:
			return "(" + l + " - " + r + ")"
		case token.MUL:
			return "(" + l + " * " + r + ")"
		case token.QUO:
			if isI {
				return "(Int.tdiv " + l + " " + r + ")"
			}
		case token.REM:
			if isI {
				return "(Int.tmod " + l + " " + r + ")"
			}
		case token.LSS:
			return "(" + l + " < " + r + ")"
		case token.LEQ:
			return "(" + l + " ≤ " + r + ")"
		case token.GTR:
			return "(" + l + " > " + r + ")"
		case token.GEQ:
			return "(" + l + " ≥ " + r + ")"
		case token.EQL:
			return "(" + l + " = " + r + ")"
		case token.NEQ:
			return "(" + l + " ≠ " + r + ")"
		case token.LAND:
			return "(" + l + " ∧ " + r + ")"
		case token.LOR:
			return "(" + l + " ∨ " + r + ")"
		}
		return x.fail(e, "binary %s", v.Op)
	case *ast.CallExpr:
		if tv, ok := info.Types[v.Fun]; ok && tv.IsType() {
			if len(v.Args) == 1 && c15scenIsInt(tv.Type) && c15scenIsInt(info.TypeOf(v.Args[0])) {
				return x.expr(v.Args[0], binds) // int(x), int64(x): no wrap-around (see header)
			}
			return x.fail(e, "conversion %s", x.src(e))
		}
		if id, ok := v.Fun.(*ast.Ident); ok {
			if id.Name == "len" && len(v.Args) == 1 {
				return "(" + x.expr(v.Args[0], binds) + ".length : Int)"
			}
			if ln, ok := x.calls[id.Name]; ok {
				var args []string
				if v.Ellipsis != token.NoPos {
					if len(v.Args) != 1 {
						return x.fail(e, "variadic call shape")
					}
					args = append(args, x.expr(v.Args[0], binds))
				} else {
					if sig, ok := info.TypeOf(v.Fun).(*types.Signature); ok && sig.Variadic() {
						return x.fail(e, "variadic call with listed arguments")
					}
					for _, a := range v.Args {
						args = append(args, x.expr(a, binds))
					}
				}
				return fresh(ln + " " + strings.Join(args, " "))
			}
		}
		return x.fail(e, "call %s", x.src(v.Fun))
	case *ast.IndexExpr:
		if _, ok := info.TypeOf(v.X).Underlying().(*types.Slice); ok {
			xs := x.expr(v.X, binds)
			i := x.expr(v.Index, binds)
			return fresh("idx? " + xs + " " + i)
		}
	case *ast.SliceExpr:
		if _, ok := info.TypeOf(v.X).Underlying().(*types.Slice); ok && !v.Slice3 {
			xs := x.expr(v.X, binds)
			lo, hi := "0", "("+xs+".length : Int)"
			if v.Low != nil {
				lo = x.expr(v.Low, binds)
			}
			if v.High != nil {
				hi = x.expr(v.High, binds)
			}
			return fresh("slice? " + xs + " " + lo + " " + hi)
		}
	}
	return x.fail(e, "expression %s (%T)", x.src(e), e)
}

func c15scenWrap(binds []string, body string, ind string) string {
	var b strings.Builder
	for _, bd := range binds {
		b.WriteString(ind + bd + "\n")
	}
	b.WriteString(ind + body)
	return b.String()
}

// block translates a statement list ending in return on every path into an `Option Int` term.
// loopVars/loopCall: inside a loop body the end of the list is the recursive call.
func (x *c15scenX) block(stmts []ast.Stmt, ind string, tail string) string {
	if len(stmts) == 0 {
		if tail != "" {
			return ind + tail
		}
		return ind + x.fail(x.pkg.Syntax[0], "control reaches the end of a block without return")
	}
	info := x.pkg.TypesInfo
	s, rest := stmts[0], stmts[1:]
	switch v := s.(type) {
	case *ast.ReturnStmt:
		if len(v.Results) != 1 || tail != "" {
			return ind + x.fail(s, "return shape")
		}
		var binds []string
		e := x.expr(v.Results[0], &binds)
		return c15scenWrap(binds, "some "+e, ind)
	case *ast.AssignStmt:
		if len(v.Lhs) != 1 || len(v.Rhs) != 1 {
			return ind + x.fail(s, "multi-assign")
		}
		id, ok := v.Lhs[0].(*ast.Ident)
		if !ok {
			return ind + x.fail(s, "assign target %s", x.src(v.Lhs[0]))
		}
		var binds []string
		rhs := x.expr(v.Rhs[0], &binds)
		name := mangle(id.Name)
		switch v.Tok {
		case token.DEFINE, token.ASSIGN:
		case token.ADD_ASSIGN:
			rhs = "(" + name + " + " + rhs + ")"
		case token.REM_ASSIGN:
			rhs = "(Int.tmod " + name + " " + rhs + ")"
		default:
			return ind + x.fail(s, "assign op %s", v.Tok)
		}
		if !c15scenIsInt(info.TypeOf(v.Lhs[0])) {
			return ind + x.fail(s, "assignment to non-integer %s", id.Name)
		}
		return c15scenWrap(binds, "let "+name+" : Int := "+rhs, ind) + "\n" + x.block(rest, ind, tail)
	case *ast.IfStmt:
		if v.Init != nil {
			return ind + x.fail(s, "if-init")
		}
		c := x.expr(v.Cond, nil)
		endsInReturn := func(b []ast.Stmt) bool {
			if len(b) == 0 {
				return false
			}
			_, ok := b[len(b)-1].(*ast.ReturnStmt)
			return ok
		}
		if v.Else == nil && endsInReturn(v.Body.List) {
			return ind + "if " + c + " then\n" + x.block(v.Body.List, ind+"  ", "") + "\n" + ind + "else\n" + x.block(rest, ind+"  ", tail)
		}
		if tail != "" && len(rest) == 0 {
			// inside a loop, last statement: both branches fall through to the recursive call
			els := []ast.Stmt{}
			if v.Else != nil {
				eb, ok := v.Else.(*ast.BlockStmt)
				if !ok {
					return ind + x.fail(s, "else-if")
				}
				els = eb.List
			}
			return ind + "if " + c + " then\n" + x.block(v.Body.List, ind+"  ", tail) + "\n" + ind + "else\n" + x.block(els, ind+"  ", tail)
		}
		return ind + x.fail(s, "if shape")
	}
	return ind + x.fail(s, "statement %T", s)
}

// intFunc translates a function over integers (and one []int64 / variadic parameter) whose body is
//
//	[for cond { body }]  straight-line statements / if-return … return e
//
// `recFuel`: the function calls itself on a sub-slice -> emitted as <name>_rec with fuel len+1.
func (x *c15scenX) intFunc(fd *ast.FuncDecl, recursive bool) string {
	info := x.pkg.TypesInfo
	x.ctx = fd.Name.Name
	name := fd.Name.Name
	var params, pnames []string
	var intParams []string
	sliceParam := ""
	for _, f := range fd.Type.Params.List {
		for _, n := range f.Names {
			ty := info.TypeOf(f.Type)
			if _, isEll := f.Type.(*ast.Ellipsis); isEll {
				ty = info.Defs[n].Type()
			}
			switch {
			case c15scenIsInt(ty):
				params = append(params, "("+mangle(n.Name)+" : Int)")
				intParams = append(intParams, mangle(n.Name))
			default:
				if sl, ok := ty.Underlying().(*types.Slice); ok && c15scenIsInt(sl.Elem()) {
					params = append(params, "("+mangle(n.Name)+" : List Int)")
					sliceParam = mangle(n.Name)
				} else {
					return x.fail(f, "parameter type %s", ty)
				}
			}
			pnames = append(pnames, mangle(n.Name))
		}
	}
	if fd.Type.Results == nil || len(fd.Type.Results.List) != 1 || !c15scenIsInt(info.TypeOf(fd.Type.Results.List[0].Type)) {
		return x.fail(fd, "result type")
	}
	pos := x.pkg.Fset.Position(fd.Pos())
	rel := strings.TrimPrefix(pos.Filename, repo+"/")
	var b strings.Builder
	stmts := fd.Body.List
	pre := ""
	if len(stmts) > 0 {
		if fs, ok := stmts[0].(*ast.ForStmt); ok {
			if fs.Init != nil || fs.Post != nil || fs.Cond == nil || recursive || sliceParam != "" {
				return x.fail(fs, "for shape")
			}
			loop := name + "_loop"
			tuple := "(" + strings.Join(intParams, ", ") + ")"
			tty := strings.Repeat("Int × ", len(intParams)-1) + "Int"
			call := loop + " fuel " + strings.Join(intParams, " ")
			fmt.Fprintf(&b, "/-- regenerated from `%s` func `%s`: the `for %s` loop; `none` = fuel exhausted -/\n", rel, name, x.src(fs.Cond))
			fmt.Fprintf(&b, "def %s : Nat → %sOption (%s)\n  | 0, %s => none\n  | fuel + 1, %s =>\n", loop,
				strings.Repeat("Int → ", len(intParams)), tty, strings.Join(c15scenUnderscores(len(intParams)), ", "), strings.Join(intParams, ", "))
			fmt.Fprintf(&b, "    if %s then\n%s\n    else some %s\n\n", x.expr(fs.Cond, nil), x.block(fs.Body.List, "      ", call), tuple)
			var fuel []string
			for _, p := range intParams {
				fuel = append(fuel, p+".toNat")
			}
			pre = "  match " + loop + " (" + strings.Join(fuel, " + ") + " + 1) " + strings.Join(intParams, " ") + " with\n  | none => none\n  | some " + tuple + " =>\n"
			stmts = stmts[1:]
		}
	}
	if recursive {
		if sliceParam == "" || len(pnames) != 1 {
			return x.fail(fd, "recursive function must take exactly one slice")
		}
		rec := name + "_rec"
		x.calls[name] = rec + " fuel"
		fmt.Fprintf(&b, "/-- regenerated from `%s` func `%s` (recursion on a sub-slice, fuel = len + 1; `none` = index out of range) -/\n", rel, name)
		fmt.Fprintf(&b, "def %s : Nat → List Int → Option Int\n  | 0, _ => none\n  | fuel + 1, %s =>\n%s\n\n", rec, sliceParam, x.block(stmts, "    ", ""))
		fmt.Fprintf(&b, "def %s (%s : List Int) : Option Int := %s (%s.length + 1) %s\n", name, sliceParam, rec, sliceParam, sliceParam)
		x.calls[name] = name
		return b.String()
	}
	fmt.Fprintf(&b, "/-- regenerated from `%s` func `%s` -/\n", rel, name)
	ind := "  "
	if pre != "" {
		ind = "    "
	}
	fmt.Fprintf(&b, "def %s %s : Option Int :=\n%s%s\n", name, strings.Join(params, " "), pre, x.block(stmts, ind, ""))
	x.calls[name] = name
	return b.String()
}

func c15scenUnderscores(n int) []string {
	out := make([]string, n)
	for i := range out {
		out[i] = "_"
	}
	return out
}

// ---------------------------------------------------------------- NextIterator.Next

type c15scenNext struct {
	x        *c15scenX
	recv     types.Object
	deferred bool
	ptrVar   types.Object // `a`
	okVar    types.Object // `ok`
	addVar   types.Object // `add`
}

func (n *c15scenNext) recvFieldType(e ast.Expr) types.Type {
	sel, ok := e.(*ast.SelectorExpr)
	if !ok {
		return nil
	}
	id, ok := sel.X.(*ast.Ident)
	if !ok || n.x.pkg.TypesInfo.Uses[id] != n.recv {
		return nil
	}
	return n.x.pkg.TypesInfo.TypeOf(e)
}

// mutexCall recognises <recv>.<field>.Lock() / Unlock() on a sync.Mutex or the write side of a sync.RWMutex.
func (n *c15scenNext) mutexCall(e ast.Expr) string {
	call, ok := e.(*ast.CallExpr)
	if !ok || len(call.Args) != 0 {
		return ""
	}
	sel, ok := call.Fun.(*ast.SelectorExpr)
	if !ok {
		return ""
	}
	ft := n.recvFieldType(sel.X)
	if ft == nil {
		return ""
	}
	ts := ft.String()
	if ts != "sync.Mutex" && ts != "sync.RWMutex" {
		return ""
	}
	switch sel.Sel.Name {
	case "Lock":
		return "lock"
	case "Unlock":
		return "unlock"
	}
	return ""
}

func (n *c15scenNext) isMapIndex(e ast.Expr) bool {
	ix, ok := e.(*ast.IndexExpr)
	if !ok {
		return false
	}
	ft := n.recvFieldType(ix.X)
	if ft == nil {
		return false
	}
	_, isMap := ft.Underlying().(*types.Map)
	return isMap
}

// ops translates a statement list; returns the instructions and, when the list contains the `if !ok` branch, the
// split (pre, miss, hit). `done` reports that the list ended in a return.
func (n *c15scenNext) ops(stmts []ast.Stmt) (pre []string, miss []string, hit []string, split bool) {
	x := n.x
	info := x.pkg.TypesInfo
	var cur []string
	ret := func(op string) {
		if n.deferred {
			cur = append(cur, ".unlock")
		}
		cur = append(cur, op)
	}
	for i, s := range stmts {
		switch v := s.(type) {
		case *ast.ExprStmt:
			if op := n.mutexCall(v.X); op != "" {
				cur = append(cur, "."+op)
				continue
			}
		case *ast.DeferStmt:
			if n.mutexCall(v.Call) == "unlock" && !n.deferred {
				n.deferred = true
				continue
			}
		case *ast.AssignStmt:
			// a, ok := n.gs[segment]
			if len(v.Lhs) == 2 && len(v.Rhs) == 1 && v.Tok == token.DEFINE && n.isMapIndex(v.Rhs[0]) {
				a, ok1 := v.Lhs[0].(*ast.Ident)
				o, ok2 := v.Lhs[1].(*ast.Ident)
				if ok1 && ok2 {
					n.ptrVar, n.okVar = info.Defs[a], info.Defs[o]
					cur = append(cur, ".mapGet")
					continue
				}
			}
			if len(v.Lhs) == 1 && len(v.Rhs) == 1 {
				// n.gs[segment] = &atomic.Uint64{}
				if v.Tok == token.ASSIGN && n.isMapIndex(v.Lhs[0]) {
					if u, ok := v.Rhs[0].(*ast.UnaryExpr); ok && u.Op == token.AND {
						if cl, ok := u.X.(*ast.CompositeLit); ok && len(cl.Elts) == 0 && info.TypeOf(cl).String() == "sync/atomic.Uint64" {
							cur = append(cur, ".putFresh")
							continue
						}
					}
				}
				// add := a.Add(k)
				if id, ok := v.Lhs[0].(*ast.Ident); ok && v.Tok == token.DEFINE {
					if call, ok := v.Rhs[0].(*ast.CallExpr); ok && len(call.Args) == 1 {
						if sel, ok := call.Fun.(*ast.SelectorExpr); ok && sel.Sel.Name == "Add" {
							if rid, ok := sel.X.(*ast.Ident); ok && n.ptrVar != nil && info.Uses[rid] == n.ptrVar {
								if tv, ok := info.Types[call.Args[0]]; ok && tv.Value != nil && tv.Value.Kind() == constant.Int {
									n.addVar = info.Defs[id]
									cur = append(cur, "(.add "+tv.Value.ExactString()+")")
									continue
								}
							}
						}
					}
				}
			}
		case *ast.IfStmt:
			// if !ok { … return }
			if u, ok := v.Cond.(*ast.UnaryExpr); ok && u.Op == token.NOT && v.Init == nil && v.Else == nil && !split {
				if id, ok := u.X.(*ast.Ident); ok && n.okVar != nil && info.Uses[id] == n.okVar {
					save := cur
					cur = nil
					sub := &c15scenNext{x: x, recv: n.recv, deferred: n.deferred, ptrVar: n.ptrVar, okVar: n.okVar}
					m, _, _, sp := sub.ops(v.Body.List)
					if sp || len(m) == 0 || !strings.HasPrefix(m[len(m)-1], ".ret") {
						x.fail(v, "the `if !ok` branch must be straight-line code ending in return")
					}
					h, _, _, sp2 := n.ops(stmts[i+1:])
					if sp2 || len(h) == 0 || !strings.HasPrefix(h[len(h)-1], ".ret") {
						x.fail(v, "the code after the `if !ok` branch must be straight-line code ending in return")
					}
					return save, m, h, true
				}
			}
		case *ast.ReturnStmt:
			if len(v.Results) == 1 {
				if tv, ok := info.Types[v.Results[0]]; ok && tv.Value != nil && tv.Value.Kind() == constant.Int && tv.Value.ExactString() == "0" {
					ret(".ret0")
					if i != len(stmts)-1 {
						x.fail(stmts[i+1], "code after return")
					}
					return cur, nil, nil, false
				}
				// return int(add)
				e := v.Results[0]
				if call, ok := e.(*ast.CallExpr); ok && len(call.Args) == 1 {
					if tv, ok := info.Types[call.Fun]; ok && tv.IsType() && c15scenIsInt(tv.Type) {
						e = call.Args[0]
					}
				}
				if id, ok := e.(*ast.Ident); ok && n.addVar != nil && info.Uses[id] == n.addVar {
					ret(".retAdd")
					if i != len(stmts)-1 {
						x.fail(stmts[i+1], "code after return")
					}
					return cur, nil, nil, false
				}
			}
		}
		x.fail(s, "statement of Next: %s", x.src(s))
	}
	return cur, nil, nil, false
}

func (x *c15scenX) nextCode(fd *ast.FuncDecl) string {
	x.ctx = "NextIterator.Next"
	n := &c15scenNext{x: x}
	if fd.Recv != nil && len(fd.Recv.List) == 1 && len(fd.Recv.List[0].Names) == 1 {
		n.recv = x.pkg.TypesInfo.Defs[fd.Recv.List[0].Names[0]]
	}
	pre, miss, hit, split := n.ops(fd.Body.List)
	if !split {
		x.fail(fd, "no `if !ok` branch found")
	}
	l := func(xs []string) string { return "[" + strings.Join(xs, ", ") + "]" }
	pos := x.pkg.Fset.Position(fd.Pos())
	rel := strings.TrimPrefix(pos.Filename, repo+"/")
	return fmt.Sprintf("/-- regenerated from `%s` method `(*NextIterator).Next`: its statements as instructions, split at `if !ok` -/\n"+
		"def nextCode : NextCode :=\n  { pre := %s,\n    miss := %s,\n    hit := %s }\n", rel, l(pre), l(miss), l(hit))
}

// ---------------------------------------------------------------- calcIndex: what happens to the value of iter.Next

func (x *c15scenX) nextIndex(fd *ast.FuncDecl) string {
	x.ctx = "calcIndex"
	info := x.pkg.TypesInfo
	// find `index = iter.Next(segment)` at top level; the statements after it up to the return are translated
	for i, s := range fd.Body.List {
		as, ok := s.(*ast.AssignStmt)
		if !ok || len(as.Lhs) != 1 || len(as.Rhs) != 1 {
			continue
		}
		call, ok := as.Rhs[0].(*ast.CallExpr)
		if !ok {
			continue
		}
		sel, ok := call.Fun.(*ast.SelectorExpr)
		if !ok || sel.Sel.Name != "Next" {
			continue
		}
		id, ok := as.Lhs[0].(*ast.Ident)
		if !ok || !c15scenIsInt(info.TypeOf(id)) {
			return x.fail(s, "target of iter.Next")
		}
		idx := mangle(id.Name)
		var lenName string
		for _, f := range fd.Type.Params.List {
			for _, n := range f.Names {
				if c15scenIsInt(info.TypeOf(f.Type)) {
					lenName = mangle(n.Name)
				}
			}
		}
		if lenName == "" {
			return x.fail(fd, "no integer parameter (length)")
		}
		// rest: `if c { index %= length }`* then `return index, nil`
		var b strings.Builder
		rest := fd.Body.List[i+1:]
		for j, r := range rest {
			switch v := r.(type) {
			case *ast.IfStmt:
				if v.Init == nil && v.Else == nil && len(v.Body.List) == 1 {
					if a2, ok := v.Body.List[0].(*ast.AssignStmt); ok && len(a2.Lhs) == 1 && x.src(a2.Lhs[0]) == id.Name {
						rhs := x.expr(a2.Rhs[0], nil)
						switch a2.Tok {
						case token.ASSIGN:
						case token.REM_ASSIGN:
							rhs = "(Int.tmod " + idx + " " + rhs + ")"
						case token.ADD_ASSIGN:
							rhs = "(" + idx + " + " + rhs + ")"
						case token.SUB_ASSIGN:
							rhs = "(" + idx + " - " + rhs + ")"
						default:
							return x.fail(r, "assign op")
						}
						fmt.Fprintf(&b, "  let %s : Int := if %s then %s else %s\n", idx, x.expr(v.Cond, nil), rhs, idx)
						continue
					}
				}
			case *ast.ReturnStmt:
				if len(v.Results) == 2 && x.src(v.Results[1]) == "nil" && j == len(rest)-1 {
					fmt.Fprintf(&b, "  %s\n", x.expr(v.Results[0], nil))
					pos := x.pkg.Fset.Position(fd.Pos())
					rel := strings.TrimPrefix(pos.Filename, repo+"/")
					return fmt.Sprintf("/-- regenerated from `%s` func `calcIndex`: the statements after `%s = iter.Next(segment)` -/\ndef nextIndex (%s %s : Int) : Int :=\n%s",
						rel, id.Name, idx, lenName, b.String())
				}
			}
			return x.fail(r, "statement after iter.Next: %s", x.src(r))
		}
	}
	return x.fail(fd, "`index = iter.Next(segment)` not found")
}

// ---------------------------------------------------------------- SpreadNames

func (x *c15scenX) spreadNames(fd *ast.FuncDecl) string {
	x.ctx = "SpreadNames"
	info := x.pkg.TypesInfo
	var b strings.Builder
	pos := x.pkg.Fset.Position(fd.Pos())
	rel := strings.TrimPrefix(pos.Filename, repo+"/")
	if len(fd.Type.Params.List) != 1 || len(fd.Type.Params.List[0].Names) != 1 {
		return x.fail(fd, "parameters")
	}
	input := fd.Type.Params.List[0].Names[0].Name
	constInt := func(e ast.Expr) (string, bool) {
		if tv, ok := info.Types[e]; ok && tv.Value != nil && tv.Value.Kind() == constant.Int {
			return tv.Value.ExactString(), true
		}
		return "", false
	}
	stmts := fd.Body.List
	i := 0
	// if len(input) == 0 { return nil, K }
	lenIs := func(s ast.Stmt, k string) *ast.ReturnStmt {
		is, ok := s.(*ast.IfStmt)
		if !ok || is.Init != nil || is.Else != nil || x.src(is.Cond) != "len("+input+") == "+k || len(is.Body.List) != 1 {
			return nil
		}
		r, _ := is.Body.List[0].(*ast.ReturnStmt)
		if r == nil || len(r.Results) != 2 {
			return nil
		}
		return r
	}
	if i < len(stmts) {
		if r := lenIs(stmts[i], "0"); r != nil && x.src(r.Results[0]) == "nil" {
			if k, ok := constInt(r.Results[1]); ok {
				fmt.Fprintf(&b, "/-- `if len(%s) == 0 { return nil, %s }` -/\ndef spreadEmpty : Int := %s\n\n", input, k, k)
				i++
			}
		}
	}
	if i != 1 {
		return x.fail(fd, "first statement is not `if len(%s) == 0 { return nil, k }`", input)
	}
	if r := lenIs(stmts[i], "1"); r != nil {
		cl, ok := r.Results[0].(*ast.CompositeLit)
		if ok && len(cl.Elts) == 1 {
			if kv, ok := cl.Elts[0].(*ast.KeyValueExpr); ok && x.src(kv.Key) == input+"[0].Name" {
				c, ok1 := constInt(kv.Value)
				k, ok2 := constInt(r.Results[1])
				if ok1 && ok2 {
					fmt.Fprintf(&b, "/-- `if len(%s) == 1 { return map[string]int{%s[0].Name: %s}, %s }` -/\ndef spreadSingle : Int × Int := (%s, %s)\n\n", input, input, c, k, c, k)
					i++
				}
			}
		}
	}
	if i != 2 {
		return x.fail(fd, "second statement is not `if len(%s) == 1 { return map[string]int{%s[0].Name: c}, k }`", input, input)
	}
	// the rest: declarations, the weights loop, div := math.GCDM(weights...), the counting loop, return names, total
	var weights, div, names, total string
	seenLoop1, seenLoop2 := false, false
	for ; i < len(stmts); i++ {
		s := stmts[i]
		switch v := s.(type) {
		case *ast.AssignStmt:
			if len(v.Lhs) == 1 && len(v.Rhs) == 1 && v.Tok == token.DEFINE {
				lhs := x.src(v.Lhs[0])
				rhs := x.src(v.Rhs[0])
				switch {
				case rhs == "make([]int64, len("+input+"))":
					weights = lhs
					continue
				case strings.HasPrefix(rhs, "map[string]") || strings.HasPrefix(rhs, "make(map[string]"):
					if strings.Contains(rhs, "]int") {
						names = lhs
					}
					continue
				case rhs == "0" && c15scenIsInt(info.TypeOf(v.Lhs[0])):
					total = lhs
					continue
				case weights != "" && seenLoop1 && (rhs == "math.GCDM("+weights+"...)"):
					div = lhs
					continue
				}
			}
		case *ast.RangeStmt:
			if !seenLoop1 && weights != "" && x.src(v.X) == input && v.Value == nil && v.Key != nil {
				// for i := range input { registry[..] = input[i]; if input[i].Weight == K0 { input[i].Weight = K1 }; weights[i] = input[i].Weight }
				iv := x.src(v.Key)
				w := input + "[" + iv + "].Weight"
				eff := ""
				stored := false
				for _, bs := range v.Body.List {
					switch bv := bs.(type) {
					case *ast.IfStmt:
						if bv.Init == nil && bv.Else == nil && len(bv.Body.List) == 1 && eff == "" && !stored {
							if as, ok := bv.Body.List[0].(*ast.AssignStmt); ok && as.Tok == token.ASSIGN && len(as.Lhs) == 1 && x.src(as.Lhs[0]) == w {
								x.vars = map[string]string{w: "w"}
								eff = "if " + x.expr(bv.Cond, nil) + " then " + x.expr(as.Rhs[0], nil) + " else w"
								x.vars = nil
								continue
							}
						}
					case *ast.AssignStmt:
						if len(bv.Lhs) == 1 && len(bv.Rhs) == 1 && bv.Tok == token.ASSIGN {
							if x.src(bv.Lhs[0]) == weights+"["+iv+"]" && x.src(bv.Rhs[0]) == w {
								stored = true
								continue
							}
							if ix, ok := bv.Lhs[0].(*ast.IndexExpr); ok {
								if _, isMap := info.TypeOf(ix.X).Underlying().(*types.Map); isMap && x.src(bv.Rhs[0]) == input+"["+iv+"]" {
									continue // registry of the scenarios by name (not used for the result)
								}
							}
						}
					}
					return x.fail(bs, "statement of the weights loop: %s", x.src(bs))
				}
				if !stored {
					return x.fail(v, "the weights loop does not store %s", w)
				}
				if eff == "" {
					eff = "w"
				}
				fmt.Fprintf(&b, "/-- the weight `SpreadNames` uses for a scenario whose configured weight is `w` -/\ndef spreadEffWeight (w : Int) : Int := %s\n\n", eff)
				seenLoop1 = true
				continue
			}
			if seenLoop1 && !seenLoop2 && div != "" && names != "" && total != "" && x.src(v.X) == input && v.Value != nil {
				sc := x.src(v.Value)
				cnt, cntExpr, totalStep := "", "", ""
				namesSet := false
				for _, bs := range v.Body.List {
					as, ok := bs.(*ast.AssignStmt)
					if !ok || len(as.Lhs) != 1 || len(as.Rhs) != 1 {
						return x.fail(bs, "statement of the counting loop: %s", x.src(bs))
					}
					lhs := x.src(as.Lhs[0])
					switch {
					case as.Tok == token.DEFINE && cnt == "":
						cnt = lhs
						x.vars = map[string]string{sc + ".Weight": "w", div: "div"}
						cntExpr = x.expr(as.Rhs[0], nil)
						x.vars = nil
					case lhs == total && cnt != "":
						x.vars = map[string]string{cnt: "cnt", total: "total"}
						switch as.Tok {
						case token.ADD_ASSIGN:
							totalStep = "(total + " + x.expr(as.Rhs[0], nil) + ")"
						case token.ASSIGN:
							totalStep = x.expr(as.Rhs[0], nil)
						default:
							x.vars = nil
							return x.fail(bs, "assign op")
						}
						x.vars = nil
					case lhs == names+"["+sc+".Name]" && as.Tok == token.ASSIGN && x.src(as.Rhs[0]) == cnt && cnt != "":
						namesSet = true
					default:
						return x.fail(bs, "statement of the counting loop: %s", x.src(bs))
					}
				}
				if cntExpr == "" || totalStep == "" || !namesSet {
					return x.fail(v, "counting loop incomplete")
				}
				fmt.Fprintf(&b, "/-- copies of a scenario of (effective) weight `w` in the ring: `%s` -/\ndef spreadCnt (w div : Int) : Int := %s\n\n", "cnt := int(sc.Weight / div)", cntExpr)
				fmt.Fprintf(&b, "/-- how the ring size accumulates -/\ndef spreadTotalStep (total cnt : Int) : Int := %s\n\n", totalStep)
				seenLoop2 = true
				continue
			}
		case *ast.ReturnStmt:
			if seenLoop2 && len(v.Results) == 2 && x.src(v.Results[0]) == names && x.src(v.Results[1]) == total && i == len(stmts)-1 {
				fmt.Fprintf(&b, "/-- `div := math.GCDM(weights...)` over the effective weights in input order -/\ndef spreadDiv (ws : List Int) : Option Int := GCDM ws\n")
				return fmt.Sprintf("/-! regenerated from `%s` func `SpreadNames` -/\n\n", rel) + b.String()
			}
		}
		return x.fail(s, "statement of SpreadNames: %s", x.src(s))
	}
	return x.fail(fd, "SpreadNames does not end in `return %s, %s`", names, total)
}

// ---------------------------------------------------------------- constants of the failed sample, weight check

func (x *c15scenX) strConst(e ast.Expr) (string, bool) {
	if tv, ok := x.pkg.TypesInfo.Types[e]; ok && tv.Value != nil && tv.Value.Kind() == constant.String {
		return constant.StringVal(tv.Value), true
	}
	return "", false
}

// gunConsts: EmptyTag, the separator in `tag := ammo.Name + "." + req.Name`, what reportErr does to the sample.
func (x *c15scenX) gunConsts(shoot, reportErr *ast.FuncDecl) string {
	var b strings.Builder
	x.ctx = "gun.go"
	obj := x.pkg.Types.Scope().Lookup("EmptyTag")
	c, ok := obj.(*types.Const)
	if !ok || c.Val().Kind() != constant.String {
		return x.fail(shoot, "const EmptyTag not found")
	}
	fmt.Fprintf(&b, "/-- regenerated from `components/guns/http_scenario/gun.go` const `EmptyTag` -/\ndef emptyTag : String := %q\n\n", constant.StringVal(c.Val()))
	// tag := ammo.Name + sep + req.Name
	sep, found := "", false
	ast.Inspect(shoot.Body, func(n ast.Node) bool {
		as, ok := n.(*ast.AssignStmt)
		if !ok || len(as.Lhs) != 1 || len(as.Rhs) != 1 || x.src(as.Lhs[0]) != "tag" {
			return true
		}
		if be, ok := as.Rhs[0].(*ast.BinaryExpr); ok && be.Op == token.ADD {
			if l, ok := be.X.(*ast.BinaryExpr); ok && l.Op == token.ADD && x.src(l.X) == "ammo.Name" && x.src(be.Y) == "req.Name" {
				if sv, ok := x.strConst(l.Y); ok {
					sep, found = sv, true
				}
			}
		}
		return true
	})
	if !found {
		return x.fail(shoot, "`tag := ammo.Name + sep + req.Name` not found in shoot")
	}
	fmt.Fprintf(&b, "/-- regenerated from `shoot`: `tag := ammo.Name + %q + req.Name` -/\ndef stepTagSep : String := %q\n\n", sep, sep)
	// reportErr
	x.ctx = "reportErr"
	code := ""
	addsEmpty, setsErr, reports := false, false, false
	for _, s := range reportErr.Body.List {
		switch v := s.(type) {
		case *ast.IfStmt: // if err == nil { return }
			if x.src(v.Cond) == "err == nil" && len(v.Body.List) == 1 && v.Else == nil {
				if r, ok := v.Body.List[0].(*ast.ReturnStmt); ok && len(r.Results) == 0 {
					continue
				}
			}
		case *ast.ExprStmt:
			call, ok := v.X.(*ast.CallExpr)
			if !ok {
				break
			}
			switch fn := x.src(call.Fun); {
			case fn == "sample.AddTag" && len(call.Args) == 1 && x.src(call.Args[0]) == "EmptyTag" && !reports:
				addsEmpty = true
				continue
			case fn == "sample.SetProtoCode" && len(call.Args) == 1 && !reports:
				if tv, ok := x.pkg.TypesInfo.Types[call.Args[0]]; ok && tv.Value != nil && tv.Value.Kind() == constant.Int {
					code = tv.Value.ExactString()
					continue
				}
			case fn == "sample.SetErr" && len(call.Args) == 1 && x.src(call.Args[0]) == "err" && !reports:
				setsErr = true
				continue
			case strings.HasSuffix(fn, ".Aggregator.Report") && len(call.Args) == 1 && x.src(call.Args[0]) == "sample":
				reports = true
				continue
			}
		}
		return x.fail(s, "statement of reportErr: %s", x.src(s))
	}
	if code == "" {
		return x.fail(reportErr, "reportErr does not set a constant proto code")
	}
	fmt.Fprintf(&b, "/-- regenerated from `reportErr`: `sample.SetProtoCode(%s)` -/\ndef failCode : Int := %s\n\n", code, code)
	fmt.Fprintf(&b, "/-- regenerated from `reportErr`: the sample gets the tag `EmptyTag`, carries the error and is reported -/\ndef failTagged : Bool := %v\n\n", addsEmpty && setsErr && reports)
	return b.String()
}

func (x *c15scenX) tagSep(addTag *ast.FuncDecl) string {
	x.ctx = "Sample.AddTag"
	// if s.tags == "" { s.tags = tag; return }; s.tags += sep + tag
	if len(addTag.Body.List) == 2 {
		if as, ok := addTag.Body.List[1].(*ast.AssignStmt); ok && as.Tok == token.ADD_ASSIGN && len(as.Rhs) == 1 {
			if be, ok := as.Rhs[0].(*ast.BinaryExpr); ok && be.Op == token.ADD && x.src(be.Y) == "tag" {
				if sv, ok := x.strConst(be.X); ok {
					if is, ok := addTag.Body.List[0].(*ast.IfStmt); ok && x.src(is.Cond) == `s.tags == ""` {
						return fmt.Sprintf("/-- regenerated from `core/aggregator/netsample/sample.go` `AddTag`: `s.tags += %q + tag` (a first tag is stored as it is) -/\ndef tagSep : String := %q\n", sv, sv)
					}
				}
			}
		}
	}
	return x.fail(addTag, "AddTag shape")
}

// weightRefused: `if sc.Weight < 0 { return nil, fmt.Errorf(...) }` in the registry loop of decodeAmmo
func (x *c15scenX) weightRefused(fd *ast.FuncDecl) string {
	x.ctx = "decodeAmmo"
	out := ""
	n := 0
	ast.Inspect(fd.Body, func(nd ast.Node) bool {
		is, ok := nd.(*ast.IfStmt)
		if !ok || is.Init != nil || is.Else != nil || !strings.Contains(x.src(is.Cond), ".Weight") || len(is.Body.List) != 1 {
			return true
		}
		r, ok := is.Body.List[0].(*ast.ReturnStmt)
		if !ok || len(r.Results) != 2 || x.src(r.Results[0]) != "nil" || x.src(r.Results[1]) == "nil" {
			return true
		}
		x.vars = map[string]string{"sc.Weight": "w"}
		out = x.expr(is.Cond, nil)
		x.vars = nil
		n++
		return true
	})
	if n != 1 {
		return x.fail(fd, "expected exactly one `if <cond on sc.Weight> { return nil, err }`, found %d", n)
	}
	return fmt.Sprintf("/-- regenerated from `components/providers/scenario/http/decode.go` `decodeAmmo`: when a weight is refused -/\ndef weightRefused (w : Int) : Prop := %s\n\ninstance (w : Int) : Decidable (weightRefused w) := by unfold weightRefused; exact inferInstance\n", out)
}

// checkSpread (round 6, repair 4cfc662): `config.CheckSpread(names, total)` must be, in any order of its statements,
// one refusal `if <cond on total> { return err }` and one loop over `names` whose body is the single refusal
// `if <cond on cnt> { return err }`, ending in `return nil`. The two conditions are emitted as Lean predicates.
func (x *c15scenX) checkSpread(fd *ast.FuncDecl) string {
	x.ctx = "CheckSpread"
	ps := fd.Type.Params.List
	var pnames []string
	for _, f := range ps {
		for _, n := range f.Names {
			pnames = append(pnames, n.Name)
		}
	}
	if len(pnames) != 2 {
		return x.fail(fd, "expected CheckSpread(names, total)")
	}
	namesV, totalV := pnames[0], pnames[1]
	isRefusal := func(s ast.Stmt) (*ast.IfStmt, bool) {
		is, ok := s.(*ast.IfStmt)
		if !ok || is.Init != nil || is.Else != nil || len(is.Body.List) != 1 {
			return nil, false
		}
		r, ok := is.Body.List[0].(*ast.ReturnStmt)
		if !ok || len(r.Results) != 1 || x.src(r.Results[0]) == "nil" {
			return nil, false
		}
		return is, true
	}
	total, cnt := "", ""
	body := fd.Body.List
	if len(body) == 0 {
		return x.fail(fd, "empty body")
	}
	last, ok := body[len(body)-1].(*ast.ReturnStmt)
	if !ok || len(last.Results) != 1 || x.src(last.Results[0]) != "nil" {
		return x.fail(fd, "CheckSpread does not end in `return nil`")
	}
	for _, s := range body[:len(body)-1] {
		if is, ok := isRefusal(s); ok && total == "" {
			x.vars = map[string]string{totalV: "total"}
			total = x.expr(is.Cond, nil)
			x.vars = nil
			continue
		}
		if rs, ok := s.(*ast.RangeStmt); ok && cnt == "" && x.src(rs.X) == namesV && rs.Value != nil && len(rs.Body.List) == 1 {
			if is, ok := isRefusal(rs.Body.List[0]); ok {
				x.vars = map[string]string{x.src(rs.Value): "cnt"}
				cnt = x.expr(is.Cond, nil)
				x.vars = nil
				continue
			}
		}
		return x.fail(s, "statement of CheckSpread: %s", x.src(s))
	}
	if total == "" || cnt == "" {
		return x.fail(fd, "CheckSpread lacks the refusal of the total or of a count")
	}
	var b strings.Builder
	b.WriteString("/-! regenerated from `components/providers/scenario/config/decode.go` func `CheckSpread` (repair 4cfc662) -/\n\n")
	fmt.Fprintf(&b, "/-- when the ring size computed by `SpreadNames` is refused -/\ndef spreadTotalRefused (total : Int) : Prop := %s\n\ninstance (total : Int) : Decidable (spreadTotalRefused total) := by unfold spreadTotalRefused; exact inferInstance\n\n", total)
	fmt.Fprintf(&b, "/-- when the copy count of one scenario is refused -/\ndef spreadCntRefused (cnt : Int) : Prop := %s\n\ninstance (cnt : Int) : Decidable (spreadCntRefused cnt) := by unfold spreadCntRefused; exact inferInstance\n", cnt)
	return b.String()
}

// spreadChecked: in `decodeAmmo` the pair returned by `config.SpreadNames` goes through `config.CheckSpread` (error
// returned) BEFORE `make([]…, 0, size)` allocates with it.
func (x *c15scenX) spreadChecked(fd *ast.FuncDecl) string {
	x.ctx = "decodeAmmo"
	namesV, sizeV := "", ""
	stage := 0
	for _, s := range fd.Body.List {
		switch v := s.(type) {
		case *ast.AssignStmt:
			if len(v.Lhs) == 2 && len(v.Rhs) == 1 && strings.HasPrefix(x.src(v.Rhs[0]), "config.SpreadNames(") {
				namesV, sizeV = x.src(v.Lhs[0]), x.src(v.Lhs[1])
				stage = 1
				continue
			}
			if len(v.Rhs) == 1 && strings.HasPrefix(x.src(v.Rhs[0]), "make(") && sizeV != "" && strings.Contains(x.src(v.Rhs[0]), sizeV) {
				if stage != 2 {
					return x.fail(s, "`make` uses the size of SpreadNames before config.CheckSpread has accepted it")
				}
				stage = 3
			}
		case *ast.IfStmt:
			if stage == 1 && v.Init != nil && v.Else == nil && x.src(v.Cond) == "err != nil" && len(v.Body.List) == 1 {
				if as, ok := v.Init.(*ast.AssignStmt); ok && len(as.Rhs) == 1 && x.src(as.Rhs[0]) == "config.CheckSpread("+namesV+", "+sizeV+")" {
					if r, ok := v.Body.List[0].(*ast.ReturnStmt); ok && len(r.Results) == 2 && x.src(r.Results[1]) == "err" {
						stage = 2
					}
				}
			}
		}
	}
	if stage != 3 {
		return x.fail(fd, "expected `names, size := config.SpreadNames(…); if err := config.CheckSpread(names, size); err != nil { return nil, err }; … make(…, size)` (stage %d)", stage)
	}
	return "/-- regenerated from `decodeAmmo`: the result of `SpreadNames` passes `config.CheckSpread` (its error is returned) before `make` allocates the ring -/\ndef spreadChecked : Bool := true\n"
}

func c15scenExtra(t *tr) string {
	const (
		pMath = "github.com/yandex/pandora/lib/math"
		pMp   = "github.com/yandex/pandora/lib/mp"
		pCfg  = "github.com/yandex/pandora/components/providers/scenario/config"
		pDec  = "github.com/yandex/pandora/components/providers/scenario/http"
		pGun  = "github.com/yandex/pandora/components/guns/http_scenario"
		pSmp  = "github.com/yandex/pandora/core/aggregator/netsample"
	)
	pk := c15scenLoad(pMath, pMp, pCfg, pDec, pGun, pSmp)
	var b strings.Builder
	b.WriteString("open Pandora.Model.C15\n\n")
	b.WriteString("/-- `xs[i]`; `none` = index out of range (the Go code panics) -/\ndef idx? (xs : List Int) (i : Int) : Option Int := if 0 ≤ i then xs[i.toNat]? else none\n\n")
	b.WriteString("/-- `xs[lo:hi]`; `none` = slice bounds out of range -/\ndef slice? (xs : List Int) (lo hi : Int) : Option (List Int) :=\n  if 0 ≤ lo ∧ lo ≤ hi ∧ hi ≤ xs.length then some ((xs.take hi.toNat).drop lo.toNat) else none\n\n")
	need := func(p *packages.Package, recv, name string) *ast.FuncDecl {
		fd := c15scenFunc(p, recv, name)
		if fd == nil {
			t.errs = append(t.errs, fmt.Sprintf("c15scen: %s.%s not found in %s", recv, name, p.PkgPath))
		}
		return fd
	}
	xm := &c15scenX{t: t, pkg: pk[pMath], calls: map[string]string{}}
	if fd := need(pk[pMath], "", "GCD"); fd != nil {
		b.WriteString(xm.intFunc(fd, false) + "\n")
	}
	if fd := need(pk[pMath], "", "GCDM"); fd != nil {
		b.WriteString(xm.intFunc(fd, true) + "\n")
	}
	xc := &c15scenX{t: t, pkg: pk[pCfg], calls: map[string]string{}}
	if fd := need(pk[pCfg], "", "SpreadNames"); fd != nil {
		b.WriteString(xc.spreadNames(fd) + "\n")
	}
	xp := &c15scenX{t: t, pkg: pk[pMp], calls: map[string]string{}}
	if fd := need(pk[pMp], "NextIterator", "Next"); fd != nil {
		b.WriteString(xp.nextCode(fd) + "\n")
	}
	if fd := need(pk[pMp], "", "calcIndex"); fd != nil {
		b.WriteString(xp.nextIndex(fd) + "\n")
	}
	xd := &c15scenX{t: t, pkg: pk[pDec], calls: map[string]string{}}
	if fd := need(pk[pDec], "", "decodeAmmo"); fd != nil {
		b.WriteString(xd.weightRefused(fd) + "\n")
		b.WriteString(xd.spreadChecked(fd) + "\n")
	}
	if fd := need(pk[pCfg], "", "CheckSpread"); fd != nil {
		b.WriteString(xc.checkSpread(fd) + "\n")
	}
	xg := &c15scenX{t: t, pkg: pk[pGun], calls: map[string]string{}}
	sh, re := need(pk[pGun], "ScenarioGun", "shoot"), need(pk[pGun], "ScenarioGun", "reportErr")
	if sh != nil && re != nil {
		b.WriteString(xg.gunConsts(sh, re))
	}
	xs := &c15scenX{t: t, pkg: pk[pSmp], calls: map[string]string{}}
	if fd := need(pk[pSmp], "Sample", "AddTag"); fd != nil {
		b.WriteString(xs.tagSep(fd) + "\n")
	}
	return b.String()
}
