package main

// C06, round 6: small structural facts (go/ast + go/types) that the control skeletons do not show, emitted into
// Pandora.Gen.AggQ; Bridge/C06R6.lean states what the models were written from.
//
//	phoutStdoutCloserNoop        NewPhout: under `<destination> == ""` the closer handed to the aggregator (its `file`
//	                             field) is a value of a type of this package whose Close method calls nothing
//	                             (os.Stdout is never closed by an aggregator)
//	phoutDeferFlushes/Closes     the first deferred function of phoutAggregator.Run calls writer.Flush / file.Close at
//	                             its top level before any statement that can leave it (a guarded `return` …)
//	phoutRunGoStmts              `go` statements in phoutAggregator.Run + handle
//	phoutWriterUsers             the functions of package netsample that select the field `writer` of the aggregator
//	engineRunCancelsOnReturn     Engine.Run derives its context with context.WithCancel, runs the pools under the
//	                             derived context and calls the cancel function in a deferred call
//	cliFailBranchCancels         awaitPandoraTermination: in the outer `case err := <-errs` clause the func() parameter
//	                             (gracefulShutdown) is called before Engine.Wait
//	cliRunEngineCancels          runEngine: engine.Run gets a context derived with WithCancel whose cancel is deferred

import (
	"fmt"
	"go/ast"
	"go/types"
	"sort"
	"strings"

	"golang.org/x/tools/go/packages"
)

func aggqR6CalleeIs(p *packages.Package, c *ast.CallExpr, pkgPath, name string) bool {
	sel, ok := c.Fun.(*ast.SelectorExpr)
	if !ok || sel.Sel.Name != name {
		return false
	}
	if fn, ok := p.TypesInfo.Uses[sel.Sel].(*types.Func); ok && fn.Pkg() != nil {
		return fn.Pkg().Path() == pkgPath
	}
	return false
}

// aggqR6FieldCall: is c a call `<x>.<field>.<method>(…)` where <field> is a struct field of that name
func aggqR6FieldCall(p *packages.Package, c *ast.CallExpr, field, method string) bool {
	sel, ok := c.Fun.(*ast.SelectorExpr)
	if !ok || sel.Sel.Name != method {
		return false
	}
	in, ok := sel.X.(*ast.SelectorExpr)
	if !ok || in.Sel.Name != field {
		return false
	}
	v, ok := p.TypesInfo.Uses[in.Sel].(*types.Var)
	return ok && v.IsField()
}

func aggqR6HasReturn(n ast.Node) bool {
	found := false
	ast.Inspect(n, func(m ast.Node) bool {
		switch m.(type) {
		case *ast.FuncLit:
			return false
		case *ast.ReturnStmt:
			found = true
		}
		return !found
	})
	return found
}

// aggqR6DerivedCancel: `c, cancel := context.WithCancel(parent)` statements of a body: derived ctx object → cancel object
func aggqR6Derived(p *packages.Package, body *ast.BlockStmt) map[types.Object]types.Object {
	out := map[types.Object]types.Object{}
	ast.Inspect(body, func(n ast.Node) bool {
		as, ok := n.(*ast.AssignStmt)
		if !ok || len(as.Lhs) != 2 || len(as.Rhs) != 1 {
			return true
		}
		c, ok := as.Rhs[0].(*ast.CallExpr)
		if !ok || !aggqR6CalleeIs(p, c, "context", "WithCancel") {
			return true
		}
		a, ok1 := as.Lhs[0].(*ast.Ident)
		b, ok2 := as.Lhs[1].(*ast.Ident)
		if !ok1 || !ok2 {
			return true
		}
		obj := func(id *ast.Ident) types.Object {
			if o := p.TypesInfo.Defs[id]; o != nil {
				return o
			}
			return p.TypesInfo.Uses[id]
		}
		if obj(a) != nil && obj(b) != nil {
			out[obj(a)] = obj(b)
		}
		return true
	})
	return out
}

// aggqR6DeferredCalls: the objects called (as plain identifiers) in deferred calls / deferred function literals of body
func aggqR6DeferredCalls(p *packages.Package, body *ast.BlockStmt) map[types.Object]bool {
	out := map[types.Object]bool{}
	for _, st := range body.List {
		d, ok := st.(*ast.DeferStmt)
		if !ok {
			continue
		}
		if id, ok := d.Call.Fun.(*ast.Ident); ok {
			out[p.TypesInfo.Uses[id]] = true
		}
		if fl, ok := d.Call.Fun.(*ast.FuncLit); ok {
			ast.Inspect(fl.Body, func(n ast.Node) bool {
				if c, ok := n.(*ast.CallExpr); ok {
					if id, ok := c.Fun.(*ast.Ident); ok {
						out[p.TypesInfo.Uses[id]] = true
					}
				}
				return true
			})
		}
	}
	return out
}

// aggqR6RunUnderDerived: does body call a method `Run` with one argument that is a context derived (WithCancel) in this
// body whose cancel function is called in a deferred call
func aggqR6RunUnderDerived(p *packages.Package, fd *ast.FuncDecl) bool {
	if fd == nil || fd.Body == nil {
		return false
	}
	derived := aggqR6Derived(p, fd.Body)
	deferred := aggqR6DeferredCalls(p, fd.Body)
	ok := false
	ast.Inspect(fd.Body, func(n ast.Node) bool {
		c, isCall := n.(*ast.CallExpr)
		if !isCall || len(c.Args) != 1 {
			return true
		}
		sel, isSel := c.Fun.(*ast.SelectorExpr)
		if !isSel || sel.Sel.Name != "Run" {
			return true
		}
		id, isID := c.Args[0].(*ast.Ident)
		if !isID {
			return true
		}
		if cancel, has := derived[p.TypesInfo.Uses[id]]; has && deferred[cancel] {
			ok = true
		}
		return true
	})
	return ok
}

func aggqRound6Facts(b *strings.Builder, t *tr) {
	// ---- netsample
	{
		p := load("github.com/yandex/pandora/core/aggregator/netsample")
		// types of this package whose Close method calls nothing
		noop := map[string]bool{}
		for _, f := range p.Syntax {
			for _, d := range f.Decls {
				fd, ok := d.(*ast.FuncDecl)
				if !ok || fd.Name.Name != "Close" || fd.Recv == nil || len(fd.Recv.List) != 1 || fd.Body == nil {
					continue
				}
				calls := false
				ast.Inspect(fd.Body, func(n ast.Node) bool {
					if _, ok := n.(*ast.CallExpr); ok {
						calls = true
					}
					return true
				})
				ty := fd.Recv.List[0].Type
				if st, ok := ty.(*ast.StarExpr); ok {
					ty = st.X
				}
				if id, ok := ty.(*ast.Ident); ok && !calls {
					noop[id.Name] = true
				}
			}
		}
		closerNoop := false
		if fd := aggqFindMethod(p, "", "NewPhout"); fd != nil && fd.Body != nil {
			// the variable that becomes the aggregator's `file` field
			var fileVar types.Object
			ast.Inspect(fd.Body, func(n ast.Node) bool {
				kv, ok := n.(*ast.KeyValueExpr)
				if !ok {
					return true
				}
				if k, ok := kv.Key.(*ast.Ident); ok && k.Name == "file" {
					if v, ok := kv.Value.(*ast.Ident); ok {
						fileVar = p.TypesInfo.Uses[v]
					}
				}
				return true
			})
			// the other way to write it: the closer starts as the no-op one and `if <destination> != ""` replaces it
			isNoopLit := func(e ast.Expr) bool {
				if c, ok := e.(*ast.CallExpr); ok && len(c.Args) == 1 { // a conversion: io.Closer(stdoutCloser{})
					e = c.Args[0]
				}
				cl, ok := e.(*ast.CompositeLit)
				if !ok {
					return false
				}
				id, ok := cl.Type.(*ast.Ident)
				return ok && noop[id.Name]
			}
			startsNoop := false
			ast.Inspect(fd.Body, func(n ast.Node) bool {
				switch x := n.(type) {
				case *ast.ValueSpec:
					for i, nm := range x.Names {
						if fileVar != nil && p.TypesInfo.Defs[nm] == fileVar && i < len(x.Values) && isNoopLit(x.Values[i]) {
							startsNoop = true
						}
					}
				case *ast.AssignStmt:
					if x.Tok.String() == ":=" && len(x.Lhs) == 1 && len(x.Rhs) == 1 {
						if id, ok := x.Lhs[0].(*ast.Ident); ok && fileVar != nil && p.TypesInfo.Defs[id] == fileVar && isNoopLit(x.Rhs[0]) {
							startsNoop = true
						}
					}
				}
				return true
			})
			if startsNoop {
				// every other assignment to it must be under `<x> != ""`
				guarded := true
				ast.Inspect(fd.Body, func(n ast.Node) bool {
					if is, ok := n.(*ast.IfStmt); ok {
						if c, ok := is.Cond.(*ast.BinaryExpr); ok && c.Op.String() == "!=" {
							if lit, ok := c.Y.(*ast.BasicLit); ok && lit.Value == `""` {
								return false // assignments in here are fine
							}
						}
					}
					if as, ok := n.(*ast.AssignStmt); ok && as.Tok.String() == "=" {
						for _, l := range as.Lhs {
							if id, ok := l.(*ast.Ident); ok && p.TypesInfo.Uses[id] == fileVar {
								guarded = false
							}
						}
					}
					return true
				})
				closerNoop = guarded
			}
			ast.Inspect(fd.Body, func(n ast.Node) bool {
				is, ok := n.(*ast.IfStmt)
				if !ok {
					return true
				}
				cond, ok := is.Cond.(*ast.BinaryExpr)
				if !ok || cond.Op.String() != "==" {
					return true
				}
				if lit, ok := cond.Y.(*ast.BasicLit); !ok || lit.Value != `""` {
					return true
				}
				for _, st := range is.Body.List {
					as, ok := st.(*ast.AssignStmt)
					if !ok || len(as.Lhs) != 1 || len(as.Rhs) != 1 {
						continue
					}
					l, ok := as.Lhs[0].(*ast.Ident)
					if !ok || fileVar == nil || p.TypesInfo.Uses[l] != fileVar {
						continue
					}
					if cl, ok := as.Rhs[0].(*ast.CompositeLit); ok {
						if id, ok := cl.Type.(*ast.Ident); ok && noop[id.Name] {
							closerNoop = true
						}
					}
				}
				return true
			})
		}
		flushes, closes := false, false
		goStmts := 0
		for _, name := range []string{"Run", "handle"} {
			fd := aggqFindMethod(p, "phoutAggregator", name)
			if fd == nil || fd.Body == nil {
				t.errs = append(t.errs, "core/aggregator/netsample/phout.go: (phoutAggregator)."+name+" not found")
				continue
			}
			ast.Inspect(fd.Body, func(n ast.Node) bool {
				if _, ok := n.(*ast.GoStmt); ok {
					goStmts++
				}
				return true
			})
			if name != "Run" {
				continue
			}
			for _, st := range fd.Body.List {
				d, ok := st.(*ast.DeferStmt)
				if !ok {
					continue
				}
				fl, ok := d.Call.Fun.(*ast.FuncLit)
				if !ok {
					break
				}
				for _, s := range fl.Body.List {
					if aggqR6HasReturn(s) {
						break // what follows may be skipped
					}
					var call *ast.CallExpr
					switch x := s.(type) {
					case *ast.ExprStmt:
						call, _ = x.X.(*ast.CallExpr)
					case *ast.AssignStmt:
						if len(x.Rhs) == 1 {
							call, _ = x.Rhs[0].(*ast.CallExpr)
						}
					}
					if call == nil {
						continue
					}
					if aggqR6FieldCall(p, call, "writer", "Flush") {
						flushes = true
					}
					if aggqR6FieldCall(p, call, "file", "Close") && flushes {
						closes = true // Close after the Flush
					}
				}
				break // the first deferred function only
			}
		}
		users := map[string]bool{}
		for _, f := range p.Syntax {
			for _, d := range f.Decls {
				fd, ok := d.(*ast.FuncDecl)
				if !ok || fd.Body == nil {
					continue
				}
				ast.Inspect(fd.Body, func(n ast.Node) bool {
					sel, ok := n.(*ast.SelectorExpr)
					if !ok || sel.Sel.Name != "writer" {
						return true
					}
					if v, ok := p.TypesInfo.Uses[sel.Sel].(*types.Var); ok && v.IsField() {
						users[fd.Name.Name] = true
					}
					return true
				})
			}
		}
		var us []string
		for u := range users {
			us = append(us, fmt.Sprintf("%q", u))
		}
		sort.Strings(us)
		b.WriteString("/-- regenerated (round 6, gen/area_aggq_r6.go): an aggregator without destination gets a closer that calls nothing -/\n")
		fmt.Fprintf(b, "def phoutStdoutCloserNoop : Bool := %v\n", closerNoop)
		b.WriteString("/-- regenerated: the first deferred function of `phoutAggregator.Run` reaches `writer.Flush` / then `file.Close` on every path -/\n")
		fmt.Fprintf(b, "def phoutDeferFlushes : Bool := %v\ndef phoutDeferCloses : Bool := %v\n", flushes, closes)
		b.WriteString("/-- regenerated: `go` statements in `phoutAggregator.Run` and `handle`; the functions that touch the buffered writer -/\n")
		fmt.Fprintf(b, "def phoutRunGoStmts : Nat := %d\ndef phoutWriterUsers : List String := [%s]\n\n", goStmts, strings.Join(us, ", "))
	}
	// ---- engine, cli
	{
		p := load("github.com/yandex/pandora/core/engine")
		fmt.Fprintf(b, "/-- regenerated: `Engine.Run` runs the pools under a context it derives and cancels when it returns -/\ndef engineRunCancelsOnReturn : Bool := %v\n",
			aggqR6RunUnderDerived(p, aggqFindMethod(p, "Engine", "Run")))
	}
	{
		p := load("github.com/yandex/pandora/cli")
		fmt.Fprintf(b, "/-- regenerated: `runEngine` runs the engine under a context it derives and cancels when `Run` has returned and its result was taken -/\ndef cliRunEngineCancels : Bool := %v\n",
			aggqR6RunUnderDerived(p, aggqFindMethod(p, "", "runEngine")))
		failCancels := false
		if fd := aggqFindMethod(p, "", "awaitPandoraTermination"); fd != nil && fd.Body != nil {
			// the func() parameter and the `chan error` parameter
			var shutdown, errs types.Object
			for _, f := range fd.Type.Params.List {
				for _, n := range f.Names {
					o := p.TypesInfo.Defs[n]
					if o == nil {
						continue
					}
					switch ty := o.Type().Underlying().(type) {
					case *types.Signature:
						if ty.Params().Len() == 0 && ty.Results().Len() == 0 {
							shutdown = o
						}
					case *types.Chan:
						if ty.Elem().String() == "error" {
							errs = o
						}
					}
				}
			}
			// the OUTER select: the first select statement of the body
			var outer *ast.SelectStmt
			for _, st := range fd.Body.List {
				if s, ok := st.(*ast.SelectStmt); ok {
					outer = s
					break
				}
			}
			if outer != nil && shutdown != nil && errs != nil {
				for _, cl := range outer.Body.List {
					cc, ok := cl.(*ast.CommClause)
					if !ok || cc.Comm == nil {
						continue
					}
					fromErrs := false
					ast.Inspect(cc.Comm, func(n ast.Node) bool {
						if u, ok := n.(*ast.UnaryExpr); ok && u.Op.String() == "<-" {
							if id, ok := u.X.(*ast.Ident); ok && p.TypesInfo.Uses[id] == errs {
								fromErrs = true
							}
						}
						return true
					})
					if !fromErrs {
						continue
					}
					// in source order: a call of gracefulShutdown before the call of Wait
					sawShutdown := false
					for _, st := range cc.Body {
						ast.Inspect(st, func(n ast.Node) bool {
							c, ok := n.(*ast.CallExpr)
							if !ok {
								return true
							}
							if id, ok := c.Fun.(*ast.Ident); ok && p.TypesInfo.Uses[id] == shutdown {
								sawShutdown = true
							}
							if sel, ok := c.Fun.(*ast.SelectorExpr); ok && sel.Sel.Name == "Wait" && sawShutdown {
								failCancels = true
							}
							return true
						})
					}
				}
			}
		}
		fmt.Fprintf(b, "/-- regenerated: the engine-failed-first branch of `awaitPandoraTermination` calls `gracefulShutdown()` before `pandora.Wait()` -/\ndef cliFailBranchCancels : Bool := %v\n\n", failCancels)
	}
}
