package main

// Area "c15flow" (property C15, round 2): regenerates from the CURRENT source, into lean/Pandora/Gen/C15Flow.lean (core Lean,
// vocabulary of Pandora/Model/C15Flow.lean and Model/C15Post.lean):
//
//	guns/http_scenario/gun.go     shootStep            -> `stepCode : List SOp` (one instruction per statement that matters:
//	                                                       initVars / pre / chk / storePre / template / prepare / send / readBody /
//	                                                       posts [call, chk, merge, rewind, chk] / storePost / setCode / report / pause)
//	                              shoot                -> `onStepErr : List LOp` (what the loop does when shootStep returned an error),
//	                                                       `requestVarsPerShot` (requestVars is created in shoot, before the loop)
//	scenario/config/decode.go     ParseShootName       -> `parseShoot conv shoot` (defaults, guards, argument positions, result order)
//	scenario/http/decode.go       convertScenarioToAmmo-> `convShoot conv reqs sh acc` (the loop body: sleep item, lookup, pause, copies)
//	                              decodeAmmo           -> `ringCopies ns` (how often a scenario is appended to the ring)
//	http/postprocessor/assert_response.go Process      -> `assertSizeFails`, `assertReadsBody`, `assertStatusFails`, `assertChecks`
//	http/postprocessor/var_header.go      substr       -> `substrBounds start end len`
//	lib/mp/map.go                 calcIndex            -> `idxEmptyRefused`, `idxNumeric`, `idxLast`
//	http/preprocessor/preprocessor.go     Process      -> `preLoopCode` (resolve / chk / store per mapping entry)
//
// Statements that do not matter for the property (logging, tracing, dumps, the deferred Close, declarations) are skipped
// only when they match a white-listed shape; every other statement must match a handled shape, otherwise gen fails
// (broken obligation). Independent statements that may legally be reordered are emitted in a canonical order
// (storePost before setCode). Local names never appear in the output (renaming a local changes nothing).

import (
	"fmt"
	"go/ast"
	"go/constant"
	"go/token"
	"go/types"
	"strings"

	"golang.org/x/tools/go/packages"
)

func init() {
	areas["c15flow"] = area{
		pkgPath:   "github.com/yandex/pandora/lib/mp",
		module:    "C15Flow",
		namespace: "Pandora.Gen.C15Flow",
		imports:   []string{"Pandora.Model.C15Lock", "Pandora.Model.C15Flow", "Pandora.Model.C15Prep"},
		extra:     c15flowExtra,
	}
}

type c15flowX struct {
	*c15scenX
}

func c15flowNew(t *tr, p *packages.Package, ctx string) *c15flowX {
	return &c15flowX{&c15scenX{t: t, pkg: p, ctx: ctx, calls: map[string]string{}}}
}

func (x *c15flowX) rel(n ast.Node) string {
	return strings.TrimPrefix(x.pkg.Fset.Position(n.Pos()).Filename, repo+"/")
}

// isErrChk: `if err != nil { return …non-nil… }`
func (x *c15flowX) isErrChk(s ast.Stmt) bool {
	is, ok := s.(*ast.IfStmt)
	if !ok || is.Init != nil || is.Else != nil || x.src(is.Cond) != "err != nil" || len(is.Body.List) != 1 {
		return false
	}
	r, ok := is.Body.List[0].(*ast.ReturnStmt)
	if !ok || len(r.Results) == 0 {
		return false
	}
	return x.src(r.Results[len(r.Results)-1]) != "nil"
}

func c15flowHasReturn(n ast.Node) bool {
	found := false
	ast.Inspect(n, func(m ast.Node) bool {
		if _, ok := m.(*ast.ReturnStmt); ok {
			found = true
		}
		if _, ok := m.(*ast.FuncLit); ok {
			return false
		}
		return true
	})
	return found
}

// assignsAny reports whether the node assigns to one of the named variables (outside function literals).
func (x *c15flowX) assignsAny(n ast.Node, names map[string]bool) bool {
	found := false
	ast.Inspect(n, func(m ast.Node) bool {
		if _, ok := m.(*ast.FuncLit); ok {
			return false
		}
		if as, ok := m.(*ast.AssignStmt); ok {
			for _, l := range as.Lhs {
				s := x.src(l)
				if i := strings.IndexAny(s, "[."); i > 0 {
					s = s[:i]
				}
				if names[s] {
					found = true
				}
			}
		}
		return true
	})
	return found
}

// ---------------------------------------------------------------- shootStep / shoot

func (x *c15flowX) callName(e ast.Expr) (string, *ast.CallExpr) {
	c, ok := e.(*ast.CallExpr)
	if !ok {
		return "", nil
	}
	return x.src(c.Fun), c
}

// skippable: logging / tracing / declarations that do not touch the tracked variables
func (x *c15flowX) skippable(s ast.Stmt, tracked map[string]bool) bool {
	switch v := s.(type) {
	case *ast.DeclStmt:
		gd, ok := v.Decl.(*ast.GenDecl)
		if !ok {
			return false
		}
		for _, sp := range gd.Specs {
			vs, ok := sp.(*ast.ValueSpec)
			if !ok {
				return false
			}
			if gd.Tok == token.VAR && len(vs.Values) > 0 {
				return false
			}
		}
		return true
	case *ast.DeferStmt:
		return !c15flowHasReturn(v.Call.Fun) || true
	case *ast.IfStmt:
		c := x.src(v.Cond)
		if v.Init == nil && v.Else == nil && (c == "g.base.DebugLog" || c == "g.base.Config.AnswLog.Enabled") {
			return !c15flowHasReturn(v.Body) && !x.assignsAny(v.Body, tracked)
		}
	case *ast.ExprStmt:
		if n, _ := x.callName(v.X); n == "g.saveTrace" {
			return true
		}
	case *ast.AssignStmt:
		if len(v.Rhs) == 1 {
			if n, _ := x.callName(v.Rhs[0]); n == "g.initTracing" {
				return true
			}
			if cl, ok := v.Rhs[0].(*ast.CompositeLit); ok && x.src(cl.Type) == "RequestParts" {
				return true // pure construction of the request parts from the step's fields
			}
		}
	}
	return false
}

func (x *c15flowX) postOps(body []ast.Stmt, procVar, respBody, postVars string) []string {
	var ops []string
	for _, s := range body {
		if x.isErrChk(s) {
			ops = append(ops, ".chk")
			continue
		}
		switch v := s.(type) {
		case *ast.AssignStmt:
			if len(v.Rhs) == 1 && len(v.Lhs) == 2 && x.src(v.Lhs[1]) == "err" {
				n, c := x.callName(v.Rhs[0])
				if n == procVar+".Process" && len(c.Args) == 2 && x.src(c.Args[0]) == "resp" && x.src(c.Args[1]) == respBody {
					ops = append(ops, ".call")
					continue
				}
				if n == respBody+".Seek" && len(c.Args) == 2 && x.src(c.Args[0]) == "0" && x.src(c.Args[1]) == "io.SeekStart" && x.src(v.Lhs[0]) == "_" {
					ops = append(ops, ".rewind")
					continue
				}
			}
		case *ast.RangeStmt:
			// for k, v := range vars { postprocessorVars[k] = v }
			if v.Key != nil && v.Value != nil && len(v.Body.List) == 1 {
				if as, ok := v.Body.List[0].(*ast.AssignStmt); ok && as.Tok == token.ASSIGN && len(as.Lhs) == 1 &&
					x.src(as.Lhs[0]) == postVars+"["+x.src(v.Key)+"]" && x.src(as.Rhs[0]) == x.src(v.Value) {
					ops = append(ops, ".merge")
					continue
				}
			}
		}
		x.fail(s, "statement of the postprocessor loop: %s", x.src(s))
	}
	return ops
}

func (x *c15flowX) stepCode(fd *ast.FuncDecl) string {
	x.ctx = "shootStep"
	var ops []string
	tracked := map[string]bool{"err": true, "resp": true, "stepVars": true, "requestVars": true, "postprocessorVars": true, "templateVars": true}
	stepVars, postVars, processors, respBody := "", "", "step.Postprocessors", "respBody"
	stmts := fd.Body.List
	for i := 0; i < len(stmts); i++ {
		s := stmts[i]
		if x.isErrChk(s) {
			ops = append(ops, ".chk")
			continue
		}
		if x.skippable(s, tracked) {
			continue
		}
		switch v := s.(type) {
		case *ast.AssignStmt:
			if len(v.Lhs) == 1 && len(v.Rhs) == 1 {
				l, r := x.src(v.Lhs[0]), x.src(v.Rhs[0])
				switch {
				case v.Tok == token.DEFINE && r == "map[string]any{}" && stepVars == "":
					stepVars = l
					tracked[l] = true
					continue
				case v.Tok == token.ASSIGN && stepVars != "" && l == "requestVars[step.Name]" && r == stepVars:
					ops = append(ops, ".initVars")
					continue
				case v.Tok == token.DEFINE && r == "map[string]any{}" && stepVars != "" && postVars == "":
					postVars = l
					tracked[l] = true
					continue
				case v.Tok == token.DEFINE && r == "step.Postprocessors":
					processors = l
					continue
				case v.Tok == token.ASSIGN && l == stepVars+`["postprocessor"]` && r == postVars && postVars != "":
					ops = append(ops, ".storePost")
					continue
				}
			}
			if len(v.Lhs) == 2 && len(v.Rhs) == 1 && x.src(v.Lhs[1]) == "err" {
				n, c := x.callName(v.Rhs[0])
				switch {
				case n == "g.prepareRequest" && len(c.Args) == 1:
					ops = append(ops, ".prepare")
					continue
				case n == "g.base.Client.Do" && x.src(v.Lhs[0]) == "resp":
					ops = append(ops, ".send")
					continue
				}
			}
		case *ast.IfStmt:
			c := x.src(v.Cond)
			// the preprocessor block
			if v.Init == nil && v.Else == nil && c == "step.Preprocessor != nil" {
				pv := ""
				for _, b := range v.Body.List {
					if x.isErrChk(b) {
						ops = append(ops, ".chk")
						continue
					}
					if x.skippable(b, tracked) {
						continue
					}
					if as, ok := b.(*ast.AssignStmt); ok {
						if len(as.Lhs) == 2 && len(as.Rhs) == 1 && x.src(as.Lhs[1]) == "err" {
							if n, cc := x.callName(as.Rhs[0]); n == "step.Preprocessor.Process" && len(cc.Args) == 1 && x.src(cc.Args[0]) == "templateVars" {
								pv = x.src(as.Lhs[0])
								ops = append(ops, ".pre")
								continue
							}
						}
						if len(as.Lhs) == 1 && len(as.Rhs) == 1 && as.Tok == token.ASSIGN && pv != "" &&
							x.src(as.Lhs[0]) == stepVars+`["preprocessor"]` && x.src(as.Rhs[0]) == pv {
							ops = append(ops, ".storePre")
							continue
						}
					}
					x.fail(b, "statement of the preprocessor block: %s", x.src(b))
				}
				continue
			}
			// if err := step.Templater.Apply(&reqParts, templateVars, ammoName, step.Name); err != nil { return … }
			if v.Init != nil && v.Else == nil && c == "err != nil" && len(v.Body.List) == 1 {
				if as, ok := v.Init.(*ast.AssignStmt); ok && len(as.Rhs) == 1 {
					if n, cc := x.callName(as.Rhs[0]); n == "step.Templater.Apply" && len(cc.Args) >= 2 && x.src(cc.Args[1]) == "templateVars" {
						if r, ok := v.Body.List[0].(*ast.ReturnStmt); ok && len(r.Results) == 1 && x.src(r.Results[0]) != "nil" {
							ops = append(ops, ".template", ".chk")
							continue
						}
					}
				}
			}
			// reading the body: both branches assign err from io.ReadAll(resp.Body) / io.Copy(io.Discard, resp.Body)
			if v.Init == nil && v.Else != nil {
				reads := func(b *ast.BlockStmt) bool {
					ok := false
					for _, bs := range b.List {
						if as, isAs := bs.(*ast.AssignStmt); isAs && len(as.Rhs) == 1 && len(as.Lhs) == 2 && x.src(as.Lhs[1]) == "err" {
							n, cc := x.callName(as.Rhs[0])
							if (n == "io.ReadAll" && len(cc.Args) == 1 && x.src(cc.Args[0]) == "resp.Body") ||
								(n == "io.Copy" && len(cc.Args) == 2 && x.src(cc.Args[1]) == "resp.Body") {
								ok = true
								continue
							}
						}
						if is, isIf := bs.(*ast.IfStmt); isIf && x.src(is.Cond) == "err == nil" && !c15flowHasReturn(is) {
							continue // respBody = bytes.NewReader(respBodyBytes)
						}
						return false
					}
					return ok
				}
				if eb, ok := v.Else.(*ast.BlockStmt); ok && reads(v.Body) && reads(eb) {
					ops = append(ops, ".readBody")
					continue
				}
			}
			// if step.Sleep > 0 { time.Sleep(step.Sleep) }
			if v.Init == nil && v.Else == nil && c == "step.Sleep > 0" && len(v.Body.List) == 1 {
				if es, ok := v.Body.List[0].(*ast.ExprStmt); ok && x.src(es.X) == "time.Sleep(step.Sleep)" {
					ops = append(ops, ".pause")
					continue
				}
			}
		case *ast.RangeStmt:
			if x.src(v.X) == processors && v.Value != nil && postVars != "" {
				ops = append(ops, ".posts ["+strings.Join(x.postOps(v.Body.List, x.src(v.Value), respBody, postVars), ", ")+"]")
				continue
			}
		case *ast.ExprStmt:
			n, c := x.callName(v.X)
			switch {
			case n == "sample.SetProtoCode" && len(c.Args) == 1 && x.src(c.Args[0]) == "resp.StatusCode":
				ops = append(ops, ".setCode")
				continue
			case n == "g.base.Aggregator.Report" && len(c.Args) == 1 && x.src(c.Args[0]) == "sample":
				ops = append(ops, ".report")
				continue
			}
		case *ast.ReturnStmt:
			if i == len(stmts)-1 && len(v.Results) == 1 && x.src(v.Results[0]) == "nil" {
				continue
			}
		}
		x.fail(s, "statement of shootStep: %s", x.src(s))
	}
	// canonical order of the two independent bookkeeping statements before the report
	for i := 0; i+1 < len(ops); i++ {
		if ops[i] == ".setCode" && ops[i+1] == ".storePost" {
			ops[i], ops[i+1] = ops[i+1], ops[i]
		}
	}
	return fmt.Sprintf("/-- regenerated from `%s` method `shootStep`: one instruction per statement that matters -/\ndef stepCode : List SOp :=\n  [%s]\n",
		x.rel(fd), strings.Join(ops, ", "))
}

func (x *c15flowX) shootLoop(fd *ast.FuncDecl) string {
	x.ctx = "shoot"
	var onErr []string
	found := false
	perShot := false
	loopSeen := false
	for _, s := range fd.Body.List {
		if as, ok := s.(*ast.AssignStmt); ok && !loopSeen && as.Tok == token.DEFINE && len(as.Lhs) == 1 &&
			x.src(as.Lhs[0]) == "requestVars" && x.src(as.Rhs[0]) == "map[string]any{}" {
			perShot = true
		}
		rs, ok := s.(*ast.RangeStmt)
		if !ok || x.src(rs.X) != "ammo.Requests" {
			continue
		}
		loopSeen = true
		for i, b := range rs.Body.List {
			as, ok := b.(*ast.AssignStmt)
			if !ok || len(as.Rhs) != 1 || len(as.Lhs) != 1 || x.src(as.Lhs[0]) != "err" {
				continue
			}
			n, c := x.callName(as.Rhs[0])
			if n != "g.shootStep" {
				continue
			}
			passes := false
			for _, a := range c.Args {
				if x.src(a) == "requestVars" {
					passes = true
				}
			}
			if !passes {
				perShot = false
			}
			found = true
			if i+1 < len(rs.Body.List) {
				if is, ok := rs.Body.List[i+1].(*ast.IfStmt); ok && x.src(is.Cond) == "err != nil" && is.Else == nil && is.Init == nil {
					for _, e := range is.Body.List {
						switch v := e.(type) {
						case *ast.ExprStmt:
							if nn, cc := x.callName(v.X); nn == "g.reportErr" && len(cc.Args) == 2 && x.src(cc.Args[0]) == "sample" {
								onErr = append(onErr, ".reportErr")
								continue
							}
						case *ast.ReturnStmt:
							if len(v.Results) == 1 && x.src(v.Results[0]) != "nil" {
								onErr = append(onErr, ".returnErr")
								continue
							}
						}
						x.fail(e, "statement of the error branch of shoot: %s", x.src(e))
					}
					if i+2 != len(rs.Body.List) {
						x.fail(rs.Body.List[i+2], "statement after the error branch in the loop of shoot")
					}
				} else {
					x.fail(rs.Body.List[i+1], "statement after shootStep is not `if err != nil {…}`")
				}
			}
		}
	}
	if !found {
		return x.fail(fd, "`err := g.shootStep(…)` in `for … range ammo.Requests` not found")
	}
	return fmt.Sprintf("/-- regenerated from `%s` method `shoot`: the branch `if err != nil` after `g.shootStep(…)` -/\ndef onStepErr : List LOp := [%s]\n\n"+
		"/-- `requestVars := map[string]any{}` is created in `shoot` before the loop and handed to every step -/\ndef requestVarsPerShot : Bool := %v\n",
		x.rel(fd), strings.Join(onErr, ", "), perShot)
}

// ---------------------------------------------------------------- ParseShootName

// cond translates a guard over `args` into an `Option Bool` term (none = the Go code would panic)
func (x *c15flowX) argCond(e ast.Expr, args string) string {
	switch v := e.(type) {
	case *ast.ParenExpr:
		return x.argCond(v.X, args)
	case *ast.BinaryExpr:
		switch v.Op {
		case token.LAND:
			return "(condAnd " + x.argCond(v.X, args) + " fun _ => " + x.argCond(v.Y, args) + ")"
		case token.GTR, token.GEQ, token.LSS, token.LEQ, token.EQL, token.NEQ:
			if x.src(v.X) == "len("+args+")" {
				if k, ok := x.intConst(v.Y); ok {
					op := map[token.Token]string{token.GTR: ">", token.GEQ: "≥", token.LSS: "<", token.LEQ: "≤", token.EQL: "=", token.NEQ: "≠"}[v.Op]
					return "(some (decide ((args.length : Int) " + op + " " + k + ")))"
				}
			}
			if ix, ok := v.X.(*ast.IndexExpr); ok && x.src(ix.X) == args && (v.Op == token.EQL || v.Op == token.NEQ) {
				if sv, ok := x.strConst(v.Y); ok {
					if k, ok := x.intConst(ix.Index); ok {
						cmp := "!="
						if v.Op == token.EQL {
							cmp = "=="
						}
						return fmt.Sprintf("((strIdx? args %s).map fun s => s %s %q.toList)", k, cmp, sv)
					}
				}
			}
		}
	}
	return x.fail(e, "guard %s", x.src(e))
}

func (x *c15flowX) intConst(e ast.Expr) (string, bool) {
	if tv, ok := x.pkg.TypesInfo.Types[e]; ok && tv.Value != nil && tv.Value.Kind() == constant.Int {
		s := tv.Value.ExactString()
		if strings.HasPrefix(s, "-") {
			s = "(" + s + ")"
		}
		return s, true
	}
	return "", false
}

func (x *c15flowX) errMsg(r *ast.ReturnStmt) string {
	last := r.Results[len(r.Results)-1]
	if c, ok := last.(*ast.CallExpr); ok && x.src(c.Fun) == "fmt.Errorf" && len(c.Args) > 0 {
		if sv, ok := x.strConst(c.Args[0]); ok {
			return sv
		}
	}
	return ""
}

func (x *c15flowX) parseShoot(fd *ast.FuncDecl) string {
	x.ctx = "ParseShootName"
	stmts := fd.Body.List
	if len(stmts) < 3 {
		return x.fail(fd, "body too short")
	}
	// name, args, err := str.ParseStringFunc(shoot)
	as, ok := stmts[0].(*ast.AssignStmt)
	if !ok || len(as.Lhs) != 3 || len(as.Rhs) != 1 || x.src(as.Lhs[2]) != "err" {
		return x.fail(stmts[0], "first statement is not `name, args, err := str.ParseStringFunc(shoot)`")
	}
	if n, c := x.callName(as.Rhs[0]); n != "str.ParseStringFunc" || len(c.Args) != 1 || x.src(c.Args[0]) != fd.Type.Params.List[0].Names[0].Name {
		return x.fail(stmts[0], "first statement is not a call of str.ParseStringFunc on the parameter")
	}
	name, args := x.src(as.Lhs[0]), x.src(as.Lhs[1])
	if !x.isErrChk(stmts[1]) {
		return x.fail(stmts[1], "the error of ParseStringFunc is not returned")
	}
	var b strings.Builder
	fmt.Fprintf(&b, "/-- regenerated from `%s` func `ParseShootName`; `conv` = strconv.Atoi -/\n", x.rel(fd))
	b.WriteString("def parseShoot (conv : List Char → Option Int) (shoot : List Char) : Outcome (List Char × Int × Int) :=\n")
	b.WriteString("  match parseStringFunc shoot with\n  | .error _ => .err \"parse\"\n  | .ok (name, args0) =>\n    let args : List (List Char) := args0.getD []\n")
	vars := map[string]string{} // Go local -> Lean local (v0, v1 …): names never leak
	i := 2
	for ; i+1 < len(stmts); i++ {
		d, ok := stmts[i].(*ast.AssignStmt)
		if !ok || d.Tok != token.DEFINE || len(d.Lhs) != 1 || len(d.Rhs) != 1 {
			break
		}
		k, ok := x.intConst(d.Rhs[0])
		if !ok {
			break
		}
		lv := fmt.Sprintf("v%d", len(vars))
		vars[x.src(d.Lhs[0])] = lv
		fmt.Fprintf(&b, "    let %s : Int := %s\n", lv, k)
		// if COND { X, err = strconv.Atoi(ARG); if err != nil { return …, fmt.Errorf(MSG) } }
		is, ok := stmts[i+1].(*ast.IfStmt)
		if !ok || is.Init != nil || is.Else != nil || len(is.Body.List) != 2 {
			continue
		}
		conv, ok := is.Body.List[0].(*ast.AssignStmt)
		if !ok || len(conv.Lhs) != 2 || x.src(conv.Lhs[0]) != x.src(d.Lhs[0]) || x.src(conv.Lhs[1]) != "err" || conv.Tok != token.ASSIGN {
			return x.fail(is, "guarded conversion shape")
		}
		n, c := x.callName(conv.Rhs[0])
		ix, isIx := (ast.Expr)(nil), false
		if c != nil && len(c.Args) == 1 {
			ix, isIx = c.Args[0].(*ast.IndexExpr)
		}
		if n != "strconv.Atoi" || !isIx || x.src(ix.(*ast.IndexExpr).X) != args || !x.isErrChk(is.Body.List[1]) {
			return x.fail(is, "guarded conversion is not `x, err = strconv.Atoi(args[i]); if err != nil { return … }`")
		}
		idx, ok := x.intConst(ix.(*ast.IndexExpr).Index)
		if !ok {
			return x.fail(is, "argument index is not a constant")
		}
		msg := x.errMsg(is.Body.List[1].(*ast.IfStmt).Body.List[0].(*ast.ReturnStmt))
		fmt.Fprintf(&b, "    argStep %s (strIdx? args %s) conv %q %s fun %s =>\n", x.argCond(is.Cond, args), idx, msg, lv, lv)
		i++
	}
	r, ok := stmts[len(stmts)-1].(*ast.ReturnStmt)
	if !ok || i != len(stmts)-1 || len(r.Results) != 4 || x.src(r.Results[3]) != "nil" || x.src(r.Results[0]) != name {
		return x.fail(fd, "ParseShootName does not end in `return name, <int>, <int>, nil` after the recognised statements")
	}
	r1, ok1 := vars[x.src(r.Results[1])]
	r2, ok2 := vars[x.src(r.Results[2])]
	if !ok1 || !ok2 {
		return x.fail(r, "returned values are not the converted locals")
	}
	fmt.Fprintf(&b, "    .ok (name, %s, %s)\n", r1, r2)
	return b.String()
}

// ---------------------------------------------------------------- convertScenarioToAmmo, decodeAmmo

// durExpr translates a time.Duration expression into milliseconds over the given variables
func (x *c15flowX) durExpr(e ast.Expr, vars map[string]string) string {
	switch v := e.(type) {
	case *ast.ParenExpr:
		return x.durExpr(v.X, vars)
	case *ast.BinaryExpr:
		if v.Op == token.MUL || v.Op == token.ADD {
			op := " * "
			if v.Op == token.ADD {
				op = " + "
			}
			return "(" + x.durExpr(v.X, vars) + op + x.durExpr(v.Y, vars) + ")"
		}
	case *ast.CallExpr:
		if tv, ok := x.pkg.TypesInfo.Types[v.Fun]; ok && tv.IsType() && len(v.Args) == 1 && tv.Type.String() == "time.Duration" {
			return x.durExpr(v.Args[0], vars)
		}
	case *ast.SelectorExpr, *ast.BasicLit:
		if l, ok := vars[x.src(e)]; ok {
			return l // e.g. `r.Sleep` on the right side of `r.Sleep = r.Sleep + …`
		}
		if tv, ok := x.pkg.TypesInfo.Types[e]; ok && tv.Value != nil && tv.Value.Kind() == constant.Int {
			n, exact := constant.Int64Val(tv.Value)
			if tv.Type.String() == "time.Duration" {
				if exact && n%1000000 == 0 {
					return fmt.Sprint(n / 1000000) // a duration constant, in milliseconds
				}
				return x.fail(e, "duration constant %s is not a whole number of milliseconds", x.src(e))
			}
			return tv.Value.ExactString()
		}
	case *ast.Ident:
		if l, ok := vars[v.Name]; ok {
			return l
		}
	}
	return x.fail(e, "duration expression %s", x.src(e))
}

// countLoop recognises `for i := LO; i < HI; i++ { target = append(target, elem) }`
func (x *c15flowX) countLoop(s ast.Stmt, vars map[string]string) (lo, hi string, incl bool, target, elem string, ok bool) {
	fs, isFor := s.(*ast.ForStmt)
	if !isFor || fs.Init == nil || fs.Cond == nil || fs.Post == nil || len(fs.Body.List) != 1 {
		return
	}
	in, ok1 := fs.Init.(*ast.AssignStmt)
	cd, ok2 := fs.Cond.(*ast.BinaryExpr)
	ps, ok3 := fs.Post.(*ast.IncDecStmt)
	if !ok1 || !ok2 || !ok3 || len(in.Lhs) != 1 || in.Tok != token.DEFINE || ps.Tok != token.INC {
		return
	}
	iv := x.src(in.Lhs[0])
	if x.src(ps.X) != iv || x.src(cd.X) != iv || (cd.Op != token.LSS && cd.Op != token.LEQ) {
		return
	}
	lo, okLo := x.intConst(in.Rhs[0])
	if !okLo {
		return
	}
	hid, isId := cd.Y.(*ast.Ident)
	if !isId {
		return
	}
	h, known := vars[hid.Name]
	if !known {
		return
	}
	as, isAs := fs.Body.List[0].(*ast.AssignStmt)
	if !isAs || len(as.Lhs) != 1 || len(as.Rhs) != 1 || as.Tok != token.ASSIGN {
		return
	}
	c, isCall := as.Rhs[0].(*ast.CallExpr)
	if !isCall || x.src(c.Fun) != "append" || len(c.Args) != 2 || x.src(c.Args[0]) != x.src(as.Lhs[0]) {
		return
	}
	return lo, h, cd.Op == token.LEQ, x.src(as.Lhs[0]), x.src(c.Args[1]), true
}

func (x *c15flowX) convShoot(fd *ast.FuncDecl) string {
	x.ctx = "convertScenarioToAmmo"
	var loop *ast.RangeStmt
	for _, s := range fd.Body.List {
		if rs, ok := s.(*ast.RangeStmt); ok && x.src(rs.X) == "sc.Requests" && rs.Value != nil {
			loop = rs
		}
	}
	if loop == nil {
		return x.fail(fd, "`for _, sh := range sc.Requests` not found")
	}
	sh := x.src(loop.Value)
	body := loop.Body.List
	if len(body) < 2 {
		return x.fail(loop, "loop body too short")
	}
	// name, cnt, sleep, err := config.ParseShootName(sh); if err != nil { return … }
	as, ok := body[0].(*ast.AssignStmt)
	if !ok || len(as.Lhs) != 4 || len(as.Rhs) != 1 || x.src(as.Lhs[3]) != "err" {
		return x.fail(body[0], "first statement of the loop is not `name, cnt, sleep, err := config.ParseShootName(sh)`")
	}
	if n, c := x.callName(as.Rhs[0]); n != "config.ParseShootName" || len(c.Args) != 1 || x.src(c.Args[0]) != sh {
		return x.fail(body[0], "first statement of the loop is not a call of config.ParseShootName on the loop variable")
	}
	if !x.isErrChk(body[1]) {
		return x.fail(body[1], "the error of ParseShootName is not returned")
	}
	parseMsg := x.errMsg(body[1].(*ast.IfStmt).Body.List[0].(*ast.ReturnStmt))
	// the three results, by POSITION: p0 is the name, p1 and p2 the two integers
	vars := map[string]string{x.src(as.Lhs[1]): "p1", x.src(as.Lhs[2]): "p2"}
	name := x.src(as.Lhs[0])
	var b strings.Builder
	fmt.Fprintf(&b, "/-- regenerated from `%s` func `convertScenarioToAmmo`: the body of `for _, sh := range sc.Requests` (`acc` = result.Requests; pauses in ms) -/\n", x.rel(fd))
	b.WriteString("def convShoot {ρ} (conv : List Char → Option Int) (reqs : List Char → Option ρ) (sh : List Char) (acc : List (Step ρ)) : Outcome (List (Step ρ)) :=\n")
	fmt.Fprintf(&b, "  match parseShoot conv sh with\n  | .panic p => .panic p\n  | .err _ => .err (errClass %q)\n  | .ok (p0, p1, p2) =>\n", parseMsg)
	rest := body[2:]
	if len(rest) == 0 {
		return x.fail(loop, "nothing after the parse")
	}
	// if name == "sleep" { if len(result.Requests) == 0 { return … }; result.Requests[len-1].Sleep += …; continue }
	is, ok := rest[0].(*ast.IfStmt)
	if !ok || is.Init != nil || is.Else != nil {
		return x.fail(rest[0], "expected the `if name == \"sleep\"` branch")
	}
	cb, ok := is.Cond.(*ast.BinaryExpr)
	if !ok || cb.Op != token.EQL || x.src(cb.X) != name {
		return x.fail(is, "sleep branch condition")
	}
	kw, ok := x.strConst(cb.Y)
	if !ok {
		return x.fail(is, "sleep branch keyword")
	}
	fmt.Fprintf(&b, "    if p0 = %q.toList then\n", kw)
	sb := is.Body.List
	if len(sb) == 0 {
		return x.fail(is, "empty sleep branch")
	}
	if _, ok := sb[len(sb)-1].(*ast.BranchStmt); !ok || x.src(sb[len(sb)-1]) != "continue" {
		return x.fail(is, "the sleep branch does not end in `continue`")
	}
	ind := "      "
	closed := false
	for _, s := range sb[:len(sb)-1] {
		switch v := s.(type) {
		case *ast.IfStmt:
			// if len(result.Requests) == 0 { return nil, fmt.Errorf(…) }
			if v.Init == nil && v.Else == nil && len(v.Body.List) == 1 {
				if r, ok := v.Body.List[0].(*ast.ReturnStmt); ok && len(r.Results) == 2 && x.src(r.Results[1]) != "nil" {
					x.vars = map[string]string{"len(result.Requests)": "(acc.length : Int)"}
					c := x.expr(v.Cond, nil)
					x.vars = nil
					fmt.Fprintf(&b, "%sif %s then .err (errClass %q) else\n", ind, c, x.errMsg(r))
					continue
				}
			}
		case *ast.AssignStmt:
			// result.Requests[IDX].Sleep += DUR
			if len(v.Lhs) == 1 && len(v.Rhs) == 1 && (v.Tok == token.ADD_ASSIGN || v.Tok == token.ASSIGN) {
				if sel, ok := v.Lhs[0].(*ast.SelectorExpr); ok && sel.Sel.Name == "Sleep" {
					if ix, ok := sel.X.(*ast.IndexExpr); ok && x.src(ix.X) == "result.Requests" {
						x.vars = map[string]string{"len(result.Requests)": "(acc.length : Int)"}
						idx := x.expr(ix.Index, nil)
						x.vars = nil
						d := x.durExpr(v.Rhs[0], vars)
						if v.Tok == token.ASSIGN {
							return x.fail(s, "the pause of a sleep item replaces the pause of the step (`=`), expected `+=`")
						}
						fmt.Fprintf(&b, "%saddSleepAt acc %s %s\n", ind, idx, d)
						closed = true
						continue
					}
				}
			}
		}
		return x.fail(s, "statement of the sleep branch: %s", x.src(s))
	}
	if !closed {
		return x.fail(is, "the sleep branch does not add the pause to a step")
	}
	b.WriteString("    else\n")
	// req, ok := reqs[name]; if !ok { return … }; r := convertConfigToRequest(req, iter); if sleep > 0 { r.Sleep += … }; for … append
	rest = rest[1:]
	stage := 0
	rname, okName, reqName := "", "", ""
	var guards []string
	for _, s := range rest {
		switch v := s.(type) {
		case *ast.AssignStmt:
			if stage == 0 && len(v.Lhs) == 2 && len(v.Rhs) == 1 && v.Tok == token.DEFINE && x.src(v.Rhs[0]) == "reqs["+name+"]" {
				reqName, okName = x.src(v.Lhs[0]), x.src(v.Lhs[1])
				stage = 1
				continue
			}
			if stage == 2 && len(v.Lhs) == 1 && len(v.Rhs) == 1 && v.Tok == token.DEFINE {
				if n, c := x.callName(v.Rhs[0]); n == "convertConfigToRequest" && len(c.Args) >= 1 && x.src(c.Args[0]) == reqName {
					rname = x.src(v.Lhs[0])
					b.WriteString("        let st : Step ρ := { name := p0, req := r, sleep := 0 }\n")
					stage = 3
					continue
				}
			}
		case *ast.IfStmt:
			if stage == 1 && v.Init == nil && v.Else == nil && x.src(v.Cond) == "!"+okName && len(v.Body.List) == 1 {
				if r, ok := v.Body.List[0].(*ast.ReturnStmt); ok && len(r.Results) == 2 && x.src(r.Results[1]) != "nil" {
					fmt.Fprintf(&b, "      match reqs p0 with\n      | none => .err (errClass %q)\n      | some r =>\n", x.errMsg(r))
					stage = 2
					continue
				}
			}
			if stage == 3 && v.Init == nil && v.Else == nil && len(v.Body.List) == 1 {
				// a refusal before the copy loop: `if <cond on cnt, sleep, len(result.Requests), constants> { return nil, fmt.Errorf(…) }`
				// (1eaf10a: `if cnt > config.MaxScenarioRequests-len(result.Requests)`). The guards are emitted after the pure
				// `let st` lines, in source order: their position relative to the pause statement does not matter.
				if r, ok := v.Body.List[0].(*ast.ReturnStmt); ok && len(r.Results) == 2 && x.src(r.Results[1]) != "nil" {
					gv := map[string]string{"len(result.Requests)": "(acc.length : Int)"}
					for k, l := range vars {
						gv[k] = l
					}
					x.vars = gv
					c := x.expr(v.Cond, nil)
					x.vars = nil
					guards = append(guards, fmt.Sprintf("        if %s then .err (errClass %q) else\n", c, x.errMsg(r)))
					continue
				}
				if a2, ok := v.Body.List[0].(*ast.AssignStmt); ok && len(a2.Lhs) == 1 && x.src(a2.Lhs[0]) == rname+".Sleep" {
					x.vars = vars
					c := x.expr(v.Cond, nil)
					x.vars = nil
					dv := map[string]string{rname + ".Sleep": "st.sleep"}
					for k, l := range vars {
						dv[k] = l
					}
					d := x.durExpr(a2.Rhs[0], dv)
					switch a2.Tok {
					case token.ADD_ASSIGN:
						d = "st.sleep + " + d
					case token.ASSIGN:
					default:
						return x.fail(a2, "assign op")
					}
					fmt.Fprintf(&b, "        let st : Step ρ := if %s then { st with sleep := %s } else st\n", c, d)
					continue
				}
			}
		case *ast.ForStmt:
			if stage == 3 {
				lo, hi, incl, target, elem, ok := x.countLoop(s, vars)
				if ok && target == "result.Requests" && elem == rname {
					for _, g := range guards {
						b.WriteString(g)
					}
					fmt.Fprintf(&b, "        .ok (appendLoop acc st %s %s %v)\n", lo, hi, incl)
					stage = 4
					continue
				}
			}
		}
		return x.fail(s, "statement of the request branch (stage %d): %s", stage, x.src(s))
	}
	if stage != 4 {
		return x.fail(loop, "the request branch does not end in the copy loop")
	}
	return b.String()
}

func (x *c15flowX) ringCopies(fd *ast.FuncDecl) string {
	x.ctx = "decodeAmmo"
	out := ""
	ast.Inspect(fd.Body, func(n ast.Node) bool {
		fs, ok := n.(*ast.ForStmt)
		if !ok {
			return true
		}
		// the bound is a local (ns): map every identifier of the condition's right side to `ns`
		if cd, ok := fs.Cond.(*ast.BinaryExpr); ok {
			if id, ok := cd.Y.(*ast.Ident); ok {
				lo, hi, incl, target, _, ok := x.countLoop(fs, map[string]string{id.Name: "ns"})
				if ok && target == "result" {
					e := "(" + hi + " - " + lo + ")"
					if incl {
						e = "(" + hi + " - " + lo + " + 1)"
					}
					out = fmt.Sprintf("/-- regenerated from `%s` func `decodeAmmo`: how often a scenario whose count is `ns` is appended to the ring -/\ndef ringCopies (ns : Int) : Int := %s\n", x.rel(fd), e)
				}
			}
		}
		return true
	})
	if out == "" {
		return x.fail(fd, "`for i := 0; i < ns; i++ { result = append(result, a) }` not found")
	}
	return out
}

// ---------------------------------------------------------------- assert/response

func (x *c15flowX) assertResponse(fd *ast.FuncDecl) string {
	x.ctx = "AssertResponse.Process"
	var b strings.Builder
	var checks []string
	reads := ""
	for _, s := range fd.Body.List {
		switch v := s.(type) {
		case *ast.DeclStmt:
			continue
		case *ast.IfStmt:
			// if COND { b, err = io.ReadAll(body); if err != nil { return } }
			if v.Init == nil && v.Else == nil && len(v.Body.List) == 2 && reads == "" {
				if as, ok := v.Body.List[0].(*ast.AssignStmt); ok && len(as.Rhs) == 1 {
					if n, _ := x.callName(as.Rhs[0]); n == "io.ReadAll" && x.isErrChk(v.Body.List[1]) {
						x.vars = map[string]string{"len(a.Body)": "nBody", "a.Size != nil": "hasSize", "body != nil": "True"}
						reads = x.expr(v.Cond, nil)
						x.vars = nil
						continue
					}
				}
			}
			// if a.StatusCode != 0 && a.StatusCode != resp.StatusCode { return nil, err }
			if v.Init == nil && v.Else == nil && strings.Contains(x.src(v.Cond), "StatusCode") && len(v.Body.List) == 1 {
				if r, ok := v.Body.List[0].(*ast.ReturnStmt); ok && len(r.Results) == 2 && x.src(r.Results[1]) != "nil" {
					x.vars = map[string]string{"a.StatusCode": "want", "resp.StatusCode": "got"}
					c := x.expr(v.Cond, nil)
					x.vars = nil
					fmt.Fprintf(&b, "/-- when the status assertion fails -/\ndef assertStatusFails (want got : Int) : Prop := %s\n\ninstance (want got : Int) : Decidable (assertStatusFails want got) := by unfold assertStatusFails; exact inferInstance\n\n", c)
					checks = append(checks, "status")
					continue
				}
			}
			// if a.Size != nil { pattern := …; switch a.Size.Op { … } }
			if v.Init == nil && v.Else == nil && x.src(v.Cond) == "a.Size != nil" {
				var sw *ast.SwitchStmt
				for _, bs := range v.Body.List {
					if s2, ok := bs.(*ast.SwitchStmt); ok {
						sw = s2
					} else if _, ok := bs.(*ast.AssignStmt); !ok {
						x.fail(bs, "statement of the size block: %s", x.src(bs))
					}
				}
				if sw == nil || x.src(sw.Tag) != "a.Size.Op" {
					return x.fail(v, "size block without `switch a.Size.Op`")
				}
				b.WriteString("/-- the `switch a.Size.Op`: `some true` = the assertion fails, `none` = unknown operator (an error) -/\ndef assertSizeFails (op : String) (val len : Int) : Option Bool :=\n")
				first := true
				for _, cc := range sw.Body.List {
					cl := cc.(*ast.CaseClause)
					if cl.List == nil {
						if len(cl.Body) != 1 || !c15flowHasReturn(cl.Body[0]) {
							return x.fail(cl, "default of the size switch is not a return of an error")
						}
						continue
					}
					var ops []string
					for _, e := range cl.List {
						sv, ok := x.strConst(e)
						if !ok {
							return x.fail(e, "case label")
						}
						ops = append(ops, fmt.Sprintf("op == %q", sv))
					}
					if len(cl.Body) != 1 {
						return x.fail(cl, "case body")
					}
					ci, ok := cl.Body[0].(*ast.IfStmt)
					if !ok || ci.Init != nil || ci.Else != nil || len(ci.Body.List) != 1 || !c15flowHasReturn(ci.Body.List[0]) {
						return x.fail(cl, "case body is not `if <cond> { return nil, err }`")
					}
					x.vars = map[string]string{"a.Size.Val": "val", "len(b)": "len"}
					c := x.expr(ci.Cond, nil)
					x.vars = nil
					kw := "else if"
					if first {
						kw = "if"
						first = false
					}
					fmt.Fprintf(&b, "  %s %s then some (decide %s)\n", kw, strings.Join(ops, " || "), c)
				}
				b.WriteString("  else none\n\n")
				checks = append(checks, "size")
				continue
			}
		case *ast.RangeStmt:
			// for _, v := range a.Body { if !bytes.Contains(b, []byte(v)) { return nil, err } }
			if len(v.Body.List) == 1 {
				if is, ok := v.Body.List[0].(*ast.IfStmt); ok && is.Else == nil && is.Init == nil && len(is.Body.List) == 1 && c15flowHasReturn(is.Body.List[0]) {
					c := x.src(is.Cond)
					if x.src(v.X) == "a.Body" && v.Value != nil && c == "!bytes.Contains(b, []byte("+x.src(v.Value)+"))" {
						checks = append(checks, "body")
						continue
					}
					if x.src(v.X) == "a.Headers" && v.Key != nil && v.Value != nil &&
						c == "!(strings.Contains(resp.Header.Get("+x.src(v.Key)+"), "+x.src(v.Value)+"))" {
						checks = append(checks, "headers")
						continue
					}
				}
			}
		case *ast.ReturnStmt:
			if len(v.Results) == 2 && x.src(v.Results[0]) == "nil" && x.src(v.Results[1]) == "nil" {
				continue
			}
		}
		return x.fail(s, "statement of AssertResponse.Process: %s", x.src(s))
	}
	if reads == "" {
		return x.fail(fd, "the statement reading the body was not found")
	}
	fmt.Fprintf(&b, "/-- when `Process` reads the response body into `b` (`nBody` = number of body texts, `hasSize` = a size block is configured; the reader handed over by the gun is not nil) -/\ndef assertReadsBody (nBody : Int) (hasSize : Prop) : Prop := %s\n\n", reads)
	// the checks, as a set (their order does not matter: all of them must pass)
	order := []string{"body", "headers", "status", "size"}
	var have []string
	for _, o := range order {
		for _, c := range checks {
			if c == o {
				have = append(have, fmt.Sprintf("%q", o))
				break
			}
		}
	}
	fmt.Fprintf(&b, "/-- the checks `Process` performs (each one returns an error when it fails) -/\ndef assertChecks : List String := [%s]\n", strings.Join(have, ", "))
	return fmt.Sprintf("/-! regenerated from `%s` method `AssertResponse.Process` -/\n\n", x.rel(fd)) + b.String()
}

// ---------------------------------------------------------------- var/header substr

func (x *c15flowX) substr(fd *ast.FuncDecl) string {
	x.ctx = "VarHeaderPostprocessor.substr"
	var lit *ast.FuncLit
	for _, s := range fd.Body.List {
		if r, ok := s.(*ast.ReturnStmt); ok && len(r.Results) == 2 {
			if fl, ok := r.Results[0].(*ast.FuncLit); ok {
				lit = fl
			}
		}
	}
	if lit == nil || len(lit.Type.Params.List) != 1 || len(lit.Type.Params.List[0].Names) != 1 {
		return x.fail(fd, "the returned closure was not found")
	}
	in := lit.Type.Params.List[0].Names[0].Name
	var b strings.Builder
	fmt.Fprintf(&b, "/-- regenerated from `%s` method `substr`: the closure's index arithmetic; the result is the pair handed to `in[start:end]` (`inLen` = len(in)) -/\n", x.rel(fd))
	b.WriteString("def substrBounds (start rEnd inLen : Int) : Int × Int :=\n")
	x.vars = map[string]string{"len(" + in + ")": "inLen"}
	defer func() { x.vars = nil }()
	for i, s := range lit.Body.List {
		switch v := s.(type) {
		case *ast.AssignStmt:
			if v.Tok == token.DEFINE && len(v.Lhs) == 1 && len(v.Rhs) == 1 {
				fmt.Fprintf(&b, "  let %s : Int := %s\n", mangle(x.src(v.Lhs[0])), x.expr(v.Rhs[0], nil))
				continue
			}
		case *ast.IfStmt:
			if v.Init == nil && v.Else == nil && len(v.Body.List) == 1 {
				if as, ok := v.Body.List[0].(*ast.AssignStmt); ok && as.Tok == token.ASSIGN {
					c := x.expr(v.Cond, nil)
					if len(as.Lhs) == 1 && len(as.Rhs) == 1 {
						n := mangle(x.src(as.Lhs[0]))
						fmt.Fprintf(&b, "  let %s : Int := if %s then %s else %s\n", n, c, x.expr(as.Rhs[0], nil), n)
						continue
					}
					if len(as.Lhs) == 2 && len(as.Rhs) == 2 {
						n0, n1 := mangle(x.src(as.Lhs[0])), mangle(x.src(as.Lhs[1]))
						fmt.Fprintf(&b, "  let p : Int × Int := if %s then (%s, %s) else (%s, %s)\n  let %s : Int := p.1\n  let %s : Int := p.2\n",
							c, x.expr(as.Rhs[0], nil), x.expr(as.Rhs[1], nil), n0, n1, n0, n1)
						continue
					}
				}
			}
		case *ast.ReturnStmt:
			if i == len(lit.Body.List)-1 && len(v.Results) == 1 {
				if sl, ok := v.Results[0].(*ast.SliceExpr); ok && x.src(sl.X) == in && sl.Low != nil && sl.High != nil && !sl.Slice3 {
					fmt.Fprintf(&b, "  (%s, %s)\n", x.expr(sl.Low, nil), x.expr(sl.High, nil))
					return b.String()
				}
			}
		}
		return x.fail(s, "statement of the substr closure: %s", x.src(s))
	}
	return x.fail(fd, "the substr closure does not end in `return in[start:end]`")
}

// ---------------------------------------------------------------- calcIndex

// intBlock: statements over integers ending in `return e, nil` on every path -> a Lean Int term
func (x *c15flowX) intBlock(stmts []ast.Stmt, ind string) string {
	if len(stmts) == 0 {
		return ind + x.fail(x.pkg.Syntax[0], "control reaches the end of a block")
	}
	s, rest := stmts[0], stmts[1:]
	switch v := s.(type) {
	case *ast.ReturnStmt:
		if len(v.Results) == 2 && x.src(v.Results[1]) == "nil" {
			return ind + x.expr(v.Results[0], nil)
		}
	case *ast.AssignStmt:
		if len(v.Lhs) == 1 && len(v.Rhs) == 1 {
			n := mangle(x.src(v.Lhs[0]))
			rhs := x.expr(v.Rhs[0], nil)
			switch v.Tok {
			case token.ASSIGN, token.DEFINE:
			case token.REM_ASSIGN:
				rhs = "(Int.tmod " + n + " " + rhs + ")"
			case token.ADD_ASSIGN:
				rhs = "(" + n + " + " + rhs + ")"
			case token.SUB_ASSIGN:
				rhs = "(" + n + " - " + rhs + ")"
			default:
				return ind + x.fail(s, "assign op")
			}
			return ind + "let " + n + " : Int := " + rhs + "\n" + x.intBlock(rest, ind)
		}
	case *ast.IfStmt:
		if v.Init == nil && v.Else == nil {
			c := x.expr(v.Cond, nil)
			if len(v.Body.List) > 0 {
				if _, ok := v.Body.List[len(v.Body.List)-1].(*ast.ReturnStmt); ok {
					return ind + "if " + c + " then\n" + x.intBlock(v.Body.List, ind+"  ") + "\n" + ind + "else\n" + x.intBlock(rest, ind+"  ")
				}
			}
			if len(v.Body.List) == 1 {
				if as, ok := v.Body.List[0].(*ast.AssignStmt); ok && len(as.Lhs) == 1 && len(as.Rhs) == 1 {
					n := mangle(x.src(as.Lhs[0]))
					rhs := x.expr(as.Rhs[0], nil)
					switch as.Tok {
					case token.ASSIGN:
					case token.REM_ASSIGN:
						rhs = "(Int.tmod " + n + " " + rhs + ")"
					case token.ADD_ASSIGN:
						rhs = "(" + n + " + " + rhs + ")"
					case token.SUB_ASSIGN:
						rhs = "(" + n + " - " + rhs + ")"
					default:
						return ind + x.fail(s, "assign op")
					}
					return ind + "let " + n + " : Int := if " + c + " then " + rhs + " else " + n + "\n" + x.intBlock(rest, ind)
				}
			}
		}
	}
	return ind + x.fail(s, "statement %s", x.src(s))
}

func (x *c15flowX) calcIndex(fd *ast.FuncDecl) string {
	x.ctx = "calcIndex"
	var b strings.Builder
	fmt.Fprintf(&b, "/-! regenerated from `%s` func `calcIndex` (the `[next]` tail is `Gen.C15Scen.nextIndex`) -/\n\n", x.rel(fd))
	kw := func(c string) bool {
		return strings.Contains(c, `indexStr != "next"`) && strings.Contains(c, `indexStr != "rand"`) && strings.Contains(c, `indexStr != "last"`)
	}
	seenEmpty, seenNum, seenLast := false, false, false
	for _, s := range fd.Body.List {
		is, ok := s.(*ast.IfStmt)
		if !ok || is.Init != nil || is.Else != nil {
			continue
		}
		c := x.src(is.Cond)
		switch {
		case !seenEmpty && !strings.Contains(c, "indexStr") && strings.Contains(c, "length") && len(is.Body.List) == 1 && c15flowHasReturn(is.Body.List[0]):
			// if length <= 0 { return 0, fmt.Errorf(…) }
			r := is.Body.List[0].(*ast.ReturnStmt)
			if len(r.Results) == 2 && x.src(r.Results[1]) != "nil" {
				fmt.Fprintf(&b, "/-- when indexing is refused because the list is empty: `if %s { return 0, err }` -/\ndef idxEmptyRefused (length : Int) : Prop := %s\n\ninstance (length : Int) : Decidable (idxEmptyRefused length) := by unfold idxEmptyRefused; exact inferInstance\n\n", c, x.expr(is.Cond, nil))
				seenEmpty = true
			}
		case !seenNum && kw(c) && !strings.Contains(c, "err"):
			if !seenEmpty {
				return x.fail(is, "the numeric branch comes before the empty-list guard")
			}
			fmt.Fprintf(&b, "/-- the branch of a numeric index (any integer: negative and too large ones wrap around) -/\ndef idxNumeric (index length : Int) : Int :=\n%s\n\n", x.intBlock(is.Body.List, "  "))
			seenNum = true
		case !seenLast && c == `indexStr == "last"`:
			if !seenEmpty {
				return x.fail(is, "the `last` branch comes before the empty-list guard")
			}
			fmt.Fprintf(&b, "/-- `[last]` -/\ndef idxLast (length : Int) : Int :=\n%s\n\n", x.intBlock(is.Body.List, "  "))
			seenLast = true
		}
	}
	if !seenEmpty || !seenNum || !seenLast {
		return x.fail(fd, "calcIndex: empty-list guard / numeric branch / last branch not all found (%v %v %v)", seenEmpty, seenNum, seenLast)
	}
	return b.String()
}

// ---------------------------------------------------------------- Preprocessor.Process

func (x *c15flowX) preLoop(fd *ast.FuncDecl) string {
	x.ctx = "Preprocessor.Process"
	var ops []string
	for _, s := range fd.Body.List {
		rs, ok := s.(*ast.RangeStmt)
		if !ok || x.src(rs.X) != "p.Mapping" || rs.Key == nil || rs.Value == nil {
			continue
		}
		k, v := x.src(rs.Key), x.src(rs.Value)
		val := ""
		for _, b := range rs.Body.List {
			if x.isErrChk(b) {
				ops = append(ops, `"chk"`)
				continue
			}
			switch w := b.(type) {
			case *ast.AssignStmt:
				if len(w.Rhs) == 1 {
					if n, _ := x.callName(w.Rhs[0]); n == "templater.ParseFunc" {
						continue // which of the two resolvers is used (template function or path)
					}
				}
				if len(w.Lhs) == 1 && len(w.Rhs) == 1 && w.Tok == token.ASSIGN && val != "" && x.src(w.Lhs[0]) == "result["+k+"]" && x.src(w.Rhs[0]) == val {
					ops = append(ops, `"store"`)
					continue
				}
			case *ast.IfStmt:
				// if fun != nil { val, err = templater.Exec…(…) } else { val, err = mp.GetMapValue(templateVars, v, p.iterator) }
				if eb, ok := w.Else.(*ast.BlockStmt); ok && len(w.Body.List) == 1 && len(eb.List) == 1 {
					a1, ok1 := w.Body.List[0].(*ast.AssignStmt)
					a2, ok2 := eb.List[0].(*ast.AssignStmt)
					if ok1 && ok2 && len(a1.Lhs) == 2 && len(a2.Lhs) == 2 && x.src(a1.Lhs[1]) == "err" && x.src(a2.Lhs[1]) == "err" && x.src(a1.Lhs[0]) == x.src(a2.Lhs[0]) {
						if n, c := x.callName(a2.Rhs[0]); n == "mp.GetMapValue" && len(c.Args) == 3 && x.src(c.Args[0]) == "templateVars" && x.src(c.Args[1]) == v && x.src(c.Args[2]) == "p.iterator" {
							val = x.src(a1.Lhs[0])
							ops = append(ops, `"resolve"`)
							continue
						}
					}
				}
			}
			x.fail(b, "statement of the mapping loop: %s", x.src(b))
		}
	}
	if len(ops) == 0 {
		return x.fail(fd, "`for k, v := range p.Mapping` not found")
	}
	return fmt.Sprintf("/-- regenerated from `%s` method `Preprocessor.Process`: the body of the loop over the mapping -/\ndef preLoopCode : List String := [%s]\n",
		x.rel(fd), strings.Join(ops, ", "))
}

// ---------------------------------------------------------------- round 6: prepareRequest, the tail of shoot

// prepCode: every statement of `prepareRequest` must match one of the shapes below (declarations are skipped); the
// result is the instruction list `Model.C15.PrepOp` interprets.
func (x *c15flowX) prepCode(fd *ast.FuncDecl) string {
	x.ctx = "prepareRequest"
	var ops []string
	reader := ""
	for _, s := range fd.Body.List {
		switch v := s.(type) {
		case *ast.DeclStmt:
			if gd, ok := v.Decl.(*ast.GenDecl); ok && gd.Tok == token.VAR && len(gd.Specs) == 1 {
				if vs, ok := gd.Specs[0].(*ast.ValueSpec); ok && len(vs.Names) == 1 && len(vs.Values) == 0 {
					reader = vs.Names[0].Name
				}
			}
			continue
		case *ast.IfStmt:
			if x.isErrChk(s) {
				ops = append(ops, ".chk")
				continue
			}
			src := x.src(v.Cond)
			if v.Init == nil && v.Else == nil && src == "reqParts.Body != nil" && len(v.Body.List) == 1 &&
				x.src(v.Body.List[0]) == reader+" = bytes.NewReader(reqParts.Body)" {
				ops = append(ops, ".bodyReader")
				continue
			}
			if v.Init == nil && src == "g.base.Config.SSL" && len(v.Body.List) == 1 {
				if eb, ok := v.Else.(*ast.BlockStmt); ok && len(eb.List) == 1 {
					a1, ok1 := v.Body.List[0].(*ast.AssignStmt)
					a2, ok2 := eb.List[0].(*ast.AssignStmt)
					if ok1 && ok2 && x.src(a1.Lhs[0]) == "req.URL.Scheme" && x.src(a2.Lhs[0]) == "req.URL.Scheme" {
						s1, k1 := x.strConst(a1.Rhs[0])
						s2, k2 := x.strConst(a2.Rhs[0])
						if k1 && k2 {
							ops = append(ops, fmt.Sprintf("(.scheme %q %q)", s1, s2))
							continue
						}
					}
				}
			}
			if v.Init == nil && v.Else == nil && (src == `req.Host == ""` || src == `"" == req.Host` || src == "len(req.Host) == 0") && len(v.Body.List) == 1 &&
				x.src(v.Body.List[0]) == "req.Host = getHostWithoutPort(g.base.Config.Target)" {
				ops = append(ops, ".hostDefault")
				continue
			}
		case *ast.AssignStmt:
			if len(v.Lhs) == 2 && len(v.Rhs) == 1 && x.src(v.Lhs[1]) == "err" &&
				x.src(v.Rhs[0]) == "http.NewRequest(reqParts.Method, reqParts.URL, "+reader+")" && x.src(v.Lhs[0]) == "req" {
				ops = append(ops, ".newRequest")
				continue
			}
			if len(v.Lhs) == 1 && v.Tok == token.ASSIGN && x.src(v.Lhs[0]) == "req.URL.Host" && x.src(v.Rhs[0]) == "g.base.Config.TargetResolved" {
				ops = append(ops, ".urlHost")
				continue
			}
		case *ast.RangeStmt:
			if x.src(v.X) == "reqParts.Headers" && v.Key != nil && v.Value != nil {
				k, val := x.src(v.Key), x.src(v.Value)
				var hops []string
				okAll := true
				for _, b := range v.Body.List {
					if is, ok := b.(*ast.IfStmt); ok && is.Init == nil && is.Else == nil {
						if c, ok := is.Cond.(*ast.CallExpr); ok && x.src(c.Fun) == "strings.EqualFold" && len(c.Args) == 2 {
							name, isConst := "", false
							if x.src(c.Args[0]) == k {
								name, isConst = x.strConst(c.Args[1])
							} else if x.src(c.Args[1]) == k {
								name, isConst = x.strConst(c.Args[0])
							}
							if isConst {
								hops = append(hops, fmt.Sprintf("(.ifHost %q)", name))
								for _, bb := range is.Body.List {
									switch {
									case x.src(bb) == "req.Host = "+val:
										hops = append(hops, ".setHost")
									case x.src(bb) == "continue":
										hops = append(hops, ".next")
									default:
										okAll = false
										x.fail(bb, "statement of the Host guard: %s", x.src(bb))
									}
								}
								hops = append(hops, ".endIf")
								continue
							}
						}
					}
					if x.src(b) == "req.Header.Set("+k+", "+val+")" {
						hops = append(hops, ".set")
						continue
					}
					okAll = false
					x.fail(b, "statement of the header loop: %s", x.src(b))
				}
				if okAll {
					ops = append(ops, "(.headers ["+strings.Join(hops, ", ")+"])")
					continue
				}
			}
		case *ast.ReturnStmt:
			if len(v.Results) == 2 && x.src(v.Results[0]) == "req" && (x.src(v.Results[1]) == "err" || x.src(v.Results[1]) == "nil") {
				ops = append(ops, ".ret")
				continue
			}
		}
		return x.fail(s, "statement of prepareRequest: %s", x.src(s))
	}
	// the statements between the header loop and the return write three different fields (URL.Scheme, Host, URL.Host) and
	// read none of the others: they commute, and are emitted in a canonical order (scheme, hostDefault, urlHost)
	rank := func(o string) int {
		switch {
		case strings.HasPrefix(o, "(.scheme"):
			return 0
		case o == ".hostDefault":
			return 1
		case o == ".urlHost":
			return 2
		}
		return -1
	}
	for i := range ops {
		if strings.HasPrefix(ops[i], "(.headers") {
			j := i + 1
			for j < len(ops) && rank(ops[j]) >= 0 {
				j++
			}
			tail := append([]string(nil), ops[i+1:j]...)
			for a := 0; a < len(tail); a++ {
				for b := a + 1; b < len(tail); b++ {
					if rank(tail[b]) < rank(tail[a]) {
						tail[a], tail[b] = tail[b], tail[a]
					}
				}
			}
			copy(ops[i+1:j], tail)
		}
	}
	return fmt.Sprintf("/-- regenerated from `%s` method `prepareRequest`: one instruction per statement -/\ndef prepCode : List PrepOp :=\n  [%s]\n",
		x.rel(fd), strings.Join(ops, ", "))
}

// mwtTail: in `shoot`, `startAt := time.Now()` stands before the loop over the requests, and after the loop
// `spent := time.Since(startAt); if <cond on ammo.MinWaitingTime, spent> { time.Sleep(<dur>) }; return nil`.
func (x *c15flowX) mwtTail(fd *ast.FuncDecl) string {
	x.ctx = "shoot"
	startV, spentV := "", ""
	stage := 0 // 0 before startAt, 1 startAt seen, 2 loop seen, 3 spent seen, 4 pause seen
	out := ""
	for _, s := range fd.Body.List {
		switch v := s.(type) {
		case *ast.AssignStmt:
			if len(v.Lhs) == 1 && len(v.Rhs) == 1 && v.Tok == token.DEFINE {
				if x.src(v.Rhs[0]) == "time.Now()" && stage == 0 {
					startV = x.src(v.Lhs[0])
					stage = 1
				}
				if stage == 2 && x.src(v.Rhs[0]) == "time.Since("+startV+")" {
					spentV = x.src(v.Lhs[0])
					stage = 3
				}
			}
		case *ast.RangeStmt:
			if x.src(v.X) == "ammo.Requests" {
				if stage != 1 {
					return x.fail(s, "the loop over the requests does not follow `startAt := time.Now()`")
				}
				stage = 2
			}
		case *ast.IfStmt:
			if stage == 3 && v.Init == nil && v.Else == nil && len(v.Body.List) == 1 {
				if es, ok := v.Body.List[0].(*ast.ExprStmt); ok {
					if n, c := x.callName(es.X); n == "time.Sleep" && len(c.Args) == 1 {
						x.vars = map[string]string{"ammo.MinWaitingTime": "mwt", spentV: "spent"}
						cond := x.expr(v.Cond, nil)
						d := x.expr(c.Args[0], nil)
						x.vars = nil
						out = fmt.Sprintf("/-- regenerated from `%s` method `shoot`: after the loop over the steps (reached only when no step failed), with `spent` measured from the start of the shot -/\ndef mwtPause (mwt spent : Int) : Option Int := if %s then some %s else none\n", x.rel(fd), cond, d)
						stage = 4
					}
				}
			}
		}
	}
	if stage != 4 {
		return x.fail(fd, "expected `startAt := time.Now()`, the loop, `spent := time.Since(startAt)`, `if … { time.Sleep(…) }` (stage %d)", stage)
	}
	return out
}

func c15flowExtra(t *tr) string {
	const (
		pMp   = "github.com/yandex/pandora/lib/mp"
		pCfg  = "github.com/yandex/pandora/components/providers/scenario/config"
		pDec  = "github.com/yandex/pandora/components/providers/scenario/http"
		pGun  = "github.com/yandex/pandora/components/guns/http_scenario"
		pPost = "github.com/yandex/pandora/components/providers/scenario/http/postprocessor"
		pPre  = "github.com/yandex/pandora/components/providers/scenario/http/preprocessor"
	)
	pk := c15scenLoad(pMp, pCfg, pDec, pGun, pPost, pPre)
	var b strings.Builder
	b.WriteString("open Pandora.Model.C15\n\n")
	need := func(p *packages.Package, recv, name string) *ast.FuncDecl {
		fd := c15scenFunc(p, recv, name)
		if fd == nil {
			t.errs = append(t.errs, fmt.Sprintf("c15flow: %s.%s not found in %s", recv, name, p.PkgPath))
		}
		return fd
	}
	xg := c15flowNew(t, pk[pGun], "gun.go")
	if fd := need(pk[pGun], "ScenarioGun", "shootStep"); fd != nil {
		b.WriteString(xg.stepCode(fd) + "\n")
	}
	if fd := need(pk[pGun], "ScenarioGun", "shoot"); fd != nil {
		b.WriteString(xg.shootLoop(fd) + "\n")
		b.WriteString(xg.mwtTail(fd) + "\n")
	}
	if fd := need(pk[pGun], "ScenarioGun", "prepareRequest"); fd != nil {
		b.WriteString(xg.prepCode(fd) + "\n")
	}
	xc := c15flowNew(t, pk[pCfg], "config/decode.go")
	if fd := need(pk[pCfg], "", "ParseShootName"); fd != nil {
		b.WriteString(xc.parseShoot(fd) + "\n")
	}
	xd := c15flowNew(t, pk[pDec], "http/decode.go")
	if fd := need(pk[pDec], "", "convertScenarioToAmmo"); fd != nil {
		b.WriteString(xd.convShoot(fd) + "\n")
	}
	if fd := need(pk[pDec], "", "decodeAmmo"); fd != nil {
		b.WriteString(xd.ringCopies(fd) + "\n")
	}
	xp := c15flowNew(t, pk[pPost], "postprocessor")
	if fd := need(pk[pPost], "AssertResponse", "Process"); fd != nil {
		b.WriteString(xp.assertResponse(fd) + "\n")
	}
	if fd := need(pk[pPost], "VarHeaderPostprocessor", "substr"); fd != nil {
		b.WriteString(xp.substr(fd) + "\n")
	}
	xm := c15flowNew(t, pk[pMp], "lib/mp")
	if fd := need(pk[pMp], "", "calcIndex"); fd != nil {
		b.WriteString(xm.calcIndex(fd) + "\n")
	}
	xr := c15flowNew(t, pk[pPre], "preprocessor")
	if fd := need(pk[pPre], "Preprocessor", "Process"); fd != nil {
		b.WriteString(xr.preLoop(fd) + "\n")
	}
	return b.String()
}

var _ = types.Typ
