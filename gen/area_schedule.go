package main

// Area "schedule" (properties C01, C12): regenerated from the CURRENT source
//
//	core/schedule/{once,const,line,step,instance_step}.go   the constructors (generic translator of main.go)
//	core/schedule/{const,line,step,once}.go                 struct tags `validate:"…"` of ConstConfig, LineConfig, StepConfig,
//	                                                         OnceConfig -> predicates `<Type>_valid` (what config validation accepts);
//	                                                         the one-line `New<X>Conf(conf)` wrappers (which field goes to which argument)
//	core/schedule/{do_at,start_sync}.go                      struct doAtSchedule (+ embedded StartSync) -> record `DoAtSt`;
//	                                                         NewDoAtSchedule, MarkStarted, Start, Next, Left -> state-passing functions
//	core/import/import.go                                    register.Limiter(name, schedule.F) calls of Import() -> table `limiters`
//	core/config/{validator,validations}.go                   the functions registered for the tag keys `min-time` / `max-time`
//	                                                         -> comparisons `MinTimeValidation` / `MaxTimeValidation` the predicates apply
//
// Reading of Go used by the method translator (trusted, see notes/C01.md):
//
//	*doAtSchedule / *StartSync receiver      -> one record value `s : DoAtSt` threaded through the statements
//	atomic.Int64 / atomic.Bool field         -> ℤ / Bool field; x.Load() reads, x.Inc() adds 1 and yields the new value,
//	                                            x.Swap(v) stores v and yields the old value
//	sync.Once field                          -> Bool "done"; once.Do(f) = if done then skip else (done := true; f())
//	time.Time                                -> ℤ (ns on one clock); t.Add(d) = t + d; time.Now() = parameter `now`
//	panic(msg)                               -> Except.error msg
//
// Anything that does not have one of these shapes is a translation error (gen exits non-zero: a broken obligation).

import (
	"fmt"
	"go/ast"
	"go/token"
	"go/types"
	"reflect"
	"strconv"
	"strings"
	"time"

	"golang.org/x/tools/go/packages"
)

func init() {
	areas["schedule"] = area{
		pkgPath:   "github.com/yandex/pandora/core/schedule",
		module:    "Schedule",
		namespace: "Pandora.Gen.Schedule",
		imports:   []string{"Pandora.Go.Real"},
		funcs:     []string{"NewOnce", "constDoAt", "NewConst", "lineDoAt", "NewLine", "NewStep", "NewInstanceStep"},
		extra:     scheduleExtra,
	}
}

type schTr struct {
	t   *tr
	pkg *packages.Package
	tmp int
	// validate-tag key ("min-time", "max-time") -> name of the regenerated comparison of core/config (scheduleTimeValidations)
	timeFn map[string]string
}

func (x *schTr) fail(n ast.Node, format string, a ...any) string {
	msg := fmt.Sprintf("%s: unsupported (schedule area): %s", x.pkg.Fset.Position(n.Pos()), fmt.Sprintf(format, a...))
	x.t.errs = append(x.t.errs, msg)
	return "(UNSUPPORTED)"
}

func (x *schTr) failf(format string, a ...any) {
	x.t.errs = append(x.t.errs, "schedule area: "+fmt.Sprintf(format, a...))
}

func schFindType(p *packages.Package, name string) (*ast.TypeSpec, *ast.StructType) {
	for _, f := range p.Syntax {
		for _, d := range f.Decls {
			gd, ok := d.(*ast.GenDecl)
			if !ok || gd.Tok != token.TYPE {
				continue
			}
			for _, s := range gd.Specs {
				ts := s.(*ast.TypeSpec)
				if ts.Name.Name == name {
					st, _ := ts.Type.(*ast.StructType)
					return ts, st
				}
			}
		}
	}
	return nil, nil
}

func schFindMethod(p *packages.Package, recv, name string) *ast.FuncDecl {
	for _, f := range p.Syntax {
		for _, d := range f.Decls {
			fd, ok := d.(*ast.FuncDecl)
			if !ok || fd.Recv == nil || fd.Name.Name != name || len(fd.Recv.List) != 1 {
				continue
			}
			ty := fd.Recv.List[0].Type
			if st, ok := ty.(*ast.StarExpr); ok {
				ty = st.X
			}
			if id, ok := ty.(*ast.Ident); ok && id.Name == recv {
				return fd
			}
		}
	}
	return nil
}

func (x *schTr) relFile(n ast.Node) string {
	pos := x.pkg.Fset.Position(n.Pos())
	rel := pos.Filename
	if strings.HasPrefix(rel, repo) {
		rel = strings.TrimPrefix(strings.TrimPrefix(rel, repo), "/")
	}
	return rel
}

// ---------------------------------------------------------------- struct tags -> validity predicates

type schField struct {
	name string
	lean string // ℝ or ℤ
	tag  string
}

func (x *schTr) configFields(typeName string) ([]schField, *ast.TypeSpec) {
	ts, st := schFindType(x.pkg, typeName)
	if st == nil {
		x.failf("struct type %s not found", typeName)
		return nil, nil
	}
	var out []schField
	for _, f := range st.Fields.List {
		ty := x.pkg.TypesInfo.TypeOf(f.Type)
		lean := ""
		switch {
		case isFloat(ty):
			lean = "ℝ"
		case isInt(ty):
			lean = "ℤ"
		default:
			x.fail(f, "field type %s of %s", ty, typeName)
			continue
		}
		tag := ""
		if f.Tag != nil {
			raw, err := strconv.Unquote(f.Tag.Value)
			if err != nil {
				x.fail(f, "struct tag %s", f.Tag.Value)
				continue
			}
			st := reflect.StructTag(raw)
			tag = st.Get("validate")
			if c, ok := st.Lookup("config"); ok {
				x.fail(f, "config tag %q (the harness addresses fields by their lower-cased names)", c)
			}
		}
		if len(f.Names) == 0 {
			x.fail(f, "embedded field in %s", typeName)
			continue
		}
		for _, n := range f.Names {
			out = append(out, schField{n.Name, lean, tag})
		}
	}
	return out, ts
}

// one rule of a validate tag as a Lean proposition about variable v
func (x *schTr) rule(at ast.Node, rule string, f schField) string {
	key, param, _ := strings.Cut(rule, "=")
	lit := func(p string) (string, bool) {
		if f.lean == "ℤ" {
			v, err := strconv.ParseInt(p, 10, 64)
			if err != nil {
				return "", false
			}
			return fmt.Sprintf("(%d : ℤ)", v), true
		}
		// validator.v9 parses the parameter with strconv.ParseFloat; keep it exact as a rational
		if _, err := strconv.ParseFloat(p, 64); err != nil {
			return "", false
		}
		if i, err := strconv.ParseInt(p, 10, 64); err == nil {
			return fmt.Sprintf("(%d : ℝ)", i), true
		}
		return "", false
	}
	dur := func(p string) (string, bool) {
		d, err := time.ParseDuration(p)
		if err != nil || f.lean != "ℤ" {
			return "", false
		}
		return fmt.Sprintf("(%d : ℤ)", int64(d)), true
	}
	switch key {
	case "min", "gte":
		if l, ok := lit(param); ok {
			return "(" + l + " ≤ " + f.name + ")"
		}
	case "max", "lte":
		if l, ok := lit(param); ok {
			return "(" + f.name + " ≤ " + l + ")"
		}
	case "gt":
		if l, ok := lit(param); ok {
			return "(" + l + " < " + f.name + ")"
		}
	case "lt":
		if l, ok := lit(param); ok {
			return "(" + f.name + " < " + l + ")"
		}
	case "min-time", "max-time":
		// these two keys are not the validator library's: core/config registers its own functions for them; the rule is
		// an application of the comparison regenerated from that function (parameter first, field second)
		if l, ok := dur(param); ok {
			if fn := x.timeFn[key]; fn != "" {
				return "(" + fn + " " + l + " " + f.name + ")"
			}
		}
	}
	return x.fail(at, "validate rule %q on field %s", rule, f.name)
}

func (x *schTr) validPredicate(typeName string) string {
	fields, ts := x.configFields(typeName)
	if ts == nil {
		return ""
	}
	var ps, conj, doc []string
	for _, f := range fields {
		ps = append(ps, "("+f.name+" : "+f.lean+")")
		doc = append(doc, f.name+" `"+f.tag+"`")
		if f.tag == "" {
			continue
		}
		for _, r := range strings.Split(f.tag, ",") {
			conj = append(conj, x.rule(ts, strings.TrimSpace(r), f))
		}
	}
	body := "True"
	if len(conj) > 0 {
		body = strings.Join(conj, " ∧ ")
	}
	return fmt.Sprintf("/-- regenerated from the `validate` struct tags of `%s` type `%s`: %s -/\ndef %s_valid %s : Prop :=\n  %s\n\n",
		x.relFile(ts), typeName, strings.Join(doc, ", "), typeName, strings.Join(ps, " "), body)
}

// `func NewXConf(conf XConfig) core.Schedule { return NewX(conf.A, conf.B) }`
func (x *schTr) confWrapper(fn, typeName string) string {
	fd := findFunc(x.pkg, fn)
	if fd == nil {
		x.failf("function %s not found", fn)
		return ""
	}
	fields, _ := x.configFields(typeName)
	if len(fd.Type.Params.List) != 1 || len(fd.Type.Params.List[0].Names) != 1 {
		return x.fail(fd, "%s: expected one parameter", fn)
	}
	pn := fd.Type.Params.List[0].Names[0].Name
	if id, ok := fd.Type.Params.List[0].Type.(*ast.Ident); !ok || id.Name != typeName {
		return x.fail(fd, "%s: parameter type is not %s", fn, typeName)
	}
	if len(fd.Body.List) != 1 {
		return x.fail(fd, "%s: expected a single return statement", fn)
	}
	ret, ok := fd.Body.List[0].(*ast.ReturnStmt)
	if !ok || len(ret.Results) != 1 {
		return x.fail(fd, "%s: expected a single return statement", fn)
	}
	call, ok := ret.Results[0].(*ast.CallExpr)
	if !ok {
		return x.fail(fd, "%s: expected return of a constructor call", fn)
	}
	callee, ok := call.Fun.(*ast.Ident)
	if !ok || x.t.known[callee.Name] == "" {
		return x.fail(fd, "%s: callee is not a translated constructor", fn)
	}
	var args []string
	for _, a := range call.Args {
		sel, ok := a.(*ast.SelectorExpr)
		if !ok {
			return x.fail(a, "%s: argument is not a field of %s", fn, pn)
		}
		id, ok := sel.X.(*ast.Ident)
		if !ok || id.Name != pn {
			return x.fail(a, "%s: argument is not a field of %s", fn, pn)
		}
		args = append(args, sel.Sel.Name)
	}
	var ps []string
	for _, f := range fields {
		ps = append(ps, "("+f.name+" : "+f.lean+")")
	}
	return fmt.Sprintf("/-- regenerated from `%s` func `%s` (the config struct is passed field by field) -/\ndef %s %s : Sched :=\n  (%s %s)\n\n",
		x.relFile(fd), fn, fn, strings.Join(ps, " "), callee.Name, strings.Join(args, " "))
}

// ---------------------------------------------------------------- register.Limiter table of core/import

func (x *schTr) limiters() string {
	ip := load("github.com/yandex/pandora/core/import")
	fd := findFunc(ip, "Import")
	if fd == nil {
		x.failf("core/import: func Import not found")
		return ""
	}
	var rows []string
	ast.Inspect(fd.Body, func(n ast.Node) bool {
		call, ok := n.(*ast.CallExpr)
		if !ok {
			return true
		}
		sel, ok := call.Fun.(*ast.SelectorExpr)
		if !ok || sel.Sel.Name != "Limiter" {
			return true
		}
		if id, ok := sel.X.(*ast.Ident); !ok || id.Name != "register" {
			return true
		}
		if len(call.Args) < 2 {
			x.failf("core/import: register.Limiter with %d arguments", len(call.Args))
			return true
		}
		name, ok := cfStringConst(ip, call.Args[0])
		if !ok {
			x.failf("core/import: register.Limiter name is not a constant string")
			return true
		}
		fsel, ok := call.Args[1].(*ast.SelectorExpr)
		if !ok {
			x.failf("core/import: register.Limiter(%q, …): constructor is not schedule.<Func>", name)
			return true
		}
		if id, ok := fsel.X.(*ast.Ident); !ok || id.Name != "schedule" {
			x.failf("core/import: register.Limiter(%q, …): constructor is not from package schedule", name)
			return true
		}
		extra := ""
		if len(call.Args) > 2 {
			extra = "+defaults"
		}
		rows = append(rows, fmt.Sprintf("(%q, %q)", name, fsel.Sel.Name+extra))
		return true
	})
	return "/-- regenerated from `core/import/import.go` func `Import`: every `register.Limiter(name, schedule.F)` in source order -/\n" +
		"def limiters : List (String × String) :=\n  [" + strings.Join(rows, ", ") + "]\n\n"
}

// ---------------------------------------------------------------- core/config: the functions behind `min-time=` / `max-time=`

// scheduleTimeValidations regenerates, from core/config/validator.go + validations.go, what the tag keys `min-time` and
// `max-time` MEAN: the table `validations` says which function is registered for the key; the function must be
//
//	a, b, c := getTimeForValidation(fl.Field().Interface(), fl.Param())
//	return c && <comparison of a and b>          (operands and conjuncts in any order, `!( … )` allowed)
//
// and getTimeForValidation must return (the field's value asserted to time.Duration, time.ParseDuration of the parameter,
// whether the assertion held). Emitted: `def <Func> (param field : ℤ) : Prop := <comparison>`.
func (x *schTr) scheduleTimeValidations() string {
	x.timeFn = map[string]string{}
	cp := load("github.com/yandex/pandora/core/config")
	// the registration table
	reg := map[string]string{}
	for _, f := range cp.Syntax {
		for _, d := range f.Decls {
			gd, ok := d.(*ast.GenDecl)
			if !ok || gd.Tok != token.VAR {
				continue
			}
			for _, sp := range gd.Specs {
				vs := sp.(*ast.ValueSpec)
				if len(vs.Names) != 1 || vs.Names[0].Name != "validations" || len(vs.Values) != 1 {
					continue
				}
				cl, ok := vs.Values[0].(*ast.CompositeLit)
				if !ok {
					continue
				}
				for _, e := range cl.Elts {
					row, ok := e.(*ast.CompositeLit)
					if !ok || len(row.Elts) != 2 {
						x.failf("core/config: a row of `validations` is not {key, func}")
						continue
					}
					key, ok1 := cfStringConst(cp, row.Elts[0])
					fn, ok2 := row.Elts[1].(*ast.Ident)
					if !ok1 || !ok2 {
						x.failf("core/config: a row of `validations` is not {constant string, function name}")
						continue
					}
					if _, dup := reg[key]; dup {
						x.failf("core/config: validation key %q registered twice", key)
					}
					reg[key] = fn.Name
				}
			}
		}
	}
	// getTimeForValidation: (actual, check, ok) = (v.(time.Duration), time.ParseDuration(param), assertion held)
	helperOK := func() bool {
		fd := findFunc(cp, "getTimeForValidation")
		if fd == nil || fd.Type.Results == nil {
			return false
		}
		var ps, rs []string
		for _, f := range fd.Type.Params.List {
			for _, n := range f.Names {
				ps = append(ps, n.Name)
			}
		}
		for _, f := range fd.Type.Results.List {
			for _, n := range f.Names {
				rs = append(rs, n.Name)
			}
		}
		if len(ps) != 2 || len(rs) != 3 {
			return false
		}
		isId := func(e ast.Expr, name string) bool { id, ok := e.(*ast.Ident); return ok && id.Name == name }
		parsed, asserted, other := false, false, false
		for _, st := range fd.Body.List {
			switch st := st.(type) {
			case *ast.AssignStmt:
				if len(st.Rhs) != 1 {
					other = true
					continue
				}
				switch r := st.Rhs[0].(type) {
				case *ast.CallExpr:
					sel, ok := r.Fun.(*ast.SelectorExpr)
					if ok && isId(sel.X, "time") && sel.Sel.Name == "ParseDuration" && len(r.Args) == 1 && isId(r.Args[0], ps[1]) &&
						len(st.Lhs) == 2 && isId(st.Lhs[0], rs[1]) {
						parsed = true
						continue
					}
				case *ast.TypeAssertExpr:
					ty, ok := r.Type.(*ast.SelectorExpr)
					if ok && isId(r.X, ps[0]) && isId(ty.X, "time") && ty.Sel.Name == "Duration" && len(st.Lhs) == 2 &&
						isId(st.Lhs[0], rs[0]) && isId(st.Lhs[1], rs[2]) {
						asserted = true
						continue
					}
				}
				other = true
			case *ast.IfStmt:
				// `if err != nil { return }`: a parameter that is no duration validates nothing
				if len(st.Body.List) != 1 || st.Else != nil {
					other = true
					continue
				}
				if ret, ok := st.Body.List[0].(*ast.ReturnStmt); !ok || len(ret.Results) != 0 {
					other = true
				}
			case *ast.ReturnStmt:
				if len(st.Results) != 0 {
					other = true
				}
			default:
				other = true
			}
		}
		return parsed && asserted && !other
	}()
	if !helperOK {
		x.failf("core/config: getTimeForValidation is not (v.(time.Duration), time.ParseDuration(param), ok)")
	}
	var b strings.Builder
	b.WriteString("-- ---------------------------------------------------------------- core/config: what the tag keys `min-time` / `max-time` mean\n\n")
	var names []string
	for _, key := range []string{"min-time", "max-time"} {
		fn := reg[key]
		if fn == "" {
			x.failf("core/config: no validation registered for %q", key)
			continue
		}
		fd := findFunc(cp, fn)
		if fd == nil || len(fd.Body.List) != 2 {
			x.failf("core/config: %s is not `a, b, ok := getTimeForValidation(…); return …`", fn)
			continue
		}
		as, ok1 := fd.Body.List[0].(*ast.AssignStmt)
		ret, ok2 := fd.Body.List[1].(*ast.ReturnStmt)
		if !ok1 || !ok2 || len(as.Lhs) != 3 || len(as.Rhs) != 1 || len(ret.Results) != 1 {
			x.failf("core/config: %s is not `a, b, ok := getTimeForValidation(…); return …`", fn)
			continue
		}
		call, ok := as.Rhs[0].(*ast.CallExpr)
		if id, ok2 := call.Fun.(*ast.Ident); !ok || !ok2 || id.Name != "getTimeForValidation" || len(call.Args) != 2 ||
			types.ExprString(call.Args[0]) != "fl.Field().Interface()" || types.ExprString(call.Args[1]) != "fl.Param()" {
			x.failf("core/config: %s does not call getTimeForValidation(fl.Field().Interface(), fl.Param())", fn)
			continue
		}
		var nm [3]string
		for i, l := range as.Lhs {
			if id, ok := l.(*ast.Ident); ok {
				nm[i] = id.Name
			}
		}
		bad := false
		var trE func(e ast.Expr) string
		trE = func(e ast.Expr) string {
			switch e := e.(type) {
			case *ast.ParenExpr:
				return trE(e.X)
			case *ast.Ident:
				switch e.Name {
				case nm[0]:
					return "field"
				case nm[1]:
					return "param"
				case nm[2]:
					return "True" // the field IS a time.Duration (the Lean variable is typed so)
				}
			case *ast.UnaryExpr:
				if e.Op == token.NOT {
					return "(¬ " + trE(e.X) + ")"
				}
			case *ast.BinaryExpr:
				op := map[token.Token]string{token.LAND: "∧", token.LOR: "∨", token.LEQ: "≤", token.LSS: "<", token.GEQ: "≥",
					token.GTR: ">", token.EQL: "=", token.NEQ: "≠"}[e.Op]
				if op != "" {
					return "(" + trE(e.X) + " " + op + " " + trE(e.Y) + ")"
				}
			}
			bad = true
			return "(UNSUPPORTED)"
		}
		body := trE(ret.Results[0])
		if bad {
			x.fail(ret, "core/config: %s: result expression %s", fn, types.ExprString(ret.Results[0]))
		}
		x.timeFn[key] = fn
		names = append(names, fn)
		pos := cp.Fset.Position(fd.Pos()).Filename
		pos = strings.TrimPrefix(strings.TrimPrefix(pos, repo), "/")
		fmt.Fprintf(&b, "/-- regenerated from `%s` func `%s`, which core/config/validator.go registers for the tag key `%s`:\n`return %s` with (%s, %s, %s) = (the field as a time.Duration, the parameter parsed by time.ParseDuration, the field is a time.Duration) -/\ndef %s (param field : ℤ) : Prop :=\n  %s\n\n",
			pos, fn, key, types.ExprString(ret.Results[0]), nm[0], nm[1], nm[2], fn, body)
	}
	b.WriteString("/-- unfolds the regenerated comparisons behind `min-time=` / `max-time=` -/\n")
	if len(names) == 0 {
		b.WriteString("macro \"schedule_timeval_unfold\" : tactic => `(tactic| skip)\n\n")
	} else {
		b.WriteString("macro \"schedule_timeval_unfold\" : tactic => `(tactic| try simp only [" + strings.Join(names, ", ") + ", true_and, and_true, not_lt, not_le, ge_iff_le, gt_iff_lt] at *)\n\n")
	}
	return b.String()
}

// ---------------------------------------------------------------- core/config: which float64 numbers an int64 option takes

// scheduleNumberHooks regenerates, from core/config/hooks.go, what the two decode hooks that stand in front of every
// numeric option do with a FLOAT64 given for an INT64 option (`times`, `step`, a `duration` written as a number: JSON
// configs carry every number as a float64):
//
//	WholeNumberHook   f is a float kind, t is one of the listed integer kinds (the list must contain reflect.Int64):
//	                  `v := reflect.ValueOf(data).Float(); if COND { return nil, … }` -> `def WholeNumberHook_rejects (v : ℝ)`
//	NumberRangeHook   `case <signed integer kinds>: bits := kindBits(t); switch f { … case reflect.Float32, reflect.Float64:
//	                  fits = EXPR }` -> `def NumberRangeHook_fits_float (bits : ℕ) (v : ℝ)`; kindBits' row for reflect.Int64
//
// Expressions: v / v.Float(), integer literals, bits, + - (binary and unary), comparisons, && || !, math.Trunc, math.Floor,
// math.IsInf (a real number is never infinite: False), math.IsNaN (False), math.Ldexp(1, e) = 2^e. Anything else fails.
func (x *schTr) scheduleNumberHooks() string {
	cp := load("github.com/yandex/pandora/core/config")
	var b strings.Builder
	bad := func(n ast.Node, format string, a ...any) {
		x.t.errs = append(x.t.errs, fmt.Sprintf("%s: unsupported (schedule area, number hooks): %s", cp.Fset.Position(n.Pos()), fmt.Sprintf(format, a...)))
	}
	isId := func(e ast.Expr, name string) bool { id, ok := e.(*ast.Ident); return ok && id.Name == name }
	isSel := func(e ast.Expr, pkg, name string) bool {
		sel, ok := e.(*ast.SelectorExpr)
		return ok && isId(sel.X, pkg) && sel.Sel.Name == name
	}
	kindsOf := func(list []ast.Expr) []string {
		var out []string
		for _, e := range list {
			if sel, ok := e.(*ast.SelectorExpr); ok && isId(sel.X, "reflect") {
				out = append(out, sel.Sel.Name)
			} else {
				out = append(out, "?")
			}
		}
		return out
	}
	has := func(l []string, k string) bool {
		for _, e := range l {
			if e == k {
				return true
			}
		}
		return false
	}
	// vName: the float variable; vCall: "v.Float()" spelling with v a reflect.Value
	var trE func(e ast.Expr, vName string, vIsValue bool, nat bool) string
	trE = func(e ast.Expr, vName string, vIsValue bool, nat bool) string {
		switch e := e.(type) {
		case *ast.ParenExpr:
			return trE(e.X, vName, vIsValue, nat)
		case *ast.BasicLit:
			if e.Kind == token.INT {
				if nat {
					return e.Value
				}
				return "(" + e.Value + " : ℝ)"
			}
		case *ast.Ident:
			if e.Name == vName && !vIsValue {
				return "v"
			}
			if e.Name == "bits" && nat {
				return "bits"
			}
		case *ast.UnaryExpr:
			switch e.Op {
			case token.NOT:
				return "(¬ " + trE(e.X, vName, vIsValue, nat) + ")"
			case token.SUB:
				return "(-" + trE(e.X, vName, vIsValue, nat) + ")"
			}
		case *ast.BinaryExpr:
			op := map[token.Token]string{token.LAND: "∧", token.LOR: "∨", token.LEQ: "≤", token.LSS: "<", token.GEQ: "≥",
				token.GTR: ">", token.EQL: "=", token.NEQ: "≠", token.ADD: "+", token.SUB: "-"}[e.Op]
			if op != "" {
				return "(" + trE(e.X, vName, vIsValue, nat) + " " + op + " " + trE(e.Y, vName, vIsValue, nat) + ")"
			}
		case *ast.CallExpr:
			if sel, ok := e.Fun.(*ast.SelectorExpr); ok {
				switch {
				case vIsValue && isId(sel.X, vName) && sel.Sel.Name == "Float" && len(e.Args) == 0:
					return "v"
				case isId(sel.X, "math") && sel.Sel.Name == "Trunc" && len(e.Args) == 1:
					return "(((Go.f2i " + trE(e.Args[0], vName, vIsValue, false) + ") : ℤ) : ℝ)"
				case isId(sel.X, "math") && sel.Sel.Name == "Floor" && len(e.Args) == 1:
					return "((⌊" + trE(e.Args[0], vName, vIsValue, false) + "⌋ : ℤ) : ℝ)"
				case isId(sel.X, "math") && (sel.Sel.Name == "IsInf" || sel.Sel.Name == "IsNaN") && len(e.Args) >= 1:
					if trE(e.Args[0], vName, vIsValue, false) == "v" {
						return "False"
					}
				case isId(sel.X, "math") && sel.Sel.Name == "Ldexp" && len(e.Args) == 2:
					if l, ok := e.Args[0].(*ast.BasicLit); ok && l.Value == "1" {
						return "((2 : ℝ) ^ " + trE(e.Args[1], vName, vIsValue, true) + ")"
					}
				}
			}
		}
		bad(e, "expression %s", types.ExprString(e))
		return "(UNSUPPORTED)"
	}
	b.WriteString("-- ---------------------------------------------------------------- core/config: a float64 number given for an int64 option\n\n")
	b.WriteString("noncomputable section\n\n")
	// ---- WholeNumberHook
	if fd := findFunc(cp, "WholeNumberHook"); fd == nil || len(fd.Type.Params.List) < 3 {
		x.failf("core/config: func WholeNumberHook(f, t, data) not found")
	} else {
		var ps []string
		for _, f := range fd.Type.Params.List {
			for _, n := range f.Names {
				ps = append(ps, n.Name)
			}
		}
		var fromKinds, toKinds []string
		vName, cond := "", ""
		okShape := len(ps) == 3
		for _, st := range fd.Body.List {
			if !okShape {
				break
			}
			switch st := st.(type) {
			case *ast.IfStmt:
				ret, _ := st.Body.List[len(st.Body.List)-1].(*ast.ReturnStmt)
				if ret == nil || len(ret.Results) != 2 || st.Else != nil || st.Init != nil {
					okShape = false
					break
				}
				if isId(ret.Results[0], ps[2]) && isId(ret.Results[1], "nil") {
					// `if f != reflect.Float32 && f != reflect.Float64 { return data, nil }`: the kinds that are looked at
					ok := true
					var collect func(e ast.Expr)
					collect = func(e ast.Expr) {
						be, isB := e.(*ast.BinaryExpr)
						switch {
						case isB && be.Op == token.LAND:
							collect(be.X)
							collect(be.Y)
						case isB && be.Op == token.NEQ && isId(be.X, ps[0]):
							fromKinds = append(fromKinds, kindsOf([]ast.Expr{be.Y})...)
						default:
							ok = false
						}
					}
					collect(st.Cond)
					okShape = okShape && ok
				} else if isId(ret.Results[0], "nil") && vName != "" && cond == "" {
					cond = trE(st.Cond, vName, false, false)
				} else {
					okShape = false
				}
			case *ast.SwitchStmt:
				if !isId(st.Tag, ps[1]) || st.Init != nil {
					okShape = false
					break
				}
				for _, cc := range st.Body.List {
					c := cc.(*ast.CaseClause)
					if c.List != nil {
						if len(c.Body) != 0 {
							okShape = false
						}
						toKinds = append(toKinds, kindsOf(c.List)...)
					} else if len(c.Body) != 1 {
						okShape = false
					} else if ret, ok := c.Body[0].(*ast.ReturnStmt); !ok || len(ret.Results) != 2 || !isId(ret.Results[0], ps[2]) || !isId(ret.Results[1], "nil") {
						okShape = false
					}
				}
			case *ast.AssignStmt:
				// v := reflect.ValueOf(data).Float()
				if len(st.Lhs) == 1 && len(st.Rhs) == 1 && types.ExprString(st.Rhs[0]) == "reflect.ValueOf("+ps[2]+").Float()" {
					if id, ok := st.Lhs[0].(*ast.Ident); ok {
						vName = id.Name
						break
					}
				}
				okShape = false
			case *ast.ReturnStmt:
				if len(st.Results) != 2 || !isId(st.Results[0], ps[2]) || !isId(st.Results[1], "nil") {
					okShape = false
				}
			default:
				okShape = false
			}
		}
		if !okShape || cond == "" {
			bad(fd, "WholeNumberHook is not `if f is no float {pass}; switch t {integer kinds: default: pass}; v := reflect.ValueOf(data).Float(); if COND {reject}; pass`")
		}
		if !has(fromKinds, "Float64") || !has(toKinds, "Int64") {
			bad(fd, "WholeNumberHook does not look at float64 -> int64 (from %v, to %v)", fromKinds, toKinds)
		}
		fmt.Fprintf(&b, "/-- regenerated from `core/config/hooks.go` func `WholeNumberHook`: looks at data of kind %s given for a field of kind %s;\nwith `v` the number, it REJECTS iff this holds (a real number is never infinite) -/\ndef WholeNumberHook_rejects (v : ℝ) : Prop :=\n  %s\n\n",
			strings.Join(fromKinds, "/"), strings.Join(toKinds, "/"), cond)
	}
	// ---- NumberRangeHook: case signed integer kinds -> switch f -> case float kinds: fits = EXPR
	if fd := findFunc(cp, "NumberRangeHook"); fd == nil || len(fd.Type.Params.List) < 3 {
		x.failf("core/config: func NumberRangeHook(f, t, data) not found")
	} else {
		var ps []string
		for _, f := range fd.Type.Params.List {
			for _, n := range f.Names {
				ps = append(ps, n.Name)
			}
		}
		vName, fits, found := "", "", false
		for _, st := range fd.Body.List {
			if as, ok := st.(*ast.AssignStmt); ok && len(as.Lhs) == 1 && len(as.Rhs) == 1 && len(ps) == 3 &&
				types.ExprString(as.Rhs[0]) == "reflect.ValueOf("+ps[2]+")" {
				if id, ok := as.Lhs[0].(*ast.Ident); ok {
					vName = id.Name
				}
			}
			sw, ok := st.(*ast.SwitchStmt)
			if !ok || len(ps) != 3 || !isId(sw.Tag, ps[1]) {
				continue
			}
			for _, cc := range sw.Body.List {
				c := cc.(*ast.CaseClause)
				if !has(kindsOf(c.List), "Int64") {
					continue
				}
				// bits := kindBits(t); switch f { … }
				if len(c.Body) != 2 {
					bad(c, "NumberRangeHook: the signed-integer case is not `bits := kindBits(t); switch f {…}`")
					continue
				}
				as, ok1 := c.Body[0].(*ast.AssignStmt)
				in, ok2 := c.Body[1].(*ast.SwitchStmt)
				if !ok1 || !ok2 || len(as.Lhs) != 1 || !isId(as.Lhs[0], "bits") || types.ExprString(as.Rhs[0]) != "kindBits("+ps[1]+")" || !isId(in.Tag, ps[0]) {
					bad(c, "NumberRangeHook: the signed-integer case is not `bits := kindBits(t); switch f {…}`")
					continue
				}
				for _, ic := range in.Body.List {
					icc := ic.(*ast.CaseClause)
					if !has(kindsOf(icc.List), "Float64") {
						continue
					}
					if len(icc.Body) != 1 {
						bad(icc, "NumberRangeHook: float case is not `fits = …`")
						continue
					}
					fa, ok := icc.Body[0].(*ast.AssignStmt)
					if !ok || len(fa.Lhs) != 1 || !isId(fa.Lhs[0], "fits") || fa.Tok != token.ASSIGN {
						bad(icc, "NumberRangeHook: float case is not `fits = …`")
						continue
					}
					fits = trE(fa.Rhs[0], vName, true, false)
					found = true
				}
			}
		}
		// `if !fits { return nil, … }` must follow and nothing else may set fits to true afterwards: checked loosely —
		// the function's last two statements
		n := len(fd.Body.List)
		tailOK := n >= 2
		if tailOK {
			ifs, ok1 := fd.Body.List[n-2].(*ast.IfStmt)
			ret, ok2 := fd.Body.List[n-1].(*ast.ReturnStmt)
			tailOK = ok1 && ok2 && types.ExprString(ifs.Cond) == "!fits" && len(ret.Results) == 2 && isId(ret.Results[0], ps[2]) && isId(ret.Results[1], "nil")
			if tailOK {
				r, ok := ifs.Body.List[len(ifs.Body.List)-1].(*ast.ReturnStmt)
				tailOK = ok && len(r.Results) == 2 && isId(r.Results[0], "nil")
			}
		}
		if !found || !tailOK {
			bad(fd, "NumberRangeHook: no `case …Int64: bits := kindBits(t); switch f { case …Float64: fits = … }` followed by `if !fits {reject}; pass`")
		}
		fmt.Fprintf(&b, "/-- regenerated from `core/config/hooks.go` func `NumberRangeHook`, signed integer field of `bits` bits, float data `v`:\nthe hook passes the number on iff this holds -/\ndef NumberRangeHook_fits_float (bits : ℕ) (v : ℝ) : Prop :=\n  %s\n\n", fits)
	}
	b.WriteString("end\n\n")
	// ---- kindBits(reflect.Int64)
	bits64 := ""
	if fd := findFunc(cp, "kindBits"); fd != nil {
		ast.Inspect(fd.Body, func(n ast.Node) bool {
			c, ok := n.(*ast.CaseClause)
			if !ok || !has(kindsOf(c.List), "Int64") || len(c.Body) != 1 {
				return true
			}
			if ret, ok := c.Body[0].(*ast.ReturnStmt); ok && len(ret.Results) == 1 {
				if l, ok := ret.Results[0].(*ast.BasicLit); ok && l.Kind == token.INT {
					bits64 = l.Value
				}
			}
			return true
		})
	}
	if bits64 == "" {
		x.failf("core/config: kindBits has no `case …reflect.Int64…: return <literal>`")
		bits64 = "0"
	}
	fmt.Fprintf(&b, "/-- regenerated from `core/config/hooks.go` func `kindBits`: the row of reflect.Int64 (int64 and time.Duration options) -/\ndef kindBits_Int64 : ℕ := %s\n\n", bits64)
	// both hooks must be among the default hooks
	var hooks []string
	if fd := findFunc(cp, "DefaultHooks"); fd != nil {
		ast.Inspect(fd.Body, func(n ast.Node) bool {
			if cl, ok := n.(*ast.CompositeLit); ok {
				for _, e := range cl.Elts {
					hooks = append(hooks, types.ExprString(e))
				}
				return false
			}
			return true
		})
	}
	var qs []string
	for _, h := range hooks {
		qs = append(qs, strconv.Quote(h))
	}
	fmt.Fprintf(&b, "/-- regenerated from `core/config/config.go` func `DefaultHooks`: the decode hooks, in the order they are applied -/\ndef defaultHooks : List String :=\n  [%s]\n\n", strings.Join(qs, ", "))
	_ = isSel
	return b.String()
}

// ---------------------------------------------------------------- doAtSchedule as a state machine

type schRecField struct {
	name, lean, zero, doc string
}

func (x *schTr) recFieldsOf(typeName string, out *[]schRecField) {
	ts, st := schFindType(x.pkg, typeName)
	if st == nil {
		x.failf("struct type %s not found", typeName)
		return
	}
	for _, f := range st.Fields.List {
		ty := x.pkg.TypesInfo.TypeOf(f.Type)
		if len(f.Names) == 0 {
			// embedded struct of the same package: flattened
			if n, ok := ty.(*types.Named); ok && n.Obj().Pkg() == x.pkg.Types {
				x.recFieldsOf(n.Obj().Name(), out)
				continue
			}
			x.fail(f, "embedded field %s", ty)
			continue
		}
		lean, zero := "", ""
		ts := types.TypeString(ty, nil)
		switch {
		case ts == "go.uber.org/atomic.Int64":
			lean, zero = "ℤ", "0"
		case ts == "go.uber.org/atomic.Bool":
			lean, zero = "Bool", "false"
		case ts == "sync.Once":
			lean, zero = "Bool", "false"
		case ts == "time.Time":
			lean, zero = "ℤ", "0"
		case isInt(ty):
			lean, zero = "ℤ", "0"
		default:
			if sig, ok := ty.Underlying().(*types.Signature); ok && sig.Params().Len() == 1 && sig.Results().Len() == 1 &&
				isInt(sig.Params().At(0).Type()) && isInt(sig.Results().At(0).Type()) {
				lean, zero = "ℤ → ℤ", "fun _ => 0"
			} else {
				x.fail(f, "field type %s", ts)
				continue
			}
		}
		for _, n := range f.Names {
			*out = append(*out, schRecField{n.Name, lean, zero, typeName + "." + n.Name + " " + ts})
		}
	}
	_ = ts
}

type schM struct {
	x       *schTr
	recv    string            // receiver variable name in Go
	params  map[string]string // Go parameter -> Lean name
	fields  map[string]string // field name -> Lean type
	usesNow bool
	unit    bool // method without results
}

// expression; effects are appended to pre as `let …` lines
func (m *schM) expr(e ast.Expr, pre *[]string) string {
	x := m.x
	info := x.pkg.TypesInfo
	if tv, ok := info.Types[e]; ok && tv.Value != nil {
		if s, ok := x.t.constLit(tv, e); ok {
			return s
		}
	}
	switch v := e.(type) {
	case *ast.ParenExpr:
		return m.expr(v.X, pre)
	case *ast.Ident:
		if v.Name == "true" || v.Name == "false" {
			return v.Name
		}
		if l, ok := m.params[v.Name]; ok {
			return l
		}
		return x.fail(e, "identifier %s", v.Name)
	case *ast.SelectorExpr:
		if id, ok := v.X.(*ast.Ident); ok && id.Name == m.recv {
			if _, ok := m.fields[v.Sel.Name]; ok {
				return "s." + v.Sel.Name
			}
		}
		return x.fail(e, "selector %s", nodeString(x.pkg, e))
	case *ast.UnaryExpr:
		if v.Op == token.NOT && isBool(info.TypeOf(v.X)) {
			return "(!" + m.expr(v.X, pre) + ")"
		}
		return x.fail(e, "unary %s", v.Op)
	case *ast.BinaryExpr:
		l := m.expr(v.X, pre)
		r := m.expr(v.Y, pre)
		op := map[token.Token]string{token.ADD: "+", token.SUB: "-", token.MUL: "*", token.LSS: "<", token.LEQ: "≤", token.GTR: ">", token.GEQ: "≥", token.EQL: "=", token.NEQ: "≠"}[v.Op]
		if op == "" || !(isInt(info.TypeOf(v.X)) && isInt(info.TypeOf(v.Y))) {
			return x.fail(e, "binary %s on %s", v.Op, info.TypeOf(v.X))
		}
		return "(" + l + " " + op + " " + r + ")"
	case *ast.CallExpr:
		if tv, ok := info.Types[v.Fun]; ok && tv.IsType() {
			if len(v.Args) == 1 && isInt(tv.Type) && isInt(info.TypeOf(v.Args[0])) {
				return m.expr(v.Args[0], pre)
			}
			return x.fail(e, "conversion %s", nodeString(x.pkg, e))
		}
		sel, ok := v.Fun.(*ast.SelectorExpr)
		if !ok {
			return x.fail(e, "call %s", nodeString(x.pkg, e))
		}
		// time.Now()
		if id, ok := sel.X.(*ast.Ident); ok {
			if pn, ok := info.Uses[id].(*types.PkgName); ok {
				if pn.Imported().Path() == "time" && sel.Sel.Name == "Now" && len(v.Args) == 0 {
					m.usesNow = true
					return "now"
				}
				return x.fail(e, "call %s.%s", pn.Imported().Path(), sel.Sel.Name)
			}
			// s.IsStarted(): `return s.started.Load()` of the embedded StartSync
			if id.Name == m.recv && sel.Sel.Name == "IsStarted" && len(v.Args) == 0 {
				if fld := x.isStartedField(); fld != "" {
					if _, ok := m.fields[fld]; ok {
						return "s." + fld
					}
				}
				return x.fail(e, "IsStarted is not `return s.<atomic.Bool field>.Load()`")
			}
			// s.doAt(i)
			if id.Name == m.recv {
				if lt, ok := m.fields[sel.Sel.Name]; ok && lt == "ℤ → ℤ" && len(v.Args) == 1 {
					return "(s." + sel.Sel.Name + " " + m.expr(v.Args[0], pre) + ")"
				}
			}
		}
		// s.<field>.<Method>(args)
		if inner, ok := sel.X.(*ast.SelectorExpr); ok {
			if id, ok := inner.X.(*ast.Ident); ok && id.Name == m.recv {
				fld := inner.Sel.Name
				lt, ok := m.fields[fld]
				if !ok {
					return x.fail(e, "unknown field %s", fld)
				}
				goT := types.TypeString(info.TypeOf(inner), nil)
				switch {
				case (goT == "go.uber.org/atomic.Int64" || goT == "go.uber.org/atomic.Bool") && sel.Sel.Name == "Load" && len(v.Args) == 0:
					return "s." + fld
				case goT == "go.uber.org/atomic.Int64" && sel.Sel.Name == "Inc" && len(v.Args) == 0:
					*pre = append(*pre, "let s : DoAtSt := { s with "+fld+" := s."+fld+" + 1 }")
					x.tmp++
					t := fmt.Sprintf("v%d", x.tmp)
					*pre = append(*pre, "let "+t+" : ℤ := s."+fld)
					return t
				case goT == "go.uber.org/atomic.Int64" && (sel.Sel.Name == "Add" || sel.Sel.Name == "Sub") && len(v.Args) == 1:
					// x.Add(d) adds d and yields the new value
					a := m.expr(v.Args[0], pre)
					op := map[string]string{"Add": "+", "Sub": "-"}[sel.Sel.Name]
					*pre = append(*pre, "let s : DoAtSt := { s with "+fld+" := s."+fld+" "+op+" "+a+" }")
					x.tmp++
					t := fmt.Sprintf("v%d", x.tmp)
					*pre = append(*pre, "let "+t+" : ℤ := s."+fld)
					return t
				case goT == "go.uber.org/atomic.Int64" && sel.Sel.Name == "Dec" && len(v.Args) == 0:
					*pre = append(*pre, "let s : DoAtSt := { s with "+fld+" := s."+fld+" - 1 }")
					x.tmp++
					t := fmt.Sprintf("v%d", x.tmp)
					*pre = append(*pre, "let "+t+" : ℤ := s."+fld)
					return t
				case goT == "go.uber.org/atomic.Bool" && sel.Sel.Name == "Swap" && len(v.Args) == 1:
					a := m.expr(v.Args[0], pre)
					x.tmp++
					t := fmt.Sprintf("v%d", x.tmp)
					*pre = append(*pre, "let "+t+" : Bool := s."+fld)
					*pre = append(*pre, "let s : DoAtSt := { s with "+fld+" := "+a+" }")
					return t
				case goT == "time.Time" && sel.Sel.Name == "Add" && len(v.Args) == 1 && lt == "ℤ":
					return "(s." + fld + " + " + m.expr(v.Args[0], pre) + ")"
				}
				return x.fail(e, "method %s of %s", sel.Sel.Name, goT)
			}
		}
		return x.fail(e, "call %s", nodeString(x.pkg, e))
	}
	return x.fail(e, "%T", e)
}

func schLets(pre []string, ind string) string {
	var b strings.Builder
	for _, l := range pre {
		b.WriteString(ind + l + "\n")
	}
	return b.String()
}

// stmts translates a statement list; `done` is what a fall-through at the end yields (already indented text producer)
func (m *schM) stmts(list []ast.Stmt, ind string, done func(ind string) string) string {
	x := m.x
	info := x.pkg.TypesInfo
	if len(list) == 0 {
		return done(ind)
	}
	s0, rest := list[0], list[1:]
	switch v := s0.(type) {
	case *ast.ReturnStmt:
		var pre []string
		var rs []string
		for _, r := range v.Results {
			rs = append(rs, m.expr(r, &pre))
		}
		val := "()"
		if len(rs) == 1 {
			val = rs[0]
		} else if len(rs) > 1 {
			val = "(" + strings.Join(rs, ", ") + ")"
		}
		if len(rs) == 0 && !m.unit {
			return ind + x.fail(s0, "bare return in a method with results")
		}
		return schLets(pre, ind) + ind + "Except.ok (" + val + ", s)"
	case *ast.AssignStmt:
		if len(v.Lhs) != 1 || len(v.Rhs) != 1 {
			return ind + x.fail(s0, "multi-assign")
		}
		var pre []string
		rhs := m.expr(v.Rhs[0], &pre)
		switch l := v.Lhs[0].(type) {
		case *ast.Ident:
			if v.Tok != token.DEFINE {
				return ind + x.fail(s0, "assignment to local %s", l.Name)
			}
			ty := info.TypeOf(l)
			if !isInt(ty) {
				return ind + x.fail(s0, "local %s of type %s", l.Name, ty)
			}
			m.params[l.Name] = mangle(l.Name)
			return schLets(pre, ind) + ind + "let " + mangle(l.Name) + " : ℤ := " + rhs + "\n" + m.stmts(rest, ind, done)
		case *ast.SelectorExpr:
			if id, ok := l.X.(*ast.Ident); ok && id.Name == m.recv && v.Tok == token.ASSIGN {
				if lt, ok := m.fields[l.Sel.Name]; ok && (lt == "ℤ" || lt == "Bool") {
					goT := types.TypeString(info.TypeOf(l), nil)
					if strings.HasPrefix(goT, "go.uber.org/atomic.") || goT == "sync.Once" {
						return ind + x.fail(s0, "plain assignment to %s field", goT)
					}
					return schLets(pre, ind) + ind + "let s : DoAtSt := { s with " + l.Sel.Name + " := " + rhs + " }\n" + m.stmts(rest, ind, done)
				}
			}
		}
		return ind + x.fail(s0, "assignment %s", nodeString(x.pkg, s0))
	case *ast.IfStmt:
		if v.Init != nil || v.Else != nil {
			return ind + x.fail(s0, "if with init/else")
		}
		var pre []string
		c := m.expr(v.Cond, &pre)
		condTy := info.TypeOf(v.Cond)
		_ = condTy
		// condition is either a comparison (Prop, decidable) or a Bool value
		if _, isCmp := v.Cond.(*ast.BinaryExpr); !isCmp {
			c = "(" + c + " = true)"
		}
		body := v.Body.List
		terminal := false
		if len(body) > 0 {
			switch last := body[len(body)-1].(type) {
			case *ast.ReturnStmt:
				terminal = true
			case *ast.ExprStmt:
				if call, ok := last.X.(*ast.CallExpr); ok {
					if id, ok := call.Fun.(*ast.Ident); ok && id.Name == "panic" {
						terminal = true
					}
				}
			}
		}
		if !terminal {
			// `if c { … }` whose body falls through (no return / panic / branch anywhere inside): run the body or not, go on
			leaves := false
			ast.Inspect(v.Body, func(n ast.Node) bool {
				switch w := n.(type) {
				case *ast.ReturnStmt, *ast.BranchStmt, *ast.GoStmt, *ast.DeferStmt:
					leaves = true
				case *ast.FuncLit:
					return false
				case *ast.CallExpr:
					if id, ok := w.Fun.(*ast.Ident); ok && id.Name == "panic" {
						leaves = true
					}
				case *ast.AssignStmt:
					if w.Tok == token.DEFINE {
						leaves = true // a local defined inside would have to be dropped again
					}
				}
				return true
			})
			if leaves {
				return ind + x.fail(s0, "if body that falls through")
			}
			thenS := m.stmts(body, ind+"      ", func(i string) string { return i + "Except.ok ((), s)" })
			return schLets(pre, ind) + ind + "match (if " + c + " then\n" + thenS + "\n" + ind + "    else (Except.ok ((), s) : Except String (Unit × DoAtSt))) with\n" +
				ind + "| Except.error e => Except.error e\n" + ind + "| Except.ok (_, s) =>\n" + m.stmts(rest, ind+"  ", done)
		}
		saved := map[string]string{}
		for k, val := range m.params {
			saved[k] = val
		}
		thenS := m.stmts(body, ind+"  ", done)
		m.params = saved
		return schLets(pre, ind) + ind + "if " + c + " then\n" + thenS + "\n" + ind + "else\n" + m.stmts(rest, ind+"  ", done)
	case *ast.ExprStmt:
		call, ok := v.X.(*ast.CallExpr)
		if !ok {
			return ind + x.fail(s0, "expression statement")
		}
		// panic("…")
		if id, ok := call.Fun.(*ast.Ident); ok && id.Name == "panic" && len(call.Args) == 1 {
			if msg, ok := cfStringConst(x.pkg, call.Args[0]); ok {
				return ind + fmt.Sprintf("Except.error %q", msg)
			}
			return ind + x.fail(s0, "panic with a non-constant message")
		}
		sel, ok := call.Fun.(*ast.SelectorExpr)
		if !ok {
			return ind + x.fail(s0, "call statement %s", nodeString(x.pkg, s0))
		}
		// s.MarkStarted()
		if id, ok := sel.X.(*ast.Ident); ok && id.Name == m.recv && sel.Sel.Name == "MarkStarted" && len(call.Args) == 0 {
			return ind + "match StartSync_MarkStarted s with\n" + ind + "| Except.error e => Except.error e\n" + ind + "| Except.ok (_, s) =>\n" + m.stmts(rest, ind+"  ", done)
		}
		// s.startOnce.Do(func() { … })
		if inner, ok := sel.X.(*ast.SelectorExpr); ok && sel.Sel.Name == "Do" && len(call.Args) == 1 {
			if id, ok := inner.X.(*ast.Ident); ok && id.Name == m.recv {
				goT := types.TypeString(info.TypeOf(inner), nil)
				fl, isLit := call.Args[0].(*ast.FuncLit)
				if goT == "sync.Once" && isLit && len(fl.Type.Params.List) == 0 {
					fld := inner.Sel.Name
					bodyS := m.stmts(fl.Body.List, ind+"      ", func(i string) string { return i + "Except.ok ((), s)" })
					return ind + "match (if (s." + fld + " = true) then (Except.ok ((), s) : Except String (Unit × DoAtSt)) else\n" +
						ind + "      let s : DoAtSt := { s with " + fld + " := true }\n" + bodyS + ") with\n" +
						ind + "| Except.error e => Except.error e\n" + ind + "| Except.ok (_, s) =>\n" + m.stmts(rest, ind+"  ", done)
				}
			}
		}
		return ind + x.fail(s0, "call statement %s", nodeString(x.pkg, s0))
	}
	return ind + x.fail(s0, "%T", s0)
}

// isStartedField: the atomic.Bool field f such that (*StartSync).IsStarted is `return s.f.Load()` ("" otherwise)
func (x *schTr) isStartedField() string {
	fd := schFindMethod(x.pkg, "StartSync", "IsStarted")
	if fd == nil || fd.Body == nil || len(fd.Body.List) != 1 || len(fd.Recv.List[0].Names) != 1 {
		return ""
	}
	rs, ok := fd.Body.List[0].(*ast.ReturnStmt)
	if !ok || len(rs.Results) != 1 {
		return ""
	}
	call, ok := rs.Results[0].(*ast.CallExpr)
	if !ok || len(call.Args) != 0 {
		return ""
	}
	sel, ok := call.Fun.(*ast.SelectorExpr)
	if !ok || sel.Sel.Name != "Load" {
		return ""
	}
	inner, ok := sel.X.(*ast.SelectorExpr)
	if !ok {
		return ""
	}
	id, ok := inner.X.(*ast.Ident)
	if !ok || id.Name != fd.Recv.List[0].Names[0].Name {
		return ""
	}
	if types.TypeString(x.pkg.TypesInfo.TypeOf(inner), nil) != "go.uber.org/atomic.Bool" {
		return ""
	}
	return inner.Sel.Name
}

func (x *schTr) method(recvType, name, leanName string, fields map[string]string) string {
	fd := schFindMethod(x.pkg, recvType, name)
	if fd == nil {
		x.failf("method (%s).%s not found", recvType, name)
		return ""
	}
	info := x.pkg.TypesInfo
	m := &schM{x: x, params: map[string]string{}, fields: fields}
	if len(fd.Recv.List[0].Names) == 1 {
		m.recv = fd.Recv.List[0].Names[0].Name
	}
	var ps []string
	for _, f := range fd.Type.Params.List {
		ty := info.TypeOf(f.Type)
		if !(isInt(ty) || types.TypeString(ty, nil) == "time.Time") {
			return x.fail(f, "parameter type %s of %s", ty, name)
		}
		for _, n := range f.Names {
			m.params[n.Name] = mangle(n.Name)
			ps = append(ps, "("+mangle(n.Name)+" : ℤ)")
		}
	}
	ret := "Unit"
	m.unit = true
	if fd.Type.Results != nil && len(fd.Type.Results.List) > 0 {
		m.unit = false
		var rs []string
		for _, f := range fd.Type.Results.List {
			ty := info.TypeOf(f.Type)
			lt := ""
			switch {
			case isInt(ty), types.TypeString(ty, nil) == "time.Time":
				lt = "ℤ"
			case isBool(ty):
				lt = "Bool"
			default:
				return x.fail(f, "result type %s of %s", ty, name)
			}
			k := len(f.Names)
			if k == 0 {
				k = 1
			}
			for i := 0; i < k; i++ {
				rs = append(rs, lt)
			}
		}
		ret = strings.Join(rs, " × ")
		if len(rs) > 1 {
			ret = "(" + ret + ")"
		}
	}
	body := m.stmts(fd.Body.List, "  ", func(i string) string {
		if m.unit {
			return i + "Except.ok ((), s)"
		}
		return i + x.fail(fd, "%s: control reaches the end of a method with results", name)
	})
	now := ""
	if m.usesNow {
		now = "(now : ℤ) "
	}
	return fmt.Sprintf("/-- regenerated from `%s` method `(*%s).%s`%s -/\ndef %s %s(s : DoAtSt) %s: Except String (%s × DoAtSt) :=\n%s\n\n",
		x.relFile(fd), recvType, name, map[bool]string{true: " (`now` = the value `time.Now()` returns)", false: ""}[m.usesNow],
		leanName, now, strings.Join(ps, " ")+map[bool]string{true: " ", false: ""}[len(ps) > 0], ret, body)
}

func (x *schTr) doAt() string {
	var fs []schRecField
	x.recFieldsOf("doAtSchedule", &fs)
	fields := map[string]string{}
	var b strings.Builder
	b.WriteString("/-- regenerated from `core/schedule/do_at.go` struct `doAtSchedule` with the embedded `StartSync` flattened -/\nstructure DoAtSt where\n")
	for _, f := range fs {
		fields[f.name] = f.lean
		b.WriteString("  /-- " + f.doc + " -/\n  " + f.name + " : " + f.lean + "\n")
	}
	b.WriteString("\n")
	// NewDoAtSchedule: return &doAtSchedule{k: v, …}
	fd := findFunc(x.pkg, "NewDoAtSchedule")
	if fd == nil {
		x.failf("function NewDoAtSchedule not found")
		return b.String()
	}
	set := map[string]string{}
	okShape := false
	if len(fd.Body.List) == 1 {
		if ret, ok := fd.Body.List[0].(*ast.ReturnStmt); ok && len(ret.Results) == 1 {
			if u, ok := ret.Results[0].(*ast.UnaryExpr); ok && u.Op == token.AND {
				if cl, ok := u.X.(*ast.CompositeLit); ok {
					okShape = true
					for _, el := range cl.Elts {
						kv, ok := el.(*ast.KeyValueExpr)
						if !ok {
							okShape = false
							break
						}
						k, ok1 := kv.Key.(*ast.Ident)
						v, ok2 := kv.Value.(*ast.Ident)
						if !ok1 || !ok2 {
							okShape = false
							break
						}
						set[k.Name] = mangle(v.Name)
					}
				}
			}
		}
	}
	if !okShape {
		x.fail(fd, "NewDoAtSchedule: expected `return &doAtSchedule{field: param, …}`")
		return b.String()
	}
	var ps []string
	for _, f := range fd.Type.Params.List {
		ty := x.pkg.TypesInfo.TypeOf(f.Type)
		lt := "ℤ"
		if _, ok := ty.Underlying().(*types.Signature); ok {
			lt = "ℤ → ℤ"
		} else if !isInt(ty) {
			x.fail(f, "NewDoAtSchedule parameter type %s", ty)
		}
		for _, n := range f.Names {
			ps = append(ps, "("+mangle(n.Name)+" : "+lt+")")
		}
	}
	var inits []string
	for _, f := range fs {
		v, ok := set[f.name]
		if !ok {
			v = f.zero
		}
		inits = append(inits, f.name+" := "+v)
	}
	b.WriteString("/-- regenerated from `core/schedule/do_at.go` func `NewDoAtSchedule` (fields not named in the literal have their zero value) -/\n")
	b.WriteString("def NewDoAtSchedule " + strings.Join(ps, " ") + " : DoAtSt :=\n  { " + strings.Join(inits, ", ") + " }\n\n")
	b.WriteString(x.method("StartSync", "MarkStarted", "StartSync_MarkStarted", fields))
	b.WriteString(x.method("doAtSchedule", "Start", "doAtSchedule_Start", fields))
	b.WriteString(x.method("doAtSchedule", "Next", "doAtSchedule_Next", fields))
	b.WriteString(x.method("doAtSchedule", "Left", "doAtSchedule_Left", fields))
	return b.String()
}

// NewComposite: `switch len(scheds) { case 0: return NewOnce(0); case 1: return scheds[0] }` -> table (k, source text of
// what is returned for k nested schedules). The step profile's model (Proofs/C01Chain.compInit) rests on these two rows.
func (x *schTr) compositeSmall() string {
	fd := findFunc(x.pkg, "NewComposite")
	if fd == nil {
		x.failf("function NewComposite not found")
		return ""
	}
	if len(fd.Type.Params.List) != 1 || len(fd.Type.Params.List[0].Names) != 1 {
		x.fail(fd, "NewComposite: expected one (variadic) parameter")
		return ""
	}
	if _, ok := fd.Type.Params.List[0].Type.(*ast.Ellipsis); !ok {
		x.fail(fd, "NewComposite: expected a variadic parameter")
		return ""
	}
	pn := fd.Type.Params.List[0].Names[0].Name
	var rows []string
	found := false
	for _, st := range fd.Body.List {
		sw, ok := st.(*ast.SwitchStmt)
		if !ok {
			if !found {
				// anything before the switch could change what the switch sees
				x.fail(st, "NewComposite: statement before `switch len(%s)`", pn)
			}
			continue
		}
		call, ok := sw.Tag.(*ast.CallExpr)
		if !ok || sw.Init != nil || len(call.Args) != 1 || nodeString(x.pkg, call.Fun) != "len" || nodeString(x.pkg, call.Args[0]) != pn {
			x.fail(sw, "NewComposite: expected `switch len(%s)`", pn)
			continue
		}
		if found {
			x.fail(sw, "NewComposite: second switch")
		}
		found = true
		for _, cs := range sw.Body.List {
			cc := cs.(*ast.CaseClause)
			if cc.List == nil {
				x.fail(cc, "NewComposite: default case in `switch len(%s)`", pn)
				continue
			}
			if len(cc.Body) != 1 {
				x.fail(cc, "NewComposite: case body is not a single return")
				continue
			}
			ret, ok := cc.Body[0].(*ast.ReturnStmt)
			if !ok || len(ret.Results) != 1 {
				x.fail(cc, "NewComposite: case body is not a single return")
				continue
			}
			for _, k := range cc.List {
				tv, ok := x.pkg.TypesInfo.Types[k]
				if !ok || tv.Value == nil {
					x.fail(k, "NewComposite: case label is not a constant")
					continue
				}
				rows = append(rows, fmt.Sprintf("(%s, %q)", tv.Value.ExactString(), nodeString(x.pkg, ret.Results[0])))
			}
		}
	}
	if !found {
		x.failf("NewComposite: no `switch len(%s)`", pn)
	}
	return "/-- regenerated from `core/schedule/composite.go` func `NewComposite`: what `switch len(" + pn + ")` returns for the small numbers of\nnested schedules (source text); every other number builds a `compositeSchedule` -/\n" +
		"def compositeSmall : List (ℕ × String) :=\n  [" + strings.Join(rows, ", ") + "]\n\n"
}

// floatReading re-translates the given functions with t.round set: `<f>_fl (fl : ℝ → ℝ) …`, calls among them pass `fl` on.
func (x *schTr) floatReading(funcs []string) string {
	t := x.t
	saved := map[string]string{}
	for k, v := range t.known {
		saved[k] = v
	}
	// helpers translated on demand for the exact reading are translated again for this one
	for k, v := range t.known {
		if strings.HasPrefix(v, "aux_") {
			delete(t.known, k)
		}
	}
	for _, f := range funcs {
		t.known[f] = f + "_fl fl"
	}
	t.round = true
	var b strings.Builder
	b.WriteString("-- ---------------------------------------------------------------- float64 reading: every float operation rounded by `fl`\n\nnoncomputable section\n\n")
	for _, f := range funcs {
		fd := findFunc(x.pkg, f)
		if fd == nil {
			x.failf("function %s not found", f)
			continue
		}
		name := f + "_fl"
		text := t.funcDecl(fd, name)
		text = strings.Replace(text, "def "+name+" ", "def "+name+" (fl : ℝ → ℝ) ", 1)
		text = strings.Replace(text, "/-- regenerated from", "/-- float64 reading (the result of every float operation goes through `fl`), regenerated from", 1)
		for _, a := range t.aux {
			b.WriteString(a + "\n")
		}
		t.aux = nil
		b.WriteString(text + "\n")
	}
	b.WriteString("end\n\n")
	t.round = false
	t.known = saved
	return b.String()
}

func scheduleExtra(t *tr) string {
	x := &schTr{t: t, pkg: t.pkg}
	var b strings.Builder
	// the float64 reading of the const and line constructors: the same translation with every float operation rounded
	// by a parameter `fl : ℝ → ℝ` (C01_const_float is about every fl with a relative error bound)
	flText := x.floatReading([]string{"constDoAt", "NewConst", "lineDoAt", "NewLine"})
	b.WriteString(flText)
	// helper functions that the constructors call and that were translated on demand (main.go helperFunc), e.g. a
	// `seconds(d)` extracted by a refactoring: the bridge lemmas unfold them through this tactic without knowing their names
	b.WriteString("/-- unfolds the helper functions of core/schedule that were translated on demand: ")
	if len(t.auxNames) == 0 {
		b.WriteString("none at present -/\nmacro \"schedule_aux_unfold\" : tactic => `(tactic| skip)\n\n")
	} else {
		b.WriteString(strings.Join(t.auxNames, ", ") + " -/\nmacro \"schedule_aux_unfold\" : tactic => `(tactic| try simp only [" + strings.Join(t.auxNames, ", ") + "] at *)\n\n")
	}
	b.WriteString(x.scheduleTimeValidations())
	b.WriteString(x.scheduleNumberHooks())
	b.WriteString("-- ---------------------------------------------------------------- what config validation accepts\n\n")
	b.WriteString("noncomputable section\n\n")
	for _, c := range [][2]string{{"NewConstConf", "ConstConfig"}, {"NewLineConf", "LineConfig"}, {"NewStepConf", "StepConfig"}, {"NewOnceConf", "OnceConfig"}} {
		b.WriteString(x.validPredicate(c[1]))
		b.WriteString(x.confWrapper(c[0], c[1]))
	}
	b.WriteString("end\n\n")
	b.WriteString(x.limiters())
	b.WriteString(x.compositeSmall())
	b.WriteString("-- ---------------------------------------------------------------- doAtSchedule: what a leaf schedule does when it is started and drained\n\n")
	b.WriteString(x.doAt())
	return b.String()
}
