package main

func init() {
	areas["schedule"] = area{
		pkgPath:   "github.com/yandex/pandora/core/schedule",
		module:    "Schedule",
		namespace: "Pandora.Gen.Schedule",
		imports:   []string{"Pandora.Go.Real"},
		funcs:     []string{"NewOnce", "constDoAt", "NewConst", "lineDoAt", "NewLine", "NewStep", "NewInstanceStep"},
	}
}
