package main

// Area "provloops" (property C08): regenerates from the CURRENT source the parts of the ammo providers that decide
// how many ammo are delivered and how `Provider.Run` ends:
//
//	components/providers/http/provider.go           NewProvider: capacity of Sink, decoderConf.Limit = 0
//	components/providers/http/provider/provider.go  Run (sentinel mapping, deferred close), runFullScan loop body, runPreloaded loop body
//	components/providers/http/decoders/jsonline.go  scanAmmos
//	components/providers/scenario/provider.go       Run: loop body, deferred close + sentinel mapping
//	components/providers/scenario/{http,grpc}/provider.go  NewProvider: capacity of the sink
//	components/providers/grpc/provider.go           NewProvider: capacity of Sink; Run: deferred close
//	components/providers/grpc/grpcjson/provider.go  start: inner loop condition, the checks after a pass, the Done branch
//	core/provider/queue.go                          DefaultAmmoQueueSize, NewAmmoQueue
//	core/provider/decoder.go                        DecodeProvider.Run: loop condition, EOF / Done / limit results, deferred close
//	lib/ioutil2/reader.go                           NewMultiPassReader (passes == 1), MultiPassReader.Read (what happens at EOF)
//	core/engine/engine.go                           awaitRun: when the provider's result makes the pool fail
//	lib/errutil/errutil.go                          IsCtxError
//
// into lean/Pandora/Gen/ProvLoops.lean over the vocabulary of Pandora/Model/C08Mach.lean (`Act`, `RunRes`, `ScanRes`).
// Reading of Go used here (trusted, see notes/C08.md):
//
//	uint / int counters and config fields (int ones must carry `validate:"min=0"`)  -> Nat
//	err := ctx.Err(); if err != nil { …; return err }                                 -> if c then Act.ret RunRes.canceled else …
//	x := e / x = e / x++ / if c { x = e } / if c { x++ }                              -> let x := …
//	if c { return SENTINEL }                                                         -> if c then Act.ret … else …
//	a == b - k  (ints)                                                               -> a + k = b
//	errors.Is(err, decoders.ErrX)                                                    -> errV = RunRes.errX   (err is one of the provloopsSentinels or opaque)
//	select { case <-ctx.Done(): return R; case sink <- ammo: S }                       -> Act.offer i (state after S), doneRes := R
//	if !confutil.IsChosenCase(…) { continue }                                        -> if ¬ chosen then Act.tau … else …
//
// Every statement of the translated bodies must match one of the listed shapes (or the explicit skip list of pure I/O
// plumbing); anything else makes gen fail (broken obligation).

import (
	"bytes"
	"fmt"
	"go/ast"
	"go/constant"
	"go/printer"
	"go/token"
	"go/types"
	"os"
	"reflect"
	"strings"

	"golang.org/x/tools/go/packages"
)

func init() {
	areas["provloops"] = area{
		pkgPath:   "github.com/yandex/pandora/components/providers/http/provider",
		module:    "ProvLoops",
		namespace: "Pandora.Gen.ProvLoops",
		imports:   []string{"Pandora.Model.C08Mach", "Pandora.Model.C08Scan", "Pandora.Model.C08Fault", "Pandora.Model.C08Pick"},
		extra:     provloopsExtra,
	}
}

type provloopsPl struct {
	t    *tr
	pkg  *packages.Package
	vars map[string]string // normalised Go source of an expression -> Lean term
	ctx  string            // name of the function being translated (messages)
}

func (x *provloopsPl) src(n ast.Node) string {
	var b bytes.Buffer
	_ = printer.Fprint(&b, x.pkg.Fset, n)
	return strings.Join(strings.Fields(b.String()), " ")
}

func (x *provloopsPl) fail(n ast.Node, format string, a ...any) string {
	msg := fmt.Sprintf("%s: unsupported (provloops %s): %s", x.pkg.Fset.Position(n.Pos()), x.ctx, fmt.Sprintf(format, a...))
	x.t.errs = append(x.t.errs, msg)
	return "(UNSUPPORTED)"
}

func provloopsMethod(p *packages.Package, recvType, name string) *ast.FuncDecl {
	for _, f := range p.Syntax {
		for _, d := range f.Decls {
			fd, ok := d.(*ast.FuncDecl)
			if !ok || fd.Name.Name != name {
				continue
			}
			if recvType == "" {
				if fd.Recv == nil {
					return fd
				}
				continue
			}
			if fd.Recv == nil || len(fd.Recv.List) != 1 {
				continue
			}
			ty := fd.Recv.List[0].Type
			if st, ok := ty.(*ast.StarExpr); ok {
				ty = st.X
			}
			if ix, ok := ty.(*ast.IndexExpr); ok { // generic receiver Provider[A]
				ty = ix.X
			}
			if id, ok := ty.(*ast.Ident); ok && id.Name == recvType {
				return fd
			}
		}
	}
	return nil
}

var provloopsSentinels = map[string]string{
	"decoders.ErrPassLimit": "RunRes.errPasses", "ErrPassLimit": "RunRes.errPasses",
	"decoders.ErrAmmoLimit": "RunRes.errLimit", "ErrAmmoLimit": "RunRes.errLimit",
	"decoders.ErrNoAmmo": "RunRes.errNoAmmo", "ErrNoAmmo": "RunRes.errNoAmmo",
	"nil": "RunRes.nil",
}

// expr: pure Nat / Prop valued expressions over x.vars.
func (x *provloopsPl) expr(e ast.Expr) string {
	info := x.pkg.TypesInfo
	if v, ok := x.vars[x.src(e)]; ok {
		return v
	}
	if tv, ok := info.Types[e]; ok && tv.Value != nil && tv.Value.Kind() == constant.Int {
		return tv.Value.ExactString()
	}
	switch v := e.(type) {
	case *ast.ParenExpr:
		return "(" + x.expr(v.X) + ")"
	case *ast.Ident:
		if v.Name == "true" {
			return "True"
		}
		if v.Name == "false" {
			return "False"
		}
		return x.fail(e, "unknown identifier %s", v.Name)
	case *ast.UnaryExpr:
		if v.Op == token.NOT {
			return "(¬ " + x.expr(v.X) + ")"
		}
	case *ast.CallExpr:
		// conversions between integer types
		if tv, ok := info.Types[v.Fun]; ok && tv.IsType() && len(v.Args) == 1 && isInt(tv.Type) && isInt(info.TypeOf(v.Args[0])) {
			return x.expr(v.Args[0])
		}
		if s := x.src(v.Fun); (s == "errors.Is" || s == "xerrors.Is") && len(v.Args) == 2 && x.src(v.Args[0]) == "err" {
			if r, ok := provloopsSentinels[x.src(v.Args[1])]; ok && r != "RunRes.nil" {
				return "(errV = " + r + ")"
			}
		}
	case *ast.BinaryExpr:
		// comparisons with a subtraction on one side: a == b - k  ->  a + k = b
		if v.Op == token.EQL || v.Op == token.NEQ || v.Op == token.LSS || v.Op == token.LEQ || v.Op == token.GTR || v.Op == token.GEQ {
			op := map[token.Token]string{token.EQL: "=", token.NEQ: "≠", token.LSS: "<", token.LEQ: "≤", token.GTR: ">", token.GEQ: "≥"}[v.Op]
			lx, ly := ast.Expr(v.X), ast.Expr(v.Y)
			addL, addR := "", ""
			if b, ok := provloopsUnparen(ly).(*ast.BinaryExpr); ok && b.Op == token.SUB {
				ly, addL = b.X, x.expr(b.Y)
			}
			if b, ok := provloopsUnparen(lx).(*ast.BinaryExpr); ok && b.Op == token.SUB {
				lx, addR = b.X, x.expr(b.Y)
			}
			l, r := x.expr(lx), x.expr(ly)
			if addL != "" {
				l = "(" + l + " + " + addL + ")"
			}
			if addR != "" {
				r = "(" + r + " + " + addR + ")"
			}
			return "(" + l + " " + op + " " + r + ")"
		}
		l, r := x.expr(v.X), x.expr(v.Y)
		switch v.Op {
		case token.ADD:
			return "(" + l + " + " + r + ")"
		case token.MUL:
			return "(" + l + " * " + r + ")"
		case token.QUO:
			return "(" + l + " / " + r + ")"
		case token.REM:
			return "(" + l + " % " + r + ")"
		case token.LAND:
			return "(" + l + " ∧ " + r + ")"
		case token.LOR:
			return "(" + l + " ∨ " + r + ")"
		}
	}
	return x.fail(e, "expression %s", x.src(e))
}

func provloopsUnparen(e ast.Expr) ast.Expr {
	for {
		p, ok := e.(*ast.ParenExpr)
		if !ok {
			return e
		}
		e = p.X
	}
}

// lhs: the Lean variable an assignment target stands for
func (x *provloopsPl) lhs(e ast.Expr) (string, bool) {
	v, ok := x.vars[x.src(e)]
	return v, ok
}

// isCtxErrCheck: `if err != nil { [if !errors.Is(err, context.Canceled) { err = wrap }]; return err }` right after `err := ctx.Err()`
func (x *provloopsPl) isCtxErrCheck(s ast.Stmt) bool {
	is, ok := s.(*ast.IfStmt)
	if !ok || is.Init != nil || is.Else != nil || x.src(is.Cond) != "err != nil" || len(is.Body.List) == 0 {
		return false
	}
	last, ok := is.Body.List[len(is.Body.List)-1].(*ast.ReturnStmt)
	if !ok || len(last.Results) != 1 || x.src(last.Results[0]) != "err" {
		return false
	}
	for _, st := range is.Body.List[:len(is.Body.List)-1] {
		// only the DeadlineExceeded wrapping is allowed here
		if !strings.HasPrefix(x.src(st), "if !errors.Is(err, context.Canceled) {") {
			return false
		}
	}
	return true
}

// doneBranch: the statements of `case <-ctx.Done():` must end in a return; its result class
func (x *provloopsPl) doneBranch(cc *ast.CommClause) string {
	if len(cc.Body) == 0 {
		return x.fail(cc, "empty Done branch")
	}
	ret, ok := cc.Body[len(cc.Body)-1].(*ast.ReturnStmt)
	if !ok || len(ret.Results) != 1 {
		return x.fail(cc, "Done branch does not end in a return")
	}
	for _, st := range cc.Body[:len(cc.Body)-1] {
		// err = ctx.Err() (possibly wrapped when it is not context.Canceled); logging
		s := x.src(st)
		if s != "err = ctx.Err()" && !strings.HasPrefix(s, "if err != nil && !errors.Is(err, context.Canceled) {") &&
			!strings.HasPrefix(s, "p.Log.") && !strings.HasPrefix(s, "p.log.") {
			return x.fail(st, "Done branch statement %s", s)
		}
	}
	switch x.src(ret.Results[0]) {
	case "nil":
		return "RunRes.nil"
	case "err", "ctx.Err()":
		return "RunRes.canceled"
	}
	return x.fail(ret, "Done branch returns %s", x.src(ret.Results[0]))
}

type provloopsSelectInfo struct {
	done     string     // RunRes of the Done branch
	sendBody []ast.Stmt // statements of the send case
	sendVal  string     // source of the sent value
	sink     string     // source of the channel
}

func (x *provloopsPl) selectStmt(s *ast.SelectStmt) (provloopsSelectInfo, bool) {
	var si provloopsSelectInfo
	if len(s.Body.List) != 2 {
		x.fail(s, "select with %d cases", len(s.Body.List))
		return si, false
	}
	seenDone, seenSend := false, false
	for _, c := range s.Body.List {
		cc := c.(*ast.CommClause)
		switch comm := cc.Comm.(type) {
		case *ast.ExprStmt:
			if x.src(comm.X) != "<-ctx.Done()" {
				x.fail(comm, "select case %s", x.src(comm))
				return si, false
			}
			si.done = x.doneBranch(cc)
			seenDone = true
		case *ast.SendStmt:
			si.sink, si.sendVal, si.sendBody = x.src(comm.Chan), x.src(comm.Value), cc.Body
			seenSend = true
		default:
			x.fail(cc, "select case")
			return si, false
		}
	}
	return si, seenDone && seenSend
}

// guards translates a statement list made of pure updates and guarded returns; `fall` renders what follows when
// the list falls through, `special` may take over a statement (returns handled=true and the full rest translation).
type provloopsGuardCtx struct {
	ret     func(r *ast.ReturnStmt) string // Lean term for a return statement
	brk     string                         // Lean term for `break` ("" = not allowed)
	cont    string                         // Lean term for `continue`
	typeOf  func(v string) string          // Lean type of a variable (for let)
	skip    func(s string) bool            // source prefixes of statements that are ignored
	special func(s ast.Stmt, rest []ast.Stmt, ind string) (string, bool)
	fall    func(ind string) string
}

func (x *provloopsPl) guards(stmts []ast.Stmt, ind string, g *provloopsGuardCtx) string {
	if len(stmts) == 0 {
		return g.fall(ind)
	}
	s, rest := stmts[0], stmts[1:]
	if g.special != nil {
		if out, ok := g.special(s, rest, ind); ok {
			return out
		}
	}
	if g.skip != nil && g.skip(x.src(s)) {
		return x.guards(rest, ind, g)
	}
	ty := func(v string) string {
		if g.typeOf != nil {
			return g.typeOf(v)
		}
		return "Nat"
	}
	switch v := s.(type) {
	case *ast.AssignStmt:
		if len(v.Lhs) == 1 && len(v.Rhs) == 1 && (v.Tok == token.ASSIGN || v.Tok == token.DEFINE) {
			// err := ctx.Err(); if err != nil { … return err }
			if x.src(v.Rhs[0]) == "ctx.Err()" && x.src(v.Lhs[0]) == "err" && len(rest) > 0 && x.isCtxErrCheck(rest[0]) {
				return ind + "if c then Act.ret RunRes.canceled else\n" + x.guards(rest[1:], ind, g)
			}
			if name, ok := x.lhs(v.Lhs[0]); ok {
				if x.src(v.Lhs[0]) == "err" && x.src(v.Rhs[0]) == "nil" {
					return ind + "let errV : RunRes := RunRes.nil\n" + x.guards(rest, ind, g)
				}
				return ind + "let " + name + " : " + ty(name) + " := " + x.expr(v.Rhs[0]) + "\n" + x.guards(rest, ind, g)
			}
		}
	case *ast.IncDecStmt:
		if name, ok := x.lhs(v.X); ok && v.Tok == token.INC {
			return ind + "let " + name + " : " + ty(name) + " := " + name + " + 1\n" + x.guards(rest, ind, g)
		}
	case *ast.ReturnStmt:
		return ind + g.ret(v)
	case *ast.BranchStmt:
		if v.Tok == token.BREAK && g.brk != "" {
			return ind + g.brk
		}
		if v.Tok == token.CONTINUE && g.cont != "" {
			return ind + g.cont
		}
	case *ast.IfStmt:
		if v.Init == nil && v.Else == nil && len(v.Body.List) > 0 {
			body := v.Body.List
			switch last := body[len(body)-1].(type) {
			case *ast.ReturnStmt, *ast.BranchStmt:
				_ = last
				return ind + "if " + x.expr(v.Cond) + " then\n" + x.guards(body, ind+"  ", g) + "\n" + ind + "else\n" + x.guards(rest, ind, g)
			}
			if len(body) == 1 {
				switch b := body[0].(type) {
				case *ast.AssignStmt:
					if len(b.Lhs) == 1 && len(b.Rhs) == 1 && b.Tok == token.ASSIGN {
						if name, ok := x.lhs(b.Lhs[0]); ok {
							if x.src(b.Lhs[0]) == "err" && x.src(b.Rhs[0]) == "nil" {
								return ind + "let errV : RunRes := if " + x.expr(v.Cond) + " then RunRes.nil else errV\n" + x.guards(rest, ind, g)
							}
							return ind + "let " + name + " : " + ty(name) + " := if " + x.expr(v.Cond) + " then " + x.expr(b.Rhs[0]) + " else " + name + "\n" + x.guards(rest, ind, g)
						}
					}
				case *ast.IncDecStmt:
					if name, ok := x.lhs(b.X); ok && b.Tok == token.INC {
						return ind + "let " + name + " : " + ty(name) + " := if " + x.expr(v.Cond) + " then " + name + " + 1 else " + name + "\n" + x.guards(rest, ind, g)
					}
				}
			}
		}
	}
	return ind + x.fail(s, "statement %s", x.src(s))
}

// retSentinel: `return SENTINEL` / `return nil, SENTINEL` -> Act.ret …
func (x *provloopsPl) retSentinel(wrap string) func(r *ast.ReturnStmt) string {
	return func(r *ast.ReturnStmt) string {
		if len(r.Results) == 0 {
			return x.fail(r, "bare return")
		}
		last := x.src(r.Results[len(r.Results)-1])
		if last == "err" {
			return wrap + "errV"
		}
		if v, ok := provloopsSentinels[last]; ok {
			return wrap + v
		}
		if strings.HasPrefix(last, "errors.New(") || strings.HasPrefix(last, "errors.Wrap") || strings.HasPrefix(last, "fmt.Errorf(") || strings.HasPrefix(last, "xerrors.Errorf(") {
			return wrap + "RunRes.errOther"
		}
		return x.fail(r, "return %s", last)
	}
}

func provloopsForBody(fd *ast.FuncDecl) *ast.ForStmt {
	var out *ast.ForStmt
	for _, s := range fd.Body.List {
		if f, ok := s.(*ast.ForStmt); ok && out == nil {
			out = f
		}
	}
	return out
}

// deferCloses: does the function defer close(<ch>) (directly or inside a deferred func literal)?  Returns the
// channel expression and, for a deferred literal, its statements.
func (x *provloopsPl) deferCloses(fd *ast.FuncDecl) (string, []ast.Stmt) {
	for _, s := range fd.Body.List {
		d, ok := s.(*ast.DeferStmt)
		if !ok {
			continue
		}
		if id, ok := d.Call.Fun.(*ast.Ident); ok && id.Name == "close" && len(d.Call.Args) == 1 {
			return x.src(d.Call.Args[0]), nil
		}
		if fl, ok := d.Call.Fun.(*ast.FuncLit); ok {
			for _, st := range fl.Body.List {
				if es, ok := st.(*ast.ExprStmt); ok {
					if c, ok := es.X.(*ast.CallExpr); ok {
						if id, ok := c.Fun.(*ast.Ident); ok && id.Name == "close" && len(c.Args) == 1 {
							return x.src(c.Args[0]), fl.Body.List
						}
					}
				}
			}
		}
	}
	return "", nil
}

// chanCapOf finds `make(chan T[, n])` inside node and returns its capacity as Lean text.
func (x *provloopsPl) chanCapOf(node ast.Node, want string) string {
	found := ""
	ast.Inspect(node, func(n ast.Node) bool {
		c, ok := n.(*ast.CallExpr)
		if !ok {
			return true
		}
		id, ok := c.Fun.(*ast.Ident)
		if !ok || id.Name != "make" || len(c.Args) == 0 {
			return true
		}
		if _, ok := c.Args[0].(*ast.ChanType); !ok {
			return true
		}
		if found != "" {
			found = x.fail(c, "second make(chan) in %s", want)
			return false
		}
		if len(c.Args) == 1 {
			found = "0"
			return true
		}
		if tv, ok := x.pkg.TypesInfo.Types[c.Args[1]]; ok && tv.Value != nil && tv.Value.Kind() == constant.Int {
			found = tv.Value.ExactString()
			return true
		}
		if v, ok := x.vars[x.src(c.Args[1])]; ok {
			found = v
			return true
		}
		found = x.fail(c, "channel capacity %s", x.src(c.Args[1]))
		return true
	})
	if found == "" {
		return x.fail(node, "no make(chan) in %s", want)
	}
	return found
}

// requireMin0: int config fields read as Nat must be validated non-negative
func (x *provloopsPl) requireMin0(structName string, fields ...string) {
	obj := x.pkg.Types.Scope().Lookup(structName)
	if obj == nil {
		x.fail(x.pkg.Syntax[0], "struct %s not found", structName)
		return
	}
	st, ok := obj.Type().Underlying().(*types.Struct)
	if !ok {
		x.fail(x.pkg.Syntax[0], "%s is not a struct", structName)
		return
	}
	for _, f := range fields {
		okf := false
		for i := 0; i < st.NumFields(); i++ {
			if st.Field(i).Name() != f {
				continue
			}
			b, isb := st.Field(i).Type().Underlying().(*types.Basic)
			if isb && b.Info()&types.IsUnsigned != 0 {
				okf = true
			} else if v, found := reflect.StructTag(st.Tag(i)).Lookup("validate"); found && strings.Contains(v, "min=0") {
				okf = true
			}
		}
		if !okf {
			x.fail(x.pkg.Syntax[0], "%s.%s is neither unsigned nor validated min=0", structName, f)
		}
	}
}

// provloopsLoadAll loads all the packages of the area with ONE packages.Load call (shared dependency graph).
func provloopsLoadAll(paths ...string) func(string) *packages.Package {
	// dependencies are type-checked from export data (no NeedDeps): only the listed packages are parsed
	cfg := &packages.Config{Mode: packages.NeedName | packages.NeedSyntax | packages.NeedTypes | packages.NeedTypesInfo |
		packages.NeedFiles | packages.NeedImports, Dir: repo, BuildFlags: []string{"-tags=verif"}}
	pkgs, err := packages.Load(cfg, paths...)
	if err != nil {
		fmt.Fprintln(os.Stderr, "load:", err)
		os.Exit(1)
	}
	m := map[string]*packages.Package{}
	for _, p := range pkgs {
		if len(p.Errors) > 0 {
			fmt.Fprintln(os.Stderr, "load errors:", p.PkgPath, p.Errors)
			os.Exit(1)
		}
		m[p.PkgPath] = p
	}
	return func(path string) *packages.Package {
		p := m[path]
		if p == nil {
			fmt.Fprintln(os.Stderr, "load: package not found:", path)
			os.Exit(1)
		}
		return p
	}
}

func provloopsExtra(t *tr) string {
	var b strings.Builder
	b.WriteString("open Pandora.Model.C08\n\n")
	load := provloopsLoadAll(
		"github.com/yandex/pandora/components/providers/http",
		"github.com/yandex/pandora/components/providers/http/decoders",
		"github.com/yandex/pandora/components/providers/scenario",
		"github.com/yandex/pandora/components/providers/scenario/http",
		"github.com/yandex/pandora/components/providers/scenario/grpc",
		"github.com/yandex/pandora/components/providers/grpc",
		"github.com/yandex/pandora/components/providers/grpc/grpcjson",
		"github.com/yandex/pandora/core/provider",
		"github.com/yandex/pandora/lib/ioutil2",
		"github.com/yandex/pandora/core/engine",
		"github.com/yandex/pandora/lib/errutil",
		"github.com/yandex/pandora/core/datasource",
		"github.com/yandex/pandora/components/providers/http/config",
	)

	// ------------------------------------------------------------ components/providers/http/provider
	{
		x := &provloopsPl{t: t, pkg: t.pkg, ctx: "http/provider"}
		// runPreloaded loop body
		if fd := provloopsMethod(x.pkg, "Provider", "runPreloaded"); fd == nil {
			t.errs = append(t.errs, "provloops: (*Provider).runPreloaded not found")
		} else {
			b.WriteString(x.replayLoop(fd, "runPreloaded", "p.Passes", "p.Limit", "p.ammos", "p.Sink"))
		}
		// runFullScan loop body
		if fd := provloopsMethod(x.pkg, "Provider", "runFullScan"); fd == nil {
			t.errs = append(t.errs, "provloops: (*Provider).runFullScan not found")
		} else {
			b.WriteString(x.fullScanLoop(fd))
		}
		// Run: mapping of the preloaded provloopsSentinels, deferred close
		if fd := provloopsMethod(x.pkg, "Provider", "Run"); fd == nil {
			t.errs = append(t.errs, "provloops: (*Provider).Run not found")
		} else {
			b.WriteString(x.httpRun(fd))
		}
		// loadAmmo: what Run gets when the preload failed; which ammo are kept
		b.WriteString(provloopsHTTPLoad(t, t.pkg))
		b.WriteString(provloopsAcquire(t, t.pkg, "Provider", "p.Sink", "Http", "components/providers/http/provider/provider.go"))
	}
	// ------------------------------------------------------------ components/providers/http (NewProvider)
	{
		p := load("github.com/yandex/pandora/components/providers/http")
		x := &provloopsPl{t: t, pkg: p, ctx: "http.NewProvider", vars: map[string]string{}}
		if fd := provloopsMethod(p, "", "NewProvider"); fd == nil {
			t.errs = append(t.errs, "provloops: http.NewProvider not found")
		} else {
			fmt.Fprintf(&b, "/-- regenerated from `components/providers/http/provider.go` NewProvider: capacity of `Sink` -/\ndef chanCapHttp : Nat := %s\n\n", x.chanCapOf(fd, "http.NewProvider"))
			// the decoder is constructed with Limit = 0
			lim0 := false
			var confVar string
			ast.Inspect(fd, func(n ast.Node) bool {
				switch v := n.(type) {
				case *ast.AssignStmt:
					if len(v.Lhs) == 1 && len(v.Rhs) == 1 && x.src(v.Lhs[0]) == "decoderConf.Limit" && x.src(v.Rhs[0]) == "0" {
						lim0 = true
					}
				case *ast.CallExpr:
					if x.src(v.Fun) == "decoders.NewDecoder" && len(v.Args) == 2 {
						confVar = x.src(v.Args[0])
					}
				}
				return true
			})
			dl := "limit"
			if lim0 && confVar == "decoderConf" {
				dl = "0"
			} else if confVar != "conf" && confVar != "decoderConf" {
				dl = x.fail(fd, "NewDecoder config argument %q", confVar)
			}
			fmt.Fprintf(&b, "/-- regenerated from NewProvider: the Limit the decoder is constructed with (`%s`%s) -/\ndef decoderLimit (limit : Nat) : Nat := %s\n\n",
				confVar, map[bool]string{true: ", decoderConf.Limit = 0", false: ""}[lim0], dl)
		}
	}
	// ------------------------------------------------------------ jsonline scanAmmos
	{
		p := load("github.com/yandex/pandora/components/providers/http/decoders")
		x := &provloopsPl{t: t, pkg: p, ctx: "decoders.scanAmmos"}
		if fd := provloopsMethod(p, "jsonlineDecoder", "scanAmmos"); fd == nil {
			t.errs = append(t.errs, "provloops: (*jsonlineDecoder).scanAmmos not found")
		} else {
			b.WriteString(x.scanAmmos(fd))
		}
		// the reading loops of the four Scan methods, LoadAmmo
		b.WriteString(provloopsScanExtra(t, p))
	}
	// ------------------------------------------------------------ scenario provider
	{
		p := load("github.com/yandex/pandora/components/providers/scenario")
		x := &provloopsPl{t: t, pkg: p, ctx: "scenario.Run"}
		if fd := provloopsMethod(p, "Provider", "Run"); fd == nil {
			t.errs = append(t.errs, "provloops: scenario (*Provider[A]).Run not found")
		} else {
			b.WriteString(x.replayLoop(fd, "scenarioRun", "p.cfg.Passes", "p.cfg.Limit", "p.ammos", "p.sink"))
			ch, stmts := x.deferCloses(fd)
			x.vars = map[string]string{"err": "errV"}
			mapping := ""
			if ch == "p.sink" && stmts != nil {
				g := &provloopsGuardCtx{ret: x.retSentinel(""), skip: func(s string) bool { return s == "close(p.sink)" }, fall: func(ind string) string { return ind + "errV" }}
				mapping = x.guards(stmts, "  ", g)
			} else {
				mapping = "  " + x.fail(fd, "scenario Run does not defer close(p.sink) in a func literal")
			}
			fmt.Fprintf(&b, "/-- regenerated from `components/providers/scenario/provider.go` Run: the deferred function closes the sink (%v) and maps the result -/\ndef scenarioRunCloses : Bool := %v\ndef scenarioRunMap (errV : RunRes) : RunRes :=\n%s\n\n", ch == "p.sink", ch == "p.sink", mapping)
		}
		b.WriteString(provloopsAcquire(t, p, "Provider", "p.sink", "Scenario", "components/providers/scenario/provider.go"))
		for _, sub := range []struct{ path, name string }{{"github.com/yandex/pandora/components/providers/scenario/http", "chanCapHttpScenario"}, {"github.com/yandex/pandora/components/providers/scenario/grpc", "chanCapGrpcScenario"}} {
			sp := load(sub.path)
			sx := &provloopsPl{t: t, pkg: sp, ctx: sub.path, vars: map[string]string{}}
			if fd := provloopsMethod(sp, "", "NewProvider"); fd == nil {
				t.errs = append(t.errs, "provloops: "+sub.path+".NewProvider not found")
			} else {
				fmt.Fprintf(&b, "/-- regenerated from `%s` NewProvider: capacity of the sink -/\ndef %s : Nat := %s\n\n", strings.TrimPrefix(sub.path, "github.com/yandex/pandora/"), sub.name, sx.chanCapOf(fd, sub.path))
			}
		}
	}
	// ------------------------------------------------------------ grpc provider + grpcjson
	{
		p := load("github.com/yandex/pandora/components/providers/grpc")
		x := &provloopsPl{t: t, pkg: p, ctx: "grpc.Provider", vars: map[string]string{}}
		if fd := provloopsMethod(p, "", "NewProvider"); fd == nil {
			t.errs = append(t.errs, "provloops: grpc NewProvider not found")
		} else {
			fmt.Fprintf(&b, "/-- regenerated from `components/providers/grpc/provider.go` NewProvider: capacity of `Sink` -/\ndef chanCapGrpc : Nat := %s\n\n", x.chanCapOf(fd, "grpc.NewProvider"))
		}
		if fd := provloopsMethod(p, "Provider", "Run"); fd == nil {
			t.errs = append(t.errs, "provloops: grpc (*Provider).Run not found")
		} else {
			ch, _ := x.deferCloses(fd)
			// Run returns what start returns
			last, _ := fd.Body.List[len(fd.Body.List)-1].(*ast.ReturnStmt)
			passes := last != nil && len(last.Results) == 1 && x.src(last.Results[0]) == "p.start(ctx, file)"
			if !passes {
				x.fail(fd, "grpc Run does not end in `return p.start(ctx, file)`")
			}
			fmt.Fprintf(&b, "/-- regenerated from `components/providers/grpc/provider.go` Run: `defer close(p.Sink)`, result = result of start -/\ndef grpcRunCloses : Bool := %v\n\n", ch == "p.Sink")
		}
		b.WriteString(provloopsAcquire(t, p, "Provider", "p.Sink", "Grpc", "components/providers/grpc/provider.go"))
		gp := load("github.com/yandex/pandora/components/providers/grpc/grpcjson")
		gx := &provloopsPl{t: t, pkg: gp, ctx: "grpcjson.start"}
		gx.requireMin0("Config", "Limit", "Passes")
		if fd := provloopsMethod(gp, "Provider", "start"); fd == nil {
			t.errs = append(t.errs, "provloops: grpcjson (*Provider).start not found")
		} else {
			b.WriteString(gx.grpcStart(fd))
		}
		// round 6: the token limit of the scanners, pass by pass
		b.WriteString(provloopsSizeExtra(t, gp, load("github.com/yandex/pandora/components/providers/http/decoders")))
	}
	// ------------------------------------------------------------ core/provider: queue + DecodeProvider
	{
		p := load("github.com/yandex/pandora/core/provider")
		x := &provloopsPl{t: t, pkg: p, ctx: "core/provider", vars: map[string]string{"conf.AmmoQueueSize": "ammoQueueSize"}}
		x.requireMin0("DecodeProviderConfig", "Limit", "Passes")
		b.WriteString(provloopsDefaultsExtra(t, p))
		if fd := provloopsMethod(p, "", "NewAmmoQueue"); fd == nil {
			t.errs = append(t.errs, "provloops: NewAmmoQueue not found")
		} else {
			fmt.Fprintf(&b, "/-- regenerated from `core/provider/queue.go` NewAmmoQueue: capacity of `OutQueue` -/\ndef chanCapQueue (ammoQueueSize : Nat) : Nat := %s\n\n", x.chanCapOf(fd, "NewAmmoQueue"))
		}
		// DefaultAmmoQueueConfig: AmmoQueueSize: DefaultAmmoQueueSize
		def := ""
		if fd := provloopsMethod(p, "", "DefaultAmmoQueueConfig"); fd != nil {
			ast.Inspect(fd, func(n ast.Node) bool {
				if kv, ok := n.(*ast.KeyValueExpr); ok && x.src(kv.Key) == "AmmoQueueSize" {
					if tv, ok := p.TypesInfo.Types[kv.Value]; ok && tv.Value != nil {
						def = tv.Value.ExactString()
					}
				}
				return true
			})
		}
		if def == "" {
			def = x.fail(p.Syntax[0], "DefaultAmmoQueueConfig().AmmoQueueSize is not a constant")
		}
		fmt.Fprintf(&b, "/-- regenerated from `core/provider/queue.go` DefaultAmmoQueueConfig -/\ndef defaultAmmoQueueSize : Nat := %s\n\n", def)
		b.WriteString(provloopsAcquire(t, p, "AmmoQueue", "p.OutQueue", "Queue", "core/provider/queue.go"))
		if fd := provloopsMethod(p, "DecodeProvider", "Run"); fd == nil {
			t.errs = append(t.errs, "provloops: (*DecodeProvider).Run not found")
		} else {
			b.WriteString(x.decodeRun(fd))
		}
	}
	// ------------------------------------------------------------ lib/ioutil2 MultiPassReader
	{
		p := load("github.com/yandex/pandora/lib/ioutil2")
		x := &provloopsPl{t: t, pkg: p, ctx: "ioutil2"}
		b.WriteString(x.multiPass())
	}
	// ------------------------------------------------------------ engine awaitRun (provider case) + errutil.IsCtxError
	{
		p := load("github.com/yandex/pandora/core/engine")
		x := &provloopsPl{t: t, pkg: p, ctx: "engine.awaitRun", vars: map[string]string{"errutil.IsCtxError(ah.runCtx, err)": "isCtxError"}}
		cond := ""
		if fd := provloopsMethod(p, "runAwaitHandle", "awaitRun"); fd != nil {
			ast.Inspect(fd, func(n ast.Node) bool {
				cc, ok := n.(*ast.CommClause)
				if !ok || cc.Comm == nil || x.src(cc.Comm) != "err := <-ah.providerErr" {
					return true
				}
				for _, st := range cc.Body {
					is, ok := st.(*ast.IfStmt)
					if !ok || is.Else != nil || len(is.Body.List) != 1 {
						continue
					}
					if strings.HasPrefix(x.src(is.Body.List[0]), "ah.onErrAwaited(errors.WithMessage(err, \"provider failed\"))") {
						cond = x.expr(is.Cond)
					}
				}
				return false
			})
		}
		if cond == "" {
			cond = x.fail(p.Syntax[0], "awaitRun: no `case err := <-ah.providerErr: … if COND { ah.onErrAwaited(…\"provider failed\") }`")
		}
		fmt.Fprintf(&b, "/-- regenerated from `core/engine/engine.go` awaitRun, `case err := <-ah.providerErr`: the pool fails with \"provider failed\" when …\n(`isCtxError` = errutil.IsCtxError(ah.runCtx, err)) -/\ndef providerFailsPool (isCtxError : Prop) : Prop := %s\n\n", cond)
		ep := load("github.com/yandex/pandora/lib/errutil")
		ex := &provloopsPl{t: t, pkg: ep, ctx: "errutil.IsCtxError", vars: map[string]string{"err == nil": "errNil", "ctx.Err() == errors.Cause(err)": "ctxErrIsCause"}}
		body := ""
		if fd := provloopsMethod(ep, "", "IsCtxError"); fd != nil && len(fd.Body.List) == 2 {
			is, ok1 := fd.Body.List[0].(*ast.IfStmt)
			ret, ok2 := fd.Body.List[1].(*ast.ReturnStmt)
			if ok1 && ok2 && is.Else == nil && len(is.Body.List) == 1 && ex.src(is.Body.List[0]) == "return true" && len(ret.Results) == 1 {
				body = "if " + ex.expr(is.Cond) + " then True else " + ex.expr(ret.Results[0])
			}
		}
		if body == "" {
			body = ex.fail(ep.Syntax[0], "IsCtxError does not have the shape `if COND { return true }; return E`")
		}
		fmt.Fprintf(&b, "/-- regenerated from `lib/errutil/errutil.go` IsCtxError (`ctxErrIsCause` = `ctx.Err() == errors.Cause(err)`) -/\n"+
			"def isCtxError (errNil ctxErrIsCause : Prop) [Decidable errNil] : Prop := %s\n\n", body)
	}
	// ------------------------------------------------------------ how Run ends: the deferred cleanups, path by path (round 3)
	b.WriteString(provloopsFinish(t, load))
	// ------------------------------------------------------------ the data sources of the generic JSON provider (round 4)
	b.WriteString(provloopsSources(t, load))
	return b.String()
}

// replayLoop: runPreloaded / scenario Run: the statements before the loop and the loop body.
func (x *provloopsPl) replayLoop(fd *ast.FuncDecl, name, passes, limit, ammos, sink string) string {
	loop := provloopsForBody(fd)
	if loop == nil || loop.Cond != nil || loop.Init != nil || loop.Post != nil {
		return x.fail(fd, "no plain `for { … }` loop")
	}
	// the locals by their role, whatever they are called: the two counters start as uint(0) before the loop, the one the
	// loop increments is ammoNum; `length` is uint(len(ammos)); `i` is the local defined as a remainder in the loop
	goAmmoNum, goPassNum, goLength, goI := "ammoNum", "passNum", "length", "i"
	var zeroed []string
	for _, s := range fd.Body.List {
		if s == ast.Stmt(loop) {
			break
		}
		if as, ok := s.(*ast.AssignStmt); ok && as.Tok == token.DEFINE && len(as.Lhs) == 1 && len(as.Rhs) == 1 {
			switch x.src(as.Rhs[0]) {
			case "uint(0)":
				zeroed = append(zeroed, x.src(as.Lhs[0]))
			case "uint(len(" + ammos + "))":
				goLength = x.src(as.Lhs[0])
			}
		}
	}
	if len(zeroed) == 2 {
		inc := ""
		ast.Inspect(loop.Body, func(n ast.Node) bool {
			if id, ok := n.(*ast.IncDecStmt); ok && id.Tok == token.INC && inc == "" {
				inc = x.src(id.X)
			}
			return true
		})
		switch inc {
		case zeroed[0]:
			goAmmoNum, goPassNum = zeroed[0], zeroed[1]
		case zeroed[1]:
			goAmmoNum, goPassNum = zeroed[1], zeroed[0]
		}
	}
	for _, s := range loop.Body.List {
		if as, ok := s.(*ast.AssignStmt); ok && as.Tok == token.DEFINE && len(as.Lhs) == 1 && len(as.Rhs) == 1 {
			if be, ok := as.Rhs[0].(*ast.BinaryExpr); ok && be.Op == token.REM {
				goI = x.src(as.Lhs[0])
			}
		}
	}
	x.vars = map[string]string{
		passes: "passes", limit: "limit", goAmmoNum: "ammoNum", goPassNum: "passNum", goLength: "length", goI: "i",
		"uint(len(" + ammos + "))": "length",
	}
	// before the loop: length := uint(len(ammos)); if length == 0 { return ErrNoAmmo }; ammoNum := uint(0); passNum := uint(0)
	var pre []ast.Stmt
	for _, s := range fd.Body.List {
		if s == ast.Stmt(loop) {
			break
		}
		pre = append(pre, s)
	}
	skipPre := func(s string) bool {
		return strings.HasPrefix(s, "const op") || s == "p.Deps = deps" || strings.HasPrefix(s, "defer func()") ||
			s == goLength+" := uint(len("+ammos+"))"
	}
	preG := &provloopsGuardCtx{ret: x.retSentinel("some "), skip: skipPre, fall: func(ind string) string {
		return ind + "(none : Option RunRes)"
	}, typeOf: func(string) string { return "Nat" }}
	// the initial values of the counters must be 0
	var preGuards []ast.Stmt
	for _, s := range pre {
		src := x.src(s)
		if src == goAmmoNum+" := uint(0)" || src == goPassNum+" := uint(0)" {
			continue
		}
		preGuards = append(preGuards, s)
	}
	init0 := 0
	for _, s := range pre {
		if src := x.src(s); src == goAmmoNum+" := uint(0)" || src == goPassNum+" := uint(0)" {
			init0++
		}
	}
	if init0 != 2 {
		x.fail(fd, "ammoNum / passNum are not initialised with uint(0)")
	}
	preTxt := x.guards(preGuards, "  ", preG)

	var done string
	item := ""
	g := &provloopsGuardCtx{ret: x.retSentinel("Act.ret ")}
	g.special = func(s ast.Stmt, rest []ast.Stmt, ind string) (string, bool) {
		if as, ok := s.(*ast.AssignStmt); ok && len(as.Lhs) == 1 && len(as.Rhs) == 1 && x.src(as.Lhs[0]) == "ammo" {
			if ie, ok := as.Rhs[0].(*ast.IndexExpr); ok && x.src(ie.X) == ammos {
				item = x.expr(ie.Index)
				return x.guards(rest, ind, g), true
			}
		}
		if sel, ok := s.(*ast.SelectStmt); ok {
			si, ok := x.selectStmt(sel)
			if !ok || si.sink != sink || si.sendVal != "ammo" || item == "" || len(rest) != 0 {
				return ind + x.fail(s, "send select shape"), true
			}
			done = si.done
			gs := &provloopsGuardCtx{ret: g.ret, fall: func(ind string) string { return ind + "Act.offer " + item + " (ammoNum, passNum)" }}
			return x.guards(si.sendBody, ind, gs), true
		}
		return "", false
	}
	g.fall = func(ind string) string { return ind + x.fail(loop, "loop body falls through without a send") }
	body := x.guards(loop.Body.List, "  ", g)
	pos := x.pkg.Fset.Position(fd.Pos())
	return fmt.Sprintf("/-- regenerated from `%s:%d` %s: what happens before the loop (`none` = the loop is entered with ammoNum = passNum = 0) -/\n"+
		"def %sPre (length : Nat) : Option RunRes :=\n%s\n\n"+
		"/-- regenerated from the body of the `for` loop of %s (state = ammoNum, passNum) -/\n"+
		"def %sStep (passes limit length : Nat) (c : Bool) (ammoNum passNum : Nat) : Act (Nat × Nat) :=\n%s\n\n"+
		"/-- regenerated: result of the `case <-ctx.Done()` branch of the send select of %s -/\ndef %sDone : RunRes := %s\n\n",
		provloopsShortPath(pos.Filename), pos.Line, fd.Name.Name, name, preTxt, fd.Name.Name, name, body, fd.Name.Name, name, done)
}

func provloopsShortPath(p string) string {
	if i := strings.Index(p, "/components/"); i >= 0 {
		return p[i+1:]
	}
	if i := strings.Index(p, "/core/"); i >= 0 {
		return p[i+1:]
	}
	if i := strings.Index(p, "/lib/"); i >= 0 {
		return p[i+1:]
	}
	return p
}

// fullScanLoop: body of the loop of runFullScan.
func (x *provloopsPl) fullScanLoop(fd *ast.FuncDecl) string {
	loop := provloopsForBody(fd)
	if loop == nil || loop.Cond != nil || loop.Init != nil || loop.Post != nil {
		return x.fail(fd, "no plain `for { … }` loop")
	}
	// before the loop: <counter> := uint(0); <pc>, _ := p.Decoder.(passCounter) — the locals by their role, whatever they are called
	n0 := false
	goAmmoNum, goPasses := "ammoNum", "passes"
	for _, s := range fd.Body.List {
		if s == ast.Stmt(loop) {
			break
		}
		as, ok := s.(*ast.AssignStmt)
		switch {
		case ok && as.Tok == token.DEFINE && len(as.Lhs) == 1 && len(as.Rhs) == 1 && x.src(as.Rhs[0]) == "uint(0)" && !n0:
			n0, goAmmoNum = true, x.src(as.Lhs[0])
		case ok && as.Tok == token.DEFINE && len(as.Lhs) == 2 && len(as.Rhs) == 1 && x.src(as.Lhs[1]) == "_" && x.src(as.Rhs[0]) == "p.Decoder.(passCounter)":
			goPasses = x.src(as.Lhs[0])
		default:
			x.fail(s, "statement before the loop: %s", x.src(s))
		}
	}
	x.vars = map[string]string{
		"p.Limit": "limit", goAmmoNum: "ammoNum", goPasses + " != nil": "True", goPasses + ".PassNum()": "passNum", "err": "errV",
	}
	if !n0 {
		x.fail(fd, "ammoNum is not initialised with uint(0)")
	}
	done := ""
	g := &provloopsGuardCtx{ret: x.retSentinel("Act.ret "), cont: "Act.tau ammoNum"}
	g.special = func(s ast.Stmt, rest []ast.Stmt, ind string) (string, bool) {
		// if err := ctx.Err(); err != nil { … return err }
		if is, ok := s.(*ast.IfStmt); ok && is.Init != nil && x.src(is.Init) == "err := ctx.Err()" {
			chk := &ast.IfStmt{Cond: is.Cond, Body: is.Body}
			if x.isCtxErrCheck(chk) {
				return ind + "if c then Act.ret RunRes.canceled else\n" + x.guards(rest, ind, g), true
			}
		}
		// ammo, err := p.Decoder.Scan(ctx); if err != nil { mapping }
		if as, ok := s.(*ast.AssignStmt); ok && x.src(as) == "ammo, err := p.Decoder.Scan(ctx)" {
			if len(rest) == 0 {
				return ind + x.fail(s, "nothing after Scan"), true
			}
			is, ok := rest[0].(*ast.IfStmt)
			if !ok || x.src(is.Cond) != "err != nil" || is.Else != nil || is.Init != nil {
				return ind + x.fail(rest[0], "error check after Scan"), true
			}
			ge := &provloopsGuardCtx{ret: g.ret, fall: func(ind string) string { return ind + x.fail(is, "error branch falls through") }}
			errTxt := x.guards(is.Body.List, ind+"    ", ge)
			okTxt := x.guards(rest[1:], ind+"    ", g)
			return ind + "match sr with\n" +
				ind + "| ScanRes.ammo i =>\n" + okTxt + "\n" +
				ind + "| ScanRes.errLimit =>\n" + ind + "    let errV : RunRes := RunRes.errLimit\n" + errTxt + "\n" +
				ind + "| ScanRes.errPass =>\n" + ind + "    let errV : RunRes := RunRes.errPasses\n" + errTxt + "\n" +
				ind + "| ScanRes.errNoAmmo =>\n" + ind + "    let errV : RunRes := RunRes.errNoAmmo\n" + errTxt + "\n" +
				ind + "| ScanRes.unexpected =>\n" + ind + "    let errV : RunRes := RunRes.errOther\n" + errTxt, true
		}
		// if !confutil.IsChosenCase(ammo.Tag(), p.Config.ChosenCases) { continue }
		if is, ok := s.(*ast.IfStmt); ok && x.src(is.Cond) == "!confutil.IsChosenCase(ammo.Tag(), p.Config.ChosenCases)" {
			if len(is.Body.List) == 1 && x.src(is.Body.List[0]) == "continue" && is.Else == nil {
				return ind + "if ¬ chosen then Act.tau ammoNum else\n" + x.guards(rest, ind, g), true
			}
		}
		if sel, ok := s.(*ast.SelectStmt); ok {
			si, ok := x.selectStmt(sel)
			if !ok || si.sink != "p.Sink" || si.sendVal != "ammo" || len(rest) != 0 {
				return ind + x.fail(s, "send select shape"), true
			}
			done = si.done
			gs := &provloopsGuardCtx{ret: g.ret, fall: func(ind string) string { return ind + "Act.offer i ammoNum" }}
			return x.guards(si.sendBody, ind, gs), true
		}
		return "", false
	}
	g.fall = func(ind string) string { return ind + x.fail(loop, "loop body falls through without a send") }
	body := x.guards(loop.Body.List, "  ", g)
	return fmt.Sprintf("/-- regenerated from the body of the `for` loop of runFullScan (state = ammoNum; `passNum` = Decoder.PassNum(),\n`sr` = what Decoder.Scan returns, `chosen` = IsChosenCase of the scanned ammo) -/\n"+
		"def runFullScanStep (limit : Nat) (c : Bool) (ammoNum passNum : Nat) (sr : ScanRes) (chosen : Bool) : Act Nat :=\n%s\n\n"+
		"/-- regenerated: result of the `case <-ctx.Done()` branch of the send select of runFullScan -/\ndef runFullScanDone : RunRes := %s\n\n", body, done)
}

// httpRun: Provider.Run of components/providers/http/provider
func (x *provloopsPl) httpRun(fd *ast.FuncDecl) string {
	closesAll := provloopsFinClosesAll(x.pkg, fd) // round 3: on every path of the deferred function (area_provloops_fin.go)
	x.vars = map[string]string{"err": "errV"}
	// find `if p.Config.Preload { err = p.loadAmmo(ctx); if err == nil { err = p.runPreloaded(ctx); MAPPING } } else { err = p.runFullScan(ctx) }`
	var mapping []ast.Stmt
	okShape := false
	for _, s := range fd.Body.List {
		is, ok := s.(*ast.IfStmt)
		if !ok || x.src(is.Cond) != "p.Config.Preload" || is.Else == nil {
			continue
		}
		eb, ok := is.Else.(*ast.BlockStmt)
		if !ok || len(eb.List) != 1 || x.src(eb.List[0]) != "err = p.runFullScan(ctx)" {
			continue
		}
		if len(is.Body.List) != 2 || x.src(is.Body.List[0]) != "err = p.loadAmmo(ctx)" {
			continue
		}
		in, ok := is.Body.List[1].(*ast.IfStmt)
		if !ok || x.src(in.Cond) != "err == nil" || in.Else != nil || len(in.Body.List) < 1 || x.src(in.Body.List[0]) != "err = p.runPreloaded(ctx)" {
			continue
		}
		mapping = in.Body.List[1:]
		okShape = true
	}
	if !okShape {
		return x.fail(fd, "Run does not have the shape `if Preload { loadAmmo; if err == nil { runPreloaded; mapping } } else { runFullScan }`")
	}
	g := &provloopsGuardCtx{ret: x.retSentinel(""), fall: func(ind string) string { return ind + "errV" }}
	return fmt.Sprintf("/-- regenerated from `components/providers/http/provider/provider.go` Run: the deferred function closes `p.Sink` on every one of its paths -/\ndef httpRunCloses : Bool := %v\n\n"+
		"/-- regenerated from Run: what is done with the result of runPreloaded (the result of runFullScan is returned as it is) -/\ndef httpRunMap (errV : RunRes) : RunRes :=\n%s\n\n",
		closesAll, x.guards(mapping, "  ", g))
}

// scanAmmos of the jsonline decoder (JSON array)
func (x *provloopsPl) scanAmmos(fd *ast.FuncDecl) string {
	x.vars = map[string]string{
		"d.config.Passes": "passes", "d.passNum": "passNum", "d.ammoNum": "ammoNum", "length": "length", "i": "i",
		"len(d.ammos)": "length",
	}
	item := ""
	g := &provloopsGuardCtx{}
	g.ret = func(r *ast.ReturnStmt) string {
		if len(r.Results) != 2 {
			return x.fail(r, "return arity")
		}
		a, e := x.src(r.Results[0]), x.src(r.Results[1])
		if a == "nil" {
			switch e {
			case "ErrNoAmmo":
				return "(ScanRes.errNoAmmo, ammoNum, passNum)"
			case "ErrPassLimit":
				return "(ScanRes.errPass, ammoNum, passNum)"
			case "ErrAmmoLimit":
				return "(ScanRes.errLimit, ammoNum, passNum)"
			}
		}
		if a == "a" && e == "nil" && item != "" {
			return "(ScanRes.ammo " + item + ", ammoNum, passNum)"
		}
		return x.fail(r, "return %s, %s", a, e)
	}
	g.special = func(s ast.Stmt, rest []ast.Stmt, ind string) (string, bool) {
		if x.src(s) == "length := len(d.ammos)" {
			return x.guards(rest, ind, g), true
		}
		if as, ok := s.(*ast.AssignStmt); ok && len(as.Lhs) == 1 && x.src(as.Lhs[0]) == "a" {
			if ie, ok := as.Rhs[0].(*ast.IndexExpr); ok && x.src(ie.X) == "d.ammos" {
				item = x.expr(ie.Index)
				return x.guards(rest, ind, g), true
			}
		}
		return "", false
	}
	g.fall = func(ind string) string { return ind + x.fail(fd, "falls through") }
	return fmt.Sprintf("/-- regenerated from `components/providers/http/decoders/jsonline.go` scanAmmos (`length` = len(d.ammos)); result, ammoNum, passNum -/\n"+
		"def scanAmmosStep (passes length ammoNum passNum : Nat) : ScanRes × Nat × Nat :=\n%s\n\n", x.guards(fd.Body.List, "  ", g))
}

// grpcStart: grpcjson (*Provider).start
func (x *provloopsPl) grpcStart(fd *ast.FuncDecl) string {
	x.vars = map[string]string{"p.Limit": "limit", "p.Passes": "passes", "ammoNum": "ammoNum", "passNum": "passNum"}
	outer := provloopsForBody(fd)
	if outer == nil || outer.Cond != nil || outer.Init != nil || outer.Post != nil {
		return x.fail(fd, "no plain outer `for { … }` loop")
	}
	if s := x.src(fd.Body.List[0]); s != "var ammoNum, passNum int" {
		x.fail(fd.Body.List[0], "counters are not declared as zero ints: %s", s)
	}
	if last, ok := fd.Body.List[len(fd.Body.List)-1].(*ast.ReturnStmt); !ok || x.src(last) != "return nil" {
		x.fail(fd, "start does not end in `return nil` after the loop")
	}
	var inner *ast.ForStmt
	idx := -1
	for i, s := range outer.Body.List {
		if f, ok := s.(*ast.ForStmt); ok {
			inner, idx = f, i
		}
	}
	if inner == nil {
		return x.fail(outer, "no inner loop")
	}
	// before the inner loop: passNum++ ; scanner plumbing
	preOK := false
	for _, s := range outer.Body.List[:idx] {
		src := x.src(s)
		switch {
		case src == "passNum++":
			preOK = true
		case src == "scanner := bufio.NewScanner(ammoFile)", strings.HasPrefix(src, "if p.Config.MaxAmmoSize != 0 {"),
			strings.HasPrefix(src, "scanner := ") && strings.HasSuffix(src, "(ammoFile)"):
		default:
			x.fail(s, "statement before the inner loop: %s", src)
		}
	}
	if !preOK {
		x.fail(outer, "no passNum++ at the top of the outer loop")
	}
	// inner condition: scanner.Scan() && (COND)
	cond := ""
	if be, ok := inner.Cond.(*ast.BinaryExpr); ok && be.Op == token.LAND && x.src(be.X) == "scanner.Scan()" {
		cond = x.expr(be.Y)
	} else {
		cond = x.fail(inner, "inner loop condition %s", x.src(inner.Cond))
	}
	// inner body: decode, filter, ammoNum++, select
	done := ""
	g := &provloopsGuardCtx{ret: x.retSentinel("Act.ret "), cont: "Act.tau ammoNum"}
	g.skip = func(s string) bool {
		return s == "data := scanner.Bytes()" || s == "a, err := decodeAmmo(data, p.Pool.Get().(*ammo.Ammo))" || strings.HasPrefix(s, "if err != nil { if p.Config.ContinueOnError {")
	}
	g.special = func(s ast.Stmt, rest []ast.Stmt, ind string) (string, bool) {
		if is, ok := s.(*ast.IfStmt); ok && x.src(is.Cond) == "!confutil.IsChosenCase(a.Tag, p.Config.ChosenCases)" {
			if len(is.Body.List) == 1 && x.src(is.Body.List[0]) == "continue" && is.Else == nil {
				return ind + "if ¬ chosen then Act.tau ammoNum else\n" + x.guards(rest, ind, g), true
			}
		}
		if sel, ok := s.(*ast.SelectStmt); ok {
			si, ok := x.selectStmt(sel)
			if !ok || si.sink != "p.Sink" || si.sendVal != "a" || len(rest) != 0 || len(si.sendBody) != 0 {
				return ind + x.fail(s, "send select shape"), true
			}
			done = si.done
			return ind + "Act.offer 0 ammoNum", true
		}
		return "", false
	}
	g.fall = func(ind string) string { return ind + x.fail(inner, "inner body falls through without a send") }
	innerTxt := x.guards(inner.Body.List, "  ", g)
	// after the inner loop
	ga := &provloopsGuardCtx{ret: x.retSentinel("some "), brk: "some RunRes.nil"}
	ga.skip = func(s string) bool {
		// the scanner set-up (round 6: wherever it stands; what it means is regenerated by area_provloops_size.go)
		if s == "scanner = bufio.NewScanner(ammoFile)" || strings.HasPrefix(s, "scanner = ") && strings.HasSuffix(s, "(ammoFile)") && !strings.Contains(s, ";") ||
			strings.HasPrefix(s, "if p.Config.MaxAmmoSize != 0 {") && !strings.Contains(s, "return") && !strings.Contains(s, "break") && !strings.Contains(s, "continue") {
			return true
		}
		return s == "err := scanner.Err()" || s == "_, err = ammoFile.Seek(0, 0)"
	}
	ga.special = func(s ast.Stmt, rest []ast.Stmt, ind string) (string, bool) {
		// I/O error checks: `if err != nil { return errors.Wrap(…) }`
		if is, ok := s.(*ast.IfStmt); ok && x.src(is.Cond) == "err != nil" && len(is.Body.List) == 1 {
			if r, ok := is.Body.List[0].(*ast.ReturnStmt); ok && strings.HasPrefix(x.src(r.Results[0]), "errors.Wrap(err,") {
				return x.guards(rest, ind, ga), true
			}
		}
		return "", false
	}
	ga.fall = func(ind string) string { return ind + "(none : Option RunRes)" }
	afterTxt := x.guards(outer.Body.List[idx+1:], "  ", ga)
	return fmt.Sprintf("/-- regenerated from `components/providers/grpc/grpcjson/provider.go` start: the inner loop goes on while a line is left and … -/\n"+
		"def grpcInnerCond (limit ammoNum : Nat) : Prop := %s\n"+
		"instance (limit ammoNum : Nat) : Decidable (grpcInnerCond limit ammoNum) := by unfold grpcInnerCond; exact inferInstance\n\n"+
		"/-- regenerated: body of the inner loop for one decoded line (state = ammoNum; the offered entry is the current line) -/\n"+
		"def grpcInnerStep (ammoNum : Nat) (chosen : Bool) : Act Nat :=\n%s\n\n"+
		"/-- regenerated: result of the `case <-ctx.Done()` branch -/\ndef grpcDone : RunRes := %s\n\n"+
		"/-- regenerated: the checks after a pass (`none` = seek to the start, next pass; the outer loop starts with passNum++) -/\n"+
		"def grpcAfterPass (limit passes ammoNum passNum : Nat) : Option RunRes :=\n%s\n\n", cond, innerTxt, done, afterTxt)
}

// decodeRun: DecodeProvider.Run
func (x *provloopsPl) decodeRun(fd *ast.FuncDecl) string {
	x.vars = map[string]string{"p.conf.Limit": "limit", "ammoNum": "ammoNum"}
	ch, _ := x.deferCloses(fd)
	loop := provloopsForBody(fd)
	if loop == nil || loop.Init != nil || loop.Cond == nil || loop.Post == nil || x.src(loop.Post) != "ammoNum++" {
		return x.fail(fd, "loop shape `for ; COND; ammoNum++`")
	}
	// var ammoNum int before the loop; return nil after it
	decl := false
	for _, s := range fd.Body.List {
		if x.src(s) == "var ammoNum int" {
			decl = true
		}
	}
	if !decl {
		x.fail(fd, "ammoNum is not declared as a zero int")
	}
	if last, ok := fd.Body.List[len(fd.Body.List)-1].(*ast.ReturnStmt); !ok || x.src(last) != "return nil" {
		x.fail(fd, "Run does not end in `return nil` after the loop")
	}
	// MultiPassReader is built from p.conf.Passes
	mp := false
	ast.Inspect(fd, func(n ast.Node) bool {
		if c, ok := n.(*ast.CallExpr); ok && x.src(c.Fun) == "ioutil2.NewMultiPassReader" && len(c.Args) == 2 && x.src(c.Args[1]) == "p.conf.Passes" {
			mp = true
		}
		return true
	})
	if !mp {
		x.fail(fd, "decoder source is not ioutil2.NewMultiPassReader(source, p.conf.Passes)")
	}
	// if multipass, ok := multipassReader.(*ioutil2.MultiPassReader); ok { passStart := 0; multipass.SetProgress(func() bool { progress := E; passStart = ammoNum; return progress }) }
	progress := ""
	for _, s := range fd.Body.List {
		is, ok := s.(*ast.IfStmt)
		if !ok || is.Init == nil || x.src(is.Init) != "multipass, ok := multipassReader.(*ioutil2.MultiPassReader)" || x.src(is.Cond) != "ok" {
			continue
		}
		if len(is.Body.List) != 2 || x.src(is.Body.List[0]) != "passStart := 0" {
			continue
		}
		es, ok := is.Body.List[1].(*ast.ExprStmt)
		if !ok {
			continue
		}
		call, ok := es.X.(*ast.CallExpr)
		if !ok || x.src(call.Fun) != "multipass.SetProgress" || len(call.Args) != 1 {
			continue
		}
		fl, ok := call.Args[0].(*ast.FuncLit)
		if !ok || len(fl.Body.List) != 3 || x.src(fl.Body.List[1]) != "passStart = ammoNum" || x.src(fl.Body.List[2]) != "return progress" {
			continue
		}
		if as, ok := fl.Body.List[0].(*ast.AssignStmt); ok && len(as.Lhs) == 1 && x.src(as.Lhs[0]) == "progress" {
			x.vars["passStart"] = "passStart"
			progress = x.expr(as.Rhs[0])
		}
	}
	if progress == "" {
		progress = x.fail(fd, "no `multipass.SetProgress(func() bool { progress := E; passStart = ammoNum; return progress })` with passStart := 0")
	}
	done := ""
	eof := ""
	g := &provloopsGuardCtx{ret: x.retSentinel("Act.ret ")}
	g.skip = func(s string) bool { return s == "ammo := p.InputPool.Get()" || s == "err = decoder.Decode(ammo)" }
	g.special = func(s ast.Stmt, rest []ast.Stmt, ind string) (string, bool) {
		if is, ok := s.(*ast.IfStmt); ok && x.src(is.Cond) == "err == io.EOF" && is.Else == nil {
			if r, ok := is.Body.List[len(is.Body.List)-1].(*ast.ReturnStmt); ok {
				eof = g.ret(r)
				return x.guards(rest, ind, g), true
			}
		}
		if is, ok := s.(*ast.IfStmt); ok && x.src(is.Cond) == "err != nil" && is.Else == nil && len(is.Body.List) == 1 {
			if r, ok := is.Body.List[0].(*ast.ReturnStmt); ok && strings.HasPrefix(x.src(r.Results[0]), "errors.WithMessage(err,") {
				return x.guards(rest, ind, g), true
			}
		}
		if sel, ok := s.(*ast.SelectStmt); ok {
			si, ok := x.selectStmt(sel)
			if !ok || si.sink != "p.OutQueue" || si.sendVal != "ammo" || len(rest) != 0 || len(si.sendBody) != 0 {
				return ind + x.fail(s, "send select shape"), true
			}
			done = si.done
			return ind + "Act.offer 0 (ammoNum + 1)", true
		}
		return "", false
	}
	g.fall = func(ind string) string { return ind + x.fail(loop, "loop body falls through without a send") }
	body := x.guards(loop.Body.List, "  ", g)
	return fmt.Sprintf("/-- regenerated from `core/provider/decoder.go` DecodeProvider.Run: `defer close(p.OutQueue)` -/\ndef decodeRunCloses : Bool := %v\n\n"+
		"/-- regenerated: condition of the loop `for ; COND; ammoNum++` (leaving the loop ends Run with nil) -/\n"+
		"def decodeCond (limit ammoNum : Nat) : Prop := %s\n"+
		"instance (limit ammoNum : Nat) : Decidable (decodeCond limit ammoNum) := by unfold decodeCond; exact inferInstance\n\n"+
		"/-- regenerated: what Run does when Decode returns io.EOF -/\ndef decodeOnEOF : Act Nat := %s\n\n"+
		"/-- regenerated: loop body after a successful Decode, including the post statement (state = ammoNum) -/\n"+
		"def decodeStep (ammoNum : Nat) : Act Nat :=\n%s\n\n"+
		"/-- regenerated: result of the `case <-ctx.Done()` branch -/\ndef decodeDone : RunRes := %s\n\n"+
		"/-- regenerated: the progress function given to the MultiPassReader (asked at the end of every pass; `passStart` starts at 0 and is\nset to ammoNum by every call) -/\ndef decodeProgress (ammoNum passStart : Nat) : Prop := %s\n"+
		"instance (ammoNum passStart : Nat) : Decidable (decodeProgress ammoNum passStart) := by unfold decodeProgress; exact inferInstance\n\n",
		ch == "p.OutQueue", x.expr(loop.Cond), eof, body, done, progress)
}

// multiPass: NewMultiPassReader and MultiPassReader.Read
func (x *provloopsPl) multiPass() string {
	var b strings.Builder
	x.vars = map[string]string{"passes": "passes", "r.passesCount": "passesCount", "r.passesLimit": "passesLimit"}
	if fd := provloopsMethod(x.pkg, "", "NewMultiPassReader"); fd == nil {
		x.t.errs = append(x.t.errs, "provloops: NewMultiPassReader not found")
	} else {
		// if passes == 1 { return r }; …; return &MultiPassReader{rs: rs, passesLimit: passes}
		cond := ""
		if is, ok := fd.Body.List[0].(*ast.IfStmt); ok && len(is.Body.List) == 1 && x.src(is.Body.List[0]) == "return r" {
			cond = x.expr(is.Cond)
		} else {
			cond = x.fail(fd, "first statement is not `if COND { return r }`")
		}
		last := x.src(fd.Body.List[len(fd.Body.List)-1])
		if last != "return &MultiPassReader{rs: rs, passesLimit: passes}" {
			x.fail(fd, "constructor result %s", last)
		}
		fmt.Fprintf(&b, "/-- regenerated from `lib/ioutil2/reader.go` NewMultiPassReader: the source itself is returned (read once) when … -/\n"+
			"def mprBypass (passes : Nat) : Prop := %s\ninstance (passes : Nat) : Decidable (mprBypass passes) := by unfold mprBypass; exact inferInstance\n\n", cond)
	}
	if fd := provloopsMethod(x.pkg, "MultiPassReader", "Read"); fd == nil {
		x.t.errs = append(x.t.errs, "provloops: (*MultiPassReader).Read not found")
	} else {
		// n, err = r.rs.Read(p); r.passBytes += int64(n)
		// if err == io.EOF { r.passesCount++; fruitless := F; r.passBytes = 0; if fruitless { return }; if COND { _, err = r.rs.Seek(0, io.SeekStart) } }; return
		x.vars["r.passBytes == 0"] = "passEmpty"
		x.vars["r.progress != nil"] = "hasProgress"
		x.vars["r.progress()"] = "progress"
		cond, fruitless := "", ""
		l := fd.Body.List
		if len(l) == 4 && x.src(l[0]) == "n, err = r.rs.Read(p)" && x.src(l[1]) == "r.passBytes += int64(n)" && x.src(l[3]) == "return" {
			is, ok := l[2].(*ast.IfStmt)
			if ok && x.src(is.Cond) == "err == io.EOF" && is.Else == nil && len(is.Body.List) == 5 &&
				x.src(is.Body.List[0]) == "r.passesCount++" && x.src(is.Body.List[2]) == "r.passBytes = 0" &&
				x.src(is.Body.List[3]) == "if fruitless { return }" {
				if as, ok := is.Body.List[1].(*ast.AssignStmt); ok && len(as.Lhs) == 1 && x.src(as.Lhs[0]) == "fruitless" && as.Tok == token.DEFINE {
					fruitless = x.expr(as.Rhs[0])
				}
				if in, ok := is.Body.List[4].(*ast.IfStmt); ok && in.Else == nil && len(in.Body.List) == 1 && x.src(in.Body.List[0]) == "_, err = r.rs.Seek(0, io.SeekStart)" {
					cond = x.expr(in.Cond)
				}
			}
		}
		if cond == "" || fruitless == "" {
			cond = x.fail(fd, "Read does not have the shape `Read; passBytes += n; if err == io.EOF { passesCount++; fruitless := F; passBytes = 0; if fruitless { return }; if COND { Seek(0, SeekStart) } }; return`")
			fruitless = "False"
		}
		fmt.Fprintf(&b, "/-- regenerated from MultiPassReader.Read: at io.EOF of the source `passesCount++`; the EOF is handed on when the pass was\nfruitless (`passEmpty`: no byte was read in this pass; `hasProgress`: a progress function is set; `progress`: what it returns) … -/\n"+
			"def mprFruitless (passEmpty hasProgress progress : Prop) : Prop := %s\n\n"+
			"/-- … otherwise the source is sought to its start (the EOF is swallowed) when … -/\n"+
			"def mprRewind (passesLimit passesCount : Nat) : Prop :=\n  let passesCount : Nat := passesCount + 1\n  %s\n"+
			"instance (passesLimit passesCount : Nat) : Decidable (mprRewind passesLimit passesCount) := by unfold mprRewind; exact inferInstance\n\n", fruitless, cond)
	}
	return b.String()
}
