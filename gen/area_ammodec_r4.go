package main

// Area "ammodec" (property C07), fourth file: the provider side of the http ammo formats (every identifier carries the
// prefix `ammodec`).  From components/providers/http (import.go, provider.go), …/http/config and …/http/provider:
//
//	registrationsG?   the plugin names `Import` registers with `register.Provider` and the decoder constant each factory
//	                  writes into `cfg.Decoder` before it calls `NewProvider` (none = the factory leaves the option alone)
//	decoderTypesG     the constants of type config.DecoderType (name, value); validDecodersG? the set `IsValid` accepts
//	urisSepG?         the separator `uriReadSeekCloser` joins the `uris` option with
//	…IndexBits?       how many value bits the delivery counters have: the narrowest integer type that occurs in the index
//	                  expression of `p.ammos[i]` (runPreloaded), of `d.ammos[i]` (jsonline scanAmmos) and in the operand
//	                  compared with `p.Limit` (runFullScan); uint = 64, int = 63, uint16 = 16 …
//
// A source shape the reader does not know (registrations in a loop over a table, an index computed elsewhere) gives
// `none` for that fact - the bridge lemma is then vacuous for it in that run and only the differential run ties it
// (a harmless refactoring must not alarm).

import (
	"fmt"
	"go/ast"
	"go/constant"
	"go/token"
	"go/types"
	"os"
	"sort"
	"strings"

	"golang.org/x/tools/go/packages"
)

const ammodecHTTPPkg = "github.com/yandex/pandora/components/providers/http"

func ammodecLoadQuiet(pkgPath string) *packages.Package {
	cfg := &packages.Config{Mode: packages.NeedName | packages.NeedSyntax | packages.NeedTypes | packages.NeedTypesInfo |
		packages.NeedFiles | packages.NeedImports | packages.NeedDeps, Dir: repo, BuildFlags: []string{"-tags=verif"}}
	pkgs, err := packages.Load(cfg, pkgPath)
	if err != nil || len(pkgs) != 1 || len(pkgs[0].Errors) > 0 {
		return nil
	}
	return pkgs[0]
}

func ammodecLeanStr(s string) string { return fmt.Sprintf("%q", s) }

// ammodecValueBits: value bits of an integer type (non-negative range), 0 = not an integer.
func ammodecValueBits(t types.Type) int {
	b, ok := t.Underlying().(*types.Basic)
	if !ok {
		return 0
	}
	switch b.Kind() {
	case types.Int8:
		return 7
	case types.Uint8:
		return 8
	case types.Int16:
		return 15
	case types.Uint16:
		return 16
	case types.Int32:
		return 31
	case types.Uint32:
		return 32
	case types.Int64, types.Int:
		return 63
	case types.Uint64, types.Uint, types.Uintptr:
		return 64
	}
	return 0
}

// ammodecMinBits: the narrowest integer type among the variables, fields and conversions of e (constants are ignored).
func ammodecMinBits(p *packages.Package, e ast.Expr) int {
	minBits := 0
	note := func(t types.Type) {
		if t == nil {
			return
		}
		if b := ammodecValueBits(t); b > 0 && (minBits == 0 || b < minBits) {
			minBits = b
		}
	}
	ast.Inspect(e, func(n ast.Node) bool {
		ex, ok := n.(ast.Expr)
		if !ok {
			return true
		}
		tv, ok := p.TypesInfo.Types[ex]
		if !ok || tv.Value != nil {
			return !ok // a constant: nothing below it counts
		}
		switch v := ex.(type) {
		case *ast.Ident, *ast.SelectorExpr:
			if tv.IsValue() {
				note(tv.Type)
			}
		case *ast.CallExpr:
			if ftv, ok := p.TypesInfo.Types[v.Fun]; ok && ftv.IsType() {
				note(ftv.Type)
			} else if tv.IsValue() {
				note(tv.Type) // len(…) and other calls: their result type
				return false
			}
		}
		return true
	})
	return minBits
}

// ammodecDefOf: the expression a local variable was defined with (`i := …`) in fd, nil when not exactly one.
func ammodecDefOf(p *packages.Package, fd *ast.FuncDecl, obj types.Object) ast.Expr {
	var out []ast.Expr
	ast.Inspect(fd.Body, func(n ast.Node) bool {
		as, ok := n.(*ast.AssignStmt)
		if !ok || len(as.Lhs) != len(as.Rhs) {
			return true
		}
		for i, l := range as.Lhs {
			if id, ok := l.(*ast.Ident); ok && (p.TypesInfo.Defs[id] == obj || p.TypesInfo.Uses[id] == obj) {
				out = append(out, as.Rhs[i])
			}
		}
		return true
	})
	if len(out) != 1 {
		return nil
	}
	return out[0]
}

// ammodecIndexBits: in fd, the index of `<x>.<field>[i]`: min bits over the index expression, following one local definition
// per variable (and the definitions of the variables that one mentions, e.g. `length := uint(len(p.ammos))`).
func ammodecIndexBits(p *packages.Package, fd *ast.FuncDecl, field string) int {
	if fd == nil {
		return 0
	}
	result := 0
	ast.Inspect(fd.Body, func(n ast.Node) bool {
		ix, ok := n.(*ast.IndexExpr)
		if !ok {
			return true
		}
		sel, ok := ast.Unparen(ix.X).(*ast.SelectorExpr)
		if !ok || sel.Sel.Name != field {
			return true
		}
		bits := ammodecExprBitsDeep(p, fd, ix.Index, 3)
		if bits > 0 && (result == 0 || bits < result) {
			result = bits
		}
		return true
	})
	return result
}

func ammodecExprBitsDeep(p *packages.Package, fd *ast.FuncDecl, e ast.Expr, depth int) int {
	bits := ammodecMinBits(p, e)
	if depth == 0 {
		return bits
	}
	ast.Inspect(e, func(n ast.Node) bool {
		id, ok := n.(*ast.Ident)
		if !ok {
			return true
		}
		v, ok := p.TypesInfo.Uses[id].(*types.Var)
		if !ok || v.IsField() || v.Parent() == nil || v.Parent() == p.Types.Scope() {
			return true
		}
		if def := ammodecDefOf(p, fd, v); def != nil {
			if b := ammodecExprBitsDeep(p, fd, def, depth-1); b > 0 && (bits == 0 || b < bits) {
				bits = b
			}
		}
		return true
	})
	return bits
}

// ammodecLimitBits: in fd, the operand compared (>=) with `<x>.Limit`.
func ammodecLimitBits(p *packages.Package, fd *ast.FuncDecl) int {
	if fd == nil {
		return 0
	}
	result := 0
	ast.Inspect(fd.Body, func(n ast.Node) bool {
		be, ok := n.(*ast.BinaryExpr)
		if !ok || (be.Op != token.GEQ && be.Op != token.GTR && be.Op != token.LSS && be.Op != token.LEQ && be.Op != token.EQL) {
			return true
		}
		isLimit := func(e ast.Expr) bool {
			s, ok := ast.Unparen(e).(*ast.SelectorExpr)
			return ok && s.Sel.Name == "Limit"
		}
		var other ast.Expr
		switch {
		case isLimit(be.Y):
			other = be.X
		case isLimit(be.X):
			other = be.Y
		default:
			return true
		}
		if tv, ok := p.TypesInfo.Types[other]; ok && tv.Value != nil {
			return true // `Limit != 0`
		}
		if b := ammodecExprBitsDeep(p, fd, other, 3); b > 0 && (result == 0 || b < result) {
			result = b
		}
		return true
	})
	return result
}

func ammodecOptNat(n int) string {
	if n <= 0 {
		return "none"
	}
	return fmt.Sprintf("some %d", n)
}

// ammodecRegistrations: `register.Provider("<name>", func(cfg config.Config) (…) { [cfg.Decoder = <const>;] return NewProvider(fs, cfg) })`
func ammodecRegistrations(p *packages.Package) (string, bool) {
	fd := ammodecFunc(p, "", "Import")
	if fd == nil {
		return "", false
	}
	type reg struct{ name, dec string }
	var regs []reg
	okAll := true
	for _, st := range fd.Body.List {
		es, ok := st.(*ast.ExprStmt)
		if !ok {
			okAll = false // a loop, an if, a declaration: not the shape read here
			continue
		}
		call, ok := es.X.(*ast.CallExpr)
		if !ok {
			okAll = false
			continue
		}
		sel, ok := call.Fun.(*ast.SelectorExpr)
		if !ok || sel.Sel.Name != "Provider" {
			continue // other registrations (middlewares)
		}
		if len(call.Args) != 2 {
			okAll = false
			continue
		}
		tv, ok := p.TypesInfo.Types[call.Args[0]]
		fl, ok2 := call.Args[1].(*ast.FuncLit)
		if !ok || tv.Value == nil || tv.Value.Kind() != constant.String || !ok2 {
			okAll = false
			continue
		}
		r := reg{name: constant.StringVal(tv.Value), dec: "none"}
		sawReturn := false
		for _, bs := range fl.Body.List {
			switch s := bs.(type) {
			case *ast.AssignStmt:
				good := false
				if len(s.Lhs) == 1 && len(s.Rhs) == 1 && s.Tok == token.ASSIGN {
					if ls, ok := s.Lhs[0].(*ast.SelectorExpr); ok && ls.Sel.Name == "Decoder" {
						if rv, ok := p.TypesInfo.Types[s.Rhs[0]]; ok && rv.Value != nil && rv.Value.Kind() == constant.String {
							r.dec = "some " + ammodecLeanStr(constant.StringVal(rv.Value))
							good = true
						}
					}
				}
				if !good {
					okAll = false
				}
			case *ast.ReturnStmt:
				sawReturn = true
				good := false
				if len(s.Results) == 1 {
					if c, ok := s.Results[0].(*ast.CallExpr); ok {
						if id, ok := c.Fun.(*ast.Ident); ok && id.Name == "NewProvider" {
							good = true
						}
					}
				}
				if !good {
					okAll = false
				}
			default:
				okAll = false
			}
		}
		if !sawReturn {
			okAll = false
		}
		regs = append(regs, r)
	}
	if !okAll || len(regs) == 0 {
		return "", false
	}
	sort.Slice(regs, func(i, j int) bool { return regs[i].name < regs[j].name })
	var parts []string
	for _, r := range regs {
		parts = append(parts, fmt.Sprintf("(%s, %s)", ammodecLeanStr(r.name), r.dec))
	}
	return "[" + strings.Join(parts, ", ") + "]", true
}

func ammodecR4(t *tr) string {
	var b strings.Builder
	w := func(format string, a ...any) { fmt.Fprintf(&b, format, a...) }
	w("\n/-! ### provider side (regenerated from components/providers/http: import.go, provider.go, config, provider) -/\n\n")
	hp := ammodecLoadQuiet(ammodecHTTPPkg)

	// ---- registrations
	regs, ok := "", false
	if hp != nil {
		regs, ok = ammodecRegistrations(hp)
	}
	w("/-- `Import`: plugin name ↦ the decoder its factory forces (none = the `decoder` option decides), sorted by name; `none` = the registrations are not written as plain `register.Provider(name, func…)` statements in this source -/\n")
	if ok {
		w("def registrationsG? : Option (List (String × Option String)) := some %s\n\n", regs)
	} else {
		w("def registrationsG? : Option (List (String × Option String)) := none\n\n")
		fmt.Fprintln(os.Stderr, "note (ammodec): provider registrations not in the shape read by gen; fact left open in this run")
	}

	// ---- DecoderType constants and IsValid
	var consts, valid []string
	if hp != nil {
		if cp, ok := hp.Imports[ammodecHTTPPkg+"/config"]; ok && cp.Types != nil {
			scope := cp.Types.Scope()
			for _, n := range scope.Names() {
				c, ok := scope.Lookup(n).(*types.Const)
				if !ok {
					continue
				}
				if nt, ok := c.Type().(*types.Named); ok && nt.Obj().Name() == "DecoderType" && c.Val().Kind() == constant.String {
					consts = append(consts, fmt.Sprintf("(%s, %s)", ammodecLeanStr(n), ammodecLeanStr(constant.StringVal(c.Val()))))
				}
			}
			if fd := ammodecFunc(cp, "DecoderType", "IsValid"); fd != nil {
				ast.Inspect(fd.Body, func(n ast.Node) bool {
					cc, ok := n.(*ast.CaseClause)
					if !ok {
						return true
					}
					returnsTrue := false
					for _, s := range cc.Body {
						if rs, ok := s.(*ast.ReturnStmt); ok && len(rs.Results) == 1 {
							if tv, ok := cp.TypesInfo.Types[rs.Results[0]]; ok && tv.Value != nil && tv.Value.Kind() == constant.Bool && constant.BoolVal(tv.Value) {
								returnsTrue = true
							}
						}
					}
					if returnsTrue {
						for _, e := range cc.List {
							if tv, ok := cp.TypesInfo.Types[e]; ok && tv.Value != nil && tv.Value.Kind() == constant.String {
								valid = append(valid, ammodecLeanStr(constant.StringVal(tv.Value)))
							}
						}
					}
					return true
				})
			}
		}
	}
	sort.Strings(consts)
	sort.Strings(valid)
	w("/-- constants of type `config.DecoderType` (Go name, value), sorted -/\ndef decoderTypesG : List (String × String) := [%s]\n\n", strings.Join(consts, ", "))
	if len(valid) > 0 {
		w("/-- the values `DecoderType.IsValid` accepts (switch cases that return true), sorted; none = not written as a switch over constants in this source -/\ndef validDecodersG? : Option (List String) := some [%s]\n\n", strings.Join(valid, ", "))
	} else {
		w("/-- the values `DecoderType.IsValid` accepts; none = not written as a switch over constants in this source -/\ndef validDecodersG? : Option (List String) := none\n\n")
	}

	// ---- uris separator
	sep := "none"
	if hp != nil {
		if fd := ammodecFunc(hp, "", "uriReadSeekCloser"); fd != nil {
			var seps []string
			ast.Inspect(fd.Body, func(n ast.Node) bool {
				call, ok := n.(*ast.CallExpr)
				if !ok || len(call.Args) != 2 {
					return true
				}
				s, ok := call.Fun.(*ast.SelectorExpr)
				if !ok || s.Sel.Name != "Join" {
					return true
				}
				if as, ok := ast.Unparen(call.Args[0]).(*ast.SelectorExpr); !ok || as.Sel.Name != "Uris" {
					return true
				}
				if c := ammodecConstArg(hp, call.Args[1]); c != "" {
					seps = append(seps, c)
				}
				return true
			})
			if len(seps) == 1 {
				sep = "some " + seps[0]
			}
		}
	}
	w("/-- `uriReadSeekCloser`: the separator of `strings.Join(conf.Uris, …)`; none = the option is not joined directly in this source -/\ndef urisSepG? : Option (List UInt8) := %s\n\n", sep)

	// ---- counter widths
	pre, full, arr := 0, 0, 0
	if hp != nil {
		if pp, ok := hp.Imports[ammodecHTTPPkg+"/provider"]; ok && len(pp.Syntax) > 0 && pp.TypesInfo != nil {
			pre = ammodecIndexBits(pp, ammodecFunc(pp, "Provider", "runPreloaded"), "ammos")
			if b := ammodecLimitBits(pp, ammodecFunc(pp, "Provider", "runPreloaded")); b > 0 && (pre == 0 || b < pre) {
				pre = b
			}
			full = ammodecLimitBits(pp, ammodecFunc(pp, "Provider", "runFullScan"))
		}
	}
	arr = ammodecIndexBits(t.pkg, ammodecFunc(t.pkg, "jsonlineDecoder", "scanAmmos"), "ammos")
	w("/-- `Provider.runPreloaded`: value bits of the narrowest integer type in the index of `p.ammos[i]` and in the operand compared with `p.Limit` -/\ndef preloadIndexBits? : Option Nat := %s\n\n", ammodecOptNat(pre))
	w("/-- `Provider.runFullScan`: value bits of the operand compared with `p.Limit` -/\ndef fullScanCounterBits? : Option Nat := %s\n\n", ammodecOptNat(full))
	w("/-- `jsonlineDecoder.scanAmmos`: value bits of the narrowest integer type in the index of `d.ammos[i]` -/\ndef arrayIndexBits? : Option Nat := %s\n", ammodecOptNat(arr))
	return b.String()
}
