package main

// Area "chosencases" (property C14): regenerates from the CURRENT source
//
//	lib/confutil/chosen_cases_filter.go             IsChosenCase, statement by statement
//	components/providers/http/provider/provider.go  loadAmmo: what it returns when Decoder.LoadAmmo failed (the error branch, see
//	                                                chosencasesLF below), what the preloaded path keeps of the loaded ammo, and where;
//	                                                Run: which of loadAmmo / runPreloaded / runFullScan run for preload on / off
//	components/providers/http/provider.go           NewProvider: which ammo source is used (inline `uris` or file), that
//	                                                the decoder is built after and for both; uriReadSeekCloser: the separator
//
// into lean/Pandora/Gen/ChosenCases.lean.
//
// Round 4: IsChosenCase, the filter loop of loadAmmo, Run (which path methods run) and the loop bodies of runFullScan /
// runPreloaded are read by SYMBOLIC EXECUTION (area_chosencases_sym.go + area_chosencases_symloops.go; the reading
// is described there).  Still read here by shape: the error branch of loadAmmo (chosencasesLF below: any nesting /
// order of its guards), protoDecoder.LoadAmmo's bounds, NewProvider (source switch, decoderConf.Limit = 0 BEFORE the
// decoder is built, Sink capacity), the guards of uriReadSeekCloser / fileReadSeekCloser; anything else makes gen fail
// (broken obligation).

import (
	"bytes"
	"fmt"
	"go/ast"
	"go/constant"
	"go/printer"
	"go/token"
	"go/types"
	"strconv"
	"strings"

	"golang.org/x/tools/go/packages"
)

func init() {
	areas["chosencases"] = area{
		pkgPath:   "github.com/yandex/pandora/components/providers/http", // loaded once; the other packages are its imports
		module:    "ChosenCases",
		namespace: "Pandora.Gen.ChosenCases",
		imports:   []string{"Pandora.Model.C14Fin"},
		extra:     chosencasesExtra,
	}
}

type chosencasesCtx struct {
	t     *tr
	pkg   *packages.Package
	fn    string
	loops int
	defs  []string          // auxiliary (loop) definitions, emitted before the function
	vars  map[string]string // Go identifier -> Lean type
	order []string          // parameters in order
}

func chosencasesSrc(pkg *packages.Package, n ast.Node) string {
	var b bytes.Buffer
	_ = printer.Fprint(&b, pkg.Fset, n)
	return strings.Join(strings.Fields(b.String()), " ")
}

func (x *chosencasesCtx) fail(n ast.Node, format string, a ...any) string {
	msg := fmt.Sprintf("%s: unsupported (chosencases %s): %s", x.pkg.Fset.Position(n.Pos()), x.fn, fmt.Sprintf(format, a...))
	x.t.errs = append(x.t.errs, msg)
	return "(UNSUPPORTED)"
}

func (x *chosencasesCtx) typeOf(e ast.Expr) types.Type {
	if tv, ok := x.pkg.TypesInfo.Types[e]; ok {
		return tv.Type
	}
	return nil
}

// value expression (String / Nat)
func (x *chosencasesCtx) val(e ast.Expr) string {
	switch v := e.(type) {
	case *ast.ParenExpr:
		return x.val(v.X)
	case *ast.Ident:
		if _, ok := x.vars[v.Name]; ok {
			return mangle(v.Name)
		}
		return x.fail(e, "identifier %s", v.Name)
	case *ast.BasicLit:
		switch v.Kind {
		case token.STRING:
			s, err := strconv.Unquote(v.Value)
			if err != nil {
				return x.fail(e, "string literal")
			}
			return fmt.Sprintf("%q", s)
		case token.INT:
			return v.Value
		}
	case *ast.CallExpr:
		if id, ok := v.Fun.(*ast.Ident); ok && id.Name == "len" && len(v.Args) == 1 {
			if a, ok := v.Args[0].(*ast.Ident); ok {
				if ty, ok := x.vars[a.Name]; ok && (ty == "List String" || ty == "String") {
					return "(" + mangle(a.Name) + ".length)"
				}
			}
		}
	}
	return x.fail(e, "expression %s", chosencasesSrc(x.pkg, e))
}

// condition (a decidable Prop)
func (x *chosencasesCtx) cond(e ast.Expr) string {
	switch v := e.(type) {
	case *ast.ParenExpr:
		return x.cond(v.X)
	case *ast.Ident:
		if v.Name == "true" {
			return "True"
		}
		if v.Name == "false" {
			return "False"
		}
	case *ast.UnaryExpr:
		if v.Op == token.NOT {
			return "(¬ " + x.cond(v.X) + ")"
		}
	case *ast.BinaryExpr:
		switch v.Op {
		case token.LAND:
			return "(" + x.cond(v.X) + " ∧ " + x.cond(v.Y) + ")"
		case token.LOR:
			return "(" + x.cond(v.X) + " ∨ " + x.cond(v.Y) + ")"
		case token.EQL, token.NEQ, token.LSS, token.LEQ, token.GTR, token.GEQ:
			tx, ty := x.typeOf(v.X), x.typeOf(v.Y)
			if tx == nil || ty == nil || !((isString(tx) && isString(ty)) || (isInt(tx) && isInt(ty))) {
				return x.fail(e, "comparison of %s", chosencasesSrc(x.pkg, e))
			}
			if isString(tx) && v.Op != token.EQL && v.Op != token.NEQ {
				return x.fail(e, "string ordering %s", chosencasesSrc(x.pkg, e))
			}
			op := map[token.Token]string{token.EQL: "=", token.NEQ: "≠", token.LSS: "<", token.LEQ: "≤", token.GTR: ">", token.GEQ: "≥"}[v.Op]
			return "(" + x.val(v.X) + " " + op + " " + x.val(v.Y) + ")"
		}
	}
	return x.fail(e, "condition %s", chosencasesSrc(x.pkg, e))
}

// Bool-valued result expression
func (x *chosencasesCtx) boolRes(e ast.Expr) string {
	if id, ok := e.(*ast.Ident); ok && (id.Name == "true" || id.Name == "false") {
		return id.Name
	}
	return "decide " + x.cond(e)
}

func (x *chosencasesCtx) params() (decl, args string) {
	var d, a []string
	for _, n := range x.order {
		d = append(d, fmt.Sprintf("(%s : %s)", mangle(n), x.vars[n]))
		a = append(a, mangle(n))
	}
	return strings.Join(d, " "), strings.Join(a, " ")
}

// `if c { return e }` (no else, no init)
func (x *chosencasesCtx) ifReturn(s ast.Stmt) (c string, r ast.Expr, ok bool) {
	is, isIf := s.(*ast.IfStmt)
	if !isIf || is.Init != nil || is.Else != nil || len(is.Body.List) != 1 {
		return "", nil, false
	}
	rs, isRet := is.Body.List[0].(*ast.ReturnStmt)
	if !isRet || len(rs.Results) != 1 {
		return "", nil, false
	}
	return x.cond(is.Cond), rs.Results[0], true
}

// statements of a function returning bool -> Lean term of type Bool
func (x *chosencasesCtx) stmts(list []ast.Stmt, ind string) string {
	if len(list) == 0 {
		return ind + "(UNSUPPORTED: function ends without return)"
	}
	s, rest := list[0], list[1:]
	if c, r, ok := x.ifReturn(s); ok {
		return ind + "if " + c + " then " + x.boolRes(r) + " else\n" + x.stmts(rest, ind)
	}
	switch v := s.(type) {
	case *ast.ReturnStmt:
		if len(v.Results) == 1 && len(rest) == 0 {
			return ind + x.boolRes(v.Results[0])
		}
	case *ast.RangeStmt:
		if k, ok := v.Key.(*ast.Ident); ok && k.Name == "_" && v.Tok == token.DEFINE {
			val, ok1 := v.Value.(*ast.Ident)
			xs, ok2 := v.X.(*ast.Ident)
			if ok1 && ok2 && x.vars[xs.Name] == "List String" {
				if _, clash := x.vars[val.Name]; clash {
					return x.fail(s, "range variable %s shadows a parameter", val.Name)
				}
				x.loops++
				name := fmt.Sprintf("%sLoop%d", x.fn, x.loops)
				decl, args := x.params()
				x.vars[val.Name] = "String"
				var body strings.Builder
				for _, bs := range v.Body.List {
					c, r, ok := x.ifReturn(bs)
					if !ok {
						delete(x.vars, val.Name)
						return x.fail(bs, "statement in range body: %s", chosencasesSrc(x.pkg, bs))
					}
					body.WriteString("    if " + c + " then some (" + x.boolRes(r) + ") else\n")
				}
				delete(x.vars, val.Name)
				x.defs = append(x.defs, fmt.Sprintf("/-- regenerated: the `for _, %s := range %s` loop of %s (`none` = the loop ends without returning) -/\n"+
					"def %s %s : List String → Option Bool\n  | [] => none\n  | %s :: rest_ =>\n%s    %s %s rest_\n",
					val.Name, xs.Name, x.fn, name, decl, mangle(val.Name), body.String(), name, args))
				return ind + "match " + name + " " + args + " " + mangle(xs.Name) + " with\n" + ind + "| some r_ => r_\n" + ind + "| none =>\n" + x.stmts(rest, ind)
			}
		}
	}
	return x.fail(s, "statement %s", chosencasesSrc(x.pkg, s))
}


const chosencasesFilterCall = "confutil.IsChosenCase(ammo.Tag(), p.Config.ChosenCases)"

func chosencasesLoadAmmo(t *tr, pkg *packages.Package) string {
	x := &chosencasesCtx{t: t, pkg: pkg, fn: "loadAmmo"}
	fd := chosencasesMethod(pkg, "Provider", "loadAmmo")
	if fd == nil {
		t.errs = append(t.errs, "method Provider.loadAmmo not found")
		return ""
	}
	l := fd.Body.List
	bad := func(i int, want string) string {
		var n ast.Node = fd
		got := "(missing)"
		if i < len(l) {
			n = l[i]
			got = chosencasesSrc(pkg, l[i])
		}
		return x.fail(n, "statement %d of loadAmmo: want %s, have %s", i+1, want, got)
	}
	if len(l) < 4 {
		return x.fail(fd, "loadAmmo has %d statements, want at least 4 (load; error branch; empty p.ammos; filter loop; return nil)", len(l))
	}
	as0, ok0 := l[0].(*ast.AssignStmt)
	if !ok0 || len(as0.Lhs) != 2 || len(as0.Rhs) != 1 || !strings.HasSuffix(chosencasesSrc(pkg, as0.Rhs[0]), "Decoder.LoadAmmo(ctx)") {
		return bad(0, "ammos, err := p.Decoder.LoadAmmo(ctx)")
	}
	// the error branch: every statement between the load and `p.ammos = make(…)`
	n := len(l)
	lf := &chosencasesLF{x: x, pkg: pkg, alias: map[types.Object]bool{}}
	if id, ok := as0.Lhs[1].(*ast.Ident); ok {
		lf.errObj = pkg.TypesInfo.Defs[id]
	}
	if len(fd.Type.Params.List) == 1 && len(fd.Type.Params.List[0].Names) == 1 {
		lf.ctxObj = pkg.TypesInfo.Defs[fd.Type.Params.List[0].Names[0]]
	}
	if lf.errObj == nil || lf.ctxObj == nil {
		return x.fail(fd, "loadAmmo(ctx context.Context) with `ammos, err := …` expected")
	}
	// the error branch ends where the success path starts: the first assignment to a field / the first loop (round 4)
	j := n - 3
	for i := 1; i < n; i++ {
		stop := false
		switch v := l[i].(type) {
		case *ast.RangeStmt, *ast.ForStmt:
			stop = true
		case *ast.AssignStmt:
			if len(v.Lhs) == 1 {
				_, stop = v.Lhs[0].(*ast.SelectorExpr)
			}
		}
		if stop {
			j = i
			break
		}
	}
	failTerm := lf.stmts(l[1:j], "  ")
	failDef := "/-- regenerated helper: `fmt.Errorf(\"… %w …\", e)` is a non-nil error in which errors.Is finds what it finds in `e` -/\n" +
		"def loadAmmoWrap (r : RunRes) : RunRes := if r = RunRes.nil then RunRes.errOther else r\n\n" +
		"/-- regenerated from `components/providers/http/provider/provider.go` loadAmmo, the statements between\n" +
		"`ammos, err := p.Decoder.LoadAmmo(ctx)` and `p.ammos = make(…)`: what loadAmmo returns there (`errV` = class of `err`\n" +
		"as errors.Is sees it, `RunRes.nil` = no error; `ctxCanceled` = ctx.Err() is context.Canceled, otherwise nil);\n" +
		"`none` = loadAmmo goes on to the filter loop -/\n" +
		"def loadAmmoFail (ctxCanceled : Bool) (errV : RunRes) : Option RunRes :=\n" + failTerm + "\n\n"
	// round 6: the same statements read once more for WHAT KIND of error value is returned (see retBare)
	lf.bare = true
	bareTerm := lf.stmts(l[1:j], "  ")
	lf.bare = false
	failDef += "/-- regenerated from loadAmmo, the same statements (round 6): is the returned error one whose pkg/errors.Cause is the\n" +
		"error it stands for — nil, `err` itself when `errBare`, ctx.Err() itself, a sentinel, a pkg/errors wrapper of these —\n" +
		"(`some true`; core/engine's errutil.IsCtxError recognises a cancellation only then) or one wrapped with `%w` /\n" +
		"made by fmt.Errorf, xerrors.Errorf, errors.New (`some false`); `none` = control reaches the filter loop -/\n" +
		"def loadAmmoFailBare (ctxCanceled : Bool) (errV : RunRes) (errBare : Bool) : Option Bool :=\n" + bareTerm + "\n\n"
	return failDef + chosencasesSymKeep(t, pkg, fd) // round 4: symbolic execution (area_chosencases_symloops.go)
}

// ---- the error branch of loadAmmo ------------------------------------------------------------------------------
//
// The statements between `ammos, err := p.Decoder.LoadAmmo(ctx)` and `p.ammos = make(…)` are read as a function of
//
//	errV        : RunRes  the class of `err` as errors.Is sees it (RunRes.nil = no error; RunRes.canceled = errors.Is(err, context.Canceled))
//	ctxCanceled : Bool    ctx.Err() is context.Canceled (true) or nil (false) — the model has no deadlines
//
// with the result `some r` = loadAmmo returns an error of class r (RunRes.nil = returns nil), `none` = control reaches
// the filter loop.  Shapes (any nesting, any order of conjuncts; CTX = `ctx.Err()` or a local defined by `v := ctx.Err()`
// as a statement or as the init of an if):
//
//	if [v := ctx.Err();] C { S… } [else { S… }]       -> if C then S… else S…   (what follows the if is appended to both)
//	return E                                          -> some E
//	p.Deps.Log.<M>(…)                                 -> skipped
//	C: a && b, a || b, !a, err != nil, err == nil, CTX != nil, CTX == nil,
//	   errors.Is(CTX, context.Canceled), CTX == context.Canceled        -> ctxCanceled
//	   errors.Is(CTX, context.DeadlineExceeded)                         -> False
//	   errors.Is(err, CTX)            -> (ctxCanceled ∧ errV = canceled) ∨ (¬ctxCanceled ∧ errV = nil)   (errors.Is(err, nil) is err == nil)
//	   errors.Is(err, context.Canceled), errors.Is(err, decoders.ErrX)  -> errV = …
//	   (errors.Is of errors / golang.org/x/xerrors / github.com/pkg/errors)
//	E: nil, err, CTX, context.Canceled, decoders.ErrX,
//	   fmt.Errorf(<constant format with exactly one %w>, …, E', …)      -> loadAmmoWrap E'  (non-nil, same class)
//	   xerrors.Errorf(<constant format ending in ": %w">, …, E')        -> loadAmmoWrap E'
//	   fmt.Errorf / xerrors.Errorf without %w, errors.New(…)            -> RunRes.errOther
//	   pkgerrors.Wrap / Wrapf / WithMessage / WithMessagef / WithStack (E', …) -> E'  (nil stays nil, v0.9 errors unwrap)
//
// Anything else makes gen fail.
type chosencasesLF struct {
	bare   bool // round 6: translate returned values by retBare
	x      *chosencasesCtx
	pkg    *packages.Package
	errObj types.Object          // the `err` of `ammos, err := p.Decoder.LoadAmmo(ctx)`
	ctxObj types.Object          // the ctx parameter
	alias  map[types.Object]bool // locals defined by `v := ctx.Err()`
	depth  int
}

func (f *chosencasesLF) unparen(e ast.Expr) ast.Expr {
	for {
		p, ok := e.(*ast.ParenExpr)
		if !ok {
			return e
		}
		e = p.X
	}
}

func (f *chosencasesLF) isErr(e ast.Expr) bool {
	id, ok := f.unparen(e).(*ast.Ident)
	return ok && f.pkg.TypesInfo.Uses[id] == f.errObj
}

func (f *chosencasesLF) isNil(e ast.Expr) bool {
	id, ok := f.unparen(e).(*ast.Ident)
	if !ok {
		return false
	}
	_, isNil := f.pkg.TypesInfo.Uses[id].(*types.Nil)
	return isNil
}

// CTX: `ctx.Err()` or a local bound to it
func (f *chosencasesLF) isCtxErr(e ast.Expr) bool {
	switch v := f.unparen(e).(type) {
	case *ast.Ident:
		return f.alias[f.pkg.TypesInfo.Uses[v]]
	case *ast.CallExpr:
		if sel, ok := v.Fun.(*ast.SelectorExpr); ok && sel.Sel.Name == "Err" && len(v.Args) == 0 {
			if id, ok := sel.X.(*ast.Ident); ok && f.pkg.TypesInfo.Uses[id] == f.ctxObj {
				return true
			}
		}
	}
	return false
}

// a package-level variable pkgPath.name (e.g. context.Canceled)
func (f *chosencasesLF) isPkgVar(e ast.Expr, pkgPath, name string) bool {
	var id *ast.Ident
	switch v := f.unparen(e).(type) {
	case *ast.SelectorExpr:
		id = v.Sel
	case *ast.Ident:
		id = v
	default:
		return false
	}
	o, ok := f.pkg.TypesInfo.Uses[id].(*types.Var)
	return ok && o.Pkg() != nil && o.Pkg().Path() == pkgPath && o.Name() == name && o.Parent() == o.Pkg().Scope()
}

// a call of the package-level function pkgPath.name; returns its arguments
func (f *chosencasesLF) pkgCall(e ast.Expr, names map[string]bool, pkgPaths ...string) (string, string, []ast.Expr, bool) {
	c, ok := f.unparen(e).(*ast.CallExpr)
	if !ok {
		return "", "", nil, false
	}
	sel, ok := c.Fun.(*ast.SelectorExpr)
	if !ok {
		return "", "", nil, false
	}
	fn, ok := f.pkg.TypesInfo.Uses[sel.Sel].(*types.Func)
	if !ok || fn.Pkg() == nil || !names[fn.Name()] || fn.Type().(*types.Signature).Recv() != nil {
		return "", "", nil, false
	}
	for _, p := range pkgPaths {
		if fn.Pkg().Path() == p {
			return p, fn.Name(), c.Args, true
		}
	}
	return "", "", nil, false
}

const chosencasesDecodersPath = "github.com/yandex/pandora/components/providers/http/decoders"

var chosencasesSentinelVars = map[string]string{"ErrPassLimit": "RunRes.errPasses", "ErrAmmoLimit": "RunRes.errLimit", "ErrNoAmmo": "RunRes.errNoAmmo"}

// class of a target error value that is a package-level variable
func (f *chosencasesLF) targetClass(e ast.Expr) (string, bool) {
	if f.isPkgVar(e, "context", "Canceled") {
		return "RunRes.canceled", true
	}
	for n, r := range chosencasesSentinelVars {
		if f.isPkgVar(e, chosencasesDecodersPath, n) {
			return r, true
		}
	}
	return "", false
}

func (f *chosencasesLF) cond(e ast.Expr) string {
	e = f.unparen(e)
	switch v := e.(type) {
	case *ast.UnaryExpr:
		if v.Op == token.NOT {
			return "(¬ " + f.cond(v.X) + ")"
		}
	case *ast.BinaryExpr:
		switch v.Op {
		case token.LAND:
			return "(" + f.cond(v.X) + " ∧ " + f.cond(v.Y) + ")"
		case token.LOR:
			return "(" + f.cond(v.X) + " ∨ " + f.cond(v.Y) + ")"
		case token.EQL, token.NEQ:
			a, b := v.X, v.Y
			if f.isNil(a) || f.isPkgVar(a, "context", "Canceled") {
				a, b = b, a
			}
			r := ""
			switch {
			case f.isErr(a) && f.isNil(b):
				r = "(errV = RunRes.nil)"
			case f.isCtxErr(a) && f.isNil(b):
				r = "(ctxCanceled = false)"
			case f.isCtxErr(a) && f.isPkgVar(b, "context", "Canceled"):
				r = "(ctxCanceled = true)"
			}
			if r != "" {
				if v.Op == token.NEQ {
					return "(¬ " + r + ")"
				}
				return r
			}
		}
	case *ast.CallExpr:
		if _, _, args, ok := f.pkgCall(e, map[string]bool{"Is": true}, "errors", "golang.org/x/xerrors", "github.com/pkg/errors"); ok && len(args) == 2 {
			switch {
			case f.isCtxErr(args[0]) && f.isPkgVar(args[1], "context", "Canceled"):
				return "(ctxCanceled = true)"
			case f.isCtxErr(args[0]) && f.isPkgVar(args[1], "context", "DeadlineExceeded"):
				return "False"
			case f.isErr(args[0]) && f.isCtxErr(args[1]):
				return "((ctxCanceled = true ∧ errV = RunRes.canceled) ∨ (ctxCanceled = false ∧ errV = RunRes.nil))"
			case f.isErr(args[0]):
				if r, ok := f.targetClass(args[1]); ok {
					return "(errV = " + r + ")"
				}
			}
		}
	}
	return f.x.fail(e, "condition in the error branch of loadAmmo: %s", chosencasesSrc(f.pkg, e))
}

// number of the argument (0-based, after the format) that each %w of a constant format consumes; ok=false if the
// format uses explicit argument indexes or `*`
func chosencasesWrapVerbs(format string) (wArgs []int, ok bool) {
	arg := 0
	for i := 0; i < len(format); i++ {
		if format[i] != '%' {
			continue
		}
		i++
		for i < len(format) && strings.IndexByte("+-# 0123456789.", format[i]) >= 0 {
			i++
		}
		if i >= len(format) {
			return nil, false
		}
		switch format[i] {
		case '%':
		case '[', '*':
			return nil, false
		case 'w':
			wArgs = append(wArgs, arg)
			arg++
		default:
			arg++
		}
	}
	return wArgs, true
}

// class of a returned error expression
func (f *chosencasesLF) ret(e ast.Expr) string {
	e = f.unparen(e)
	if f.bare {
		return f.retBare(e)
	}
	switch {
	case f.isNil(e):
		return "RunRes.nil"
	case f.isErr(e):
		return "errV"
	case f.isCtxErr(e):
		return "(if ctxCanceled then RunRes.canceled else RunRes.nil)"
	}
	if r, ok := f.targetClass(e); ok {
		return r
	}
	if _, _, _, ok := f.pkgCall(e, map[string]bool{"New": true}, "errors", "golang.org/x/xerrors", "github.com/pkg/errors"); ok {
		return "RunRes.errOther"
	}
	if _, _, args, ok := f.pkgCall(e, map[string]bool{"Wrap": true, "Wrapf": true, "WithMessage": true, "WithMessagef": true, "WithStack": true}, "github.com/pkg/errors"); ok && len(args) >= 1 {
		return f.ret(args[0])
	}
	if p, _, args, ok := f.pkgCall(e, map[string]bool{"Errorf": true}, "fmt", "golang.org/x/xerrors"); ok && len(args) >= 1 {
		tv, okc := f.pkg.TypesInfo.Types[args[0]]
		if okc && tv.Value != nil && tv.Value.Kind() == constant.String {
			format := constant.StringVal(tv.Value)
			ws, okf := chosencasesWrapVerbs(format)
			switch {
			case !okf || len(ws) > 1:
			case len(ws) == 0:
				return "RunRes.errOther"
			case ws[0]+1 < len(args) && (p == "fmt" || (strings.HasSuffix(format, ": %w") && ws[0]+2 == len(args))):
				return "(loadAmmoWrap " + f.ret(args[ws[0]+1]) + ")"
			}
		}
	}
	return f.x.fail(e, "error value returned by loadAmmo: %s", chosencasesSrc(f.pkg, e))
}

// retBare (round 6): is the returned error value "bare" — its pkg/errors.Cause is the value it stands for (errutil.IsCtxError
// compares Cause(err) with ctx.Err()): nil, err (as bare as it came: errBare), CTX, context.Canceled, a sentinel and
// pkg/errors wrappers of these are; fmt.Errorf / xerrors.Errorf (with or without %w) and errors.New are not.
func (f *chosencasesLF) retBare(e ast.Expr) string {
	switch {
	case f.isNil(e), f.isCtxErr(e):
		return "true"
	case f.isErr(e):
		return "errBare"
	}
	if _, ok := f.targetClass(e); ok {
		return "true"
	}
	if _, _, args, ok := f.pkgCall(e, map[string]bool{"Wrap": true, "Wrapf": true, "WithMessage": true, "WithMessagef": true, "WithStack": true}, "github.com/pkg/errors"); ok && len(args) >= 1 {
		return f.retBare(f.unparen(args[0]))
	}
	if _, _, _, ok := f.pkgCall(e, map[string]bool{"New": true, "Errorf": true}, "errors", "fmt", "golang.org/x/xerrors", "github.com/pkg/errors"); ok {
		return "false"
	}
	return f.x.fail(e, "error value returned by loadAmmo: %s", chosencasesSrc(f.pkg, e))
}

// `v := ctx.Err()` -> records the alias
func (f *chosencasesLF) aliasDef(s ast.Stmt) bool {
	as, ok := s.(*ast.AssignStmt)
	if !ok || as.Tok != token.DEFINE || len(as.Lhs) != 1 || len(as.Rhs) != 1 || !f.isCtxErr(as.Rhs[0]) {
		return false
	}
	id, ok := as.Lhs[0].(*ast.Ident)
	if !ok || f.pkg.TypesInfo.Defs[id] == nil {
		return false
	}
	f.alias[f.pkg.TypesInfo.Defs[id]] = true
	return true
}

// statements -> Lean term of type Option RunRes
func (f *chosencasesLF) stmts(list []ast.Stmt, ind string) string {
	if len(list) == 0 {
		return ind + "none"
	}
	f.depth++
	defer func() { f.depth-- }()
	if f.depth > 12 {
		return f.x.fail(list[0], "error branch of loadAmmo nested too deeply")
	}
	s, rest := list[0], list[1:]
	switch v := s.(type) {
	case *ast.ReturnStmt:
		if len(v.Results) == 1 {
			return ind + "some " + f.ret(v.Results[0])
		}
	case *ast.AssignStmt:
		if f.aliasDef(s) {
			return f.stmts(rest, ind)
		}
	case *ast.ExprStmt:
		if strings.HasPrefix(chosencasesSrc(f.pkg, v.X), "p.Deps.Log.") {
			return f.stmts(rest, ind)
		}
	case *ast.BlockStmt:
		return f.stmts(append(append([]ast.Stmt{}, v.List...), rest...), ind)
	case *ast.IfStmt:
		if v.Init != nil && !f.aliasDef(v.Init) {
			break
		}
		c := f.cond(v.Cond)
		var els []ast.Stmt
		switch e := v.Else.(type) {
		case nil:
		case *ast.BlockStmt:
			els = e.List
		case *ast.IfStmt:
			els = []ast.Stmt{e}
		default:
			return f.x.fail(s, "else of %s", chosencasesSrc(f.pkg, s))
		}
		// what follows the if runs after either branch unless the branch returned (stmts stops at a return)
		thenT := f.stmts(append(append([]ast.Stmt{}, v.Body.List...), rest...), ind+"  ")
		elseT := f.stmts(append(append([]ast.Stmt{}, els...), rest...), ind)
		return ind + "if " + c + " then\n" + thenT + "\n" + ind + "else\n" + elseT
	}
	return f.x.fail(s, "statement in the error branch of loadAmmo: %s", chosencasesSrc(f.pkg, s))
}


func chosencasesLeanList(xs []string) string {
	q := make([]string, len(xs))
	for i, s := range xs {
		q[i] = fmt.Sprintf("%q", s)
	}
	return "[" + strings.Join(q, ", ") + "]"
}


func chosencasesNewProvider(t *tr) string {
	pkg := t.pkg
	x := &chosencasesCtx{t: t, pkg: pkg, fn: "NewProvider"}
	fd := findFunc(pkg, "NewProvider")
	if fd == nil {
		t.errs = append(t.errs, "func http.NewProvider not found")
		return ""
	}
	var b strings.Builder
	// the source switch is a top-level if/else; NewDecoder is called at top level after it
	srcAt, decAt := -1, -1
	var cond, thenCall, elseCall string
	for i, s := range fd.Body.List {
		if is, ok := s.(*ast.IfStmt); ok && strings.Contains(chosencasesSrc(pkg, is.Cond), "conf.Uris") {
			els, ok := is.Else.(*ast.BlockStmt)
			if !ok || len(is.Body.List) != 1 || len(els.List) != 1 || srcAt >= 0 {
				return x.fail(is, "shape of the source switch")
			}
			call := func(s ast.Stmt) string {
				if as, ok := s.(*ast.AssignStmt); ok && len(as.Rhs) == 1 {
					if c, ok := as.Rhs[0].(*ast.CallExpr); ok {
						return chosencasesSrc(pkg, c.Fun)
					}
				}
				return x.fail(s, "source constructor call")
			}
			srcAt, cond, thenCall, elseCall = i, chosencasesSrc(pkg, is.Cond), call(is.Body.List[0]), call(els.List[0])
		}
		if as, ok := s.(*ast.AssignStmt); ok && len(as.Rhs) == 1 {
			if c, ok := as.Rhs[0].(*ast.CallExpr); ok && chosencasesSrc(pkg, c.Fun) == "decoders.NewDecoder" {
				if decAt >= 0 || len(c.Args) != 2 || chosencasesSrc(pkg, c.Args[0]) != "decoderConf" {
					return x.fail(s, "decoders.NewDecoder(decoderConf, …) once")
				}
				decAt = i
			}
		}
	}
	if srcAt < 0 || decAt < 0 {
		return x.fail(fd, "source switch / NewDecoder call not found at the top level of NewProvider")
	}
	leanCond := ""
	switch cond {
	case "len(conf.Uris) > 0":
		leanCond = "nUris > 0"
	case "len(conf.Uris) != 0":
		leanCond = "nUris ≠ 0"
	default:
		leanCond = x.fail(fd, "source condition %s", cond)
	}
	fmt.Fprintf(&b, "/-- regenerated from `components/providers/http/provider.go` NewProvider: the constructor of the ammo source\n(`nUris` = len(conf.Uris)) -/\n"+
		"def sourceOf (nUris : Nat) : String := if %s then %q else %q\n\n", leanCond, thenCall, elseCall)
	fmt.Fprintf(&b, "/-- regenerated from NewProvider: the one decoder (`decoders.NewDecoder(decoderConf, readSeeker)`) is built after the\nsource switch, for both sources -/\n"+
		"def decoderAfterSourceSwitch : Bool := %v\n\n", decAt > srcAt)
	// uriReadSeekCloser: bytes.NewReader([]byte(strings.Join(conf.Uris, SEP)))
	ud := findFunc(pkg, "uriReadSeekCloser")
	if ud == nil {
		t.errs = append(t.errs, "func uriReadSeekCloser not found")
		return b.String()
	}
	sep, n := "", 0
	ast.Inspect(ud, func(nd ast.Node) bool {
		if c, ok := nd.(*ast.CallExpr); ok && chosencasesSrc(pkg, c.Fun) == "strings.Join" && len(c.Args) == 2 && chosencasesSrc(pkg, c.Args[0]) == "conf.Uris" {
			if tv, ok := pkg.TypesInfo.Types[c.Args[1]]; ok && tv.Value != nil {
				if s, ok := t.constLit(tv, c); ok {
					sep = s
					n++
				}
			}
		}
		return true
	})
	if n != 1 {
		x.fail(ud, "strings.Join(conf.Uris, <constant>) exactly once in uriReadSeekCloser")
		sep = "\"\""
	}
	fmt.Fprintf(&b, "/-- regenerated from uriReadSeekCloser: the inline uris are read as ONE text, joined by -/\ndef urisSeparator : String := %s\n", sep)
	return b.String()
}

// protoDecoder.LoadAmmo: the bounds the one loading pass runs with, the loop, and which error counts as success
func chosencasesDecoderLoadAmmo(t *tr, pkg *packages.Package) string {
	x := &chosencasesCtx{t: t, pkg: pkg, fn: "LoadAmmo"}
	fd := chosencasesMethod(pkg, "protoDecoder", "LoadAmmo")
	if fd == nil {
		t.errs = append(t.errs, "method protoDecoder.LoadAmmo not found")
		return ""
	}
	passes, limit := "", ""
	loopAt := -1
	var okOn []string
	for i, s := range fd.Body.List {
		switch v := s.(type) {
		case *ast.AssignStmt:
			if loopAt < 0 && v.Tok == token.ASSIGN && len(v.Lhs) == 1 && len(v.Rhs) == 1 {
				if tv, ok := pkg.TypesInfo.Types[v.Rhs[0]]; ok && tv.Value != nil {
					switch chosencasesSrc(pkg, v.Lhs[0]) {
					case "d.config.Passes":
						passes = tv.Value.ExactString()
					case "d.config.Limit":
						limit = tv.Value.ExactString()
					}
				}
			}
		case *ast.ForStmt:
			if loopAt >= 0 {
				return x.fail(s, "second loop")
			}
			loopAt = i
			want := []string{"ammo, err = scan(ctx)", "if ammo != nil { result = append(result, ammo) }"}
			if v.Init != nil || v.Post != nil || v.Cond == nil || chosencasesSrc(pkg, v.Cond) != "err == nil" || len(v.Body.List) != len(want) {
				return x.fail(s, "loading loop: want `for err == nil { %s }`", strings.Join(want, "; "))
			}
			for j, w := range want {
				if chosencasesSrc(pkg, v.Body.List[j]) != w {
					return x.fail(v.Body.List[j], "loading loop statement %d: want %s", j+1, w)
				}
			}
		case *ast.IfStmt:
			if loopAt >= 0 {
				c := chosencasesSrc(pkg, v.Cond)
				if strings.HasPrefix(c, "errors.Is(err, ") && len(v.Body.List) == 1 && chosencasesSrc(pkg, v.Body.List[0]) == "err = nil" && v.Else == nil {
					okOn = append(okOn, strings.TrimSuffix(strings.TrimPrefix(c, "errors.Is(err, "), ")"))
				} else {
					return x.fail(s, "statement after the loading loop: %s", chosencasesSrc(pkg, s))
				}
			}
		}
	}
	if loopAt < 0 || passes == "" || limit == "" {
		return x.fail(fd, "LoadAmmo: constant d.config.Passes / d.config.Limit before one `for err == nil` loop")
	}
	last := fd.Body.List[len(fd.Body.List)-1]
	if chosencasesSrc(pkg, last) != "return result, err" {
		return x.fail(last, "LoadAmmo ends with `return result, err`")
	}
	return fmt.Sprintf("/-- regenerated from `components/providers/http/decoders/decoder.go` protoDecoder.LoadAmmo: the loading loop\n"+
		"`for err == nil { ammo, err = scan(ctx); if ammo != nil { result = append(result, ammo) } }` runs with these bounds … -/\n"+
		"def loadPasses : Nat := %s\ndef loadLimit : Nat := %s\n"+
		"/-- … and these errors of the loop count as success -/\ndef loadOkOn : List String := %s\n\n", passes, limit, chosencasesLeanList(okOn))
}

// chosencasesMethod finds a method (recvType != "") or function declaration by name (copy of provloops' plMethod)
func chosencasesMethod(p *packages.Package, recvType, name string) *ast.FuncDecl {
	for _, f := range p.Syntax {
		for _, d := range f.Decls {
			fd, ok := d.(*ast.FuncDecl)
			if !ok || fd.Name.Name != name {
				continue
			}
			if recvType == "" {
				if fd.Recv == nil {
					return fd
				}
				continue
			}
			if fd.Recv == nil || len(fd.Recv.List) != 1 {
				continue
			}
			ty := fd.Recv.List[0].Type
			if st, ok := ty.(*ast.StarExpr); ok {
				ty = st.X
			}
			if ix, ok := ty.(*ast.IndexExpr); ok { // generic receiver Provider[A]
				ty = ix.X
			}
			if id, ok := ty.(*ast.Ident); ok && id.Name == recvType {
				return fd
			}
		}
	}
	return nil
}

// chosencasesImport finds an (indirectly) imported package that was loaded together with the area's package
func chosencasesImport(t *tr, from *packages.Package, path string) *packages.Package {
	if from != nil {
		if p, ok := from.Imports[path]; ok && len(p.Syntax) > 0 && p.TypesInfo != nil {
			return p
		}
	}
	t.errs = append(t.errs, "package "+path+" is not imported (with syntax) where expected")
	return nil
}

// chosencasesLoops: the loop bodies (translator in area_chosencases_loops.go)
func chosencasesLoops(t *tr, pp, dec *packages.Package) string {
	var b strings.Builder
	x := &chosencasesPl{t: t, pkg: pp, ctx: "http/provider"}
	if fd := chosencasesMethod(pp, "Provider", "runPreloaded"); fd == nil {
		t.errs = append(t.errs, "(*Provider).runPreloaded not found")
	} else {
		b.WriteString(chosencasesSymLoop(t, pp, fd, false)) // round 4: symbolic execution (area_chosencases_symloops.go)
		b.WriteString(chosencasesCtxBareDef(pp, fd, "runPreloaded"))
	}
	if fd := chosencasesMethod(pp, "Provider", "runFullScan"); fd == nil {
		t.errs = append(t.errs, "(*Provider).runFullScan not found")
	} else {
		b.WriteString(chosencasesSymLoop(t, pp, fd, true))
		b.WriteString(chosencasesCtxBareDef(pp, fd, "runFullScan"))
		b.WriteString(chosencasesPassCounter(t, pp, dec))
	}
	if fd := chosencasesMethod(pp, "Provider", "Run"); fd == nil {
		t.errs = append(t.errs, "(*Provider).Run not found")
	} else {
		ch, _ := x.deferCloses(fd)
		fmt.Fprintf(&b, "/-- regenerated from `components/providers/http/provider/provider.go` Run: the deferred function closes `p.Sink` -/\ndef httpRunCloses : Bool := %v\n\n", ch == "p.Sink")
		b.WriteString(chosencasesSymRun(t, pp, fd)) // round 4: symbolic execution (area_chosencases_symloops.go)
	}
	y := &chosencasesPl{t: t, pkg: t.pkg, ctx: "http.NewProvider", vars: map[string]string{}}
	if fd := chosencasesMethod(t.pkg, "", "NewProvider"); fd == nil {
		t.errs = append(t.errs, "http.NewProvider not found")
	} else {
		fmt.Fprintf(&b, "/-- regenerated from `components/providers/http/provider.go` NewProvider: capacity of `Sink` -/\ndef chanCapHttp : Nat := %s\n\n", y.chanCapOf(fd, "http.NewProvider"))
		lim0 := false
		var confVar string
		ast.Inspect(fd, func(n ast.Node) bool {
			switch v := n.(type) {
			case *ast.AssignStmt:
				if len(v.Lhs) == 1 && len(v.Rhs) == 1 && y.src(v.Lhs[0]) == "decoderConf.Limit" && y.src(v.Rhs[0]) == "0" {
					lim0 = true
				}
			case *ast.CallExpr:
				if y.src(v.Fun) == "decoders.NewDecoder" && len(v.Args) == 2 {
					confVar = y.src(v.Args[0])
				}
			}
			return true
		})
		// the assignment must be a top-level statement of NewProvider (not under a condition)
		// … and stand BEFORE the statement that builds the decoder (the config is passed by value) — round 4
		top := false
		built := false
		for _, s := range fd.Body.List {
			if strings.Contains(y.src(s), "decoders.NewDecoder(") {
				built = true
			}
			if y.src(s) == "decoderConf.Limit = 0" && !built {
				top = true
			}
		}
		dl := "limit"
		if lim0 && top && confVar == "decoderConf" {
			dl = "0"
		} else if lim0 && !top {
			dl = y.fail(fd, "decoderConf.Limit = 0 is not unconditional or comes after decoders.NewDecoder")
		} else if confVar != "conf" && confVar != "decoderConf" {
			dl = y.fail(fd, "NewDecoder config argument %q", confVar)
		}
		fmt.Fprintf(&b, "/-- regenerated from NewProvider: the Limit the decoder is constructed with (`%s`%s) -/\ndef decoderLimit (limit : Nat) : Nat := %s\n\n",
			confVar, map[bool]string{true: ", decoderConf.Limit = 0", false: ""}[lim0], dl)
	}
	z := &chosencasesPl{t: t, pkg: dec, ctx: "decoders.scanAmmos"}
	if fd := chosencasesMethod(dec, "jsonlineDecoder", "scanAmmos"); fd == nil {
		t.errs = append(t.errs, "(*jsonlineDecoder).scanAmmos not found")
	} else {
		b.WriteString(z.scanAmmos(fd))
	}
	return b.String()
}

func chosencasesExtra(t *tr) string {
	var b strings.Builder
	b.WriteString("open Pandora.Model.C08 Pandora.Model.C14\n\n")
	pp := chosencasesImport(t, t.pkg, "github.com/yandex/pandora/components/providers/http/provider")
	dec := chosencasesImport(t, t.pkg, "github.com/yandex/pandora/components/providers/http/decoders")
	cu := chosencasesImport(t, pp, "github.com/yandex/pandora/lib/confutil")
	if pp == nil || dec == nil || cu == nil {
		return ""
	}
	fd := findFunc(cu, "IsChosenCase")
	if fd == nil {
		t.errs = append(t.errs, "func confutil.IsChosenCase not found")
	} else {
		b.WriteString(chosencasesSymFilter(t, cu, fd)) // round 4: symbolic execution (area_chosencases_symloops.go)
	}
	b.WriteString(chosencasesDecoderLoadAmmo(t, dec))
	b.WriteString(chosencasesLoops(t, pp, dec))
	b.WriteString(chosencasesLoadAmmo(t, pp))
	b.WriteString(chosencasesNewProvider(t))
	b.WriteString(chosencasesEpilogue(t, pp)) // round 3: area_chosencases_fin.go
	b.WriteString(chosencasesSourceGuards(t))
	b.WriteString(chosencasesPreloadSites(t.pkg, pp, dec)) // round 6: area_chosencases_ctx.go
	b.WriteString(chosencasesRelease(t, pp))
	return b.String()
}
