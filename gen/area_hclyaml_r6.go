package main

// Area "hclyaml", round 6: what happens to the TEXT of a file between `io.ReadAll` and the parser.
//
//	hclTextSteps   ParseHCLFile: the chain of calls the first argument of `ParseHCL` goes through, innermost first, starting at
//	               io.ReadAll (whose one argument is "param:<i>" when it is the function's own parameter — the WHOLE file is
//	               read, no io.LimitReader, no buffered / section reader in between — and the expression otherwise):
//	               (callee, constant string arguments).  Conversions (`string(b)`, `[]byte(s)`) are dropped,
//	               re-assignments of a local are followed in source order, a helper of the same package whose body is a
//	               single `return <expr of its one parameter>` is inlined.  A re-assignment inside a branch / loop adds
//	               the step "<conditional>", anything the extractor does not read a step "<expr:…>".
//	yamlTextSteps  ParseAmmoConfig: the same for the argument of `DecodeMap`.
//	readAmmoFlow   ReadAmmoConfig: what becomes of the errors of Open / Stat / Close:
//	               (call, "refuses" | "deferred-refuses" | "ignored" | "other"), and whether the error result is named.

import (
	"fmt"
	"go/ast"
	"go/token"
	"go/types"
	"strings"

	"golang.org/x/tools/go/packages"
)

type hyR6Step struct {
	callee string
	consts []string
}

// hyR6ConstString: the string value of a constant expression, also through `[]byte("…")` / `string("…")`
func hyR6ConstString(p *packages.Package, e ast.Expr) (string, bool) {
	for {
		if pe, ok := e.(*ast.ParenExpr); ok {
			e = pe.X
			continue
		}
		break
	}
	if tv, ok := p.TypesInfo.Types[e]; ok && tv.Value != nil {
		s := tv.Value.ExactString()
		if tv.Value.Kind().String() == "String" {
			var out string
			if _, err := fmt.Sscanf(s, "%q", &out); err == nil {
				return out, true
			}
		}
		return s, true
	}
	if c, ok := e.(*ast.CallExpr); ok && len(c.Args) == 1 {
		if tv, ok := p.TypesInfo.Types[c.Fun]; ok && tv.IsType() {
			return hyR6ConstString(p, c.Args[0])
		}
	}
	return "", false
}

// hyR6Assigns: the assignments to local o inside fd, in source order; top = the statement stands directly in the
// function body (not in a branch / loop / closure)
type hyR6Assign struct {
	pos token.Pos
	rhs ast.Expr
	top bool
}

func hyR6Assigns(p *packages.Package, fd *ast.FuncDecl, o types.Object) []hyR6Assign {
	topSet := map[ast.Stmt]bool{}
	for _, st := range fd.Body.List {
		topSet[st] = true
	}
	var out []hyR6Assign
	ast.Inspect(fd.Body, func(n ast.Node) bool {
		as, ok := n.(*ast.AssignStmt)
		if !ok {
			return true
		}
		for i, l := range as.Lhs {
			if lo := hyObj(p, l); lo != nil && lo == o {
				var rhs ast.Expr
				if len(as.Rhs) == len(as.Lhs) {
					rhs = as.Rhs[i]
				} else if len(as.Rhs) == 1 {
					rhs = as.Rhs[0]
				}
				out = append(out, hyR6Assign{as.Pos(), rhs, topSet[as]})
			}
		}
		return true
	})
	return out
}

// hyR6Walk: the steps expression e (evaluated at position pos of fd) has gone through; base = the parameter that
// stands for "the text so far" when fd is an inlined helper
func hyR6Walk(p *packages.Package, fd *ast.FuncDecl, e ast.Expr, pos token.Pos, base types.Object, depth int) []hyR6Step {
	if depth > 12 || e == nil {
		return []hyR6Step{{"<expr:too-deep>", nil}}
	}
	switch x := e.(type) {
	case *ast.ParenExpr:
		return hyR6Walk(p, fd, x.X, pos, base, depth+1)
	case *ast.Ident:
		o := hyObj(p, x)
		if o != nil && o == base {
			return nil
		}
		as := hyR6Assigns(p, fd, o)
		var steps []hyR6Step
		var last *hyR6Assign
		cond := false
		for i := range as {
			if as[i].pos >= pos {
				continue
			}
			if !as[i].top {
				cond = true
				continue
			}
			last = &as[i]
		}
		if last == nil {
			return []hyR6Step{{"<expr:" + x.Name + ">", nil}}
		}
		steps = hyR6Walk(p, fd, last.rhs, last.pos, base, depth+1)
		if cond {
			steps = append(steps, hyR6Step{"<conditional>", nil})
		}
		return steps
	case *ast.CallExpr:
		if tv, ok := p.TypesInfo.Types[x.Fun]; ok && tv.IsType() && len(x.Args) == 1 {
			return hyR6Walk(p, fd, x.Args[0], pos, base, depth+1)
		}
		name := hyCalleeName(p, x)
		if name == "io.ReadAll" || name == "ioutil.ReadAll" {
			// what is read: the function's own parameter ("param:<index>": the whole file, no limit, no wrapper) or
			// anything else, spelled out (io.LimitReader(file, n), bufio.NewReader(file), a section reader …)
			src := "<none>"
			if len(x.Args) == 1 {
				src = hyNodeString(p, x.Args[0])
				if o := hyObj(p, x.Args[0]); o != nil && fd.Type.Params != nil {
					i := 0
					for _, f := range fd.Type.Params.List {
						for _, nm := range f.Names {
							if p.TypesInfo.Defs[nm] == o {
								src = fmt.Sprintf("param:%d", i)
							}
							i++
						}
					}
				}
			}
			return []hyR6Step{{"io.ReadAll", []string{src}}}
		}
		var consts []string
		var flowing []ast.Expr
		for _, a := range x.Args {
			if s, ok := hyR6ConstString(p, a); ok {
				consts = append(consts, s)
			} else {
				flowing = append(flowing, a)
			}
		}
		if len(flowing) != 1 {
			return []hyR6Step{{"<expr:" + hyNodeString(p, x) + ">", nil}}
		}
		inner := hyR6Walk(p, fd, flowing[0], pos, base, depth+1)
		// a helper of the same package: `func f(b T) T { return <expr of b> }`
		if id, ok := x.Fun.(*ast.Ident); ok && len(consts) == 0 {
			if h := findFunc(p, id.Name); h != nil && h.Body != nil && len(h.Body.List) == 1 && h.Type.Params != nil &&
				len(h.Type.Params.List) == 1 && len(h.Type.Params.List[0].Names) == 1 {
				if ret, ok := h.Body.List[0].(*ast.ReturnStmt); ok && len(ret.Results) == 1 {
					param := p.TypesInfo.Defs[h.Type.Params.List[0].Names[0]]
					return append(inner, hyR6Walk(p, h, ret.Results[0], ret.Pos(), param, depth+1)...)
				}
			}
		}
		return append(inner, hyR6Step{name, consts})
	}
	return []hyR6Step{{"<expr:" + hyNodeString(p, e) + ">", nil}}
}

func hyR6TextSteps(g *hyGen, p *packages.Package, fn, sink string) string {
	fd := findFunc(p, fn)
	if fd == nil {
		g.fail("%s not found", fn)
		return "[]"
	}
	var call *ast.CallExpr
	n := 0
	ast.Inspect(fd.Body, func(x ast.Node) bool {
		if c, ok := x.(*ast.CallExpr); ok {
			if hyCallTo(c, sink) != nil {
				call = c
				n++
			}
		}
		return true
	})
	if n != 1 || len(call.Args) < 1 {
		g.fail("%s: expected one call of %s, found %d", fn, sink, n)
		return "[]"
	}
	steps := hyR6Walk(p, fd, call.Args[0], call.Pos(), nil, 0)
	rows := make([]string, len(steps))
	for i, s := range steps {
		rows[i] = fmt.Sprintf("(%q, %s)", s.callee, hyStrList(s.consts))
	}
	return "[" + strings.Join(rows, ", ") + "]"
}

// hyR6ErrNonNil: e certainly is a non-nil error value: a call (fmt.Errorf, errors.New, a wrapper …), not the literal nil
func hyR6ErrNonNil(e ast.Expr) bool {
	_, ok := e.(*ast.CallExpr)
	return ok
}

// hyR6Refuses: the block makes the function return an error: `return …, <call>` or `err = <call>` followed (at the end
// of the block) by a bare return
func hyR6Refuses(p *packages.Package, blk *ast.BlockStmt, namedErr types.Object) bool {
	if blk == nil || len(blk.List) == 0 {
		return false
	}
	ret, ok := blk.List[len(blk.List)-1].(*ast.ReturnStmt)
	if !ok {
		return false
	}
	for _, r := range ret.Results {
		if hyIsErrType(p.TypesInfo.TypeOf(r)) && hyR6ErrNonNil(r) {
			return true
		}
	}
	if len(ret.Results) == 0 && namedErr != nil {
		for _, st := range blk.List[:len(blk.List)-1] {
			if as, ok := st.(*ast.AssignStmt); ok && len(as.Lhs) == 1 && len(as.Rhs) == 1 && hyObj(p, as.Lhs[0]) == namedErr && hyR6ErrNonNil(as.Rhs[0]) {
				return true
			}
		}
	}
	return false
}

// hyR6AssignsErrEverywhere: every path through the statement list assigns a non-nil value to the named error result
func hyR6AssignsErrEverywhere(p *packages.Package, list []ast.Stmt, namedErr types.Object) bool {
	for _, st := range list {
		switch x := st.(type) {
		case *ast.AssignStmt:
			if len(x.Lhs) == 1 && len(x.Rhs) == 1 && hyObj(p, x.Lhs[0]) == namedErr && hyR6ErrNonNil(x.Rhs[0]) {
				return true
			}
		case *ast.IfStmt:
			if x.Else != nil {
				if eb, ok := x.Else.(*ast.BlockStmt); ok && hyR6AssignsErrEverywhere(p, x.Body.List, namedErr) && hyR6AssignsErrEverywhere(p, eb.List, namedErr) {
					return true
				}
			}
		}
	}
	return false
}

// hyR6IsErrTest: `o != nil`
func hyR6IsErrTest(p *packages.Package, cond ast.Expr, o types.Object) bool {
	be, ok := cond.(*ast.BinaryExpr)
	if !ok || be.Op != token.NEQ {
		return false
	}
	if id, ok := be.Y.(*ast.Ident); !ok || id.Name != "nil" {
		return false
	}
	return o != nil && hyObj(p, be.X) == o
}

func hyR6ReadAmmoFlow(g *hyGen, p *packages.Package) string {
	fd := findFunc(p, "ReadAmmoConfig")
	if fd == nil {
		g.fail("ReadAmmoConfig not found")
		return ""
	}
	var namedErr types.Object
	if fd.Type.Results != nil {
		for _, f := range fd.Type.Results.List {
			for _, nm := range f.Names {
				if o := p.TypesInfo.Defs[nm]; o != nil && hyIsErrType(o.Type()) {
					namedErr = o
				}
			}
		}
	}
	outcome := map[string]string{}
	// a call `x, e := recv.M(…)` directly in the body, followed by `if e != nil { refuse }`
	follow := func(list []ast.Stmt, i int, key string) {
		as, ok := list[i].(*ast.AssignStmt)
		if !ok || len(as.Rhs) != 1 {
			return
		}
		c, ok := as.Rhs[0].(*ast.CallExpr)
		if !ok || hyCalleeName(p, c) != key {
			return
		}
		var eo types.Object
		for _, l := range as.Lhs {
			if o := hyObj(p, l); o != nil && hyIsErrType(o.Type()) {
				eo = o
			}
		}
		res := "ignored"
		if eo != nil && i+1 < len(list) {
			if ifs, ok := list[i+1].(*ast.IfStmt); ok && ifs.Init == nil && hyR6IsErrTest(p, ifs.Cond, eo) {
				if hyR6Refuses(p, ifs.Body, namedErr) {
					res = "refuses"
				} else {
					res = "other"
				}
			}
		}
		if prev, seen := outcome[key]; seen && prev != res {
			res = "other"
		}
		outcome[key] = res
	}
	for i := range fd.Body.List {
		follow(fd.Body.List, i, "(afero.Fs).Open")
		follow(fd.Body.List, i, "(afero.File).Stat")
		if ds, ok := fd.Body.List[i].(*ast.DeferStmt); ok {
			if fl, ok := ds.Call.Fun.(*ast.FuncLit); ok {
				for j, st := range fl.Body.List {
					// `if cerr := file.Close(); cerr != nil { … }`
					if ifs, ok := st.(*ast.IfStmt); ok && ifs.Init != nil {
						if as, ok := ifs.Init.(*ast.AssignStmt); ok && len(as.Rhs) == 1 && len(as.Lhs) == 1 {
							if c, ok := as.Rhs[0].(*ast.CallExpr); ok && strings.HasSuffix(hyCalleeName(p, c), ".Close") {
								res := "other"
								if hyR6IsErrTest(p, ifs.Cond, hyObj(p, as.Lhs[0])) && namedErr != nil && hyR6AssignsErrEverywhere(p, ifs.Body.List, namedErr) {
									res = "deferred-refuses"
								}
								outcome["Close"] = res
							}
						}
						continue
					}
					as, ok := st.(*ast.AssignStmt)
					if !ok || len(as.Rhs) != 1 || len(as.Lhs) != 1 {
						continue
					}
					c, ok := as.Rhs[0].(*ast.CallExpr)
					if !ok || !strings.HasSuffix(hyCalleeName(p, c), ".Close") {
						continue
					}
					eo := hyObj(p, as.Lhs[0])
					res := "ignored"
					if j+1 < len(fl.Body.List) {
						if ifs, ok := fl.Body.List[j+1].(*ast.IfStmt); ok && hyR6IsErrTest(p, ifs.Cond, eo) {
							if namedErr != nil && hyR6AssignsErrEverywhere(p, ifs.Body.List, namedErr) {
								res = "deferred-refuses"
							} else {
								res = "other"
							}
						}
					}
					outcome["Close"] = res
				}
			} else if strings.HasSuffix(hyNodeString(p, ds.Call.Fun), ".Close") {
				outcome["Close"] = "ignored"
			}
		}
	}
	rows := []string{}
	for _, k := range []string{"(afero.Fs).Open", "(afero.File).Stat", "Close"} {
		v, ok := outcome[k]
		if !ok {
			v = "absent"
		}
		rows = append(rows, fmt.Sprintf("(%q, %q)", k, v))
	}
	return "/-- `ReadAmmoConfig`: what becomes of the errors of opening, stat-ing and closing the file: \"refuses\" = the next\nstatement tests the error and returns a non-nil error; \"deferred-refuses\" = the deferred closure tests the error of\n`Close` and assigns a non-nil error to the named result on every path; \"ignored\" / \"other\" / \"absent\" otherwise -/\n" +
		"def readAmmoFlow : List (String × String) := [" + strings.Join(rows, ", ") + "]\n" +
		fmt.Sprintf("/-- `ReadAmmoConfig` has a named error result (what the deferred closure writes to) -/\ndef readAmmoNamedErr : Bool := %v\n\n", namedErr != nil)
}

func hyR6Facts(g *hyGen, p *packages.Package) string {
	return "/-- `ParseHCLFile`: what the text goes through between `io.ReadAll` and `ParseHCL`, innermost first:\n(callee, constant arguments); conversions dropped -/\n" +
		"def hclTextSteps : List (String × List String) := " + hyR6TextSteps(g, p, "ParseHCLFile", "ParseHCL") + "\n" +
		"/-- `ParseAmmoConfig`: the same between `io.ReadAll` and `DecodeMap` -/\n" +
		"def yamlTextSteps : List (String × List String) := " + hyR6TextSteps(g, p, "ParseAmmoConfig", "DecodeMap") + "\n\n" +
		hyR6ReadAmmoFlow(g, p)
}

var _ = packages.NeedName
