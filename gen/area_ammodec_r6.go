package main

// Area "ammodec" (property C07), round 6: what a request built by `BuildRequest` shares with the decoded entry it is built
// from (every identifier carries the prefix `ammodec`).
//
// For `(*ammo.Ammo).BuildRequest` and `(*ammo.RawAmmo).BuildRequest` (components/providers/http/decoders/ammo) the functions
// they reach inside the pandora module are collected (across packages: util.EnrichRequestWithHeaders, raw.DecodeRequest, any
// helper added later) and every statement that gives a `*net/http.Request` its URL or its header map is classified:
//
//	fresh   the request comes from a library constructor (http.NewRequest[WithContext], http.ReadRequest) and nothing assigns
//	        `<req>.URL` / `<req>.Header`; or every such assignment stores an object made on the spot: a call into net/url
//	        (url.Parse, ParseRequestURI, (*URL).Parse / ResolveReference / JoinPath), `&url.URL{…}`, `&u` of a LOCAL variable
//	        `u` of type url.URL (a copy); `make(http.Header)`, `http.Header{}`, `<x>.Clone()`
//	alias   some assignment stores anything else of type *url.URL / http.Header (a field, a parameter, a variable that holds
//	        one), or a `*http.Request` is copied shallowly (`cp := *cached`): the object outlives the build
//	other   no constructor found / a shape not known here
//
// Names of receivers, fields, locals and helpers, and the order of statements do not matter.

import (
	"fmt"
	"go/ast"
	"go/token"
	"go/types"
	"sort"
	"strings"

	"golang.org/x/tools/go/packages"
)

const ammodecAmmoPkg = ammodecHTTPPkg + "/decoders/ammo"

type ammodecPkgFn struct {
	p  *packages.Package
	fd *ast.FuncDecl
}

// ammodecPkgIndex: every package reachable from root through imports that was loaded with syntax, by path.
func ammodecPkgIndex(root *packages.Package) map[string]*packages.Package {
	idx := map[string]*packages.Package{}
	var walk func(p *packages.Package)
	walk = func(p *packages.Package) {
		if p == nil || idx[p.PkgPath] != nil {
			return
		}
		idx[p.PkgPath] = p
		for _, q := range p.Imports {
			if strings.HasPrefix(q.PkgPath, "github.com/yandex/pandora/") {
				walk(q)
			}
		}
	}
	walk(root)
	return idx
}

func ammodecDeclOf(p *packages.Package, obj types.Object) *ast.FuncDecl {
	if p == nil || p.TypesInfo == nil {
		return nil
	}
	for _, f := range p.Syntax {
		for _, d := range f.Decls {
			if fd, ok := d.(*ast.FuncDecl); ok && fd.Body != nil && p.TypesInfo.Defs[fd.Name] == obj {
				return fd
			}
		}
	}
	return nil
}

// ammodecModuleClosure: start and every function of the pandora module it (transitively) calls.
func ammodecModuleClosure(idx map[string]*packages.Package, start ammodecPkgFn) []ammodecPkgFn {
	seen := map[*ast.FuncDecl]bool{}
	var out []ammodecPkgFn
	var visit func(f ammodecPkgFn)
	visit = func(f ammodecPkgFn) {
		if f.fd == nil || seen[f.fd] || len(out) >= 64 {
			return
		}
		seen[f.fd] = true
		out = append(out, f)
		ast.Inspect(f.fd.Body, func(n ast.Node) bool {
			call, ok := n.(*ast.CallExpr)
			if !ok {
				return true
			}
			var id *ast.Ident
			switch fn := call.Fun.(type) {
			case *ast.Ident:
				id = fn
			case *ast.SelectorExpr:
				id = fn.Sel
			}
			if id == nil {
				return true
			}
			callee, ok := f.p.TypesInfo.Uses[id].(*types.Func)
			if !ok || callee.Pkg() == nil {
				return true
			}
			if q := idx[callee.Pkg().Path()]; q != nil {
				visit(ammodecPkgFn{q, ammodecDeclOf(q, callee)})
			}
			return true
		})
	}
	visit(start)
	return out
}

func ammodecNamed(ty types.Type, pkg, name string) bool {
	if ptr, ok := ty.(*types.Pointer); ok {
		ty = ptr.Elem()
	}
	n, ok := ty.(*types.Named)
	return ok && n.Obj().Pkg() != nil && n.Obj().Pkg().Path() == pkg && n.Obj().Name() == name
}

// ammodecFreshObject: e makes a new url.URL (field "URL") / http.Header (field "Header") on the spot.
func ammodecFreshObject(p *packages.Package, fd *ast.FuncDecl, field string, e ast.Expr) bool {
	e = ast.Unparen(e)
	switch v := e.(type) {
	case *ast.CallExpr:
		var id *ast.Ident
		switch fn := v.Fun.(type) {
		case *ast.Ident:
			id = fn
		case *ast.SelectorExpr:
			id = fn.Sel
		}
		if id == nil {
			return false
		}
		if b, ok := p.TypesInfo.ObjectOf(id).(*types.Builtin); ok {
			return field == "Header" && b.Name() == "make"
		}
		callee, ok := p.TypesInfo.Uses[id].(*types.Func)
		if !ok || callee.Pkg() == nil {
			return false
		}
		switch field {
		case "URL":
			return callee.Pkg().Path() == "net/url"
		case "Header":
			return callee.Pkg().Path() == "net/http" && callee.Name() == "Clone"
		}
	case *ast.CompositeLit:
		return field == "Header"
	case *ast.UnaryExpr:
		if v.Op != token.AND || field != "URL" {
			return false
		}
		switch x := ast.Unparen(v.X).(type) {
		case *ast.CompositeLit:
			return true
		case *ast.Ident:
			// &u of a local variable u of type url.URL: a copy made in this function
			if o, ok := p.TypesInfo.ObjectOf(x).(*types.Var); ok && !o.IsField() && o.Pos() >= fd.Pos() && o.Pos() <= fd.End() {
				_, isPtr := o.Type().(*types.Pointer)
				return !isPtr && ammodecNamed(o.Type(), "net/url", "URL")
			}
		}
	}
	return false
}

// ammodecBuildOrigin classifies where the requests built by recv.BuildRequest get their `field` from.
func ammodecBuildOrigin(idx map[string]*packages.Package, recv, field string) string {
	ap := idx[ammodecAmmoPkg]
	if ap == nil {
		return `UrlOrigin.other "package decoders/ammo not loaded"`
	}
	fd := ammodecFunc(ap, recv, "BuildRequest")
	if fd == nil {
		return fmt.Sprintf("UrlOrigin.other %q", recv+".BuildRequest not found")
	}
	constructor := false
	kinds := map[string]bool{}
	for _, f := range ammodecModuleClosure(idx, ammodecPkgFn{ap, fd}) {
		f := f
		ast.Inspect(f.fd.Body, func(n ast.Node) bool {
			switch st := n.(type) {
			case *ast.CallExpr:
				if sel, ok := st.Fun.(*ast.SelectorExpr); ok {
					if callee, ok := f.p.TypesInfo.Uses[sel.Sel].(*types.Func); ok && callee.Pkg() != nil && callee.Pkg().Path() == "net/http" {
						switch callee.Name() {
						case "NewRequest", "NewRequestWithContext", "ReadRequest":
							constructor = true
						}
					}
				}
			case *ast.AssignStmt:
				for i, l := range st.Lhs {
					if len(st.Rhs) != len(st.Lhs) {
						break
					}
					// a shallow copy of a request: cp := *cached
					if s, ok := ast.Unparen(st.Rhs[i]).(*ast.StarExpr); ok {
						if ty := f.p.TypesInfo.TypeOf(s.X); ty != nil && ammodecNamed(ty, "net/http", "Request") {
							kinds["alias"] = true
						}
					}
					sel, ok := ast.Unparen(l).(*ast.SelectorExpr)
					if !ok || sel.Sel.Name != field {
						continue
					}
					if ty := f.p.TypesInfo.TypeOf(sel.X); ty == nil || !ammodecNamed(ty, "net/http", "Request") {
						continue
					}
					if ammodecFreshObject(f.p, f.fd, field, st.Rhs[i]) {
						kinds["fresh"] = true
					} else {
						kinds["alias"] = true
					}
				}
			}
			return true
		})
	}
	var ks []string
	for k := range kinds {
		ks = append(ks, k)
	}
	sort.Strings(ks)
	switch {
	case kinds["alias"]:
		return "UrlOrigin.alias"
	case constructor:
		return "UrlOrigin.fresh"
	}
	return fmt.Sprintf("UrlOrigin.other %q", "no library constructor of the request found; "+strings.Join(ks, ","))
}

func ammodecR6(t *tr) string {
	var b strings.Builder
	w := func(format string, a ...any) { fmt.Fprintf(&b, format, a...) }
	idx := ammodecPkgIndex(t.pkg)
	w("\n/-! ### what a built request shares with its entry (regenerated from decoders/ammo `BuildRequest` and what it calls) -/\n\n")
	w("/-- `(*ammo.Ammo).BuildRequest`: where the request's `*url.URL` comes from -/\ndef ammoBuildUrlOrigin : UrlOrigin := %s\n\n", ammodecBuildOrigin(idx, "Ammo", "URL"))
	w("/-- `(*ammo.Ammo).BuildRequest`: where the request's header MAP comes from -/\ndef ammoBuildHdrOrigin : UrlOrigin := %s\n\n", ammodecBuildOrigin(idx, "Ammo", "Header"))
	w("/-- `(*ammo.RawAmmo).BuildRequest`: where the request's `*url.URL` comes from -/\ndef rawAmmoBuildUrlOrigin : UrlOrigin := %s\n\n", ammodecBuildOrigin(idx, "RawAmmo", "URL"))
	w("/-- `(*ammo.RawAmmo).BuildRequest`: where the request's header MAP comes from -/\ndef rawAmmoBuildHdrOrigin : UrlOrigin := %s\n", ammodecBuildOrigin(idx, "RawAmmo", "Header"))
	return b.String()
}
