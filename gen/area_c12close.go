package main

// Area "c12close" (property C12, round 6): the CLEANUP / ACCOUNTING order around an instance's run, re-extracted from the
// current source of core/engine as a table of facts (a tiny go/ast + go/types extractor; the bridge lemma compares the table
// with the hand-written expectation):
//
//   - for every function body (declared function or function literal) of the package that calls `<x>.Run(…)` on a value of
//     type *instance: is `<x>.Close()` DEFERRED at the top level of that body, before the statement that calls Run — i.e. is the
//     gun closed on every path out of Run, a panic included (the harness, and the metrics consumers, count a closed gun as a
//     finished instance);
//   - in (*instance).Run: `InstanceStart.Add(1)` is an unconditional top-level statement before the loop, `InstanceFinish.Add(1)`
//     is inside a deferred function (so it is counted on every path, also when Shoot panics), and that deferred function is
//     registered before InstanceStart is counted (a started instance is always a finished instance in the end);
//   - in newInstance: the gun is closed when Bind fails (`closeGun(gun, …)` inside the `if err != nil` that follows Bind).
//
// Statement order inside the bodies is free otherwise: renamed locals, `err := x.Run(ctx); return err` instead of
// `return x.Run(ctx)`, extra logging do not change the table; dropping the defer, closing only on the nil path, or counting
// the finish outside the defer do.

import (
	"fmt"
	"go/ast"
	"go/types"
	"sort"
	"strings"
)

func init() {
	areas["c12close"] = area{
		pkgPath:   "github.com/yandex/pandora/core/engine",
		module:    "C12Close",
		namespace: "Pandora.Gen.C12Close",
		imports:   []string{"Pandora.Model.C12"},
		extra:     c12closeExtra,
	}
}

// c12closeIsInstance: the type of e is *instance (or instance) of the package under translation
func c12closeIsInstance(t *tr, e ast.Expr) bool {
	ty := t.pkg.TypesInfo.TypeOf(e)
	if ty == nil {
		return false
	}
	if p, ok := ty.(*types.Pointer); ok {
		ty = p.Elem()
	}
	n, ok := ty.(*types.Named)
	return ok && n.Obj().Name() == "instance" && n.Obj().Pkg() == t.pkg.Types
}

// c12closeCallOn: e is `<x>.<method>(…)` with x an *instance; returns the object of x
func c12closeCallOn(t *tr, e ast.Expr, method string) (types.Object, bool) {
	call, ok := e.(*ast.CallExpr)
	if !ok {
		return nil, false
	}
	sel, ok := call.Fun.(*ast.SelectorExpr)
	if !ok || sel.Sel.Name != method || !c12closeIsInstance(t, sel.X) {
		return nil, false
	}
	id, ok := sel.X.(*ast.Ident)
	if !ok {
		return nil, false
	}
	return t.pkg.TypesInfo.ObjectOf(id), true
}

// c12closeContainsRun: the first call `<x>.Run(…)` inside n that is not inside a nested function literal
func c12closeContainsRun(t *tr, n ast.Node) (types.Object, bool) {
	var obj types.Object
	found := false
	ast.Inspect(n, func(m ast.Node) bool {
		if found {
			return false
		}
		if _, isLit := m.(*ast.FuncLit); isLit && m != n {
			return false
		}
		if e, ok := m.(ast.Expr); ok {
			if o, ok := c12closeCallOn(t, e, "Run"); ok {
				obj, found = o, true
				return false
			}
		}
		return true
	})
	return obj, found
}

func c12closeExtra(t *tr) string {
	var b strings.Builder
	type row struct {
		where    string
		deferred bool
	}
	var rows []row
	// every function body of the package
	scanBody := func(where string, body *ast.BlockStmt) {
		if body == nil {
			return
		}
		// the top-level statement that (directly, not through a nested literal) calls <x>.Run
		for i, st := range body.List {
			if _, isDefer := st.(*ast.DeferStmt); isDefer {
				continue
			}
			x, ok := c12closeContainsRun(t, st)
			if !ok {
				continue
			}
			deferred := false
			for _, prev := range body.List[:i] {
				if d, ok := prev.(*ast.DeferStmt); ok {
					if o, ok := c12closeCallOn(t, d.Call, "Close"); ok && o == x {
						deferred = true
					}
				}
			}
			rows = append(rows, row{where, deferred})
			return
		}
	}
	for _, f := range t.pkg.Syntax {
		for _, d := range f.Decls {
			fd, ok := d.(*ast.FuncDecl)
			if !ok || fd.Body == nil {
				continue
			}
			name := fd.Name.Name
			nlit := 0
			// literals first (a body that only CONTAINS a literal calling Run is not itself a caller of Run)
			ast.Inspect(fd.Body, func(m ast.Node) bool {
				if lit, ok := m.(*ast.FuncLit); ok {
					before := len(rows)
					scanBody(fmt.Sprintf("%s.func", name), lit.Body)
					if len(rows) > before {
						nlit++
					}
				}
				return true
			})
			scanBody(name, fd.Body)
		}
	}
	sort.Slice(rows, func(i, j int) bool { return rows[i].where < rows[j].where })
	b.WriteString("/-- regenerated from `core/engine`: every function body that calls `Run` on an `*instance`, and whether `Close()` of that very\ninstance is DEFERRED in that body before the call (the gun is closed on every path out of `Run`, a panic included) -/\n")
	b.WriteString("def runCallers : List (String × Bool) := [")
	for i, r := range rows {
		if i > 0 {
			b.WriteString(", ")
		}
		b.WriteString(fmt.Sprintf("(%q, %v)", r.where, r.deferred))
	}
	b.WriteString("]\n\n")

	// (*instance).Run: where the two metrics are counted
	startTop, finishInDefer, deferBeforeStart := false, false, false
	finishElsewhere := 0
	if run := startupFindMethod(t.pkg, "instance", "Run"); run != nil {
		isAdd := func(n ast.Node, metric string) bool {
			call, ok := n.(*ast.CallExpr)
			if !ok {
				return false
			}
			sel, ok := call.Fun.(*ast.SelectorExpr)
			if !ok || sel.Sel.Name != "Add" {
				return false
			}
			inner, ok := sel.X.(*ast.SelectorExpr)
			return ok && inner.Sel.Name == metric
		}
		deferSeen := false
		for _, st := range run.Body.List {
			switch v := st.(type) {
			case *ast.DeferStmt:
				has := false
				ast.Inspect(v, func(m ast.Node) bool {
					if isAdd(m, "InstanceFinish") {
						has = true
					}
					return true
				})
				if has {
					finishInDefer = true
					deferSeen = true
				}
			case *ast.ExprStmt:
				if isAdd(v.X, "InstanceStart") {
					startTop = true
					deferBeforeStart = deferSeen
				}
				if isAdd(v.X, "InstanceFinish") {
					finishElsewhere++
				}
			default:
				ast.Inspect(st, func(m ast.Node) bool {
					if isAdd(m, "InstanceFinish") {
						finishElsewhere++
					}
					if isAdd(m, "InstanceStart") {
						startTop = false
					}
					return true
				})
			}
		}
	} else {
		t.errs = append(t.errs, "c12close: (*instance).Run not found")
	}
	b.WriteString("/-- regenerated from `(*instance).Run`: `InstanceStart.Add(1)` is an unconditional top-level statement; `InstanceFinish.Add(1)` is\ninside a deferred function; that defer is registered before the start is counted; `InstanceFinish` is counted nowhere else -/\n")
	b.WriteString(fmt.Sprintf("def startCountedUnconditionally : Bool := %v\ndef finishCountedInDefer : Bool := %v\ndef finishDeferBeforeStartCount : Bool := %v\ndef finishCountedElsewhere : Nat := %d\n\n", startTop, finishInDefer, deferBeforeStart, finishElsewhere))

	// newInstance: the gun is closed when Bind fails
	closesOnBindFail := false
	for _, f := range t.pkg.Syntax {
		for _, d := range f.Decls {
			fd, ok := d.(*ast.FuncDecl)
			if !ok || fd.Recv != nil || fd.Name.Name != "newInstance" || fd.Body == nil {
				continue
			}
			for i, st := range fd.Body.List {
				as, ok := st.(*ast.AssignStmt)
				if !ok || len(as.Rhs) != 1 {
					continue
				}
				call, ok := as.Rhs[0].(*ast.CallExpr)
				if !ok {
					continue
				}
				sel, ok := call.Fun.(*ast.SelectorExpr)
				if !ok || sel.Sel.Name != "Bind" || i+1 >= len(fd.Body.List) {
					continue
				}
				if ifs, ok := fd.Body.List[i+1].(*ast.IfStmt); ok {
					ast.Inspect(ifs.Body, func(m ast.Node) bool {
						if c, ok := m.(*ast.CallExpr); ok {
							if id, ok := c.Fun.(*ast.Ident); ok && id.Name == "closeGun" {
								closesOnBindFail = true
							}
						}
						return true
					})
				}
			}
		}
	}
	b.WriteString("/-- regenerated from `newInstance`: the `if err != nil` that follows `gun.Bind(…)` closes the gun -/\n")
	b.WriteString(fmt.Sprintf("def closesGunWhenBindFails : Bool := %v\n", closesOnBindFail))
	return b.String()
}
