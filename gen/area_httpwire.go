package main

// Area "httpwire" (property C09): regenerates from the CURRENT source, as definitions over the vocabulary of
// Pandora/Model/C09.lean (Req, Shot, Hdr, hget/hput/hset, canon, hostWithoutPort, Lookup):
//
//	providers/http/util/request.go     EnrichRequestWithHeaders: body of the range loop            -> enrichStep
//	guns/http/base.go                  BaseGun.Shoot: every statement that touches `req` before Client.Do -> shootRewrite
//	                                   (+ the option-guarded blocks that were skipped -> shootSkipped)
//	                                   PreResolveTargetAddr                                        -> preResolve
//	                                   NewBaseGun: where the gun's Client comes from               -> baseGunClient
//	guns/http/client.go                getHostWithoutPort                                          -> getHostWithoutPort
//	                                   NewTransport / DefaultTransportConfig / TransportConfig tag -> keep-alive facts
//	                                   NewTransport's http.Transport literal, DefaultTransportConfig, all config tags,
//	                                   the transport every client constructor builds            -> newTransport, defaultTransportCfg,
//	                                                                                              transportTags, clientTransports
//	guns/http/base.go                  BaseGun.Shoot: what happens to the response after Client.Do -> shootResponse
//	guns/http/http.go                  NewHTTP2Gun's ssl check                                     -> http2NeedsSSL
//	phttp/import/import.go             what each gun factory assigns to conf.Target/TargetResolved -> factoryAssigns
//	providers/http/decoders/uri.go     readLine: merge loop, header-line branch, Setup arguments   -> uriMergeStep, uriBase, uriSetup, uriHeaderLine
//	providers/http/decoders/uripost.go readBlock: the same                                        -> uripost…
//	providers/http/decoders/jsonline.go Scan and readArray: merge loop, Setup arguments            -> jsonScan…, jsonArray…
//	providers/http/decoders/raw.go     Scan: the header argument of RawAmmo.Setup                  -> rawSetupHeader
//	decoders/ammo/{ammo,raw_ammo}.go   BuildRequest: the calls that make and touch the request     -> ammoBuild, rawBuild, rawSetupStore
//	decoders/raw/decoder.go            DecodeRequest: what happens to req after http.ReadRequest   -> decodeRequestClose, decodeRequestTouches
//
// Two kinds of output. (1) SEMANTIC: a block of statements over an http.Header / *http.Request is translated statement by
// statement into a Lean function `State → Option State` (None = the Go code would index an empty slice):
//
//	k = textproto.CanonicalMIMEHeaderKey(k) | http.CanonicalHeaderKey(k)   -> let k := canon k
//	if _, ok := M[k]; !ok { A }; B           -> match hget M k with | some _ => B | none => A; B
//	if c { A } else { B }; C                 -> if c then A; C else B; C
//	M[k] = vs | M[k] = append([]string(nil), vs...)   -> hput M k vs
//	M.Set(k, v)                              -> hset M k v
//	req.Host = e | req.URL.Host = e | req.URL.Scheme = "http"|"https"   -> field updates of the state record
//	vs[0]                                    -> match vs with | [] => none | v0 :: _ => …
//
// (2) SHAPE: where the code only passes values along (arguments of Setup / NewRequest, initial value of a map), the
// value's ORIGIN is described by a small term that does not depend on local variable names (`param1`, `recv.field`,
// `callee#i` for the i-th result of a call, `lit:"GET"`, `clone(x)`, `concat(a,b,c)`, `merged` for the map the merge
// loop works on) and pinned by a Bridge lemma.
//
// Anything outside the supported forms makes gen exit non-zero (broken obligation), never a silent default.

import (
	"bytes"
	"fmt"
	"go/ast"
	"go/constant"
	"go/printer"
	"go/token"
	"go/types"
	"os"
	"reflect"
	"sort"
	"strings"

	"golang.org/x/tools/go/packages"
)

const hwBase = "github.com/yandex/pandora/"

func init() {
	areas["httpwire"] = area{
		pkgPath:   hwBase + "components/providers/http/util",
		module:    "HttpWire",
		namespace: "Pandora.Gen.HttpWire",
		imports:   []string{"Pandora.Model.C09"},
		extra:     httpwireExtra,
	}
}

type hw struct {
	t    *tr
	pkgs map[string]*packages.Package
}

func (x *hw) failf(p *packages.Package, n ast.Node, format string, a ...any) string {
	pos := "?"
	if p != nil && n != nil {
		pos = p.Fset.Position(n.Pos()).String()
	}
	x.t.errs = append(x.t.errs, fmt.Sprintf("%s: unsupported (httpwire area): %s", pos, fmt.Sprintf(format, a...)))
	return "(UNSUPPORTED)"
}

func hwSrc(p *packages.Package, n ast.Node) string {
	var b bytes.Buffer
	_ = printer.Fprint(&b, p.Fset, n)
	return strings.Join(strings.Fields(b.String()), " ")
}

func hwLoad() map[string]*packages.Package {
	paths := []string{
		hwBase + "components/providers/http/util",
		hwBase + "components/providers/http/decoders",
		hwBase + "components/providers/http/decoders/ammo",
		hwBase + "components/providers/http/decoders/raw",
		hwBase + "components/guns/http",
		hwBase + "components/phttp/import",
	}
	cfg := &packages.Config{Mode: packages.NeedName | packages.NeedSyntax | packages.NeedTypes | packages.NeedTypesInfo |
		packages.NeedFiles | packages.NeedImports, Dir: repo, BuildFlags: []string{"-tags=verif"}}
	pkgs, err := packages.Load(cfg, paths...)
	if err != nil {
		fmt.Fprintln(os.Stderr, "load:", err)
		os.Exit(1)
	}
	out := map[string]*packages.Package{}
	for _, p := range pkgs {
		if len(p.Errors) > 0 {
			fmt.Fprintln(os.Stderr, "load errors:", p.Errors)
			os.Exit(1)
		}
		out[strings.TrimPrefix(p.PkgPath, hwBase)] = p
	}
	return out
}

// hwFunc finds a function or method (recv = "" for functions; receiver type name otherwise).
func hwFunc(p *packages.Package, recv, name string) *ast.FuncDecl {
	for _, f := range p.Syntax {
		for _, d := range f.Decls {
			fd, ok := d.(*ast.FuncDecl)
			if !ok || fd.Name.Name != name {
				continue
			}
			if recv == "" {
				if fd.Recv == nil {
					return fd
				}
				continue
			}
			if fd.Recv == nil || len(fd.Recv.List) != 1 {
				continue
			}
			ty := fd.Recv.List[0].Type
			if st, ok := ty.(*ast.StarExpr); ok {
				ty = st.X
			}
			if id, ok := ty.(*ast.Ident); ok && id.Name == recv {
				return fd
			}
		}
	}
	return nil
}

// ---------------------------------------------------------------- byte-list literals

func hwLeanBytes(s string) string {
	parts := make([]string, len(s))
	for i := 0; i < len(s); i++ {
		parts[i] = fmt.Sprint(s[i])
	}
	return "[" + strings.Join(parts, ", ") + "]"
}

// ---------------------------------------------------------------- (1) semantic translation

// hwBlock translates a statement block over one mutable state.
type hwBlock struct {
	x  *hw
	p  *packages.Package
	fn *ast.FuncDecl
	// kind of the state: "req" (*http.Request -> Req), "shot" (*http.Request as BaseGun.Shoot sees it -> Shot), "hdr" (http.Header -> Hdr)
	kind string
	// the Go object that IS the state (the request pointer or the header map)
	state types.Object
	// Go objects of plain variables -> Lean names
	vars map[types.Object]string
	// selector paths rooted at the receiver -> Lean names (Shoot: b.Config.SSL -> ssl …)
	recvPaths map[string]string
	recv      types.Object
}

func (b *hwBlock) obj(id *ast.Ident) types.Object {
	if o := b.p.TypesInfo.Uses[id]; o != nil {
		return o
	}
	return b.p.TypesInfo.Defs[id]
}

// selPath renders a.b.c when the root is an identifier
func hwSelPath(e ast.Expr) (root *ast.Ident, path string) {
	switch v := e.(type) {
	case *ast.Ident:
		return v, ""
	case *ast.SelectorExpr:
		r, p := hwSelPath(v.X)
		if r == nil {
			return nil, ""
		}
		if p == "" {
			return r, v.Sel.Name
		}
		return r, p + "." + v.Sel.Name
	case *ast.ParenExpr:
		return hwSelPath(v.X)
	}
	return nil, ""
}

// isState: expression denotes the state object itself (hdr) / a field path of it (req, shot)
func (b *hwBlock) statePath(e ast.Expr) (string, bool) {
	root, path := hwSelPath(e)
	if root == nil || b.obj(root) != b.state {
		return "", false
	}
	return path, true
}

// mapExpr: Lean term of the header map an expression denotes
func (b *hwBlock) mapExpr(e ast.Expr) (string, bool) {
	path, ok := b.statePath(e)
	if !ok {
		return "", false
	}
	switch {
	case b.kind == "hdr" && path == "":
		return "st", true
	case (b.kind == "req" || b.kind == "shot") && path == "Header":
		return "st.header", true
	}
	return "", false
}

func (b *hwBlock) storeMap(e ast.Expr, newMap string) (string, bool) {
	path, ok := b.statePath(e)
	if !ok {
		return "", false
	}
	switch {
	case b.kind == "hdr" && path == "":
		return newMap, true
	case (b.kind == "req" || b.kind == "shot") && path == "Header":
		return "{ st with header := " + newMap + " }", true
	}
	return "", false
}

func hwIsCanonCall(p *packages.Package, c *ast.CallExpr) bool {
	sel, ok := c.Fun.(*ast.SelectorExpr)
	if !ok {
		return false
	}
	id, ok := sel.X.(*ast.Ident)
	if !ok {
		return false
	}
	pn, ok := p.TypesInfo.Uses[id].(*types.PkgName)
	if !ok {
		return false
	}
	full := pn.Imported().Path() + "." + sel.Sel.Name
	return full == "net/textproto.CanonicalMIMEHeaderKey" || full == "net/http.CanonicalHeaderKey"
}

// strExpr: a string-valued (or []string-valued) expression as a Lean term; partial `vs[0]` is reported through idx0
func (b *hwBlock) strExpr(e ast.Expr) (term string, idx0 string) {
	info := b.p.TypesInfo
	if tv, ok := info.Types[e]; ok && tv.Value != nil && tv.Value.Kind() == constant.String {
		return hwLeanBytes(constant.StringVal(tv.Value)), ""
	}
	switch v := e.(type) {
	case *ast.ParenExpr:
		return b.strExpr(v.X)
	case *ast.Ident:
		if n, ok := b.vars[b.obj(v)]; ok {
			return n, ""
		}
	case *ast.SelectorExpr:
		if path, ok := b.statePath(v); ok {
			switch path {
			case "Host":
				return "st.host", ""
			case "URL.Host":
				if b.kind == "shot" {
					return "st.dial", ""
				}
			}
		}
		if root, path := hwSelPath(v); root != nil && b.recv != nil && b.obj(root) == b.recv {
			if n, ok := b.recvPaths[path]; ok {
				return n, ""
			}
		}
	case *ast.IndexExpr:
		// vs[0]
		if tv, ok := info.Types[v.Index]; ok && tv.Value != nil && tv.Value.ExactString() == "0" {
			if id, ok := v.X.(*ast.Ident); ok {
				if n, ok := b.vars[b.obj(id)]; ok {
					return "v0", n
				}
			}
		}
	case *ast.CallExpr:
		if hwIsCanonCall(b.p, v) && len(v.Args) == 1 {
			a, i := b.strExpr(v.Args[0])
			return "(canon " + a + ")", i
		}
		if id, ok := v.Fun.(*ast.Ident); ok && id.Name == "getHostWithoutPort" && len(v.Args) == 1 {
			if _, isFunc := b.obj(id).(*types.Func); isFunc {
				a, i := b.strExpr(v.Args[0])
				return "(hostWithoutPort " + a + ")", i
			}
		}
		// append([]string(nil), vv...)  : a copy
		if id, ok := v.Fun.(*ast.Ident); ok && id.Name == "append" && len(v.Args) == 2 && v.Ellipsis.IsValid() {
			if hwSrc(b.p, v.Args[0]) == "[]string(nil)" {
				return b.strExpr(v.Args[1])
			}
		}
	}
	return b.x.failf(b.p, e, "expression %s", hwSrc(b.p, e)), ""
}

func (b *hwBlock) cond(e ast.Expr) string {
	switch v := e.(type) {
	case *ast.ParenExpr:
		return b.cond(v.X)
	case *ast.BinaryExpr:
		switch v.Op {
		case token.EQL, token.NEQ:
			l, i1 := b.strExpr(v.X)
			r, i2 := b.strExpr(v.Y)
			if i1 != "" || i2 != "" {
				return b.x.failf(b.p, e, "index in condition")
			}
			if v.Op == token.EQL {
				return "(" + l + " = " + r + ")"
			}
			return "(" + l + " ≠ " + r + ")"
		}
	case *ast.SelectorExpr:
		if root, path := hwSelPath(v); root != nil && b.recv != nil && b.obj(root) == b.recv {
			if n, ok := b.recvPaths[path]; ok {
				return "(" + n + " = true)"
			}
		}
	case *ast.UnaryExpr:
		// round 6: `!c` (a guard written the other way round)
		if v.Op == token.NOT {
			return "(¬ " + b.cond(v.X) + ")"
		}
	}
	return b.x.failf(b.p, e, "condition %s", hwSrc(b.p, e))
}

// stmts: Lean term of type Option State for the statement list followed by `some st`
func (b *hwBlock) stmts(list []ast.Stmt, ind string) string {
	if len(list) == 0 {
		return ind + "some st"
	}
	s, rest := list[0], list[1:]
	info := b.p.TypesInfo
	switch v := s.(type) {
	case *ast.BranchStmt:
		// round 6: `continue` ends this round of the loop (the blocks translated here are loop bodies or straight-line code,
		// where Go itself refuses a `continue`)
		if v.Tok == token.CONTINUE && v.Label == nil {
			return ind + "some st"
		}
	case *ast.AssignStmt:
		// round 6: `local := <string expression>` introduces a plain variable
		if v.Tok == token.DEFINE && len(v.Lhs) == 1 && len(v.Rhs) == 1 {
			if id, ok := v.Lhs[0].(*ast.Ident); ok && id.Name != "_" {
				if o := b.p.TypesInfo.Defs[id]; o != nil {
					if bt, ok := o.Type().Underlying().(*types.Basic); ok && bt.Kind() == types.String {
						r, i := b.strExpr(v.Rhs[0])
						if i == "" {
							n := fmt.Sprintf("loc%d", len(b.vars))
							b.vars[o] = n
							return ind + "let " + n + " := " + r + "\n" + b.stmts(rest, ind)
						}
					}
				}
			}
		}
		if len(v.Lhs) != 1 || len(v.Rhs) != 1 || v.Tok != token.ASSIGN {
			break
		}
		// variable = canon(variable)
		if id, ok := v.Lhs[0].(*ast.Ident); ok {
			if n, ok := b.vars[b.obj(id)]; ok {
				r, i := b.strExpr(v.Rhs[0])
				if i != "" {
					break
				}
				return ind + "let " + n + " := " + r + "\n" + b.stmts(rest, ind)
			}
		}
		// M[k] = vs
		if ix, ok := v.Lhs[0].(*ast.IndexExpr); ok {
			if m, ok := b.mapExpr(ix.X); ok {
				k, i1 := b.strExpr(ix.Index)
				val, i2 := b.strExpr(v.Rhs[0])
				if i1 != "" || i2 != "" {
					break
				}
				upd, _ := b.storeMap(ix.X, "hput "+m+" "+k+" "+val)
				return ind + "let st := " + upd + "\n" + b.stmts(rest, ind)
			}
		}
		// req.Host = e ; req.URL.Host = e ; req.URL.Scheme = "lit"
		if path, ok := b.statePath(v.Lhs[0]); ok && (b.kind == "req" || b.kind == "shot") {
			field := ""
			switch {
			case path == "Host":
				field = "host"
			case path == "URL.Host" && b.kind == "shot":
				field = "dial"
			case path == "URL.Scheme" && b.kind == "shot":
				tv, ok := info.Types[v.Rhs[0]]
				if !ok || tv.Value == nil || tv.Value.Kind() != constant.String {
					return ind + b.x.failf(b.p, s, "scheme is not a literal")
				}
				switch constant.StringVal(tv.Value) {
				case "http":
					return ind + "let st := { st with scheme := Scheme.http }\n" + b.stmts(rest, ind)
				case "https":
					return ind + "let st := { st with scheme := Scheme.https }\n" + b.stmts(rest, ind)
				}
				return ind + b.x.failf(b.p, s, "scheme %s", tv.Value)
			}
			if field != "" {
				r, i := b.strExpr(v.Rhs[0])
				if i != "" {
					return ind + "match " + i + " with\n" + ind + "| [] => none\n" + ind + "| v0 :: _ =>\n" +
						ind + "  let st := { st with " + field + " := " + r + " }\n" + b.stmts(rest, ind+"  ")
				}
				return ind + "let st := { st with " + field + " := " + r + " }\n" + b.stmts(rest, ind)
			}
		}
	case *ast.ExprStmt:
		// M.Set(k, v)
		if call, ok := v.X.(*ast.CallExpr); ok {
			if sel, ok := call.Fun.(*ast.SelectorExpr); ok && sel.Sel.Name == "Set" && len(call.Args) == 2 {
				if m, ok := b.mapExpr(sel.X); ok {
					k, i1 := b.strExpr(call.Args[0])
					val, i2 := b.strExpr(call.Args[1])
					if i1 == "" && i2 == "" {
						upd, _ := b.storeMap(sel.X, "hset "+m+" "+k+" "+val)
						return ind + "let st := " + upd + "\n" + b.stmts(rest, ind)
					}
				}
			}
		}
	case *ast.IfStmt:
		var els []ast.Stmt
		if v.Else != nil {
			eb, ok := v.Else.(*ast.BlockStmt)
			if !ok {
				return ind + b.x.failf(b.p, s, "else-if")
			}
			els = eb.List
		}
		join := func(a []ast.Stmt) []ast.Stmt { return append(append([]ast.Stmt{}, a...), rest...) }
		if v.Init != nil {
			// if _, ok := M[k]; !ok { A }
			as, ok := v.Init.(*ast.AssignStmt)
			if !ok || as.Tok != token.DEFINE || len(as.Lhs) != 2 || len(as.Rhs) != 1 || v.Else != nil {
				return ind + b.x.failf(b.p, s, "if-init shape")
			}
			ix, ok := as.Rhs[0].(*ast.IndexExpr)
			blank, ok2 := as.Lhs[0].(*ast.Ident)
			okId, ok3 := as.Lhs[1].(*ast.Ident)
			if !ok || !ok2 || !ok3 || blank.Name != "_" {
				return ind + b.x.failf(b.p, s, "if-init shape")
			}
			// `!ok` (the body runs when the key is absent) or, round 6, `ok` (the body runs when it is present)
			positive := false
			condX := v.Cond
			if un, isNot := v.Cond.(*ast.UnaryExpr); isNot && un.Op == token.NOT {
				condX = un.X
			} else {
				positive = true
			}
			if cid, ok := condX.(*ast.Ident); !ok || b.obj(cid) != b.obj(okId) {
				return ind + b.x.failf(b.p, s, "if-init condition")
			}
			m, ok := b.mapExpr(ix.X)
			if !ok {
				return ind + b.x.failf(b.p, s, "lookup in %s", hwSrc(b.p, ix.X))
			}
			k, i := b.strExpr(ix.Index)
			if i != "" {
				return ind + b.x.failf(b.p, s, "index key")
			}
			if positive {
				return ind + "match hget " + m + " " + k + " with\n" +
					ind + "| some _ =>\n" + b.stmts(join(v.Body.List), ind+"  ") + "\n" +
					ind + "| none =>\n" + b.stmts(rest, ind+"  ")
			}
			return ind + "match hget " + m + " " + k + " with\n" +
				ind + "| some _ =>\n" + b.stmts(rest, ind+"  ") + "\n" +
				ind + "| none =>\n" + b.stmts(join(v.Body.List), ind+"  ")
		}
		c := b.cond(v.Cond)
		return ind + "if " + c + " then\n" + b.stmts(join(v.Body.List), ind+"  ") + "\n" + ind + "else\n" + b.stmts(join(els), ind+"  ")
	}
	return ind + b.x.failf(b.p, s, "statement %s", hwSrc(b.p, s))
}

// ---------------------------------------------------------------- (2) shape descriptors

type hwDesc struct {
	x      *hw
	p      *packages.Package
	fn     *ast.FuncDecl
	labels map[types.Object]string // objects with a fixed label ("merged")
	depth  int
	// shallow: local variables are not resolved (used for the conditions that guard an assignment)
	shallow bool
	// variables whose definition is being described (a variable redefined from itself: `data = TrimSpace(data)`)
	busy map[types.Object]bool
}

func (d *hwDesc) obj(id *ast.Ident) types.Object {
	if o := d.p.TypesInfo.Uses[id]; o != nil {
		return o
	}
	return d.p.TypesInfo.Defs[id]
}

func (d *hwDesc) paramIndex(o types.Object) int {
	i := 0
	for _, f := range d.fn.Type.Params.List {
		for _, n := range f.Names {
			if d.p.TypesInfo.Defs[n] == o {
				return i
			}
			i++
		}
	}
	return -1
}

func (d *hwDesc) isRecv(o types.Object) bool {
	if d.fn.Recv == nil || len(d.fn.Recv.List) != 1 || len(d.fn.Recv.List[0].Names) != 1 {
		return false
	}
	return d.p.TypesInfo.Defs[d.fn.Recv.List[0].Names[0]] == o
}

func hwCallee(p *packages.Package, c *ast.CallExpr) string {
	switch f := c.Fun.(type) {
	case *ast.Ident:
		return f.Name
	case *ast.SelectorExpr:
		if id, ok := f.X.(*ast.Ident); ok {
			if pn, ok := p.TypesInfo.Uses[id].(*types.PkgName); ok {
				return pn.Imported().Name() + "." + f.Sel.Name
			}
		}
		return "." + f.Sel.Name
	case *ast.IndexExpr:
		return hwCallee(p, &ast.CallExpr{Fun: f.X})
	}
	return "?"
}

// definitions of a local variable inside the function: `x := e`, `a, x := f()`, `var x T`, later `x = e`
func (d *hwDesc) localDef(o types.Object) string {
	if d.busy == nil {
		d.busy = map[types.Object]bool{}
	}
	if d.busy[o] {
		return "self"
	}
	d.busy[o] = true
	defer delete(d.busy, o)
	var defs []string
	var walk func(n ast.Node, guard string)
	walk = func(n ast.Node, guard string) {
		switch v := n.(type) {
		case nil:
			return
		case *ast.BlockStmt:
			for _, s := range v.List {
				walk(s, guard)
			}
		case *ast.IfStmt:
			walk(v.Init, guard)
			was := d.shallow
			d.shallow = true
			c := d.desc(v.Cond)
			d.shallow = was
			walk(v.Body, "if("+c+")")
			if v.Else != nil {
				walk(v.Else, "else("+c+")")
			}
		case *ast.ForStmt:
			walk(v.Body, guard)
		case *ast.RangeStmt:
			walk(v.Body, guard)
		case *ast.DeclStmt:
			if gd, ok := v.Decl.(*ast.GenDecl); ok && gd.Tok == token.VAR {
				for _, sp := range gd.Specs {
					vs := sp.(*ast.ValueSpec)
					for i, n := range vs.Names {
						if d.p.TypesInfo.Defs[n] == o {
							if len(vs.Values) > i {
								defs = append(defs, d.desc(vs.Values[i]))
							} else {
								defs = append(defs, "zero")
							}
						}
					}
				}
			}
		case *ast.AssignStmt:
			for i, l := range v.Lhs {
				id, ok := l.(*ast.Ident)
				if !ok || d.obj(id) != o {
					continue
				}
				g := guard
				if d.p.TypesInfo.Defs[id] == o {
					g = "" // the definition itself: unconditional within its scope
				}
				if len(v.Rhs) == len(v.Lhs) {
					defs = append(defs, g+d.desc(v.Rhs[i]))
				} else if call, ok := v.Rhs[0].(*ast.CallExpr); ok {
					var args []string
					for _, a := range call.Args {
						args = append(args, d.desc(a))
					}
					defs = append(defs, fmt.Sprintf("%s%s(%s)#%d", g, hwCallee(d.p, call), strings.Join(args, ","), i))
				} else {
					// `v, ok := x.(T)`, `v, ok := <-ch`, `v, ok := m[k]`
					defs = append(defs, fmt.Sprintf("%s%s#%d", g, d.desc(v.Rhs[0]), i))
				}
			}
		}
	}
	walk(d.fn.Body, "")
	if len(defs) == 0 {
		return "undefined"
	}
	return strings.Join(defs, "|")
}

func (d *hwDesc) desc(e ast.Expr) string {
	d.depth++
	defer func() { d.depth-- }()
	if d.depth > 12 {
		return "…"
	}
	info := d.p.TypesInfo
	if tv, ok := info.Types[e]; ok && tv.Value != nil {
		switch tv.Value.Kind() {
		case constant.String:
			return fmt.Sprintf("lit:%q", constant.StringVal(tv.Value))
		default:
			return "lit:" + tv.Value.ExactString()
		}
	}
	switch v := e.(type) {
	case *ast.ParenExpr:
		return d.desc(v.X)
	case *ast.Ident:
		if v.Name == "nil" {
			return "nil"
		}
		o := d.obj(v)
		if l, ok := d.labels[o]; ok {
			return l
		}
		if d.isRecv(o) {
			return "recv"
		}
		if i := d.paramIndex(o); i >= 0 {
			return fmt.Sprintf("param%d", i)
		}
		if _, ok := o.(*types.Var); ok && o.Parent() != d.p.Types.Scope() {
			if d.shallow {
				return "local"
			}
			return d.localDef(o)
		}
		return v.Name
	case *ast.SelectorExpr:
		if id, ok := v.X.(*ast.Ident); ok {
			if pn, ok := info.Uses[id].(*types.PkgName); ok {
				return pn.Imported().Name() + "." + v.Sel.Name
			}
			// field of a local struct variable: name the struct type, not the variable
			o := d.obj(id)
			if _, isLabel := d.labels[o]; !isLabel && !d.isRecv(o) && d.paramIndex(o) < 0 {
				if vr, ok := o.(*types.Var); ok {
					if n, ok := vr.Type().(*types.Named); ok {
						if _, isStruct := n.Underlying().(*types.Struct); isStruct {
							return "(" + n.Obj().Name() + ")." + v.Sel.Name
						}
					}
				}
			}
		}
		return d.desc(v.X) + "." + v.Sel.Name
	case *ast.UnaryExpr:
		return v.Op.String() + d.desc(v.X)
	case *ast.StarExpr:
		return "*" + d.desc(v.X)
	case *ast.BinaryExpr:
		if v.Op == token.ADD {
			var parts []string
			var flat func(e ast.Expr)
			flat = func(e ast.Expr) {
				if b, ok := e.(*ast.BinaryExpr); ok && b.Op == token.ADD {
					flat(b.X)
					flat(b.Y)
					return
				}
				parts = append(parts, d.desc(e))
			}
			flat(v)
			return "concat(" + strings.Join(parts, ",") + ")"
		}
		return v.Op.String() + "(" + d.desc(v.X) + "," + d.desc(v.Y) + ")"
	case *ast.CallExpr:
		if tv, ok := info.Types[v.Fun]; ok && tv.IsType() && len(v.Args) == 1 {
			return "conv(" + d.desc(v.Args[0]) + ")"
		}
		if sel, ok := v.Fun.(*ast.SelectorExpr); ok && sel.Sel.Name == "Clone" && len(v.Args) == 0 {
			return "clone(" + d.desc(sel.X) + ")"
		}
		var args []string
		for _, a := range v.Args {
			args = append(args, d.desc(a))
		}
		name := hwCallee(d.p, v)
		if strings.HasPrefix(name, ".") {
			if sel, ok := v.Fun.(*ast.SelectorExpr); ok {
				name = d.desc(sel.X) + name
			}
		} else if id, ok := v.Fun.(*ast.Ident); ok {
			// a call through a parameter (NewBaseGun's clientConstructor)
			if i := d.paramIndex(d.obj(id)); i >= 0 {
				name = fmt.Sprintf("param%d", i)
			}
		}
		return name + "(" + strings.Join(args, ",") + ")"
	case *ast.IndexExpr:
		return d.desc(v.X) + "[" + d.desc(v.Index) + "]"
	case *ast.TypeAssertExpr:
		return d.desc(v.X) + ".(type)"
	case *ast.CompositeLit:
		name := "composite"
		if v.Type != nil {
			name += ":" + hwSrc(d.p, v.Type)
		}
		if len(v.Elts) > 0 && len(v.Elts) <= 2 {
			var el []string
			for _, e := range v.Elts {
				if _, keyed := e.(*ast.KeyValueExpr); keyed {
					el = nil
					break
				}
				el = append(el, d.desc(e))
			}
			if el != nil {
				name += "(" + strings.Join(el, ",") + ")"
			}
		}
		return name
	case *ast.FuncLit:
		return "func"
	}
	return "?" + reflect.TypeOf(e).String()
}

func hwStrList(l []string) string {
	q := make([]string, len(l))
	for i, s := range l {
		q[i] = fmt.Sprintf("%q", s)
	}
	return "[" + strings.Join(q, ", ") + "]"
}

// ---------------------------------------------------------------- the sites

func hwMentions(p *packages.Package, n ast.Node, o types.Object) bool {
	found := false
	ast.Inspect(n, func(m ast.Node) bool {
		if id, ok := m.(*ast.Ident); ok {
			if p.TypesInfo.Uses[id] == o || p.TypesInfo.Defs[id] == o {
				found = true
			}
		}
		return !found
	})
	return found
}

func (x *hw) enrich(out *strings.Builder) {
	p := x.pkgs["components/providers/http/util"]
	fd := hwFunc(p, "", "EnrichRequestWithHeaders")
	if fd == nil || len(fd.Type.Params.List) != 2 {
		x.failf(p, nil, "EnrichRequestWithHeaders not found")
		return
	}
	reqObj := p.TypesInfo.Defs[fd.Type.Params.List[0].Names[0]]
	hdrObj := p.TypesInfo.Defs[fd.Type.Params.List[1].Names[0]]
	if len(fd.Body.List) != 1 {
		x.failf(p, fd, "EnrichRequestWithHeaders: expected a single range statement, found %d statements", len(fd.Body.List))
		return
	}
	rs, ok := fd.Body.List[0].(*ast.RangeStmt)
	if !ok || rs.Tok != token.DEFINE {
		x.failf(p, fd, "EnrichRequestWithHeaders: not a range loop")
		return
	}
	if id, ok := rs.X.(*ast.Ident); !ok || p.TypesInfo.Uses[id] != hdrObj {
		x.failf(p, rs, "range over %s, expected the headers parameter", hwSrc(p, rs.X))
		return
	}
	k, ok1 := rs.Key.(*ast.Ident)
	v, ok2 := rs.Value.(*ast.Ident)
	if !ok1 || !ok2 {
		x.failf(p, rs, "range variables")
		return
	}
	b := &hwBlock{x: x, p: p, fn: fd, kind: "req", state: reqObj,
		vars: map[types.Object]string{p.TypesInfo.Defs[k]: "key", p.TypesInfo.Defs[v]: "values"}}
	out.WriteString("/-- regenerated from `components/providers/http/util/request.go` func `EnrichRequestWithHeaders`: the body of\n`for key, values := range headers` -/\n")
	out.WriteString("def enrichStep (st : Req) (key : Str) (values : List Str) : Option Req :=\n" + b.stmts(rs.Body.List, "  ") + "\n\n")
}

var hwShootOptional = []string{"DebugLog", "Config.AutoTag", "Config.AnswLog", "Config.HTTPTrace"}

func (x *hw) shoot(out *strings.Builder) {
	p := x.pkgs["components/guns/http"]
	fd := hwFunc(p, "BaseGun", "Shoot")
	if fd == nil {
		x.failf(p, nil, "BaseGun.Shoot not found")
		return
	}
	recv := p.TypesInfo.Defs[fd.Recv.List[0].Names[0]]
	var reqObj types.Object
	var picked []ast.Stmt
	skipped := map[string]bool{}
	done := false
	for _, s := range fd.Body.List {
		if reqObj == nil {
			// req, sample := ammo.Request()
			if as, ok := s.(*ast.AssignStmt); ok && as.Tok == token.DEFINE && len(as.Rhs) == 1 {
				if call, ok := as.Rhs[0].(*ast.CallExpr); ok && hwCallee(p, call) == ".Request" {
					reqObj = p.TypesInfo.Defs[as.Lhs[0].(*ast.Ident)]
				}
			}
			continue
		}
		if !hwMentions(p, s, reqObj) {
			continue
		}
		// the statement that hands the request to the client ends the section
		isDo := false
		ast.Inspect(s, func(n ast.Node) bool {
			if c, ok := n.(*ast.CallExpr); ok && hwCallee(p, c) == ".Do" {
				isDo = true
			}
			return true
		})
		if isDo {
			as, ok := s.(*ast.AssignStmt)
			if !ok || len(as.Rhs) != 1 {
				x.failf(p, s, "the Client.Do statement is not a plain assignment")
			} else if call, ok := as.Rhs[0].(*ast.CallExpr); !ok || len(call.Args) != 1 || hwSrc(p, call.Args[0]) != reqObj.Name() {
				x.failf(p, s, "Client.Do is not called with the request itself")
			}
			done = true
			break
		}
		if ifs, ok := s.(*ast.IfStmt); ok && ifs.Init == nil {
			c := ifs.Cond
			for {
				if be, ok := c.(*ast.BinaryExpr); ok && be.Op == token.LAND {
					c = be.X
					continue
				}
				break
			}
			if root, path := hwSelPath(c); root != nil && p.TypesInfo.Uses[root] == recv {
				opt := ""
				for _, o := range hwShootOptional {
					if path == o || strings.HasPrefix(path, o+".") {
						opt = o
					}
				}
				if opt != "" {
					skipped[opt] = true
					continue
				}
			}
		}
		picked = append(picked, s)
	}
	if reqObj == nil || !done {
		x.failf(p, fd, "BaseGun.Shoot: `req, sample := ammo.Request()` … `b.Client.Do(req)` not found")
		return
	}
	b := &hwBlock{x: x, p: p, fn: fd, kind: "shot", state: reqObj, vars: map[types.Object]string{}, recv: recv,
		recvPaths: map[string]string{"Config.SSL": "ssl", "Config.Target": "target", "Config.TargetResolved": "targetResolved"}}
	out.WriteString("/-- regenerated from `components/guns/http/base.go` method `(*BaseGun).Shoot`: every statement between\n`req, sample := ammo.Request()` and `b.Client.Do(req)` that mentions `req`, except the blocks guarded by the options in\n`shootSkipped` -/\n")
	out.WriteString("def shootRewrite (ssl : Bool) (target targetResolved : Str) (st : Shot) : Option Shot :=\n" + b.stmts(picked, "  ") + "\n\n")
	var sk []string
	for k := range skipped {
		sk = append(sk, k)
	}
	sort.Strings(sk)
	out.WriteString("/-- option-guarded blocks of Shoot that mention `req` and were not translated (all off by default) -/\n")
	out.WriteString("def shootSkipped : List String := " + hwStrList(sk) + "\n\n")
}

func (x *hw) hostWithoutPort(out *strings.Builder) {
	p := x.pkgs["components/guns/http"]
	fd := hwFunc(p, "", "getHostWithoutPort")
	if fd != nil && hwHostWithoutPortEarlyReturn(p, fd) {
		out.WriteString("/-- regenerated from `components/guns/http/client.go` func `getHostWithoutPort` (early-return form); `split` = net.SplitHostPort's host,\n`none` when it returns an error -/\n")
		out.WriteString("def getHostWithoutPort (target : Str) (split : Option Str) : Str :=\n  match split with\n  | none => target\n  | some host => host\n\n")
		return
	}
	if fd == nil || len(fd.Body.List) != 3 {
		x.failf(p, fd, "getHostWithoutPort: expected 3 statements")
		return
	}
	want := []string{"host, _, err := net.SplitHostPort(%s)", "if err != nil { host = %s }", "return host"}
	param := fd.Type.Params.List[0].Names[0].Name
	// shape check independent of the variable names: rename through the objects
	as, ok := fd.Body.List[0].(*ast.AssignStmt)
	if !ok || len(as.Lhs) != 3 || len(as.Rhs) != 1 {
		x.failf(p, fd, "getHostWithoutPort: first statement")
		return
	}
	call, ok := as.Rhs[0].(*ast.CallExpr)
	if !ok || hwCallee(p, call) != "net.SplitHostPort" || len(call.Args) != 1 || hwSrc(p, call.Args[0]) != param {
		x.failf(p, as, "getHostWithoutPort: not net.SplitHostPort(%s)", param)
		return
	}
	host, errv := hwSrc(p, as.Lhs[0]), hwSrc(p, as.Lhs[2])
	got := []string{hwSrc(p, fd.Body.List[0]), hwSrc(p, fd.Body.List[1]), hwSrc(p, fd.Body.List[2])}
	exp := []string{
		fmt.Sprintf(strings.NewReplacer("host", host, "err", errv).Replace(want[0]), param),
		fmt.Sprintf(strings.NewReplacer("host", host, "err", errv).Replace(want[1]), param),
		strings.NewReplacer("host", host).Replace(want[2]),
	}
	for i := range got {
		if got[i] != exp[i] {
			x.failf(p, fd.Body.List[i], "getHostWithoutPort: statement %d is `%s`, expected `%s`", i, got[i], exp[i])
			return
		}
	}
	out.WriteString("/-- regenerated from `components/guns/http/client.go` func `getHostWithoutPort`; `split` = net.SplitHostPort's host,\n`none` when it returns an error -/\n")
	out.WriteString("def getHostWithoutPort (target : Str) (split : Option Str) : Str :=\n  match split with\n  | some host => host\n  | none => target\n\n")
}

// hwHostWithoutPortEarlyReturn (round 6): `h, _, e := net.SplitHostPort(t); if e != nil { return t }; return h`
func hwHostWithoutPortEarlyReturn(p *packages.Package, fd *ast.FuncDecl) bool {
	if len(fd.Body.List) != 3 || len(fd.Type.Params.List) != 1 || len(fd.Type.Params.List[0].Names) != 1 {
		return false
	}
	param := p.TypesInfo.Defs[fd.Type.Params.List[0].Names[0]]
	as, ok := fd.Body.List[0].(*ast.AssignStmt)
	if !ok || as.Tok != token.DEFINE || len(as.Lhs) != 3 || len(as.Rhs) != 1 {
		return false
	}
	call, ok := as.Rhs[0].(*ast.CallExpr)
	if !ok || hwCallee(p, call) != "net.SplitHostPort" || len(call.Args) != 1 {
		return false
	}
	if id, ok := call.Args[0].(*ast.Ident); !ok || p.TypesInfo.Uses[id] != param {
		return false
	}
	hostID, ok1 := as.Lhs[0].(*ast.Ident)
	errID, ok2 := as.Lhs[2].(*ast.Ident)
	if !ok1 || !ok2 {
		return false
	}
	ifs, ok := fd.Body.List[1].(*ast.IfStmt)
	if !ok || ifs.Init != nil || ifs.Else != nil || len(ifs.Body.List) != 1 {
		return false
	}
	be, ok := ifs.Cond.(*ast.BinaryExpr)
	if !ok || be.Op != token.NEQ {
		return false
	}
	if l, ok := be.X.(*ast.Ident); !ok || p.TypesInfo.Uses[l] != p.TypesInfo.Defs[errID] {
		return false
	}
	if r, ok := be.Y.(*ast.Ident); !ok || r.Name != "nil" {
		return false
	}
	ret, ok := ifs.Body.List[0].(*ast.ReturnStmt)
	if !ok || len(ret.Results) != 1 {
		return false
	}
	if id, ok := ret.Results[0].(*ast.Ident); !ok || p.TypesInfo.Uses[id] != param {
		return false
	}
	last, ok := fd.Body.List[2].(*ast.ReturnStmt)
	if !ok || len(last.Results) != 1 {
		return false
	}
	id, ok := last.Results[0].(*ast.Ident)
	return ok && p.TypesInfo.Uses[id] == p.TypesInfo.Defs[hostID]
}

func (x *hw) preResolve(out *strings.Builder) {
	p := x.pkgs["components/guns/http"]
	fd := hwFunc(p, "", "PreResolveTargetAddr")
	if fd == nil || len(fd.Type.Params.List) != 2 {
		x.failf(p, nil, "PreResolveTargetAddr not found")
		return
	}
	conf := p.TypesInfo.Defs[fd.Type.Params.List[0].Names[0]]
	target := p.TypesInfo.Defs[fd.Type.Params.List[1].Names[0]]
	isDNS := func(e ast.Expr) bool {
		root, path := hwSelPath(e)
		return root != nil && p.TypesInfo.Uses[root] == conf && path == "Dialer.DNSCache"
	}
	var resolved types.Object
	var errObj types.Object
	var tr func(list []ast.Stmt, ind string) string
	ret := func(r *ast.ReturnStmt, ind string) string {
		if len(r.Results) != 2 {
			return ind + x.failf(p, r, "return arity")
		}
		id, ok := r.Results[0].(*ast.Ident)
		if !ok {
			return ind + x.failf(p, r, "returned address")
		}
		switch p.TypesInfo.Uses[id] {
		case target:
			return ind + "(target, dns)"
		case resolved:
			if resolved != nil {
				return ind + "(resolved, dns)"
			}
		}
		return ind + x.failf(p, r, "returned address %s", id.Name)
	}
	tr = func(list []ast.Stmt, ind string) string {
		if len(list) == 0 {
			return ind + x.failf(p, fd, "falls off the end")
		}
		s, rest := list[0], list[1:]
		switch v := s.(type) {
		case *ast.ReturnStmt:
			return ret(v, ind)
		case *ast.ExprStmt:
			// logging
			if c, ok := v.X.(*ast.CallExpr); ok && strings.HasPrefix(hwSrc(p, c), "zap.L().") {
				return tr(rest, ind)
			}
		case *ast.AssignStmt:
			if len(v.Lhs) == 1 && len(v.Rhs) == 1 && v.Tok == token.ASSIGN && isDNS(v.Lhs[0]) {
				switch hwSrc(p, v.Rhs[0]) {
				case "false":
					return ind + "let dns := false\n" + tr(rest, ind)
				case "true":
					return ind + "let dns := true\n" + tr(rest, ind)
				}
			}
			if len(v.Lhs) == 2 && len(v.Rhs) == 1 && v.Tok == token.DEFINE {
				if c, ok := v.Rhs[0].(*ast.CallExpr); ok && hwCallee(p, c) == "netutil.LookupReachable" && len(c.Args) == 2 {
					if id, ok := c.Args[0].(*ast.Ident); ok && p.TypesInfo.Uses[id] == target {
						resolved = p.TypesInfo.Defs[v.Lhs[0].(*ast.Ident)]
						errObj = p.TypesInfo.Defs[v.Lhs[1].(*ast.Ident)]
						// the next statement must be `if err != nil { … return }`
						if len(rest) > 0 {
							if ifs, ok := rest[0].(*ast.IfStmt); ok && ifs.Init == nil && ifs.Else == nil {
								if be, ok := ifs.Cond.(*ast.BinaryExpr); ok && be.Op == token.NEQ && hwSrc(p, be.Y) == "nil" {
									if id, ok := be.X.(*ast.Ident); ok && p.TypesInfo.Uses[id] == errObj {
										return ind + "match l with\n" + ind + "| Lookup.fails =>\n" + tr(ifs.Body.List, ind+"  ") + "\n" +
											ind + "| Lookup.found resolved =>\n" + tr(rest[1:], ind+"  ")
									}
								}
							}
						}
					}
				}
			}
		case *ast.IfStmt:
			if v.Init == nil && v.Else == nil {
				c := ""
				if un, ok := v.Cond.(*ast.UnaryExpr); ok && un.Op == token.NOT && isDNS(un.X) {
					c = "dns = false"
				} else if call, ok := v.Cond.(*ast.CallExpr); ok && hwCallee(p, call) == "endpointIsResolved" && len(call.Args) == 1 {
					if id, ok := call.Args[0].(*ast.Ident); ok && p.TypesInfo.Uses[id] == target {
						c = "isResolved = true"
					}
				}
				if c != "" {
					if _, ok := v.Body.List[len(v.Body.List)-1].(*ast.ReturnStmt); ok {
						return ind + "if " + c + " then\n" + tr(v.Body.List, ind+"  ") + "\n" + ind + "else\n" + tr(rest, ind+"  ")
					}
				}
			}
		}
		return ind + x.failf(p, s, "PreResolveTargetAddr statement %s", hwSrc(p, s))
	}
	body := tr(fd.Body.List, "  ")
	out.WriteString("/-- regenerated from `components/guns/http/base.go` func `PreResolveTargetAddr`: (address returned, Dialer.DNSCache afterwards);\n`dns` = clientConf.Dialer.DNSCache, `isResolved` = endpointIsResolved(target), `l` = outcome of netutil.LookupReachable(target) -/\n")
	out.WriteString("def preResolve (dns isResolved : Bool) (l : Lookup) (target : Str) : Str × Bool :=\n" + body + "\n\n")
}

// mergeSite: a decoder function with `header := <base>`, a range loop that merges into it, and a `.Setup(...)` call
func (x *hw) mergeSite(out *strings.Builder, file, recvT, fn, prefix string, rangeOver string) {
	p := x.pkgs["components/providers/http/decoders"]
	fd := hwFunc(p, recvT, fn)
	if fd == nil {
		x.failf(p, nil, "%s.%s not found", recvT, fn)
		return
	}
	// the range loops over the wanted source, in source order
	var loops []*ast.RangeStmt
	ast.Inspect(fd.Body, func(n ast.Node) bool {
		if rs, ok := n.(*ast.RangeStmt); ok {
			if sel, ok := rs.X.(*ast.SelectorExpr); ok && sel.Sel.Name == rangeOver {
				loops = append(loops, rs)
			}
		}
		return true
	})
	if len(loops) != 1 {
		x.failf(p, fd, "%s.%s: %d loops over .%s, expected 1", recvT, fn, len(loops), rangeOver)
		return
	}
	rs := loops[0]
	k, ok1 := rs.Key.(*ast.Ident)
	v, ok2 := rs.Value.(*ast.Ident)
	if !ok1 || !ok2 || rs.Tok != token.DEFINE {
		x.failf(p, rs, "range variables")
		return
	}
	// the state: the map written in the loop body
	var state types.Object
	ast.Inspect(rs.Body, func(n ast.Node) bool {
		var target ast.Expr
		switch s := n.(type) {
		case *ast.AssignStmt:
			if len(s.Lhs) == 1 {
				if ix, ok := s.Lhs[0].(*ast.IndexExpr); ok {
					target = ix.X
				}
			}
		case *ast.CallExpr:
			if sel, ok := s.Fun.(*ast.SelectorExpr); ok && (sel.Sel.Name == "Set" || sel.Sel.Name == "Add" || sel.Sel.Name == "Del") {
				target = sel.X
			}
		}
		if id, ok := target.(*ast.Ident); ok && state == nil {
			state = p.TypesInfo.Uses[id]
		}
		return true
	})
	if state == nil {
		x.failf(p, rs, "no header map is written in the loop")
		return
	}
	kv := "v"
	vt := "Str"
	if _, isSlice := p.TypesInfo.TypeOf(rs.Value).Underlying().(*types.Slice); isSlice {
		kv, vt = "vv", "List Str"
	}
	b := &hwBlock{x: x, p: p, fn: fd, kind: "hdr", state: state,
		vars: map[types.Object]string{p.TypesInfo.Defs[k]: "k", p.TypesInfo.Defs[v]: kv}}
	fmt.Fprintf(out, "/-- regenerated from `components/providers/http/decoders/%s` method `%s.%s`: the body of the loop over `.%s` -/\n", file, recvT, fn, rangeOver)
	fmt.Fprintf(out, "def %sMergeStep (st : Hdr) (k : Str) (%s : %s) : Option Hdr :=\n%s\n\n", prefix, kv, vt, b.stmts(rs.Body.List, "  "))

	d := &hwDesc{x: x, p: p, fn: fd, labels: map[types.Object]string{}}
	base := d.localDef(state)
	fmt.Fprintf(out, "/-- where the merged header map of `%s.%s` starts from -/\ndef %sBase : String := %q\n\n", recvT, fn, prefix, base)
	fmt.Fprintf(out, "/-- what the loop of `%s.%s` ranges over -/\ndef %sOver : String := %q\n\n", recvT, fn, prefix, d.desc(rs.X))
	d.labels[state] = "merged"
	// Setup calls after the loop
	var setups []string
	ast.Inspect(fd.Body, func(n ast.Node) bool {
		if c, ok := n.(*ast.CallExpr); ok && hwCallee(p, c) == ".Setup" && c.Pos() > rs.End() {
			var args []string
			for _, a := range c.Args {
				args = append(args, d.desc(a))
			}
			setups = append(setups, strings.Join(args, " ; "))
		}
		return true
	})
	if len(setups) != 1 {
		x.failf(p, fd, "%s.%s: %d Setup calls after the merge loop, expected 1", recvT, fn, len(setups))
		return
	}
	fmt.Fprintf(out, "/-- arguments of the `Setup(method, url, body, header, tag)` call of `%s.%s`, by origin -/\ndef %sSetup : List String := %s\n\n",
		recvT, fn, prefix, hwStrList(strings.Split(setups[0], " ; ")))
	// nothing else may touch the merged map between the loop and Setup
	var others []string
	ast.Inspect(fd.Body, func(n ast.Node) bool {
		if s, ok := n.(ast.Stmt); ok {
			if _, isBlock := s.(*ast.BlockStmt); isBlock {
				return true
			}
			switch s.(type) {
			case *ast.IfStmt, *ast.ForStmt, *ast.RangeStmt, *ast.SwitchStmt:
				return true
			}
			if s.Pos() > rs.End() && hwMentions(p, s, state) {
				isSetup := false
				ast.Inspect(s, func(m ast.Node) bool {
					if c, ok := m.(*ast.CallExpr); ok && hwCallee(p, c) == ".Setup" {
						isSetup = true
					}
					return true
				})
				if !isSetup {
					others = append(others, d.descStmt(s))
				}
			}
			return false
		}
		return true
	})
	fmt.Fprintf(out, "/-- other statements of `%s.%s` that touch the merged map after the loop -/\ndef %sOtherUses : List String := %s\n\n", recvT, fn, prefix, hwStrList(others))
}

func (d *hwDesc) descStmt(s ast.Stmt) string {
	switch v := s.(type) {
	case *ast.ExprStmt:
		return d.desc(v.X)
	case *ast.AssignStmt:
		var l, r []string
		for _, e := range v.Lhs {
			l = append(l, d.desc(e))
		}
		for _, e := range v.Rhs {
			r = append(r, d.desc(e))
		}
		return strings.Join(l, ",") + v.Tok.String() + strings.Join(r, ",")
	}
	return hwSrc(d.p, s)
}

// headerLine: the `[key: value]` branch of readLine/readBlock: what is stored into the common header
func (x *hw) headerLine(out *strings.Builder, recvT, fn, prefix string) {
	p := x.pkgs["components/providers/http/decoders"]
	fd := hwFunc(p, recvT, fn)
	if fd == nil {
		return
	}
	d := &hwDesc{x: x, p: p, fn: fd, labels: map[types.Object]string{}}
	var calls []string
	ast.Inspect(fd.Body, func(n ast.Node) bool {
		c, ok := n.(*ast.CallExpr)
		if !ok {
			return true
		}
		sel, ok := c.Fun.(*ast.SelectorExpr)
		if !ok {
			return true
		}
		id, ok := sel.X.(*ast.Ident)
		if !ok {
			return true
		}
		o := p.TypesInfo.Uses[id]
		if o == nil || d.paramIndex(o) < 0 {
			return true
		}
		if n, ok := o.Type().(*types.Named); !ok || n.Obj().Name() != "Header" {
			return true
		}
		calls = append(calls, d.desc(c))
		return true
	})
	fmt.Fprintf(out, "/-- calls on the common-header parameter of `%s.%s` -/\ndef %sCommonCalls : List String := %s\n\n", recvT, fn, prefix, hwStrList(calls))
}

func (x *hw) buildRequest(out *strings.Builder, typ, name string) {
	p := x.pkgs["components/providers/http/decoders/ammo"]
	fd := hwFunc(p, typ, "BuildRequest")
	if fd == nil {
		x.failf(p, nil, "%s.BuildRequest not found", typ)
		return
	}
	d := &hwDesc{x: x, p: p, fn: fd, labels: map[types.Object]string{}}
	// the request object: first result of the first := whose callee is NewRequest / DecodeRequest
	var reqObj types.Object
	var uses []string
	for _, s := range fd.Body.List {
		if reqObj == nil {
			if as, ok := s.(*ast.AssignStmt); ok && as.Tok == token.DEFINE && len(as.Rhs) == 1 && len(as.Lhs) == 2 {
				if c, ok := as.Rhs[0].(*ast.CallExpr); ok {
					n := hwCallee(p, c)
					if n == "http.NewRequest" || n == "raw.DecodeRequest" {
						reqObj = p.TypesInfo.Defs[as.Lhs[0].(*ast.Ident)]
						d.labels[reqObj] = "req"
						uses = append(uses, "req:="+d.desc(c))
						continue
					}
				}
			}
			continue
		}
		if !hwMentions(p, s, reqObj) {
			continue
		}
		switch v := s.(type) {
		case *ast.ReturnStmt:
			var r []string
			for _, e := range v.Results {
				r = append(r, d.desc(e))
			}
			uses = append(uses, "return "+strings.Join(r, ","))
		default:
			uses = append(uses, d.descStmt(s))
		}
	}
	if reqObj == nil {
		x.failf(p, fd, "%s.BuildRequest: no request constructor call", typ)
		return
	}
	fmt.Fprintf(out, "/-- regenerated from `components/providers/http/decoders/ammo` method `%s.BuildRequest`: the statements that make or\nmention the request, by origin -/\ndef %s : List String := %s\n\n", typ, name, hwStrList(uses))
}

func (x *hw) rawSites(out *strings.Builder) {
	// RawAmmo.Setup: what is stored as commonHeaders
	p := x.pkgs["components/providers/http/decoders/ammo"]
	fd := hwFunc(p, "RawAmmo", "Setup")
	if fd == nil {
		x.failf(p, nil, "RawAmmo.Setup not found")
		return
	}
	d := &hwDesc{x: x, p: p, fn: fd, labels: map[types.Object]string{}}
	store := "missing"
	for _, s := range fd.Body.List {
		if as, ok := s.(*ast.AssignStmt); ok && len(as.Lhs) == 1 && len(as.Rhs) == 1 {
			if sel, ok := as.Lhs[0].(*ast.SelectorExpr); ok && sel.Sel.Name == "commonHeaders" {
				store = d.desc(as.Rhs[0])
			}
		}
	}
	fmt.Fprintf(out, "/-- `RawAmmo.Setup(buff, tag, filePosition, header)`: what becomes `commonHeaders` -/\ndef rawSetupStore : String := %q\n\n", store)
	// rawDecoder.Scan: the header argument of every a.Setup call
	p2 := x.pkgs["components/providers/http/decoders"]
	fd2 := hwFunc(p2, "rawDecoder", "Scan")
	if fd2 == nil {
		x.failf(p2, nil, "rawDecoder.Scan not found")
		return
	}
	d2 := &hwDesc{x: x, p: p2, fn: fd2, labels: map[types.Object]string{}}
	var hs []string
	ast.Inspect(fd2.Body, func(n ast.Node) bool {
		if c, ok := n.(*ast.CallExpr); ok && hwCallee(p2, c) == ".Setup" && len(c.Args) == 4 {
			hs = append(hs, d2.desc(c.Args[0])+" ; "+d2.desc(c.Args[3]))
		}
		return true
	})
	fmt.Fprintf(out, "/-- `rawDecoder.Scan`: (request bytes ; header) arguments of every `RawAmmo.Setup` call -/\ndef rawSetupCalls : List String := %s\n\n", hwStrList(hs))
}

func (x *hw) decodeRequest(out *strings.Builder) {
	p := x.pkgs["components/providers/http/decoders/raw"]
	fd := hwFunc(p, "", "DecodeRequest")
	if fd == nil {
		x.failf(p, nil, "raw.DecodeRequest not found")
		return
	}
	var reqObj types.Object
	if fd.Type.Results != nil && len(fd.Type.Results.List) > 0 && len(fd.Type.Results.List[0].Names) > 0 {
		reqObj = p.TypesInfo.Defs[fd.Type.Results.List[0].Names[0]]
	}
	if reqObj == nil {
		x.failf(p, fd, "DecodeRequest: named result req expected")
		return
	}
	isReqField := func(e ast.Expr, f string) bool {
		root, path := hwSelPath(e)
		return root != nil && p.TypesInfo.Uses[root] == reqObj && path == f
	}
	closeExpr := "readClose"
	var touches []string
	sawRead := false
	var closeRule func(list []ast.Stmt, guard string)
	closeRule = func(list []ast.Stmt, guard string) {
		for _, s := range list {
			if !hwMentions(p, s, reqObj) {
				continue
			}
			switch v := s.(type) {
			case *ast.AssignStmt:
				if len(v.Rhs) == 1 {
					if c, ok := v.Rhs[0].(*ast.CallExpr); ok && hwCallee(p, c) == "http.ReadRequest" {
						sawRead = true
						continue
					}
				}
				if len(v.Lhs) == 1 && len(v.Rhs) == 1 && v.Tok == token.ASSIGN {
					if isReqField(v.Lhs[0], "RequestURI") && hwSrc(p, v.Rhs[0]) == `""` && guard == "" {
						touches = append(touches, "RequestURI=\"\"")
						continue
					}
					if isReqField(v.Lhs[0], "Close") {
						rhs := ""
						if c, ok := v.Rhs[0].(*ast.CallExpr); ok && hwCallee(p, c) == "httpguts.HeaderValuesContainsToken" && len(c.Args) == 2 {
							if ix, ok := c.Args[0].(*ast.IndexExpr); ok && isReqField(ix.X, "Header") && hwSrc(p, ix.Index) == `"Connection"` && hwSrc(p, c.Args[1]) == `"close"` {
								rhs = "hasCloseTok"
							}
						} else if hwSrc(p, v.Rhs[0]) == "false" {
							rhs = "false"
						}
						if rhs == "" {
							x.failf(p, s, "req.Close = %s", hwSrc(p, v.Rhs[0]))
							continue
						}
						if guard == "" {
							closeExpr = rhs
						} else {
							closeExpr = "if " + guard + " then " + rhs + " else (" + closeExpr + ")"
						}
						continue
					}
				}
			case *ast.IfStmt:
				// if err != nil { return }
				if hwSrc(p, v.Cond) == "err != nil" && v.Else == nil {
					continue
				}
				// if req.ProtoMajor == 1 && req.ProtoMinor == 0 { … }
				if v.Init == nil && v.Else == nil && guard == "" {
					g := x.protoCond(p, v.Cond, reqObj)
					if g != "" {
						closeRule(v.Body.List, g)
						continue
					}
				}
			case *ast.ReturnStmt:
				continue
			}
			x.failf(p, s, "DecodeRequest touches req: %s", hwSrc(p, s))
		}
	}
	closeRule(fd.Body.List, "")
	if !sawRead {
		x.failf(p, fd, "DecodeRequest: http.ReadRequest call not found")
	}
	out.WriteString("/-- regenerated from `components/providers/http/decoders/raw/decoder.go` func `DecodeRequest`: `req.Close` after the function, in\nterms of what http.ReadRequest stored (`readClose`) and of `httpguts.HeaderValuesContainsToken(req.Header[\"Connection\"], \"close\")` -/\n")
	out.WriteString("def decodeRequestClose (major minor : Nat) (readClose hasCloseTok : Bool) : Bool :=\n  " + closeExpr + "\n\n")
	out.WriteString("/-- other fields of the request `DecodeRequest` assigns -/\ndef decodeRequestTouches : List String := " + hwStrList(touches) + "\n\n")
}

func (x *hw) protoCond(p *packages.Package, e ast.Expr, req types.Object) string {
	switch v := e.(type) {
	case *ast.ParenExpr:
		return x.protoCond(p, v.X, req)
	case *ast.BinaryExpr:
		switch v.Op {
		case token.LAND:
			l, r := x.protoCond(p, v.X, req), x.protoCond(p, v.Y, req)
			if l == "" || r == "" {
				return ""
			}
			return l + " ∧ " + r
		case token.EQL:
			root, path := hwSelPath(v.X)
			tv, ok := p.TypesInfo.Types[v.Y]
			if root == nil || p.TypesInfo.Uses[root] != req || !ok || tv.Value == nil {
				return ""
			}
			switch path {
			case "ProtoMajor":
				return "major = " + tv.Value.ExactString()
			case "ProtoMinor":
				return "minor = " + tv.Value.ExactString()
			}
		}
	}
	return ""
}

func (x *hw) transport(out *strings.Builder) {
	p := x.pkgs["components/guns/http"]
	// NewTransport: DisableKeepAlives comes from the TransportConfig parameter
	fd := hwFunc(p, "", "NewTransport")
	if fd == nil {
		x.failf(p, nil, "NewTransport not found")
		return
	}
	d := &hwDesc{x: x, p: p, fn: fd, labels: map[types.Object]string{}}
	val := "absent"
	ast.Inspect(fd.Body, func(n ast.Node) bool {
		if cl, ok := n.(*ast.CompositeLit); ok && hwSrc(p, cl.Type) == "http.Transport" {
			for _, el := range cl.Elts {
				if kv, ok := el.(*ast.KeyValueExpr); ok && hwSrc(p, kv.Key) == "DisableKeepAlives" {
					val = d.desc(kv.Value)
				}
			}
		}
		return true
	})
	// later assignments to tr.DisableKeepAlives
	ast.Inspect(fd.Body, func(n ast.Node) bool {
		if as, ok := n.(*ast.AssignStmt); ok {
			for i, l := range as.Lhs {
				if sel, ok := l.(*ast.SelectorExpr); ok && sel.Sel.Name == "DisableKeepAlives" && i < len(as.Rhs) {
					val += "|" + d.desc(as.Rhs[i])
				}
			}
		}
		return true
	})
	fmt.Fprintf(out, "/-- `NewTransport(conf, dial, target)`: where http.Transport.DisableKeepAlives comes from -/\ndef transportDisableKeepAlives : String := %q\n\n", val)
	// DefaultTransportConfig: DisableKeepAlives
	fd2 := hwFunc(p, "", "DefaultTransportConfig")
	def := "false"
	if fd2 == nil {
		x.failf(p, nil, "DefaultTransportConfig not found")
	} else {
		ast.Inspect(fd2.Body, func(n ast.Node) bool {
			if kv, ok := n.(*ast.KeyValueExpr); ok && hwSrc(p, kv.Key) == "DisableKeepAlives" {
				def = hwSrc(p, kv.Value)
			}
			return true
		})
	}
	if def != "true" && def != "false" {
		x.failf(p, fd2, "DefaultTransportConfig.DisableKeepAlives = %s", def)
		def = "false"
	}
	fmt.Fprintf(out, "/-- `DefaultTransportConfig().DisableKeepAlives` (keep-alives are enabled by default iff this is false) -/\ndef defaultDisableKeepAlives : Bool := %s\n\n", def)
	// config tag
	tag := "?"
	if o := p.Types.Scope().Lookup("TransportConfig"); o != nil {
		if st, ok := o.Type().Underlying().(*types.Struct); ok {
			for i := 0; i < st.NumFields(); i++ {
				if st.Field(i).Name() == "DisableKeepAlives" {
					tag = reflect.StructTag(st.Tag(i)).Get("config")
				}
			}
		}
	}
	fmt.Fprintf(out, "/-- config name of TransportConfig.DisableKeepAlives -/\ndef disableKeepAlivesOption : String := %q\n\n", tag)
	// NewBaseGun: the Client of the gun
	fd3 := hwFunc(p, "", "NewBaseGun")
	if fd3 == nil {
		x.failf(p, nil, "NewBaseGun not found")
		return
	}
	d3 := &hwDesc{x: x, p: p, fn: fd3, labels: map[types.Object]string{}}
	client := "absent"
	ast.Inspect(fd3.Body, func(n ast.Node) bool {
		if cl, ok := n.(*ast.CompositeLit); ok && hwSrc(p, cl.Type) == "BaseGun" {
			for _, el := range cl.Elts {
				if kv, ok := el.(*ast.KeyValueExpr); ok && hwSrc(p, kv.Key) == "Client" {
					client = d3.desc(kv.Value)
				}
			}
		}
		return true
	})
	fmt.Fprintf(out, "/-- `NewBaseGun(clientConstructor, cfg, answLog)`: the gun's Client — built by the constructor INSIDE NewBaseGun, so\nevery gun (instance) has a client (transport, connection pool) of its own -/\ndef baseGunClient : String := %q\n\n", client)
	// NewHTTP2Gun: ssl check first
	fd4 := hwFunc(p, "", "NewHTTP2Gun")
	needs := "false"
	if fd4 != nil && len(fd4.Body.List) > 0 {
		if ifs, ok := fd4.Body.List[0].(*ast.IfStmt); ok && ifs.Init == nil {
			if un, ok := ifs.Cond.(*ast.UnaryExpr); ok && un.Op == token.NOT {
				root, path := hwSelPath(un.X)
				if root != nil && path == "SSL" && p.TypesInfo.Uses[root] == p.TypesInfo.Defs[fd4.Type.Params.List[0].Names[0]] {
					if r, ok := ifs.Body.List[len(ifs.Body.List)-1].(*ast.ReturnStmt); ok && len(r.Results) == 2 && hwSrc(p, r.Results[0]) == "nil" && hwSrc(p, r.Results[1]) != "nil" {
						needs = "true"
					}
				}
			}
		}
	}
	fmt.Fprintf(out, "/-- `NewHTTP2Gun` starts with `if !cfg.SSL { return nil, error }` -/\ndef http2NeedsSSL : Bool := %s\n\n", needs)
}

// ---------------------------------------------------------------- round 2: the whole transport wiring

// hwTransportFields: Go field name (http.Transport and TransportConfig alike) -> field of Model.C09.Transport / TransportCfg
var hwTransportFields = map[string]string{
	"TLSHandshakeTimeout": "tlsHandshakeTimeout", "DisableKeepAlives": "disableKeepAlives", "DisableCompression": "disableCompression",
	"MaxIdleConns": "maxIdleConns", "MaxIdleConnsPerHost": "maxIdleConnsPerHost", "IdleConnTimeout": "idleConnTimeout",
	"ResponseHeaderTimeout": "responseHeaderTimeout", "ExpectContinueTimeout": "expectContinueTimeout",
}

var hwTransportBool = map[string]bool{"DisableKeepAlives": true, "DisableCompression": true}

func hwTransportFieldOrder() []string {
	var names []string
	for n := range hwTransportFields {
		names = append(names, n)
	}
	sort.Strings(names)
	return names
}

// hwCfgExpr: an expression over the TransportConfig parameter `conf` as a Lean term (Int or Bool)
func (x *hw) hwCfgExpr(p *packages.Package, e ast.Expr, conf types.Object) string {
	if tv, ok := p.TypesInfo.Types[e]; ok && tv.Value != nil {
		switch tv.Value.Kind() {
		case constant.Bool:
			return tv.Value.ExactString()
		case constant.Int:
			v := tv.Value.ExactString()
			if strings.HasPrefix(v, "-") {
				return "(" + v + ")"
			}
			return v
		}
	}
	switch v := e.(type) {
	case *ast.ParenExpr:
		return x.hwCfgExpr(p, v.X, conf)
	case *ast.SelectorExpr:
		if id, ok := v.X.(*ast.Ident); ok && p.TypesInfo.Uses[id] == conf {
			if f, ok := hwTransportFields[v.Sel.Name]; ok {
				return "conf." + f
			}
		}
	case *ast.UnaryExpr:
		switch v.Op {
		case token.NOT:
			return "(!" + x.hwCfgExpr(p, v.X, conf) + ")"
		case token.SUB:
			return "(-" + x.hwCfgExpr(p, v.X, conf) + ")"
		}
	case *ast.BinaryExpr:
		switch v.Op {
		case token.ADD, token.SUB, token.MUL:
			return "(" + x.hwCfgExpr(p, v.X, conf) + " " + v.Op.String() + " " + x.hwCfgExpr(p, v.Y, conf) + ")"
		}
	case *ast.CallExpr:
		// a conversion such as time.Duration(x)
		if tv, ok := p.TypesInfo.Types[v.Fun]; ok && tv.IsType() && len(v.Args) == 1 {
			return x.hwCfgExpr(p, v.Args[0], conf)
		}
	}
	return x.failf(p, e, "transport field value %s", hwSrc(p, e))
}

func (x *hw) transportWiring(out *strings.Builder) {
	p := x.pkgs["components/guns/http"]
	fd := hwFunc(p, "", "NewTransport")
	if fd == nil || len(fd.Type.Params.List) == 0 || len(fd.Type.Params.List[0].Names) == 0 {
		x.failf(p, nil, "NewTransport(conf, …) not found")
		return
	}
	conf := p.TypesInfo.Defs[fd.Type.Params.List[0].Names[0]]
	d := &hwDesc{x: x, p: p, fn: fd, labels: map[types.Object]string{}}
	vals := map[string]string{}
	var others []string
	var trObj types.Object
	nLit := 0
	for _, st := range fd.Body.List {
		as, ok := st.(*ast.AssignStmt)
		if !ok || len(as.Lhs) != 1 || len(as.Rhs) != 1 {
			continue
		}
		rhs := as.Rhs[0]
		if un, ok := rhs.(*ast.UnaryExpr); ok && un.Op == token.AND {
			rhs = un.X
		}
		if cl, ok := rhs.(*ast.CompositeLit); ok && hwSrc(p, cl.Type) == "http.Transport" {
			nLit++
			if id, ok := as.Lhs[0].(*ast.Ident); ok {
				trObj = p.TypesInfo.Defs[id]
				if trObj == nil {
					trObj = p.TypesInfo.Uses[id]
				}
			}
			for _, el := range cl.Elts {
				kv, ok := el.(*ast.KeyValueExpr)
				if !ok {
					x.failf(p, el, "positional http.Transport literal")
					continue
				}
				name := hwSrc(p, kv.Key)
				if _, known := hwTransportFields[name]; known {
					vals[name] = x.hwCfgExpr(p, kv.Value, conf)
				} else {
					others = append(others, name+"="+d.desc(kv.Value))
				}
			}
		}
	}
	if nLit != 1 || trObj == nil {
		x.failf(p, fd, "NewTransport: %d http.Transport literals assigned at top level, expected 1", nLit)
		return
	}
	// every other statement that writes through the transport variable
	var later []string
	ast.Inspect(fd.Body, func(n ast.Node) bool {
		as, ok := n.(*ast.AssignStmt)
		if !ok {
			return true
		}
		for i, l := range as.Lhs {
			root, path := hwSelPath(l)
			if root == nil || path == "" || p.TypesInfo.Uses[root] != trObj {
				continue
			}
			if _, known := hwTransportFields[path]; known {
				// a modelled field is rewritten: only as a plain top-level statement over conf
				top := false
				for _, st := range fd.Body.List {
					if st == ast.Stmt(as) {
						top = true
					}
				}
				if !top || len(as.Lhs) != len(as.Rhs) || as.Tok != token.ASSIGN {
					x.failf(p, as, "conditional or compound assignment to the transport's %s", path)
					continue
				}
				vals[path] = x.hwCfgExpr(p, as.Rhs[i], conf)
				continue
			}
			r := "?"
			if len(as.Lhs) == len(as.Rhs) {
				r = d.desc(as.Rhs[i])
			}
			later = append(later, path+"="+r)
		}
		return true
	})
	sort.Strings(others)
	sort.Strings(later)
	out.WriteString("/-- regenerated from `components/guns/http/client.go` func `NewTransport`: the fields of the http.Transport it returns, in terms\nof its TransportConfig parameter (a field the code leaves out keeps Go's zero value) -/\n")
	out.WriteString("def newTransport (conf : TransportCfg) : Transport :=\n  { ")
	var parts []string
	for _, name := range hwTransportFieldOrder() {
		v, ok := vals[name]
		if !ok {
			v = "0"
			if hwTransportBool[name] {
				v = "false"
			}
		}
		parts = append(parts, hwTransportFields[name]+" := "+v)
	}
	out.WriteString(strings.Join(parts, "\n    ") + " }\n\n")
	fmt.Fprintf(out, "/-- fields of NewTransport's http.Transport literal outside the model -/\ndef transportOtherFields : List String := %s\n\n", hwStrList(others))
	fmt.Fprintf(out, "/-- other fields of the transport NewTransport assigns after the literal, by origin -/\ndef transportLaterAssigns : List String := %s\n\n", hwStrList(later))

	// DefaultTransportConfig
	fd2 := hwFunc(p, "", "DefaultTransportConfig")
	defs := map[string]string{}
	var defOthers []string
	nDef := 0
	if fd2 == nil {
		x.failf(p, nil, "DefaultTransportConfig not found")
	} else {
		if len(fd2.Body.List) != 1 {
			x.failf(p, fd2, "DefaultTransportConfig: expected a single return statement")
		}
		ast.Inspect(fd2.Body, func(n ast.Node) bool {
			cl, ok := n.(*ast.CompositeLit)
			if !ok || hwSrc(p, cl.Type) != "TransportConfig" {
				return true
			}
			nDef++
			for _, el := range cl.Elts {
				kv, ok := el.(*ast.KeyValueExpr)
				if !ok {
					x.failf(p, el, "positional TransportConfig literal")
					continue
				}
				name := hwSrc(p, kv.Key)
				if _, known := hwTransportFields[name]; known {
					defs[name] = x.hwCfgExpr(p, kv.Value, nil)
				} else {
					defOthers = append(defOthers, name)
				}
			}
			return false
		})
		if nDef != 1 {
			x.failf(p, fd2, "DefaultTransportConfig: %d TransportConfig literals, expected 1", nDef)
		}
	}
	out.WriteString("/-- regenerated from `components/guns/http/client.go` func `DefaultTransportConfig` (durations in ns) -/\n")
	out.WriteString("def defaultTransportCfg : TransportCfg :=\n  { ")
	parts = nil
	for _, name := range hwTransportFieldOrder() {
		v, ok := defs[name]
		if !ok {
			v = "0"
			if hwTransportBool[name] {
				v = "false"
			}
		}
		parts = append(parts, hwTransportFields[name]+" := "+v)
	}
	out.WriteString(strings.Join(parts, "\n    ") + " }\n\n")
	sort.Strings(defOthers)
	fmt.Fprintf(out, "/-- fields DefaultTransportConfig sets that the model does not have -/\ndef defaultTransportOtherFields : List String := %s\n\n", hwStrList(defOthers))

	// config names of all TransportConfig fields, and how ClientConfig embeds it
	var tags []string
	if o := p.Types.Scope().Lookup("TransportConfig"); o != nil {
		if st, ok := o.Type().Underlying().(*types.Struct); ok {
			for i := 0; i < st.NumFields(); i++ {
				tags = append(tags, fmt.Sprintf("(%q, %q)", st.Field(i).Name(), reflect.StructTag(st.Tag(i)).Get("config")))
			}
		}
	}
	sort.Strings(tags)
	fmt.Fprintf(out, "/-- (Go field, `config:` name) of every field of TransportConfig, sorted -/\ndef transportTags : List (String × String) := [%s]\n\n", strings.Join(tags, ", "))
	embed := "?"
	if o := p.Types.Scope().Lookup("ClientConfig"); o != nil {
		if st, ok := o.Type().Underlying().(*types.Struct); ok {
			for i := 0; i < st.NumFields(); i++ {
				if n, ok := st.Field(i).Type().(*types.Named); ok && n.Obj().Name() == "TransportConfig" {
					embed = st.Field(i).Name() + ":" + reflect.StructTag(st.Tag(i)).Get("config")
				}
			}
		}
	}
	if o := p.Types.Scope().Lookup("GunConfig"); o != nil {
		if st, ok := o.Type().Underlying().(*types.Struct); ok {
			for i := 0; i < st.NumFields(); i++ {
				if n, ok := st.Field(i).Type().(*types.Named); ok && n.Obj().Name() == "ClientConfig" {
					embed += " in " + st.Field(i).Name() + ":" + reflect.StructTag(st.Tag(i)).Get("config")
				}
			}
		}
	}
	fmt.Fprintf(out, "/-- how the options reach the gun's config: TransportConfig inside ClientConfig inside GunConfig, with their `config:` tags\n(`,squash` = the options stand at the top level of the gun section) -/\ndef transportEmbedding : String := %q\n\n", embed)

	// which transport every client constructor builds, and from which part of its configuration
	var rows []string
	for _, name := range []string{"HTTP1ClientConstructor", "HTTP2ClientConstructor", "newConnectClientVia", "NewHTTP2Transport"} {
		f := hwFunc(p, "", name)
		if f == nil {
			x.failf(p, nil, "%s not found", name)
			continue
		}
		dd := &hwDesc{x: x, p: p, fn: f, labels: map[types.Object]string{}}
		var calls []string
		ast.Inspect(f.Body, func(n ast.Node) bool {
			if c, ok := n.(*ast.CallExpr); ok {
				switch hwCallee(p, c) {
				case "NewTransport", "NewHTTP2Transport":
					calls = append(calls, dd.desc(c))
				}
			}
			return true
		})
		rows = append(rows, name+": "+strings.Join(calls, " ; "))
	}
	fmt.Fprintf(out, "/-- the transport each client constructor builds: the TransportConfig handed to NewTransport is the gun's own -/\ndef clientTransports : List String := %s\n\n", hwStrList(rows))
	// the default of DefaultClientConfig().Transport
	if f := hwFunc(p, "", "DefaultClientConfig"); f != nil {
		dd := &hwDesc{x: x, p: p, fn: f, labels: map[types.Object]string{}}
		tr, red := "absent", "absent"
		ast.Inspect(f.Body, func(n ast.Node) bool {
			if kv, ok := n.(*ast.KeyValueExpr); ok {
				switch hwSrc(p, kv.Key) {
				case "Transport":
					tr = dd.desc(kv.Value)
				case "Redirect":
					red = dd.desc(kv.Value)
				}
			}
			return true
		})
		fmt.Fprintf(out, "/-- `DefaultClientConfig()`: where the default transport options come from; the default of `redirect` -/\ndef defaultClientTransport : String := %q\ndef defaultClientRedirect : String := %q\n\n", tr, red)
	} else {
		x.failf(p, nil, "DefaultClientConfig not found")
	}
}

// shootResponse: what BaseGun.Shoot does with the response after Client.Do, outside the option-guarded blocks: the
// connection is reusable only when the body is read to its end before it is closed
func (x *hw) shootResponse(out *strings.Builder) {
	p := x.pkgs["components/guns/http"]
	fd := hwFunc(p, "BaseGun", "Shoot")
	if fd == nil {
		return
	}
	recv := p.TypesInfo.Defs[fd.Recv.List[0].Names[0]]
	d := &hwDesc{x: x, p: p, fn: fd, labels: map[types.Object]string{}, shallow: true}
	var resObj, errObj types.Object
	var rows []string
	label := func() {
		if resObj != nil {
			d.labels[resObj] = "res"
		}
		if errObj != nil {
			d.labels[errObj] = "err"
		}
	}
	after := false
	for _, s := range fd.Body.List {
		if !after {
			if as, ok := s.(*ast.AssignStmt); ok && len(as.Rhs) == 1 && len(as.Lhs) == 2 {
				if c, ok := as.Rhs[0].(*ast.CallExpr); ok && hwCallee(p, c) == ".Do" {
					if id, ok := as.Lhs[0].(*ast.Ident); ok {
						resObj = p.TypesInfo.Uses[id]
						if resObj == nil {
							resObj = p.TypesInfo.Defs[id]
						}
					}
					if id, ok := as.Lhs[1].(*ast.Ident); ok {
						errObj = p.TypesInfo.Uses[id]
						if errObj == nil {
							errObj = p.TypesInfo.Defs[id]
						}
					}
					after = true
					label()
				}
			}
			continue
		}
		if resObj == nil {
			break
		}
		mentions := hwMentions(p, s, resObj)
		// `if err != nil { … return }` right after Do
		if ifs, ok := s.(*ast.IfStmt); ok && ifs.Init == nil {
			if be, ok := ifs.Cond.(*ast.BinaryExpr); ok && be.Op == token.NEQ && hwSrc(p, be.Y) == "nil" {
				if id, ok := be.X.(*ast.Ident); ok && errObj != nil && p.TypesInfo.Uses[id] == errObj {
					if _, isRet := ifs.Body.List[len(ifs.Body.List)-1].(*ast.ReturnStmt); isRet {
						rows = append(rows, "if-err-return")
						continue
					}
				}
			}
			// option-guarded block
			c := ifs.Cond
			for {
				if be, ok := c.(*ast.BinaryExpr); ok && be.Op == token.LAND {
					c = be.X
					continue
				}
				break
			}
			if root, path := hwSelPath(c); root != nil && p.TypesInfo.Uses[root] == recv {
				opt := false
				for _, o := range hwShootOptional {
					if path == o || strings.HasPrefix(path, o+".") {
						opt = true
					}
				}
				if opt {
					continue
				}
			}
		}
		if !mentions {
			continue
		}
		switch v := s.(type) {
		case *ast.DeferStmt:
			rows = append(rows, "defer "+d.desc(v.Call))
		case *ast.ExprStmt, *ast.AssignStmt:
			rows = append(rows, d.descStmt(s))
		default:
			rows = append(rows, "stmt:"+hwSrc(p, s))
		}
	}
	if !after || resObj == nil {
		x.failf(p, fd, "BaseGun.Shoot: `res, err = b.Client.Do(req)` not found")
		return
	}
	sort.Strings(rows) // the statements are independent of each other's order (the deferred Close runs last wherever it stands)
	fmt.Fprintf(out, "/-- regenerated from `(*BaseGun).Shoot`: the statements after `res, err = b.Client.Do(req)` that mention the response, outside\nthe option-guarded blocks of `shootSkipped`, sorted (`res`/`err` = the results of Do, `local` = another local variable) -/\ndef shootResponse : List String := %s\n\n", hwStrList(rows))
}

// hwDescBlock: a whole (small) function body by origin descriptors, name-independent
func (d *hwDesc) hwDescBlock(list []ast.Stmt) []string {
	var out []string
	for _, s := range list {
		switch v := s.(type) {
		case *ast.ReturnStmt:
			var r []string
			for _, e := range v.Results {
				r = append(r, d.desc(e))
			}
			out = append(out, "return "+strings.Join(r, ","))
		case *ast.IfStmt:
			row := "if(" + d.desc(v.Cond) + "){" + strings.Join(d.hwDescBlock(v.Body.List), ";") + "}"
			if v.Else != nil {
				if eb, ok := v.Else.(*ast.BlockStmt); ok {
					row += "else{" + strings.Join(d.hwDescBlock(eb.List), ";") + "}"
				} else {
					row += "else?"
				}
			}
			out = append(out, row)
		case *ast.ExprStmt, *ast.AssignStmt:
			out = append(out, d.descStmt(s))
		default:
			out = append(out, "stmt:"+hwSrc(d.p, s))
		}
	}
	return out
}

// clientDo: how a request handed to Client.Do reaches the transport: exactly once, unchanged
func (x *hw) clientDo(out *strings.Builder) {
	p := x.pkgs["components/guns/http"]
	var rows []string
	if fd := hwFunc(p, "noRedirectClient", "Do"); fd != nil {
		d := &hwDesc{x: x, p: p, fn: fd, labels: map[types.Object]string{}, shallow: true}
		rows = append(rows, "noRedirectClient.Do: "+strings.Join(d.hwDescBlock(fd.Body.List), " ; "))
	} else {
		x.failf(p, nil, "noRedirectClient.Do not found")
	}
	if fd := hwFunc(p, "", "NewRedirectingClient"); fd != nil {
		d := &hwDesc{x: x, p: p, fn: fd, labels: map[types.Object]string{}, shallow: true}
		rows = append(rows, "NewRedirectingClient: "+strings.Join(d.hwDescBlock(fd.Body.List), " ; "))
	} else {
		x.failf(p, nil, "NewRedirectingClient not found")
	}
	// the http2 wrapper: how often it calls the wrapped client
	if fd := hwFunc(p, "panicOnHTTP1Client", "Do"); fd != nil {
		n := 0
		ast.Inspect(fd.Body, func(nd ast.Node) bool {
			if c, ok := nd.(*ast.CallExpr); ok && hwCallee(p, c) == ".Do" {
				n++
			}
			return true
		})
		d := &hwDesc{x: x, p: p, fn: fd, labels: map[types.Object]string{}, shallow: true}
		first := ""
		if len(fd.Body.List) > 0 {
			first = strings.Join(d.hwDescBlock(fd.Body.List[:1]), "")
		}
		rows = append(rows, fmt.Sprintf("panicOnHTTP1Client.Do: %d inner Do calls; first: %s", n, first))
	} else {
		x.failf(p, nil, "panicOnHTTP1Client.Do not found")
	}
	fmt.Fprintf(out, "/-- regenerated from `components/guns/http/client.go`: what the gun's Client does with a request — one RoundTrip of the\ntransport with the request as it is (no retry, no redirect following unless `redirect` is set) -/\ndef clientDo : List String := %s\n\n", hwStrList(rows))
}

// connectShape: the connect gun — where a tunnel's TCP connection goes and what the CONNECT request names
func (x *hw) connectShape(out *strings.Builder) {
	p := x.pkgs["components/guns/http"]
	var rows []string
	labelLit := func(d *hwDesc, fl *ast.FuncLit) {
		i := 0
		for _, f := range fl.Type.Params.List {
			for _, n := range f.Names {
				d.labels[p.TypesInfo.Defs[n]] = fmt.Sprintf("lit%d", i)
				i++
			}
		}
	}
	if fd := hwFunc(p, "", "NewConnectGun"); fd != nil {
		d := &hwDesc{x: x, p: p, fn: fd, labels: map[types.Object]string{}}
		for _, st := range fd.Body.List {
			switch v := st.(type) {
			case *ast.IfStmt:
				rows = append(rows, "NewConnectGun: "+strings.Join(d.hwDescBlock([]ast.Stmt{v}), ""))
			case *ast.ReturnStmt:
				ast.Inspect(v, func(n ast.Node) bool {
					if fl, ok := n.(*ast.FuncLit); ok {
						labelLit(d, fl)
						ast.Inspect(fl.Body, func(m ast.Node) bool {
							if c, ok := m.(*ast.CallExpr); ok && strings.HasPrefix(hwCallee(p, c), "newConnectClient") {
								rows = append(rows, "NewConnectGun client: "+d.desc(c))
							}
							return true
						})
						return false
					}
					return true
				})
				if len(v.Results) == 1 {
					if c, ok := v.Results[0].(*ast.CallExpr); ok {
						var args []string
						for _, a := range c.Args {
							args = append(args, d.desc(a))
						}
						rows = append(rows, "NewConnectGun: return "+hwCallee(p, c)+"("+strings.Join(args, ",")+")")
					}
				}
			}
		}
	} else {
		x.failf(p, nil, "NewConnectGun not found")
	}
	if fd := hwFunc(p, "", "newConnectDialFunc"); fd != nil {
		d := &hwDesc{x: x, p: p, fn: fd, labels: map[types.Object]string{}, shallow: true}
		ast.Inspect(fd.Body, func(n ast.Node) bool {
			if fl, ok := n.(*ast.FuncLit); ok && len(d.labels) == 0 {
				labelLit(d, fl)
			}
			switch v := n.(type) {
			case *ast.CallExpr:
				if hwCallee(p, v) == ".DialContext" {
					rows = append(rows, "tunnel dial: "+d.desc(v))
				}
			case *ast.CompositeLit:
				if hwSrc(p, v.Type) == "http.Request" {
					var kv []string
					for _, e := range v.Elts {
						if k, ok := e.(*ast.KeyValueExpr); ok {
							switch hwSrc(p, k.Key) {
							case "Method", "Host":
								kv = append(kv, hwSrc(p, k.Key)+"="+d.desc(k.Value))
							}
						}
					}
					rows = append(rows, "tunnel request: "+strings.Join(kv, " "))
				}
			}
			return true
		})
	} else {
		x.failf(p, nil, "newConnectDialFunc not found")
	}
	fmt.Fprintf(out, "/-- regenerated from `components/guns/http/connect.go`: NewConnectGun opens its tunnels at `TargetResolved` (the target itself\nwhen nothing was resolved); the dial function connects to that address and sends `CONNECT <address the transport asks for>`\n(`litN` = N-th parameter of the function literal) -/\ndef connectShape : List String := %s\n\n", hwStrList(rows))
}

// jsonDecodeSites: where the http/json decoder takes its entities from (a json.Decoder over the file: entries may span lines)
func (x *hw) jsonDecodeSites(out *strings.Builder) {
	p := x.pkgs["components/providers/http/decoders"]
	var rows []string
	for _, fn := range []string{"Scan", "readArray"} {
		fd := hwFunc(p, "jsonlineDecoder", fn)
		if fd == nil {
			x.failf(p, nil, "jsonlineDecoder.%s not found", fn)
			continue
		}
		d := &hwDesc{x: x, p: p, fn: fd, labels: map[types.Object]string{}, shallow: true}
		ast.Inspect(fd.Body, func(n ast.Node) bool {
			c, ok := n.(*ast.CallExpr)
			if !ok {
				return true
			}
			for _, a := range c.Args {
				un, ok := a.(*ast.UnaryExpr)
				if !ok || un.Op != token.AND {
					continue
				}
				t := p.TypesInfo.TypeOf(un.X)
				if t == nil {
					continue
				}
				ts := t.String()
				if strings.HasSuffix(ts, ".entity") || strings.HasSuffix(ts, "[]"+p.PkgPath+".entity") || strings.HasSuffix(ts, "decoders.entity") {
					rows = append(rows, fn+": "+d.desc(c))
				}
			}
			return true
		})
	}
	fmt.Fprintf(out, "/-- regenerated from `jsonlineDecoder.Scan` / `readArray`: the calls that fill an `entity` (a json.Decoder over the whole file) -/\ndef jsonDecodeSites : List String := %s\n\n", hwStrList(rows))
}

func (x *hw) factories(out *strings.Builder) {
	p := x.pkgs["components/phttp/import"]
	fd := hwFunc(p, "", "Import")
	if fd == nil {
		x.failf(p, nil, "phttp/import.Import not found")
		return
	}
	var rows []string
	ast.Inspect(fd.Body, func(n ast.Node) bool {
		c, ok := n.(*ast.CallExpr)
		if !ok || hwCallee(p, c) != "register.Gun" || len(c.Args) < 2 {
			return true
		}
		name := strings.Trim(hwSrc(p, c.Args[0]), `"`)
		fl, ok := c.Args[1].(*ast.FuncLit)
		if !ok || len(fl.Type.Params.List) != 1 {
			x.failf(p, c, "gun factory %s is not a function literal", name)
			return true
		}
		conf := p.TypesInfo.Defs[fl.Type.Params.List[0].Names[0]]
		// descriptor over the literal: param0 = conf
		fake := &ast.FuncDecl{Type: fl.Type, Body: fl.Body, Name: ast.NewIdent("factory")}
		d := &hwDesc{x: x, p: p, fn: fake, labels: map[types.Object]string{conf: "conf"}}
		var as []string
		for _, s := range fl.Body.List {
			a, ok := s.(*ast.AssignStmt)
			if !ok {
				continue
			}
			for i, l := range a.Lhs {
				root, path := hwSelPath(l)
				if root == nil || p.TypesInfo.Uses[root] != conf || (path != "Target" && path != "TargetResolved") {
					continue
				}
				r := "?"
				if len(a.Rhs) == len(a.Lhs) {
					r = d.desc(a.Rhs[i])
				} else if call, ok := a.Rhs[0].(*ast.CallExpr); ok {
					var args []string
					for _, ar := range call.Args {
						args = append(args, d.desc(ar))
					}
					r = fmt.Sprintf("%s(%s)#%d", hwCallee(p, call), strings.Join(args, ","), i)
				}
				_ = i
				as = append(as, path+"="+r)
			}
		}
		rows = append(rows, name+": "+strings.Join(as, "; "))
		return true
	})
	sort.Strings(rows)
	out.WriteString("/-- regenerated from `components/phttp/import/import.go`: what each gun factory assigns to conf.Target / conf.TargetResolved -/\n")
	out.WriteString("def factoryAssigns : List String := " + hwStrList(rows) + "\n\n")
}

func httpwireExtra(t *tr) string {
	x := &hw{t: t, pkgs: hwLoad()}
	var out strings.Builder
	out.WriteString("open Pandora.Model.C09\n\n")
	x.enrich(&out)
	x.shoot(&out)
	x.hostWithoutPort(&out)
	x.preResolve(&out)
	x.mergeSite(&out, "uri.go", "uriDecoder", "readLine", "uri", "decodedConfigHeaders")
	x.headerLine(&out, "uriDecoder", "readLine", "uri")
	x.mergeSite(&out, "uripost.go", "uripostDecoder", "readBlock", "uripost", "decodedConfigHeaders")
	x.headerLine(&out, "uripostDecoder", "readBlock", "uripost")
	x.mergeSite(&out, "jsonline.go", "jsonlineDecoder", "Scan", "jsonScan", "Headers")
	x.mergeSite(&out, "jsonline.go", "jsonlineDecoder", "readArray", "jsonArray", "Headers")
	x.buildRequest(&out, "Ammo", "ammoBuild")
	x.buildRequest(&out, "RawAmmo", "rawBuild")
	x.rawSites(&out)
	x.decodeRequest(&out)
	x.transport(&out)
	x.transportWiring(&out)
	x.shootResponse(&out)
	x.clientDo(&out)
	x.jsonDecodeSites(&out)
	x.connectShape(&out)
	x.factories(&out)
	x.httpwireRound3(&out)
	x.httpwireRound4(&out)
	x.httpwireRound6(&out)
	return out.String()
}
